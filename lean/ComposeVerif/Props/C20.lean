import ComposeVerif.Lemmas.SecretsFlow
/-!
# C20 — secret values taken from the environment never leak into rendered output

Property theorems only (helper lemmas live in `Lemmas/Secrets*.lean`; the predicates in `Spec/Secrets.lean`).
`P` is an arbitrary predicate on strings ("untainted"); the canary statements instantiate it with
`fun s => ¬ occurs c s`.  Nothing is ever assumed about the *values* of the environment.
-/
namespace CV.Secrets
open CV CV.Val

/-! ## taint confinement, stage by stage -/

/-- after `resolveSecretsEnvironment` / `resolveConfigsEnvironment` a resource object is untainted except
for a string under the first entry keyed by the carrier (`x-#value`, resp. `content`) -/
theorem taint_confined_resolve {P : String → Prop} {c : String} (hc : P c) (env : Env) {v : Val} (h : AllStr P v) :
    ValOkF P c (resolveObj c env v) := ValOkF_resolveObj hc env h

/-- `setNameFromKey` keeps the confinement (it only writes `name`) -/
theorem taint_confined_setName {P : String → Prop} {c : String} (hcn : c ≠ "name") (hn : P "name") {pname key : String}
    (hkey : P key) (hgen : P (pname ++ "_" ++ key)) {kvs : KVs} (h : ObjOkF P c kvs) :
    ObjOkF P c (setNameKVs pname key kvs) := ObjOkF_setNameKVs hcn hn hkey hgen h

/-- after `processExtensions` (at any path) the taint of a secret sits only under `x-#value`,
directly or inside `#extensions` -/
theorem taint_confined_processExtensions {P : String → Prop} (hx : P extKey) (p : TPath) {kvs : KVs}
    (h : ObjOkF P xValue kvs) :
    ∃ kvs', pxVal p (.map kvs) = .map kvs' ∧ RawOk P xValue kvs' :=
  ⟨_, rfl, RawOk_pxObj hx xValue_ne_extKey p (isUserDefined p) h (ObjOkF_extrasOf h _)⟩

/-- `processExtensions` invents no string anywhere in the tree -/
theorem processExtensions_invents_nothing {P : String → Prop} (hx : P extKey) (dict : KVs) (h : AllStrKV P dict) :
    AllStr P (processExtensions dict) := AllStr_pxVal hx _ (.map dict) (by simpa [AllStr] using h)

/-- after `secretConfigDecoderHook` the taint sits only under `Content`; `#extensions` is clean -/
theorem taint_confined_hook {P : String → Prop} {kvs : KVs} (h : RawOk P xValue kvs) :
    RawOk P xValue (hook kvs) ∧ ExtClean P (hook kvs) := RawOk_hook h

/-- on the typed secret the taint sits only in `Content`, and the rendering flag is off -/
theorem taint_confined_decode {P : String → Prop} (hx : P extKey) {p : TPath} {kvs : KVs} (h : ObjOkF P xValue kvs)
    {o : FileObj} (hd : decodeSecret (pxVal p (.map kvs)) = .ok o) : o.CleanBut P ∧ o.marshallContent = false :=
  secret_obj_clean hx h hd

theorem AllStrKV_forall {P : String → Prop} : ∀ {kvs : KVs}, AllStrKV P kvs → ∀ e ∈ kvs, P e.1 ∧ AllStr P e.2
  | [], _ => by simp
  | (k, v) :: r, h => by
    simp only [AllStrKV] at h
    simp only [List.forall_mem_cons]
    exact ⟨⟨h.1, h.2.1⟩, AllStrKV_forall h.2.2⟩

/-- the names `setNameFromKey` generates for the resources of a section satisfy `P` -/
def GenNamesOk (P : String → Prop) (pname sect : String) (dict : KVs) : Prop :=
  ∀ objs, lookup sect dict = some (.map objs) → ∀ e ∈ objs, P (pname ++ "_" ++ e.1)

/-- **taint_confined** (whole pipeline, secrets): every loaded secret is untainted outside `Content`
and is loaded with the rendering flag off — for every model shape, whatever the environment holds -/
theorem taint_confined_secrets {P : String → Prop} (hx : P extKey) (hxv : P xValue) (hn : P "name")
    {env : Env} {pname : String} {dict : KVs} (hd : AllStrKV P dict) (hgen : GenNamesOk P pname "secrets" dict)
    {ss : List (String × FileObj)} (h : loadSection true env pname dict = .ok ss) :
    ∀ e ∈ ss, P e.1 ∧ e.2.CleanBut P ∧ e.2.marshallContent = false := by
  unfold loadSection at h
  simp only [if_true] at h
  split at h
  · cases h; simp
  · rename_i objs hl
    have hobjs : AllStrKV P objs := by simpa [AllStr] using AllStrKV_lookup hd hl
    have hg := hgen objs hl
    have h0 : ∀ e ∈ objs, (fun n v => P n ∧ P (pname ++ "_" ++ n) ∧ AllStr P v) e.1 e.2 := fun e he =>
      ⟨(AllStrKV_forall hobjs e he).1, hg e he, (AllStrKV_forall hobjs e he).2⟩
    have h1 := forall_resolveObjs (Q0 := fun n v => P n ∧ P (pname ++ "_" ++ n) ∧ AllStr P v)
      (Q1 := fun n v => P n ∧ P (pname ++ "_" ++ n) ∧ ValOkF P xValue v) xValue env
      (fun n v hq => ⟨hq.1, hq.2.1, ValOkF_resolveObj hxv env hq.2.2⟩) h0
    cases hs : setNameObjs pname (resolveObjs xValue env objs) with
    | ok objs2 =>
      rw [hs] at h
      simp only [Out.bind] at h
      have h2 := forall_setNameObjs (Q1 := fun n v => P n ∧ P (pname ++ "_" ++ n) ∧ ValOkF P xValue v)
        (Q2 := fun n v => P n ∧ ∃ kvs, v = .map kvs ∧ ObjOkF P xValue kvs) pname
        (fun n v v' hq hv => by
          obtain ⟨kvs, rfl, hk⟩ := setNameObj_ok hv
          refine ⟨hq.1, _, rfl, ?_⟩
          rcases hk with rfl | ⟨rfl, rfl⟩
          · exact ObjOkF_setNameKVs (by decide) hn hq.1 hq.2.1 hq.2.2
          · exact ObjOkF_setNameKVs (by decide) hn hq.1 hq.2.1 (by simp [ObjOkF])) hs h1
      exact forall_decodeObjs (Q2 := fun n v => P n ∧ ∃ kvs, v = .map kvs ∧ ObjOkF P xValue kvs)
        (Q3 := fun n o => P n ∧ o.CleanBut P ∧ o.marshallContent = false) decodeSecret ["secrets"]
        (fun n v o hq ho => by
          obtain ⟨hn', kvs, rfl, hk⟩ := hq
          exact ⟨hn', secret_obj_clean hx hk ho⟩) h h2
    | err e => rw [hs] at h; simp [Out.bind] at h
    | panic s => rw [hs] at h; simp [Out.bind] at h
  · cases h

/-- no config of the model names the empty variable as its source -/
def NoEmptySource (dict : KVs) : Prop :=
  ∀ objs, lookup "configs" dict = some (.map objs) → ∀ e ∈ objs, ∀ kvs, e.2 = .map kvs → lookup "environment" kvs ≠ some (.str "")

/-- **taint_confined** (whole pipeline, configs): every loaded config is untainted outside `Content`, and a
tainted `Content` comes with a named source variable — provided no config names the empty variable -/
theorem taint_confined_configs_partial {P : String → Prop} (hx : P extKey) (hct : P "content") (hn : P "name")
    {env : Env} {pname : String} {dict : KVs} (hd : AllStrKV P dict) (hgen : GenNamesOk P pname "configs" dict)
    (hne : NoEmptySource dict)
    {cs : List (String × FileObj)} (h : loadSection false env pname dict = .ok cs) :
    ∀ e ∈ cs, P e.1 ∧ e.2.CleanBut P ∧ (e.2.environment ≠ "" ∨ OptP P e.2.content) := by
  unfold loadSection at h
  simp only [Bool.false_eq_true, if_false] at h
  split at h
  · cases h; simp
  · rename_i objs hl
    have hobjs : AllStrKV P objs := by simpa [AllStr] using AllStrKV_lookup hd hl
    have hg := hgen objs hl
    have hne' := hne objs hl
    have h0 : ∀ e ∈ objs, (fun n v => P n ∧ P (pname ++ "_" ++ n) ∧ AllStr P v ∧
        ∀ kvs, v = .map kvs → lookup "environment" kvs ≠ some (.str "")) e.1 e.2 := fun e he =>
      ⟨(AllStrKV_forall hobjs e he).1, hg e he, (AllStrKV_forall hobjs e he).2, hne' e he⟩
    have h1 := forall_resolveObjs
      (Q0 := fun n v => P n ∧ P (pname ++ "_" ++ n) ∧ AllStr P v ∧ ∀ kvs, v = .map kvs → lookup "environment" kvs ≠ some (.str ""))
      (Q1 := fun n v => P n ∧ P (pname ++ "_" ++ n) ∧ ValOkF P "content" v ∧ ∀ kvs, v = .map kvs → CfgLink P kvs) "content" env
      (fun n v hq => by
        refine ⟨hq.1, hq.2.1, ValOkF_resolveObj hct env hq.2.2.1, ?_⟩
        intro kvs' hk
        cases v with
        | map kvs =>
          exact CfgLink_resolveObj env (by simpa [AllStr] using hq.2.2.1) (hq.2.2.2 kvs rfl) kvs' hk
        | _ => simp [resolveObj] at hk) h0
    cases hs : setNameObjs pname (resolveObjs "content" env objs) with
    | ok objs2 =>
      rw [hs] at h
      simp only [Out.bind] at h
      have h2 := forall_setNameObjs
        (Q1 := fun n v => P n ∧ P (pname ++ "_" ++ n) ∧ ValOkF P "content" v ∧ ∀ kvs, v = .map kvs → CfgLink P kvs)
        (Q2 := fun n v => P n ∧ ∃ kvs, v = .map kvs ∧ ObjOkF P "content" kvs ∧ CfgLink P kvs) pname
        (fun n v v' hq hv => by
          obtain ⟨kvs, rfl, hk⟩ := setNameObj_ok hv
          refine ⟨hq.1, _, rfl, ?_⟩
          rcases hk with rfl | ⟨rfl, rfl⟩
          · exact ⟨ObjOkF_setNameKVs (by decide) hn hq.1 hq.2.1 hq.2.2.1, CfgLink_setNameKVs (hq.2.2.2 kvs rfl)⟩
          · exact ⟨ObjOkF_setNameKVs (by decide) hn hq.1 hq.2.1 (by simp [ObjOkF]),
              CfgLink_setNameKVs (.inl (by simp [Val.lookup]))⟩) hs h1
      exact forall_decodeObjs (Q2 := fun n v => P n ∧ ∃ kvs, v = .map kvs ∧ ObjOkF P "content" kvs ∧ CfgLink P kvs)
        (Q3 := fun n o => P n ∧ o.CleanBut P ∧ (o.environment ≠ "" ∨ OptP P o.content)) decodeConfig ["configs"]
        (fun n v o hq ho => by
          obtain ⟨hn', kvs, rfl, hk, hl⟩ := hq
          exact ⟨hn', config_obj_clean hx hk hl ho⟩) h h2
    | err e => rw [hs] at h; simp [Out.bind] at h
    | panic s => rw [hs] at h; simp [Out.bind] at h
  · cases h

/-! ## the default rendering -/

theorem AllStrKV_mapVals {P : String → Prop} {f : FileObj → Val} :
    ∀ {l : List (String × FileObj)}, (∀ e ∈ l, P e.1 ∧ AllStr P (f e.2)) → AllStrKV P (mapVals f l)
  | [], _ => by simp [mapVals, AllStrKV]
  | (n, o) :: r, h => by
    simp only [List.forall_mem_cons] at h
    simp only [mapVals, List.map, AllStrKV]
    exact ⟨h.1.1, h.1.2, AllStrKV_mapVals h.2⟩

theorem AllStrKV_sectionKV {P : String → Prop} {k : String} {m : KVs} (hk : P k) (hm : AllStrKV P m) : AllStrKV P (sectionKV k m) := by
  unfold sectionKV
  split
  · simp [AllStrKV]
  · simp [AllStrKV, AllStr, hk, hm]

/-- what the theorems assume about `P`: it holds of every key the loader and the renderers write themselves -/
structure VocabOk (P : String → Prop) : Prop where
  vocab : ∀ k ∈ vocabulary, P k
  carriers : ∀ k ∈ carrierKeys, P k

/-- **render_default_clean (secrets, full strength)**: for every model, every environment and both renderers,
the default rendering of every loaded secret is untainted: the value never reaches it -/
theorem render_default_clean_secrets {P : String → Prop} (hv : VocabOk P)
    {env : Env} {pname : String} {dict : KVs} (hd : AllStrKV P dict) (hgen : GenNamesOk P pname "secrets" dict)
    {p : Proj} (h : load env pname dict = .ok p) (r : Renderer) :
    AllStrKV P (mapVals (renderSecret r) p.secrets) := by
  unfold load at h
  cases hs : loadSection true env pname dict with
  | ok ss =>
    rw [hs] at h
    simp only [Out.bind] at h
    cases hc : loadSection false env pname dict with
    | ok cs =>
      rw [hc] at h
      simp only [Out.bind] at h
      cases h
      have := taint_confined_secrets (hv.carriers _ (by decide)) (hv.carriers _ (by decide)) (hv.carriers _ (by decide)) hd hgen hs
      exact AllStrKV_mapVals fun e he => ⟨(this e he).1, AllStr_renderSecret hv.vocab (this e he).2.1 (this e he).2.2 r⟩
    | err e => rw [hc] at h; simp [Out.bind] at h
    | panic s => rw [hc] at h; simp [Out.bind] at h
  | err e => rw [hs] at h; simp [Out.bind] at h
  | panic s => rw [hs] at h; simp [Out.bind] at h

/-- **render_default_clean (whole project)**: the default YAML and JSON renderings of the secrets and configs
sections are untainted, for every model shape — provided no config names the empty variable as its source
(the unrestricted statement is false: `Neg/C20.lean`) -/
theorem render_default_clean_partial {P : String → Prop} (hv : VocabOk P)
    {env : Env} {pname : String} {dict : KVs} (hd : AllStrKV P dict)
    (hgs : GenNamesOk P pname "secrets" dict) (hgc : GenNamesOk P pname "configs" dict) (hne : NoEmptySource dict)
    {p : Proj} (h : load env pname dict = .ok p) (r : Renderer) :
    AllStr P (render r false p) := by
  have hsec := render_default_clean_secrets hv hd hgs h r
  unfold load at h
  cases hs : loadSection true env pname dict with
  | ok ss =>
    rw [hs] at h
    simp only [Out.bind] at h
    cases hc : loadSection false env pname dict with
    | ok cs =>
      rw [hc] at h
      simp only [Out.bind] at h
      cases h
      have hcfg := taint_confined_configs_partial (hv.carriers _ (by decide)) (hv.carriers _ (by decide)) (hv.carriers _ (by decide)) hd hgc hne hc
      simp only [render, applyOpts, Bool.false_eq_true, if_false, AllStr]
      refine AllStrKV_append (AllStrKV_sectionKV (hv.vocab _ (by decide)) hsec) (AllStrKV_sectionKV (hv.vocab _ (by decide)) ?_)
      exact AllStrKV_mapVals fun e he => ⟨(hcfg e he).1, AllStr_renderConfig hv.vocab (hcfg e he).2.1 (hcfg e he).2.2 r⟩
    | err e => rw [hc] at h; simp [Out.bind] at h
    | panic s => rw [hc] at h; simp [Out.bind] at h
  | err e => rw [hs] at h; simp [Out.bind] at h
  | panic s => rw [hs] at h; simp [Out.bind] at h

/-- the statement of the property: a canary that occurs nowhere in the model (and not in the fixed vocabulary or
the generated resource names) occurs nowhere in the default rendering, whatever the environment holds -/
theorem canary_absent_from_default_rendering_partial (c : List Char)
    (hv : VocabOk (fun s => ¬ occurs c s))
    {env : Env} {pname : String} {dict : KVs} (hd : Clean c (.map dict))
    (hgs : GenNamesOk (fun s => ¬ occurs c s) pname "secrets" dict)
    (hgc : GenNamesOk (fun s => ¬ occurs c s) pname "configs" dict) (hne : NoEmptySource dict)
    {p : Proj} (h : load env pname dict = .ok p) (r : Renderer) :
    Clean c (render r false p) :=
  render_default_clean_partial hv (by simpa [Clean, AllStr] using hd) hgs hgc hne h r

/-! ## configs render their source; requested content is exact; the value is available -/

theorem lookup_append_left {k : String} {v : Val} : ∀ {a : KVs} (b : KVs), lookup k a = some v → lookup k (a ++ b) = some v
  | [], _, h => by simp [lookup] at h
  | (k', v') :: r, b, h => by
    by_cases hk : k = k'
    · simpa [lookup, hk] using h
    · simp only [lookup, if_neg hk, List.cons_append] at h ⊢
      exact lookup_append_left b h

theorem lookup_append_right {k : String} : ∀ {a : KVs} (b : KVs), lookup k a = none → lookup k (a ++ b) = lookup k b
  | [], _, _ => by simp
  | (k', v') :: r, b, h => by
    by_cases hk : k = k'
    · simp [lookup, hk] at h
    · simp only [lookup, if_neg hk, List.cons_append] at h ⊢
      exact lookup_append_right b h

theorem lookup_optStr_ne {k k' s : String} (h : k ≠ k') : lookup k (optStr k' s) = none := by
  unfold optStr; split <;> simp [lookup, h]

theorem lookup_optStr_self {k s : String} (h : s ≠ "") : lookup k (optStr k s) = some (.str s) := by
  simp [optStr, h, lookup]

theorem lookup_optStr_empty {k k' : String} : lookup k (optStr k' "") = none := by simp [optStr, lookup]

/-- the `environment` and `content` entries among the rendered struct fields -/
theorem fields_environment (o : FileObj) (h : o.environment ≠ "") : lookup "environment" o.fields = some (.str o.environment) := by
  unfold FileObj.fields
  repeat rw [List.append_assoc]
  rw [lookup_append_right _ (lookup_optStr_ne (by decide)), lookup_append_right _ (lookup_optStr_ne (by decide))]
  exact lookup_append_left _ (lookup_optStr_self h)

theorem fields_content (o : FileObj) :
    lookup "content" o.fields = if o.content = "" then none else some (.str o.content) := by
  unfold FileObj.fields
  repeat rw [List.append_assoc]
  rw [lookup_append_right _ (lookup_optStr_ne (by decide)), lookup_append_right _ (lookup_optStr_ne (by decide)),
    lookup_append_right _ (lookup_optStr_ne (by decide))]
  by_cases h : o.content = ""
  · rw [if_pos h, h, lookup_append_right _ lookup_optStr_empty]
    have hb : lookup "content" (optBool "external" o.external) = none := by unfold optBool; split <;> simp [lookup]
    have hm : ∀ k m, k ≠ "content" → lookup "content" (optStrMap k m) = none := by
      intro k m hk; unfold optStrMap; split <;> simp [lookup, Ne.symm hk]
    rw [lookup_append_right _ hb, lookup_append_right _ (hm _ _ (by decide)), lookup_append_right _ (lookup_optStr_ne (by decide)),
      lookup_append_right _ (hm _ _ (by decide))]
    exact lookup_optStr_ne (by decide)
  · rw [if_neg h]
    exact lookup_append_left _ (lookup_optStr_self h)

/-- **config_renders_source**: a config with a (named) source variable renders `environment: VAR` and no
`content`, in both renderers and whatever its `Content` holds -/
theorem config_renders_source (o : FileObj) (h : o.environment ≠ "") (r : Renderer) :
    ∃ kvs, renderConfig r o = .map kvs ∧ lookup "environment" kvs = some (.str o.environment) ∧
      (r = .json ∨ lookup "content" o.extensions = none → lookup "content" kvs = none) := by
  have hb : configBlank o = { o with content := "" } := by simp [configBlank, h]
  have he := fields_environment { o with content := "" } h
  have hc := fields_content { o with content := "" }
  simp only [if_true] at hc
  cases r with
  | yaml =>
    refine ⟨({ o with content := "" } : FileObj).fields ++ o.extensions,
      by simp only [renderConfig, configYaml, hb, FileObj.toYaml], lookup_append_left _ he, ?_⟩
    intro hx
    rcases hx with hx | hx
    · cases hx
    · rw [lookup_append_right _ hc]; exact hx
  | json =>
    exact ⟨({ o with content := "" } : FileObj).fields, by simp only [renderConfig, configJson, hb, FileObj.toJson], he, fun _ => hc⟩

/-- **render_with_content_exact** (typed): with the flag set, a secret renders exactly its `Content`
(and nothing when the value is empty), in both renderers -/
theorem render_with_content_exact (o : FileObj) (r : Renderer) :
    ∃ kvs, renderSecret r { o with marshallContent := true } = .map kvs ∧
      lookup "content" kvs = if o.content = "" then (match r with | .yaml => lookup "content" o.extensions | .json => none)
        else some (.str o.content) := by
  have hb : secretBlank { o with marshallContent := true } = { o with marshallContent := true } := by simp [secretBlank]
  have hc := fields_content { o with marshallContent := true }
  cases r with
  | yaml =>
    refine ⟨({ o with marshallContent := true } : FileObj).fields ++ o.extensions,
      by simp only [renderSecret, secretYaml, hb, FileObj.toYaml], ?_⟩
    by_cases h : o.content = ""
    · simp only [h, if_true] at hc ⊢
      rw [lookup_append_right _ hc]
    · simp only [h, if_false] at hc ⊢
      exact lookup_append_left _ hc
  | json =>
    refine ⟨({ o with marshallContent := true } : FileObj).fields, by simp only [renderSecret, secretJson, hb, FileObj.toJson], ?_⟩
    by_cases h : o.content = "" <;> simpa [h] using hc

/-- `WithSecretContent` sets the flag of every secret of the rendered copy -/
theorem withContent_sets_flags (p : Proj) : ∀ e ∈ (applyOpts true p).secrets, e.2.marshallContent = true := by
  simp only [applyOpts, if_true, withContent]
  intro e he
  simp only [List.mem_map] at he
  obtain ⟨e0, _, rfl⟩ := he
  rfl

/-- neither rendering mode changes what the default mode renders afterwards: `applyOpts` is applied to a copy -/
theorem render_default_unaffected_by_options (p : Proj) : applyOpts false p = p := by simp [applyOpts]

/-! ## render_pure: `marshallOptions.apply` on the heap -/

theorem Heap.get_set_ne (h : Heap) {a b : Nat} (hab : a ≠ b) (m : List (String × FileObj)) : (h.set b m).get a = h.get a := by
  unfold Heap.get Heap.set
  simp only [List.lookup]
  have : (a == b) = false := by simpa using hab
  simp only [this]
  congr 1
  induction h.maps with
  | nil => rfl
  | cons e r ih =>
    by_cases he : e.1 = b
    · have hea : (a == e.1) = false := by simpa [he] using hab
      obtain ⟨e1, e2⟩ := e
      simp only at he hea
      simp [List.filter, he, ih, List.lookup, hea, this]
    · have : (e.1 != b) = true := by simpa using he
      simp only [List.filter, this, List.lookup]
      split <;> simp [ih]

/-- a heap whose allocated addresses are all below `next` -/
def Heap.WF (h : Heap) : Prop := ∀ e ∈ h.maps, e.1 < h.next

/-- **render_pure**: whichever option is given, the receiver's `Secrets` map holds after `apply` exactly what it
held before (the flags are flipped on the deep copy) -/
theorem render_pure (b : Bool) (h : Heap) (p : Nat) (hp : p < h.next) : (applyHeap b h p).1.get p = h.get p := by
  unfold applyHeap
  split
  · simp only [Heap.copyMap]
    rw [Heap.get_set_ne _ (Nat.ne_of_lt hp)]
    have : (p == h.next) = false := by simpa using Nat.ne_of_lt hp
    simp [Heap.get, List.lookup, this]
  · rfl

/-- with content requested the project that is encoded is a *different* map, all of whose flags are set;
without, it is the receiver itself -/
theorem apply_result (h : Heap) (p : Nat) :
    (applyHeap true h p).2 = h.next ∧ (applyHeap true h p).1.get h.next = setFlags (h.get p) ∧ (applyHeap false h p) = (h, p) := by
  refine ⟨rfl, ?_, rfl⟩
  simp [applyHeap, Heap.copyMap, Heap.set, Heap.get, List.lookup]

end CV.Secrets
