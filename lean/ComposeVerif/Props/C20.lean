import ComposeVerif.Lemmas.SecretsFlow
/-!
# C20 — secret values taken from the environment never leak into rendered output

Property theorems only (helper lemmas live in `Lemmas/Secrets*.lean`; the predicates in `Spec/Secrets.lean`).
`P` is an arbitrary predicate on strings ("untainted"); the canary statements instantiate it with
`fun s => ¬ occurs c s`.  Nothing is ever assumed about the *values* of the environment.
-/
namespace CV.Secrets
open CV CV.Val

/-! ## taint confinement, stage by stage -/

/-- after `resolveSecretsEnvironment` / `resolveConfigsEnvironment` a resource object is untainted except
for a string under the first entry keyed by the carrier (`x-#value`, resp. `content`) -/
theorem taint_confined_resolve {P : String → Prop} {c : String} (hc : P c) (env : Env) {v : Val} (h : AllStr P v) :
    ValOkF P c (resolveObj c env v) := ValOkF_resolveObj hc env h

/-- `setNameFromKey` keeps the confinement (it only writes `name`) -/
theorem taint_confined_setName {P : String → Prop} {c : String} (hcn : c ≠ "name") (hn : P "name") {pname key : String}
    (hkey : P key) (hgen : P (pname ++ "_" ++ key)) {kvs : KVs} (h : ObjOkF P c kvs) :
    ObjOkF P c (setNameKVs pname key kvs) := ObjOkF_setNameKVs hcn hn hkey hgen h

/-- after `processExtensions` (at any path) the taint of a secret sits only under `x-#value`,
directly or inside `#extensions` -/
theorem taint_confined_processExtensions {P : String → Prop} (hx : P extKey) (p : TPath) {kvs : KVs}
    (h : ObjOkF P xValue kvs) :
    ∃ kvs', pxVal p (.map kvs) = .map kvs' ∧ RawOk P xValue kvs' :=
  ⟨_, rfl, RawOk_pxObj hx xValue_ne_extKey p (isUserDefined p) h (ObjOkF_extrasOf h _)⟩

/-- `processExtensions` invents no string anywhere in the tree -/
theorem processExtensions_invents_nothing {P : String → Prop} (hx : P extKey) (dict : KVs) (h : AllStrKV P dict) :
    AllStr P (processExtensions dict) := AllStr_pxVal hx _ (.map dict) (by simpa [AllStr] using h)

/-- after `secretConfigDecoderHook` the taint sits only under `Content`; `#extensions` is clean -/
theorem taint_confined_hook {P : String → Prop} {kvs : KVs} (h : RawOk P xValue kvs) :
    RawOk P xValue (hook kvs) ∧ ExtClean P (hook kvs) := RawOk_hook h

/-- on the typed secret the taint sits only in `Content`, and the rendering flag is off -/
theorem taint_confined_decode {P : String → Prop} (hx : P extKey) {p : TPath} {kvs : KVs} (h : ObjOkF P xValue kvs)
    {o : FileObj} (hd : decodeSecret (pxVal p (.map kvs)) = .ok o) : o.CleanBut P ∧ o.marshallContent = false :=
  secret_obj_clean hx h hd

theorem AllStrKV_forall {P : String → Prop} : ∀ {kvs : KVs}, AllStrKV P kvs → ∀ e ∈ kvs, P e.1 ∧ AllStr P e.2
  | [], _ => by simp
  | (k, v) :: r, h => by
    simp only [AllStrKV] at h
    simp only [List.forall_mem_cons]
    exact ⟨⟨h.1, h.2.1⟩, AllStrKV_forall h.2.2⟩

/-- the names `setNameFromKey` generates for the resources of a section satisfy `P` -/
def GenNamesOk (P : String → Prop) (pname sect : String) (dict : KVs) : Prop :=
  ∀ objs, lookup sect dict = some (.map objs) → ∀ e ∈ objs, P (pname ++ "_" ++ e.1)

/-- **taint_confined** (whole pipeline, secrets): every loaded secret is untainted outside `Content`
and is loaded with the rendering flag off — for every model shape, whatever the environment holds -/
theorem taint_confined_secrets {P : String → Prop} (hx : P extKey) (hxv : P xValue) (hn : P "name")
    {env : Env} {pname : String} {dict : KVs} (hd : AllStrKV P dict) (hgen : GenNamesOk P pname "secrets" dict)
    {ss : List (String × FileObj)} (h : loadSection true env pname dict = .ok ss) :
    ∀ e ∈ ss, P e.1 ∧ e.2.CleanBut P ∧ e.2.marshallContent = false := by
  unfold loadSection at h
  simp only [if_true] at h
  split at h
  · cases h; simp
  · rename_i objs hl
    have hobjs : AllStrKV P objs := by simpa [AllStr] using AllStrKV_lookup hd hl
    have hg := hgen objs hl
    have h0 : ∀ e ∈ objs, (fun n v => P n ∧ P (pname ++ "_" ++ n) ∧ AllStr P v) e.1 e.2 := fun e he =>
      ⟨(AllStrKV_forall hobjs e he).1, hg e he, (AllStrKV_forall hobjs e he).2⟩
    have h1 := forall_resolveObjs (Q0 := fun n v => P n ∧ P (pname ++ "_" ++ n) ∧ AllStr P v)
      (Q1 := fun n v => P n ∧ P (pname ++ "_" ++ n) ∧ ValOkF P xValue v) xValue env
      (fun n v hq => ⟨hq.1, hq.2.1, ValOkF_resolveObj hxv env hq.2.2⟩) h0
    cases hs : setNameObjs pname (resolveObjs xValue env objs) with
    | ok objs2 =>
      rw [hs] at h
      simp only [Out.bind] at h
      have h2 := forall_setNameObjs (Q1 := fun n v => P n ∧ P (pname ++ "_" ++ n) ∧ ValOkF P xValue v)
        (Q2 := fun n v => P n ∧ ∃ kvs, v = .map kvs ∧ ObjOkF P xValue kvs) pname
        (fun n v v' hq hv => by
          obtain ⟨kvs, rfl, hk⟩ := setNameObj_ok hv
          refine ⟨hq.1, _, rfl, ?_⟩
          rcases hk with rfl | ⟨rfl, rfl⟩
          · exact ObjOkF_setNameKVs (by decide) hn hq.1 hq.2.1 hq.2.2
          · exact ObjOkF_setNameKVs (by decide) hn hq.1 hq.2.1 (by simp [ObjOkF])) hs h1
      exact forall_decodeObjs (Q2 := fun n v => P n ∧ ∃ kvs, v = .map kvs ∧ ObjOkF P xValue kvs)
        (Q3 := fun n o => P n ∧ o.CleanBut P ∧ o.marshallContent = false) decodeSecret ["secrets"]
        (fun n v o hq ho => by
          obtain ⟨hn', kvs, rfl, hk⟩ := hq
          exact ⟨hn', secret_obj_clean hx hk ho⟩) h h2
    | err e => rw [hs] at h; simp [Out.bind] at h
    | panic s => rw [hs] at h; simp [Out.bind] at h
  · cases h

/-- no config of the model names the empty variable as its source -/
def NoEmptySource (dict : KVs) : Prop :=
  ∀ objs, lookup "configs" dict = some (.map objs) → ∀ e ∈ objs, ∀ kvs, e.2 = .map kvs → lookup "environment" kvs ≠ some (.str "")

/-- **taint_confined** (whole pipeline, configs): every loaded config is untainted outside `Content`, and a
tainted `Content` comes with a named source variable — provided no config names the empty variable -/
theorem taint_confined_configs_partial {P : String → Prop} (hx : P extKey) (hct : P "content") (hn : P "name")
    {env : Env} {pname : String} {dict : KVs} (hd : AllStrKV P dict) (hgen : GenNamesOk P pname "configs" dict)
    (hne : NoEmptySource dict)
    {cs : List (String × FileObj)} (h : loadSection false env pname dict = .ok cs) :
    ∀ e ∈ cs, P e.1 ∧ e.2.CleanBut P ∧ (e.2.environment ≠ "" ∨ OptP P e.2.content) := by
  unfold loadSection at h
  simp only [Bool.false_eq_true, if_false] at h
  split at h
  · cases h; simp
  · rename_i objs hl
    have hobjs : AllStrKV P objs := by simpa [AllStr] using AllStrKV_lookup hd hl
    have hg := hgen objs hl
    have hne' := hne objs hl
    have h0 : ∀ e ∈ objs, (fun n v => P n ∧ P (pname ++ "_" ++ n) ∧ AllStr P v ∧
        ∀ kvs, v = .map kvs → lookup "environment" kvs ≠ some (.str "")) e.1 e.2 := fun e he =>
      ⟨(AllStrKV_forall hobjs e he).1, hg e he, (AllStrKV_forall hobjs e he).2, hne' e he⟩
    have h1 := forall_resolveObjs
      (Q0 := fun n v => P n ∧ P (pname ++ "_" ++ n) ∧ AllStr P v ∧ ∀ kvs, v = .map kvs → lookup "environment" kvs ≠ some (.str ""))
      (Q1 := fun n v => P n ∧ P (pname ++ "_" ++ n) ∧ ValOkF P "content" v ∧ ∀ kvs, v = .map kvs → CfgLink P kvs) "content" env
      (fun n v hq => by
        refine ⟨hq.1, hq.2.1, ValOkF_resolveObj hct env hq.2.2.1, ?_⟩
        intro kvs' hk
        cases v with
        | map kvs =>
          exact CfgLink_resolveObj env (by simpa [AllStr] using hq.2.2.1) (hq.2.2.2 kvs rfl) kvs' hk
        | _ => simp [resolveObj] at hk) h0
    cases hs : setNameObjs pname (resolveObjs "content" env objs) with
    | ok objs2 =>
      rw [hs] at h
      simp only [Out.bind] at h
      have h2 := forall_setNameObjs
        (Q1 := fun n v => P n ∧ P (pname ++ "_" ++ n) ∧ ValOkF P "content" v ∧ ∀ kvs, v = .map kvs → CfgLink P kvs)
        (Q2 := fun n v => P n ∧ ∃ kvs, v = .map kvs ∧ ObjOkF P "content" kvs ∧ CfgLink P kvs) pname
        (fun n v v' hq hv => by
          obtain ⟨kvs, rfl, hk⟩ := setNameObj_ok hv
          refine ⟨hq.1, _, rfl, ?_⟩
          rcases hk with rfl | ⟨rfl, rfl⟩
          · exact ⟨ObjOkF_setNameKVs (by decide) hn hq.1 hq.2.1 hq.2.2.1, CfgLink_setNameKVs (hq.2.2.2 kvs rfl)⟩
          · exact ⟨ObjOkF_setNameKVs (by decide) hn hq.1 hq.2.1 (by simp [ObjOkF]),
              CfgLink_setNameKVs (.inl (by simp [Val.lookup]))⟩) hs h1
      exact forall_decodeObjs (Q2 := fun n v => P n ∧ ∃ kvs, v = .map kvs ∧ ObjOkF P "content" kvs ∧ CfgLink P kvs)
        (Q3 := fun n o => P n ∧ o.CleanBut P ∧ (o.environment ≠ "" ∨ OptP P o.content)) decodeConfig ["configs"]
        (fun n v o hq ho => by
          obtain ⟨hn', kvs, rfl, hk, hl⟩ := hq
          exact ⟨hn', config_obj_clean hx hk hl ho⟩) h h2
    | err e => rw [hs] at h; simp [Out.bind] at h
    | panic s => rw [hs] at h; simp [Out.bind] at h
  · cases h

end CV.Secrets
