import ComposeVerif.Lemmas.ShortMerge
import ComposeVerif.Props.C03
import ComposeVerif.Props.C03Doc
/-!
# C03 — short ≡ long survives the merge of a second document (round 5)

The loader merges every further compose file / YAML document into the *canonical* tree of the previous ones
(`override.Merge`, in place) and canonicalises again.  The short forms of `depends_on`, service `networks` and
`build` are therefore expanded at two places (`transform/*.go` and `convertIntoMapping` / `toBuild` of
override/merge.go).  Theorems: the two expansion sites agree on **every** list (no hypothesis), the merger gives
the same result for the short and the long spelling in either argument position, and so does the two-document
pipeline `Canonical ∘ Merge ∘ Canonical` at the attribute.  (That the real `Canonical` returns *unshared* maps —
the other half of "survives an in-place merge" — is a heap fact, decided on the real heap by `c03.canonical`'s
alias scan and by the merged whole-load pairs of `c03.shortLong`.)
-/
namespace CV.Short
open CV

/-! ## the two expansion sites agree -/

/-- `depends_on` list: `transformDependsOn` and `convertIntoMapping(…, started/required)` build the same mapping
from every list (duplicates, any order), and reject the same lists -/
theorem dependsOn_sites_agree (l : List Val) :
    sameOut (dependsList l []) (Merge.intoMap Merge.dependsOnDefault (.seq l)) := by
  simpa [Merge.intoMap] using dependsList_eq_listIntoMap l []

/-- service `networks` list: `transformServiceNetworks` and `convertIntoMapping(…, nil)` agree on every list -/
theorem networks_sites_agree (l : List Val) :
    sameOut (networksList l []) (Merge.intoMap .null (.seq l)) := by
  simpa [Merge.intoMap] using networksList_eq_listIntoMap l []

/-- `build: ctx`: `transformBuild` and `toBuild` of `mergeBuild` produce the same mapping -/
theorem build_sites_agree (ign : Bool) (n s : String) :
    transform ign ["services", n, "build"] (.str s) = .ok (.map [("context", .str s)])
    ∧ Merge.toBuild (.str s) = .ok [("context", .str s)] :=
  ⟨transformBuild_short_eq_long ign n s, rfl⟩

/-- non-vacuity: a list with a duplicate and a list with a non-string item -/
example : dependsList [.str "b", .str "c", .str "b"] [] = .ok [("b", startedRequired), ("c", startedRequired)]
    ∧ Merge.intoMap Merge.dependsOnDefault (.seq [.str "b", .str "c", .str "b"]) = .ok [("b", startedRequired), ("c", startedRequired)] :=
  ⟨rfl, rfl⟩
example : dependsList [.str "b", .int 1] [] = .err "type"
    ∧ Merge.intoMap Merge.dependsOnDefault (.seq [.str "b", .int 1]) = .err "unexpectedType" := ⟨rfl, rfl⟩

/-! ## the merger does not distinguish the spellings -/

/-- `mergeDependsOn`: a list of distinct names and its long mapping are interchangeable, as the override **and** as the base -/
theorem mergeDependsOn_short_eq_long (mk : Val.KVs → Val.KVs → TPath → Merge.Out Val.KVs)
    (names : List String) (hnd : names.Nodup) (x : Val) (p : TPath) :
    Merge.specialStep mk .dependsOn x (.seq (names.map Val.str)) p
      = Merge.specialStep mk .dependsOn x (.map (names.map (fun n => (n, startedRequired)))) p
    ∧ Merge.specialStep mk .dependsOn (.seq (names.map Val.str)) x p
      = Merge.specialStep mk .dependsOn (.map (names.map (fun n => (n, startedRequired)))) x p := by
  simp [Merge.specialStep, Merge.convMerge, Merge.intoMap, listIntoMap_depends_distinct names hnd]

/-- `mergeNetworks`: a list of distinct names ≡ the mapping of each name to null, in either position -/
theorem mergeNetworks_short_eq_long (mk : Val.KVs → Val.KVs → TPath → Merge.Out Val.KVs)
    (names : List String) (hnd : names.Nodup) (x : Val) (p : TPath) :
    Merge.specialStep mk .networks x (.seq (names.map Val.str)) p
      = Merge.specialStep mk .networks x (.map (names.map (fun n => (n, Val.null)))) p
    ∧ Merge.specialStep mk .networks (.seq (names.map Val.str)) x p
      = Merge.specialStep mk .networks (.map (names.map (fun n => (n, Val.null)))) x p := by
  simp [Merge.specialStep, Merge.convMerge, Merge.intoMap, listIntoMap_networks_distinct names hnd]

/-- `mergeBuild`: `build: ctx` ≡ `build: {context: ctx}`, in either position -/
theorem mergeBuild_short_eq_long (mk : Val.KVs → Val.KVs → TPath → Merge.Out Val.KVs) (s : String) (x : Val) (p : TPath) :
    Merge.specialStep mk .build x (.str s) p = Merge.specialStep mk .build x (.map [("context", .str s)]) p
    ∧ Merge.specialStep mk .build (.str s) x p = Merge.specialStep mk .build (.map [("context", .str s)]) x p := by
  simp [Merge.specialStep, Merge.convMerge, Merge.toBuild]

/-- the rows of the regenerated merge table that send these three attributes to their converting mergers -/
theorem merge_rules_at (n : String) :
    Merge.ruleAt ["services", n, "depends_on"] = some .dependsOn
    ∧ Merge.ruleAt ["services", n, "networks"] = some .networks
    ∧ Merge.ruleAt ["services", n, "build"] = some .build := by
  simp [Merge.ruleAt, Merge.ruleAtIn, TPath.firstMatch, CV.Gen.mergeSpecials, TPath.pmatch, Merge.ruleOfName]

/-- `build.ssh` (repaired in round 5, repo commit 8182cc6: the attribute had no merger, so a list in a second document met
the canonical mapping of the first and was rejected): the regenerated table sends it to `mergeToSequence`, which reads a
`KEY=VALUE` list and its mapping alike, in either position -/
theorem mergeSSH_short_eq_long (mk : Val.KVs → Val.KVs → TPath → Merge.Out Val.KVs) (n id path : String) (x : Val) (p : TPath) :
    Merge.ruleAt ["services", n, "build", "ssh"] = some .toSeq
    ∧ Merge.specialStep mk .toSeq x (.seq [.str (id ++ "=" ++ path)]) p = Merge.specialStep mk .toSeq x (.map [(id, .str path)]) p
    ∧ Merge.specialStep mk .toSeq (.seq [.str (id ++ "=" ++ path)]) x p = Merge.specialStep mk .toSeq (.map [(id, .str path)]) x p
    ∧ Merge.specialStep mk .toSeq x (.seq [.str "default"]) p = Merge.specialStep mk .toSeq x (.map [("default", .null)]) p := by
  refine ⟨?_, ?_, ?_, ?_⟩
  · simp [Merge.ruleAt, Merge.ruleAtIn, TPath.firstMatch, CV.Gen.mergeSpecials, TPath.pmatch, Merge.ruleOfName]
  all_goals simp [Merge.specialStep, Merge.seqOf, Merge.intoSeq, Merge.mapStrs, Merge.entryStrs, Merge.sortStrs, Merge.insertStr, Merge.fmtV]

/-! ## two documents: `Canonical ∘ Merge ∘ Canonical` at the attribute -/

/-- `depends_on`: whatever the second document says (`doc2`, raw: short or long or malformed), the first document
may be written as a list or as the long mapping -/
theorem twoDocs_dependsOn_first (mk : Val.KVs → Val.KVs → TPath → Merge.Out Val.KVs)
    (names : List String) (hnd : names.Nodup) (doc2 : Val) (p : TPath) :
    twoDocs transformDependsOn mk .dependsOn (.seq (names.map Val.str)) doc2 p
      = twoDocs transformDependsOn mk .dependsOn (.map (names.map (fun n => (n, startedRequired)))) doc2 p := by
  obtain ⟨h1, h2⟩ := transformDependsOn_short_eq_long names hnd
  simp only [twoDocs, h1, h2]

/-- `depends_on`: whatever the first document says, the second may be written as a list or as the long mapping -/
theorem twoDocs_dependsOn_second (mk : Val.KVs → Val.KVs → TPath → Merge.Out Val.KVs)
    (names : List String) (hnd : names.Nodup) (doc1 : Val) (p : TPath) :
    twoDocs transformDependsOn mk .dependsOn doc1 (.seq (names.map Val.str)) p
      = twoDocs transformDependsOn mk .dependsOn doc1 (.map (names.map (fun n => (n, startedRequired)))) p := by
  simp only [twoDocs, (mergeDependsOn_short_eq_long mk names hnd _ p).1]

/-- service `networks`, first and second document -/
theorem twoDocs_networks (mk : Val.KVs → Val.KVs → TPath → Merge.Out Val.KVs)
    (names : List String) (hnd : names.Nodup) (other : Val) (p : TPath) :
    twoDocs transformServiceNetworks mk .networks (.seq (names.map Val.str)) other p
      = twoDocs transformServiceNetworks mk .networks (.map (names.map (fun n => (n, Val.null)))) other p
    ∧ twoDocs transformServiceNetworks mk .networks other (.seq (names.map Val.str)) p
      = twoDocs transformServiceNetworks mk .networks other (.map (names.map (fun n => (n, Val.null)))) p := by
  constructor
  · simp only [twoDocs, transformServiceNetworks_short_eq_long names hnd, transformServiceNetworks_long_id]
  · simp only [twoDocs, (mergeNetworks_short_eq_long mk names hnd _ p).1]

/-- `build`, first and second document, at its position in the tree (the transformer there is the recursive walk) -/
theorem twoDocs_build (ign : Bool) (mk : Val.KVs → Val.KVs → TPath → Merge.Out Val.KVs) (n s : String) (other : Val) :
    twoDocs (transform ign ["services", n, "build"]) mk .build (.str s) other ["services", n, "build"]
      = twoDocs (transform ign ["services", n, "build"]) mk .build (.map [("context", .str s)]) other ["services", n, "build"]
    ∧ twoDocs (transform ign ["services", n, "build"]) mk .build other (.str s) ["services", n, "build"]
      = twoDocs (transform ign ["services", n, "build"]) mk .build other (.map [("context", .str s)]) ["services", n, "build"] := by
  constructor
  · simp only [twoDocs, transformBuild_short_eq_long, transformBuild_long_id]
  · simp only [twoDocs, (mergeBuild_short_eq_long mk s _ _).1]

/-- **refining one dependency leaves the others as the long form says**: first document `depends_on: [names]`, second
document `depends_on: {k: v}` (any `v`, any merger `f` below): whenever the pipeline succeeds, every other listed
name still maps to `{condition: service_started, required: true}` -/
theorem twoDocs_dependsOn_refine_one (f : Val → Val → TPath → Merge.Out Val) (names : List String) (hnd : names.Nodup)
    (k : String) (v : Val) (p : TPath) (m : Val.KVs)
    (h : twoDocs transformDependsOn (Merge.mergeKVsWith f) .dependsOn (.seq (names.map Val.str)) (.map [(k, v)]) p = .ok (.map m)) :
    ∀ k' ∈ names, k' ≠ k → Val.lookup k' m = some startedRequired := by
  intro k' hk' hne
  obtain ⟨h1, _⟩ := transformDependsOn_short_eq_long names hnd
  simp only [twoDocs, h1, bindOut, Merge.specialStep, Merge.convMerge, Merge.intoMap, Merge.Out.bind] at h
  cases hm : Merge.mergeKVsWith f (names.map (fun n => (n, startedRequired))) [(k, v)] p with
  | ok r =>
    rw [hm] at h
    simp only [liftM, transformDependsOn] at h
    obtain ⟨y, hy⟩ := mergeOne_shape f _ r k v p hm
    cases hd : dependsMap r with
    | ok r2 =>
      rw [hd] at h
      simp only [Out.ok.injEq, Val.map.injEq] at h
      subst h
      have hl : Val.lookup k' r = some startedRequired := by
        rw [hy, Merge.lookup_insert_ne hne]
        exact lookup_long names k' hk' startedRequired
      have := dependsMap_lookup r r2 hd k' _ hl
      rw [this, startedRequired_fix]
      rfl
    | err x => rw [hd] at h; simp at h
    | panic x => rw [hd] at h; simp at h
  | err e => rw [hm] at h; simp [liftM] at h
  | panic e => rw [hm] at h; simp [liftM] at h
/-- non-vacuity: `[db, cache]` then `{db: {condition: service_healthy}}` succeeds (the hypothesis holds), and `cache` is untouched -/
example : Val.lookup "cache" [("db", .map [("condition", .str "service_healthy"), ("required", .bool true)]), ("cache", startedRequired)]
    = some startedRequired :=
  twoDocs_dependsOn_refine_one (Merge.mergeYaml 8) ["db", "cache"] (by decide) "db" (.map [("condition", .str "service_healthy")])
    ["services", "web", "depends_on"]
    [("db", .map [("condition", .str "service_healthy"), ("required", .bool true)]), ("cache", startedRequired)]
    (by rfl) "cache" (by simp) (by decide)

/-- service `networks`: first document `networks: [names]`, second `networks: {k: v}`: whenever the pipeline succeeds,
every other listed network is still attached with no options (null) -/
theorem twoDocs_networks_refine_one (f : Val → Val → TPath → Merge.Out Val) (names : List String) (hnd : names.Nodup)
    (k : String) (v : Val) (p : TPath) (m : Val.KVs)
    (h : twoDocs transformServiceNetworks (Merge.mergeKVsWith f) .networks (.seq (names.map Val.str)) (.map [(k, v)]) p = .ok (.map m)) :
    ∀ k' ∈ names, k' ≠ k → Val.lookup k' m = some .null := by
  intro k' hk' hne
  simp only [twoDocs, transformServiceNetworks_short_eq_long names hnd, bindOut, Merge.specialStep, Merge.convMerge,
    Merge.intoMap, Merge.Out.bind] at h
  cases hm : Merge.mergeKVsWith f (names.map (fun n => (n, Val.null))) [(k, v)] p with
  | ok r =>
    rw [hm] at h
    simp only [liftM, transformServiceNetworks, Out.ok.injEq, Val.map.injEq] at h
    subst h
    obtain ⟨y, hy⟩ := mergeOne_shape f _ r k v p hm
    rw [hy, Merge.lookup_insert_ne hne]
    exact lookup_long names k' hk' .null
  | err e => rw [hm] at h; simp [liftM] at h
  | panic e => rw [hm] at h; simp [liftM] at h

example : Val.lookup "n2" [("n1", .map [("aliases", .seq [.str "a"])]), ("n2", .null)] = some .null :=
  twoDocs_networks_refine_one (Merge.mergeYaml 8) ["n1", "n2"] (by decide) "n1" (.map [("aliases", .seq [.str "a"])])
    ["services", "web", "networks"] [("n1", .map [("aliases", .seq [.str "a"])]), ("n2", .null)] (by rfl) "n2" (by simp) (by decide)

/-- non-vacuity and the seeded scenario on the model: `[db, cache]` then `{db: {condition: service_healthy}}` — only `db` changes -/
example :
    twoDocs transformDependsOn (Merge.mergeKVs 8) .dependsOn (.seq [.str "db", .str "cache"])
      (.map [("db", .map [("condition", .str "service_healthy")])]) ["services", "web", "depends_on"]
    = .ok (.map [("db", .map [("condition", .str "service_healthy"), ("required", .bool true)]), ("cache", startedRequired)]) := by
  rfl

/-! ## any number of further documents -/

/-- whatever is merged afterwards, two first documents with the same canonical tree load alike -/
theorem loadDocsC_first_congr (ign : Bool) (d d' : Val) (rest : List Val) (h : canonical ign d = canonical ign d') :
    loadDocsC ign d rest = loadDocsC ign d' rest := by
  simp only [loadDocsC, h]

/-- `depends_on: [names]` ≡ its long mapping in the first document of a multi-document load: any surrounding document
(`docWith`), any list of further documents (each merged by `override.Merge`, followed by `Canonical`) -/
theorem multiDoc_dependsOn_first (ign : Bool) (top1 top2 svcs1 svcs2 a b : Val.KVs) (n : String)
    (names : List String) (hnd : names.Nodup) (rest : List Val) :
    loadDocsC ign (docWith top1 top2 svcs1 svcs2 a b n "depends_on" (.seq (names.map Val.str))) rest
      = loadDocsC ign (docWith top1 top2 svcs1 svcs2 a b n "depends_on" (.map (names.map (fun x => (x, startedRequired))))) rest :=
  loadDocsC_first_congr ign _ _ rest (canonical_dependsOn_short_eq_long ign top1 top2 svcs1 svcs2 a b n names hnd)

/-- the same for service `networks`, a short volume spec and a short port spec in the first document -/
theorem multiDoc_networks_volume_first (ign : Bool) (top1 top2 svcs1 svcs2 a b : Val.KVs) (n : String)
    (names : List String) (hnd : names.Nodup) (pre post : List Val) (sp : Spec.VolSpec) (hsp : sp.wf = true) (rest : List Val) :
    loadDocsC ign (docWith top1 top2 svcs1 svcs2 a b n "networks" (.seq (names.map Val.str))) rest
      = loadDocsC ign (docWith top1 top2 svcs1 svcs2 a b n "networks" (.map (names.map (fun x => (x, Val.null))))) rest
    ∧ loadDocsC ign (docWith top1 top2 svcs1 svcs2 a b n "volumes" (.seq (pre ++ .str (String.ofList sp.render) :: post))) rest
      = loadDocsC ign (docWith top1 top2 svcs1 svcs2 a b n "volumes"
          (.seq (pre ++ encodeVol { sp.long with target := cleanTarget sp.long.target } :: post))) rest :=
  ⟨loadDocsC_first_congr ign _ _ rest (canonical_networks_short_eq_long ign top1 top2 svcs1 svcs2 a b n names hnd),
   loadDocsC_first_congr ign _ _ rest (canonical_volume_short_eq_long ign top1 top2 svcs1 svcs2 a b n pre post sp hsp)⟩

/-- non-vacuity: two documents, the second refines `db` -/
example : (loadDocsC false (.map [("services", .map [("web", .map [("depends_on", .seq [.str "db", .str "cache"])])])])
      [.map [("services", .map [("web", .map [("depends_on", .map [("db", .map [("condition", .str "service_healthy")])])])])]])
    = .ok (.map [("services", .map [("web", .map [("depends_on", .map [
        ("db", .map [("condition", .str "service_healthy"), ("required", .bool true)]), ("cache", startedRequired)])])])]) := by
  rfl

end CV.Short
