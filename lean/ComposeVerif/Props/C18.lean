import ComposeVerif.Model.Dotenv
import ComposeVerif.Spec.Dotenv
import ComposeVerif.Lemmas.Dotenv
import ComposeVerif.Lemmas.DotenvMore
import ComposeVerif.Lemmas.DotenvR4
import ComposeVerif.Neg.C18
import ComposeVerif.Gen.Dotenv
/-!
# C18 — the env-file parser implements the dotenv grammar and never crashes

Property theorems only (helper lemmas live in `Lemmas/Dotenv.lean`).  The model
(`Model/Dotenv.lean`) is tied to `dotenv.UnmarshalWithLookup` by the `dotenv`
correspondence op; the specification (`Spec/Dotenv.lean`) is what the theorems below
compare it with.
-/
namespace CV.Dotenv
open CV CV.Template

/-! ## regenerated facts: the constants and character classes of the source are the modelled ones -/

/-- the regular expressions, the quote / comment characters and the `switch` of `locateKeyName` that the
    model was written against are the ones in the source now -/
theorem constants_are_modelled :
    CV.Gen.dotenv_escapeSeqRegex = "(\\\\(?:[abcfnrtv$\"\\\\]|0\\d{0,3}))" ∧
    CV.Gen.dotenv_exportRegex = "^export\\s+" ∧
    CV.Gen.dotenv_charComment = '#'.toNat ∧
    CV.Gen.dotenv_prefixSingleQuote = '\''.toNat ∧
    CV.Gen.dotenv_prefixDoubleQuote = '"'.toNat ∧
    CV.Gen.dotenv_keySwitch = [['='.toNat, ':'.toNat, '\n'.toNat], ['_'.toNat, '.'.toNat, '-'.toNat, '['.toNat, ']'.toNat]] := by
  decide

set_option maxRecDepth 8192 in
/-- `parser.go:isSpace` is `isSpaceNB` on the modelled domain -/
theorem isSpace_runes_are_modelled :
    ∀ row ∈ CV.Gen.dotenv_unicodeClass, isSpaceNB (Char.ofNat row.1) = CV.Gen.dotenv_isSpaceRunes.contains row.1 := by
  decide

set_option maxRecDepth 8192 in
/-- Go's `unicode.IsSpace` / `IsLetter` / `IsNumber` agree with the model's classes on every modelled code point -/
theorem unicode_classes_are_modelled :
    ∀ row ∈ CV.Gen.dotenv_unicodeClass,
      isSpaceU (Char.ofNat row.1) = row.2.1 ∧ isLetterOrNumber (Char.ofNat row.1) = row.2.2 := by
  decide


/-! ## never crashes, always terminates -/

/-- **Never crashes, always terminates.**  For EVERY input string and EVERY lookup function, parsing returns a
    map or an error: none of the parser's own index and slice expressions (`src[pos:]`, `src[0]`, `src[0:i]`,
    `src[offset:]`, `strings.Split(..)[0]`, `src[i]`, `src[i+1:]`, `src[:valEndIndex]`) is ever out of range,
    the statement loop ends within `len(src)+2` iterations, and `template.Substitute` (C07
    `subst_never_panics`, with the fuel `Template.fuelFor` that `subst` itself supplies) does not panic. -/
theorem parse_never_panics (src : Str) (lookup : Env) (s : Site) : parse src lookup ≠ .panic s :=
  parse_ne_panic src lookup s

/-- the part of the above that does not depend on C07: a panic of `parse` could only be a panic of
    `template.Substitute` on some input -/
theorem parse_own_sites_never_panic (src : Str) (lookup : Env) (s : Site) (h : parse src lookup = .panic s) :
    ∃ p, s = .tmpl p ∧ ∃ env t, Template.subst env t = .panic p :=
  parse_panic_sites src lookup s h

/-- `GetEnvFromFile` on any list of file contents never panics either -/
theorem fromFiles_never_panics (cur : Env) (files : List Str) (m : Map) (s : Site) : fromFiles cur files m ≠ .panic s :=
  fromFiles_ne_panic cur files m s

/-- … and neither does `ReadWithLookup` -/
theorem readFiles_never_panics (lookup : Env) (files : List Str) (m : Map) (s : Site) : readFiles lookup files m ≠ .panic s :=
  readFiles_ne_panic lookup files m s

/-- keys that start with a digit are dropped by `ReadWithLookup` (and only by it) -/
example : readFiles (fun _ => none) [['1', 'A', '=', 'x', '\n', 'B', '=', 'y', '\n']] [] = .ok [(['B'], ['y'])] := by decide

/-! ## the parser computes the grammar's meaning -/

/-- Refinement.  For EVERY list of well-formed grammar lines (blank, comment, bare key, assignment with
    `=` or `:`, optional `export`, unquoted / single-quoted / double-quoted value, trailing white space,
    inline or trailing comment; no bound on the number or length of lines) and every lookup function,
    parsing the rendered file yields exactly what the grammar says: later assignments replace earlier
    ones, bare keys are inherited from the lookup, single-quoted values are literal, unquoted and
    double-quoted values are interpolated against the lookup first and earlier lines second. -/
theorem parse_render (lookup : Env) (ls : List Line) (hwf : WF ls = true) :
    parse (render ls) lookup = evalLines lookup ls :=
  parse_render_lemma lookup ls hwf

/-- non-vacuity: a file using every line form is well-formed -/
example : WF [
    .comment [' '] ['h', 'i'],
    .assign [] (some [' ']) ['A'] [] .eq [' '] (.unq ['$', 'B', ' ', 'x']) [' '] (some ['c']),
    .blank ['\t'],
    .assign ['\t'] none ['B', '.', '1'] [' '] .colon [] (.dq [.chr 'a', .esc 'n', .quote, .esc '$']) [] none,
    .assign [] none ['A'] [] .eq [] (.sq [.chr '$', .quote, .esc 'n']) ['\r'] (some []),
    .bare [] (some ['\t']) ['C'] [' ']] = true := by decide

/-- the same statement for a file that continues after the well-formed lines (used by the error theorems) -/
theorem parse_render_prefix (lookup : Env) (ls : List Line) (hwf : WF ls = true) (tail : Str) :
    ∃ f, parse (render ls ++ tail) lookup =
      (evalLines lookup ls).andThen (fun m => parseLoop (f + 2) tail m lookup) := by
  have hle : stmts ls ≤ (render ls ++ tail).length := by
    have := stmts_le_length ls
    simp; omega
  refine ⟨(render ls ++ tail).length - stmts ls, ?_⟩
  unfold parse evalLines
  have e : (render ls ++ tail).length + 2 = ((render ls ++ tail).length - stmts ls + 2) + stmts ls := by omega
  rw [e, parseLoop_render lookup ls hwf _ tail []]

/-- Refinement for files whose last line has no line feed (after the `fix:` commit this includes a final
    bare key): the result is the same as with the line feed. -/
theorem parse_render_noFinalNL (lookup : Env) (ls : List Line) (hwf : WF ls = true) :
    parse (renderNoFinalNL ls) lookup = evalLines lookup ls := by
  rcases List.eq_nil_or_concat ls with rfl | ⟨init, l, rfl⟩
  · exact parseLoop_nil 1 [] lookup
  · rw [List.concat_eq_append] at hwf ⊢
    simp only [WF, List.all_append, List.all_cons, List.all_nil, Bool.and_true, Bool.and_eq_true] at hwf
    rw [renderNoFinalNL_concat]
    obtain ⟨f, hf⟩ := parse_render_prefix lookup init hwf.1 l.render
    rw [hf]
    unfold evalLines
    rw [evalFrom_append]
    congr 1
    funext m
    exact parseLoop_last_line f l m lookup hwf.2


/-! ## interpolation: values built from the Compose interpolation grammar (C07) -/

/-- an unquoted value that is the concrete syntax of a well-formed template means what the interpolation
    grammar says (C07 `subst_render`) -/
theorem value_unq_template (env : Env) (t : List Seg) (h : Template.WF t = true) :
    (Value.unq (renderL t)).eval env = evalOut env t :=
  value_unq_template_lemma env t h

/-- the same between double quotes, after escape processing -/
theorem value_dq_template (env : Env) (items : List QItem) (t : List Seg)
    (he : expandEscapes (rawItems '"' items) = renderL t) (h : Template.WF t = true) :
    (Value.dq items).eval env = evalOut env t :=
  value_dq_template_lemma env items t he h

/-- the environment of the interpolation: the lookup function first … -/
theorem envOf_lookup_first (lookup : Env) (m : Map) (k v : Str) (h : lookup k = some v) : envOf lookup m k = some v :=
  envOf_lookup_first_lemma lookup m k v h

/-- … (a variable the lookup reports as set to the empty string is set: it does not fall through) … -/
example (lookup : Env) (m : Map) (k : Str) (h : lookup k = some []) : envOf lookup m k = some [] :=
  envOf_lookup_first_lemma lookup m k [] h

/-- … earlier lines second -/
theorem envOf_earlier_second (lookup : Env) (m : Map) (k : Str) (h : lookup k = none) : envOf lookup m k = get m k :=
  envOf_earlier_second_lemma lookup m k h

/-- **Refinement with interpolation.**  After ANY well-formed lines, an assignment whose unquoted value is
    the concrete syntax of ANY well-formed template `t` (variables, braces, the six operators, nesting)
    defines the key as the grammar's meaning of `t` in the environment "lookup first, earlier lines second";
    an error of the template (`${X:?msg}`) is the error of the file, with the earlier lines evaluated. -/
theorem parse_render_interpolated (lookup : Env) (ls : List Line) (hwf : WF ls = true)
    (i : Str) (e : Option Str) (key w1 : Str) (sep : Sep) (w2 : Str) (t : List Seg) (tr : Str) (c : Option Str)
    (ht : Template.WF t = true) (hl : (Line.assign i e key w1 sep w2 (.unq (renderL t)) tr c).wf = true) :
    parse (render (ls ++ [.assign i e key w1 sep w2 (.unq (renderL t)) tr c])) lookup =
      (evalLines lookup ls).andThen
        (fun m => assignOut (evalOut (envOf lookup m) t) (fun x => .ok (put m key x)) m) := by
  rw [parse_render_snoc lookup ls _ hwf hl]
  congr 1
  funext m
  rw [evalFrom_single_assign, value_unq_template_lemma _ t ht]

/-- the same for a double-quoted value without quote or backslash characters -/
theorem parse_render_interpolated_dq (lookup : Env) (ls : List Line) (hwf : WF ls = true)
    (i : Str) (e : Option Str) (key w1 : Str) (sep : Sep) (w2 : Str) (t : List Seg) (tr : Str) (c : Option Str)
    (ht : Template.WF t = true) (hs : ∀ x ∈ renderL t, x ≠ '\\')
    (hl : (Line.assign i e key w1 sep w2 (.dq ((renderL t).map QItem.chr)) tr c).wf = true) :
    parse (render (ls ++ [.assign i e key w1 sep w2 (.dq ((renderL t).map QItem.chr)) tr c])) lookup =
      (evalLines lookup ls).andThen
        (fun m => assignOut (evalOut (envOf lookup m) t) (fun x => .ok (put m key x)) m) := by
  rw [parse_render_snoc lookup ls _ hwf hl]
  congr 1
  funext m
  rw [evalFrom_single_assign, value_dq_template_lemma _ _ t (by rw [rawItems_chr, expandEscapes_plain_lemma _ hs]) ht]

/-- `$NAME` / `${NAME}`: the lookup's value if the lookup has one (even the empty string), else the value an
    earlier line gave, else empty -/
theorem interpolation_precedence (lookup : Env) (m : Map) (n : Str) (b : Bool) :
    evalOut (envOf lookup m) [Seg.var n b] = .ok (((lookup n).or (get m n)).getD []) :=
  interpolation_precedence_lemma lookup m n b

/-- non-vacuity: `K=a${A:-$B}` satisfies the hypotheses -/
example : Template.WF [.lit ['a'], .op ['A'] .colonDash [.var ['B'] false]] = true ∧
    (Line.assign [] none ['K'] [] .eq [] (.unq (renderL [.lit ['a'], .op ['A'] .colonDash [.var ['B'] false]])) [] none).wf = true := by
  decide
/-- the seeded change C18-2 on the model level: lookup says `A` is set to "", an earlier line says `A=x` -/
example : parse ['A', '=', 'x', '\n', 'B', '=', '$', 'A', '\n'] (fun k => if k = ['A'] then some [] else none) =
    .ok [(['A'], ['x']), (['B'], [])] := by decide

/-! ## several files (`GetEnvFromFile`) -/

/-- **Refinement for several files.**  For ANY list of well-formed files (each optionally preceded by a
    byte-order mark), `GetEnvFromFile` computes the fold the grammar describes: each file is evaluated with the
    caller's environment first and the variables of earlier files second; its variables replace those of earlier
    files; the first failing file stops the fold. -/
theorem fromFiles_render (cur : Env) (fs : List (Bool × List Line)) (m : Map) (h : ∀ f ∈ fs, WF f.2 = true) :
    fromFiles cur (fs.map fun f => withBOM f.1 (render f.2)) m = evalFilesFrom cur (fs.map Prod.snd) m :=
  fromFiles_render_lemma cur fs m h

/-- the lookup chain while a file is read: caller's environment, then earlier files, then earlier lines -/
theorem envOf_chain (cur : Env) (m m' : Map) (k : Str) :
    envOf (envOf cur m) m' k = (cur k).or ((get m k).or (get m' k)) :=
  envOf_chain_lemma cur m m' k

/-- merging a file's variables: the file's value where it has one, the accumulated value otherwise -/
theorem get_mergeInto (env m : Map) (k : Str) (h : (env.map Prod.fst).Nodup) :
    get (mergeInto m env) k = (get env k).or (get m k) :=
  get_mergeInto_lemma env m k h

example : fromFiles (fun k => if k = ['A'] then some ['e'] else none)
    [['A', '=', '1', '\n', 'B', '=', '$', 'A', '\n'], ['\uFEFF', 'C', '=', '$', 'B', '\n', 'B', '=', '2']] [] =
    .ok [(['A'], ['1']), (['B'], ['2']), (['C'], ['e'])] := by decide


/-! ## round 4: arbitrary inputs, several arbitrary files, escapes composed with interpolation -/

/-- whatever the input, a successful parse returns a map with distinct keys (a faithful Go map) -/
theorem parse_keys_nodup (src : Str) (lookup : Env) (r : Map) (h : parse src lookup = .ok r) : (r.map Prod.fst).Nodup :=
  parse_keys_nodup_lemma src lookup r h

/-- `GetEnvFromFile` on ANY file contents (well-formed or not): the files are read left to right and the only
    state carried from one file to the next is the accumulated map -/
theorem fromFiles_append (cur : Env) (a b : List Str) (m : Map) :
    fromFiles cur (a ++ b) m = (fromFiles cur a m).andThen (fun m' => fromFiles cur b m') :=
  fromFiles_append_lemma cur a b m

/-- … a file that parses (under "caller's environment first, earlier files second") contributes exactly its
    variables: afterwards `get` returns the file's value where it has one and the accumulated value otherwise -/
theorem fromFiles_step_ok (cur : Env) (a : List Str) (f : Str) (m m' env : Map)
    (ha : fromFiles cur a m = .ok m') (hf : parse (stripBOM f) (envOf cur m') = .ok env) :
    fromFiles cur (a ++ [f]) m = .ok (mergeInto m' env) ∧
    ∀ k, get (mergeInto m' env) k = (get env k).or (get m' k) := by
  refine ⟨?_, fun k => get_mergeInto_lemma env m' k (parse_keys_nodup_lemma _ _ env hf)⟩
  rw [fromFiles_append_lemma, ha]
  exact fromFiles_single_ok cur f m' env hf

/-- … the first file that does not parse stops the fold: its error is returned together with the map
    accumulated from the files before it, whatever follows -/
theorem fromFiles_step_err (cur : Env) (a b : List Str) (f : Str) (m m' pm : Map) (e : PErr)
    (ha : fromFiles cur a m = .ok m') (hf : parse (stripBOM f) (envOf cur m') = .err e pm) :
    fromFiles cur (a ++ f :: b) m = .err e m' := by
  rw [fromFiles_append_lemma, ha]
  show fromFiles cur (f :: b) m' = .err e m'
  rw [fromFiles, hf]

/-- … and the accumulated map keeps distinct keys -/
theorem fromFiles_keys_nodup (cur : Env) (fs : List Str) (m r : Map) (h : fromFiles cur fs m = .ok r)
    (hm : (m.map Prod.fst).Nodup) : (r.map Prod.fst).Nodup :=
  fromFiles_keys_nodup_lemma cur fs m r h hm

example : fromFiles (fun _ => none) [['A', '=', '1', '\n'], ['B', '=', '"', 'x'], ['C', '=', '3']] [] =
    .err .unterminated [(['A'], ['1'])] := by decide

/-- any text can be written between double quotes: `dqEncode` writes the quote as `\\"`, the backslash as
    `\\\\` and leaves everything else (in particular `$`) alone; escape processing gives the text back -/
theorem expandEscapes_encoded (u : Str) : expandEscapes (rawItems '"' (dqEncode u)) = u ∧ (dqEncode u).all (QItem.wf '"') = true :=
  ⟨expandEscapes_dqEncode u, dqEncode_wf u⟩

/-- escapes composed with interpolation: the double-quoted encoding of the concrete syntax of ANY well-formed
    template (quotes, backslashes and line feeds included) means what the interpolation grammar says -/
theorem value_dq_encoded (env : Env) (t : List Seg) (h : Template.WF t = true) :
    (Value.dq (dqEncode (renderL t))).eval env = evalOut env t :=
  value_dq_encoded_lemma env t h

/-- the dotenv escape `\\$` is the template escape `$$`: a literal dollar sign, never a substitution -/
theorem value_dq_dollar (env : Env) (t : List Seg) (h : Template.WF (Seg.esc :: t) = true) :
    (Value.dq (QItem.esc '$' :: dqEncode (renderL t))).eval env = evalOut env (Seg.esc :: t) :=
  value_dq_dollar_lemma env t h

/-- **Refinement with escapes and interpolation.**  After ANY well-formed lines, `KEY="…"` whose body is the
    `dqEncode`-ing of ANY well-formed template defines KEY as the template's grammar meaning, lookup first,
    earlier lines second. -/
theorem parse_render_interpolated_dq_escaped (lookup : Env) (ls : List Line) (hwf : WF ls = true)
    (i : Str) (e : Option Str) (key w1 : Str) (sep : Sep) (w2 : Str) (t : List Seg) (tr : Str) (c : Option Str)
    (ht : Template.WF t = true)
    (hl : (Line.assign i e key w1 sep w2 (.dq (dqEncode (renderL t))) tr c).wf = true) :
    parse (render (ls ++ [.assign i e key w1 sep w2 (.dq (dqEncode (renderL t))) tr c])) lookup =
      (evalLines lookup ls).andThen
        (fun m => assignOut (evalOut (envOf lookup m) t) (fun x => .ok (put m key x)) m) := by
  rw [parse_render_snoc lookup ls _ hwf hl]
  congr 1
  funext m
  rw [evalFrom_single_assign, value_dq_encoded_lemma _ t ht]

/-- non-vacuity: `K="a\\"${A:-\\\\}"` -/
example : Template.WF [.lit ['a', '"'], .op ['A'] .colonDash [.lit ['\\']]] = true ∧
    (Line.assign [] none ['K'] [] .eq []
      (.dq (dqEncode (renderL [.lit ['a', '"'], .op ['A'] .colonDash [.lit ['\\']]]))) [] none).wf = true := by
  decide

/-! ## malformed input is an error -/

/-- After ANY well-formed lines, an assignment whose value opens a quote that is never closed before the end
    of the input (the body is any sequence of ordinary characters, escaped quotes and backslash pairs,
    possibly ending in a lone backslash) is the error "unterminated quoted value"; the lines before it
    have been evaluated. -/
theorem unterminated_err (lookup : Env) (ls : List Line) (hwf : WF ls = true)
    (indent : Str) (exp : Option Str) (key ws1 : Str) (sep : Sep) (ws2 : Str)
    (q : Char) (hq : q = '"' ∨ q = '\'') (items : List QItem) (t : Str) (ht : t = [] ∨ t = ['\\'])
    (hi : nbAll indent = true) (he : expOk exp = true) (hk : validKey key = true) (h1 : nbAll ws1 = true)
    (h2 : nbAll ws2 = true) (hw : items.all (QItem.wf q) = true) :
    parse (render ls ++ (indent ++ (renderExp exp ++ (key ++ (ws1 ++ sep.char :: (ws2 ++ q :: (renderItems q items ++ t))))))) lookup =
      (evalLines lookup ls).andThen (fun m => .err .unterminated m) := by
  obtain ⟨f, hf⟩ := parse_render_prefix lookup ls hwf
    (indent ++ (renderExp exp ++ (key ++ (ws1 ++ sep.char :: (ws2 ++ q :: (renderItems q items ++ t))))))
  rw [hf]
  congr 1
  funext m
  exact parseLoop_unterminated (f + 1) indent exp key ws1 sep ws2 q hq items t ht m lookup hi he hk h1 h2 hw

example : parse ['K', '=', '"', 'a', '\\', '"'] (fun _ => none) = .err .unterminated [] := by decide
example : parse ['A', '=', '1', '\n', 'K', '=', '\'', 'a', '\n', 'B', '=', '2'] (fun _ => none) =
    .err .unterminated [(['A'], ['1'])] := by decide

/-- After ANY well-formed lines, a statement whose key text (characters before the first `=`, `:` or line
    feed) contains a character that is neither a key rune nor white space is the error "unexpected
    character"; the lines before it have been evaluated.  (`_partial`: the full-strength statement
    `InvalidKeyIsError` also covers the empty key and is false — `Neg/C18.lean`.) -/
theorem invalid_key_err_partial (lookup : Env) (ls : List Line) (hwf : WF ls = true)
    (indent : Str) (exp : Option Str) (pre : Str) (c : Char) (rest : Str)
    (hi : nbAll indent = true) (he : expOk exp = true) (hpre : pre.all okChar = true)
    (hlead : pre.dropWhile isSpaceNB = pre)
    (hc : badChar c = true) (hhash : pre ≠ [] ∨ c ≠ '#') :
    parse (render ls ++ (indent ++ (renderExp exp ++ (pre ++ c :: rest)))) lookup =
      (evalLines lookup ls).andThen (fun m => .err .unexpectedChar m) := by
  obtain ⟨f, hf⟩ := parse_render_prefix lookup ls hwf (indent ++ (renderExp exp ++ (pre ++ c :: rest)))
  rw [hf]
  congr 1
  funext m
  exact parseLoop_badkey_any (f + 1) indent exp pre c rest m lookup hi he hpre hlead hc hhash

/-- `export` in front of an invalid key changes nothing: the key text may itself begin with the word `export`
    (`export$=1`, `export A$=1` written without the `exp` field) — the bad character is still reached -/
example : parse ['e', 'x', 'p', 'o', 'r', 't', ' ', 'A', '$', '=', '1'] (fun _ => none) = .err .unexpectedChar [] := by decide
example : parse ['e', 'x', 'p', 'o', 'r', 't', '$', '=', '1'] (fun _ => none) = .err .unexpectedChar [] := by decide

/-- After ANY well-formed lines, an assignment whose key text consists of two words separated by white space
    (space, tab, VT, FF, CR, NEL, NBSP — all of them after the `fix:` commit) is the error "key cannot contain a space". -/
theorem key_with_space_err (lookup : Env) (ls : List Line) (hwf : WF ls = true)
    (indent : Str) (exp : Option Str) (k1 ws k2 ws1 : Str) (sep : Sep) (X : Str)
    (hi : nbAll indent = true) (he : expOk exp = true) (hk1 : validKey k1 = true)
    (hws : nbAll ws = true) (hne : ws ≠ []) (hk2 : k2.all isKeyRune = true) (hne2 : k2 ≠ []) (h1 : nbAll ws1 = true) :
    parse (render ls ++ (indent ++ (renderExp exp ++ (k1 ++ (ws ++ (k2 ++ (ws1 ++ sep.char :: X))))))) lookup =
      (evalLines lookup ls).andThen (fun m => .err .keySpace m) := by
  obtain ⟨f, hf⟩ := parse_render_prefix lookup ls hwf
    (indent ++ (renderExp exp ++ (k1 ++ (ws ++ (k2 ++ (ws1 ++ sep.char :: X))))))
  rw [hf]
  congr 1
  funext m
  exact parseLoop_keyspace (f + 1) indent exp k1 ws k2 ws1 sep X m lookup hi he hk1 hws hne hk2 hne2 h1

/-- non-vacuity: `A$B=1` after a valid line -/
example : badChar '$' = true ∧ ['A'].all okChar = true ∧ ['A'].dropWhile isSpaceNB = ['A'] := by decide
example : parse ['X', '=', '1', '\n', 'A', '$', 'B', '=', '1'] (fun _ => none) = .err .unexpectedChar [(['X'], ['1'])] := by decide
/-- a key with an inner space or tab is rejected (after the `fix:` commit for tabs) -/
example : parse ['A', ' ', 'B', '=', '1'] (fun _ => none) = .err .keySpace [] := by decide
example : parse ['A', '\t', 'B', '=', '1'] (fun _ => none) = .err .keySpace [] := by decide
/-- a bare key on the last line without a line feed is inherited (after the `fix:` commit) -/
example : parse ['A', '=', '1', '\n', 'K'] (fun k => if k = ['K'] then some ['v'] else none) =
    .ok [(['A'], ['1']), (['K'], ['v'])] := by decide

/-! ## escape sequences of double-quoted values -/

/-- text without a backslash is left alone -/
theorem expandEscapes_plain (s : Str) (h : ∀ c ∈ s, c ≠ '\\') : expandEscapes s = s :=
  expandEscapes_plain_lemma s h

/-- the single-character escapes: the table of `escapeSeqRegex` (`\\$` becomes the template escape `$$`) -/
theorem expandEscapes_simple (c : Char) (x s : Str) (h : simpleEscape c = some x) :
    expandEscapes ('\\' :: c :: s) = x ++ expandEscapes s :=
  expandEscapes_simple_lemma c x s h

theorem simpleEscape_table :
    simpleEscape 'a' = some ['\x07'] ∧ simpleEscape 'b' = some ['\x08'] ∧ simpleEscape 'f' = some ['\x0c'] ∧
    simpleEscape 'n' = some ['\n'] ∧ simpleEscape 'r' = some ['\r'] ∧ simpleEscape 't' = some ['\t'] ∧
    simpleEscape 'v' = some ['\x0b'] ∧ simpleEscape '\\' = some ['\\'] ∧ simpleEscape '"' = some ['"'] ∧
    simpleEscape '$' = some ['$', '$'] ∧ simpleEscape 'x' = none ∧ simpleEscape 'u' = none ∧ simpleEscape '\'' = none :=
  simpleEscape_table_lemma

/-- any other backslash pair is kept as it is -/
theorem expandEscapes_other (c : Char) (s : Str) (h : simpleEscape c = none) (h0 : c ≠ '0') :
    expandEscapes ('\\' :: c :: s) = '\\' :: expandEscapes (c :: s) :=
  expandEscapes_other_lemma c s h h0

/-- XSI octal escapes: `\\0ddd` with three octal digits of value ≤ 255 denotes that code point -/
theorem expandEscapes_octal (d1 d2 d3 : Char) (s : Str)
    (h1 : isOct d1 = true) (h2 : isOct d2 = true) (h3 : isOct d3 = true) (hv : octVal [d1, d2, d3] ≤ 255) :
    expandEscapes ('\\' :: '0' :: d1 :: d2 :: d3 :: s) = Char.ofNat (octVal [d1, d2, d3]) :: expandEscapes s :=
  expandEscapes_octal_lemma d1 d2 d3 s h1 h2 h3 hv

/-- the `\\0` escape in general: the match is `\\0` plus up to three digits (greedy); it is replaced by
    `octalRepl` of the digits -/
theorem expandEscapes_zero (s : Str) :
    expandEscapes ('\\' :: '0' :: s) =
      octalRepl ((s.take 3).takeWhile Char.isDigit) ++
        expandEscapes (s.drop ((s.take 3).takeWhile Char.isDigit).length) :=
  expandEscapes_zero_lemma s

/-- … and unless the digits are exactly three octal digits of value ≤ 255 the replacement is the match with
    its `0` removed (fewer than three digits, a digit 8 or 9, a value above 255) -/
theorem octalRepl_rejected (ds : Str) (h : ¬ (ds.length = 3 ∧ ds.all isOct = true ∧ octVal ds ≤ 255)) :
    octalRepl ds = '\\' :: ds :=
  octalRepl_keep ds h

/-- non-vacuity and the failure cases (fewer than three digits, value > 255: the rewritten match is kept) -/
example : expandEscapes ['\\', '0', '1', '2', '3', 'Z'] = ['S', 'Z'] := by decide
example : expandEscapes ['\\', '0', '1', '2'] = ['\\', '1', '2'] := by decide
example : expandEscapes ['\\', '0', '7', '7', '7'] = ['\\', '7', '7', '7'] := by decide

/-! ## the result map behaves like a map: later assignments win -/

theorem get_put_same (m : Map) (k v : Str) : get (put m k v) k = some v := get_put_same_lemma m k v

theorem get_put_other (m : Map) (k k' v : Str) (h : k' ≠ k) : get (put m k v) k' = get m k' :=
  get_put_other_lemma m k k' v h

/-- keys stay distinct: the association list is a faithful Go map -/
theorem put_keys_nodup (m : Map) (k v : Str) (h : (m.map Prod.fst).Nodup) : ((put m k v).map Prod.fst).Nodup :=
  put_keys_nodup_lemma m k v h

end CV.Dotenv
