import ComposeVerif.Model.Dotenv
import ComposeVerif.Spec.Dotenv
import ComposeVerif.Lemmas.Dotenv
/-!
# C18 — the env-file parser implements the dotenv grammar and never crashes

Property theorems only (helper lemmas live in `Lemmas/Dotenv.lean`).  The model
(`Model/Dotenv.lean`) is tied to `dotenv.UnmarshalWithLookup` by the `dotenv`
correspondence op; the specification (`Spec/Dotenv.lean`) is what the theorems below
compare it with.
-/
namespace CV.Dotenv
open CV CV.Template

/-! ## never crashes, always terminates -/

/-- For EVERY input string and lookup function the parser's own index and slice expressions
    (`src[pos:]`, `src[0]`, `src[0:i]`, `src[offset:]`, `strings.Split(..)[0]`, `src[i]`, `src[i+1:]`,
    `src[:valEndIndex]`) stay in range and the statement loop terminates within `len(src)+2`
    iterations: the only panic outcomes left are those of `template.Substitute` (property C07). -/
theorem parse_never_panics (src : Str) (lookup : Env) (s : Site) (h : parse src lookup = .panic s) :
    ∃ p, s = .tmpl p ∧ ∃ env t, Template.subst env t = .panic p :=
  parse_panic_sites src lookup s h

/-- … hence: if `template.Substitute` never panics (C07 `subst_never_panics`), parsing never panics. -/
theorem parse_never_panics_of_subst (hsub : ∀ env t p, Template.subst env t ≠ .panic p)
    (src : Str) (lookup : Env) (s : Site) : parse src lookup ≠ .panic s := by
  intro h
  obtain ⟨p, _, env, t, hp⟩ := parse_panic_sites src lookup s h
  exact hsub env t p hp

/-! ## the parser computes the grammar's meaning -/

/-- Refinement.  For EVERY list of well-formed grammar lines (blank, comment, bare key, assignment with
    `=` or `:`, optional `export`, unquoted / single-quoted / double-quoted value, trailing white space,
    inline or trailing comment; no bound on the number or length of lines) and every lookup function,
    parsing the rendered file yields exactly what the grammar says: later assignments replace earlier
    ones, bare keys are inherited from the lookup, single-quoted values are literal, unquoted and
    double-quoted values are interpolated against the lookup first and earlier lines second. -/
theorem parse_render (lookup : Env) (ls : List Line) (hwf : WF ls = true) :
    parse (render ls) lookup = evalLines lookup ls :=
  parse_render_lemma lookup ls hwf

/-- non-vacuity: a file using every line form is well-formed -/
example : WF [
    .comment [' '] ['h', 'i'],
    .assign [] (some [' ']) ['A'] [] .eq [' '] (.unq ['$', 'B', ' ', 'x']) [' '] (some ['c']),
    .blank ['\t'],
    .assign ['\t'] none ['B', '.', '1'] [' '] .colon [] (.dq [.chr 'a', .esc 'n', .quote, .esc '$']) [] none,
    .assign [] none ['A'] [] .eq [] (.sq [.chr '$', .quote, .esc 'n']) ['\r'] (some []),
    .bare [] (some ['\t']) ['C'] [' ']] = true := by decide

/-- the same statement for a file that continues after the well-formed lines (used by the error theorems) -/
theorem parse_render_prefix (lookup : Env) (ls : List Line) (hwf : WF ls = true) (tail : Str) :
    ∃ f, parse (render ls ++ tail) lookup =
      (evalLines lookup ls).andThen (fun m => parseLoop (f + 1) tail m lookup) := by
  have hle : stmts ls ≤ (render ls ++ tail).length := by
    have := stmts_le_length ls
    simp; omega
  refine ⟨(render ls ++ tail).length - stmts ls + 1, ?_⟩
  unfold parse evalLines
  have e : (render ls ++ tail).length + 2 = ((render ls ++ tail).length - stmts ls + 1 + 1) + stmts ls := by omega
  rw [e, parseLoop_render lookup ls hwf _ tail []]

/-! ## the result map behaves like a map: later assignments win -/

theorem get_put_same (m : Map) (k v : Str) : get (put m k v) k = some v := by
  induction m with
  | nil => simp [put, get]
  | cons p m ih =>
    obtain ⟨k', v'⟩ := p
    by_cases h : k = k'
    · simp [put, get, h]
    · simp [put, get, h, ih]

theorem get_put_other (m : Map) (k k' v : Str) (h : k' ≠ k) : get (put m k v) k' = get m k' := by
  induction m with
  | nil => simp [put, get, h]
  | cons p m ih =>
    obtain ⟨k₀, v₀⟩ := p
    by_cases h0 : k = k₀
    · subst h0; simp [put, get, h]
    · by_cases h1 : k' = k₀
      · simp [put, get, h0, h1]
      · simp [put, get, h0, h1, ih]

/-- keys stay distinct: the association list is a faithful Go map -/
theorem put_keys_nodup (m : Map) (k v : Str) (h : (m.map Prod.fst).Nodup) : ((put m k v).map Prod.fst).Nodup := by
  induction m with
  | nil => simp [put]
  | cons p m ih =>
    obtain ⟨k₀, v₀⟩ := p
    simp only [List.map_cons, List.nodup_cons] at h
    by_cases h0 : k = k₀
    · subst h0; simpa [put] using h
    · simp only [put, h0, if_false, List.map_cons, List.nodup_cons]
      refine ⟨?_, ih h.2⟩
      intro hm
      have : ∀ (m : Map), k₀ ∈ (put m k v).map Prod.fst → k₀ ∈ m.map Prod.fst := by
        intro m
        induction m with
        | nil => intro hm; simp [put] at hm; exact absurd hm.symm h0
        | cons q m ihm =>
          obtain ⟨k₁, v₁⟩ := q
          by_cases h1 : k = k₁
          · subst h1; simp [put]
          · simp only [put, h1, if_false, List.map_cons, List.mem_cons]
            rintro (h | h)
            · exact Or.inl h
            · exact Or.inr (ihm h)
      exact h.1 (this m hm)

end CV.Dotenv
