import ComposeVerif.Model.Dotenv
/-!
# C18 — the env-file parser implements the dotenv grammar and never crashes
-/
namespace CV.Dotenv

end CV.Dotenv
