import ComposeVerif.Props.C07
import ComposeVerif.Lemmas.TemplateUnbal
/-!
# C07 — what `Substitute` does on the two shapes that are outside `WF`

`WF` excludes (a) an unbraced `$NAME` directly followed by a name character and (b) operator arguments whose
literal braces are not balanced, because there the *concrete syntax* does not denote the AST one might have meant.
These theorems state what the code does instead (for all inputs of the shape, after any well-formed prefix).
-/
namespace CV.Template

/-- (a) **the unbraced name is greedy**: `$` followed by a name `n` and further name characters `n'` is the
    variable `n ++ n'` — never the variable `n` followed by the text `n'` -/
theorem subst_unbraced_takes_longest_name (env : Env) (t : List Seg) (n n' X : Str) (h : WF t = true)
    (hn : validName n = true) (hn' : ∀ c ∈ n', isNameChar c = true) (hX : noNameHead X = true) :
    subst env (renderL t ++ '$' :: (n ++ n' ++ X)) =
      seq (evalOut env t) (seq (.ok ((env (n ++ n')).getD [])) (subst env X)) := by
  have hv : validName (n ++ n') = true := by
    obtain ⟨c, cs, rfl, hc, hall⟩ := validName_cases hn
    simp only [List.cons_append, validName, hc, Bool.true_and, List.all_eq_true]
    intro x hx
    rcases List.mem_append.1 hx with hx | hx
    · exact hall x (List.mem_cons_of_mem _ hx)
    · exact hn' x hx
  rw [subst_render_append env t _ h (by simp [noNameHead]; decide), subst_eq_run, subst_eq_run,
    run_named env (n ++ n') X hv hX]

/-- the matched name is the longest run of name characters, on any text at all -/
theorem unbraced_match_is_longest_run (c : Char) (r : Str) (hc : isNameStart c = true) :
    ∃ name rest, matchDollar ('$' :: c :: r) = some (.named name, '$' :: name, rest) ∧
      name ++ rest = c :: r ∧ (∀ x ∈ name, isNameChar x = true) ∧ noNameHead rest = true :=
  ⟨_, _, matchDollar_start c r hc, spanName_append _, spanName_fst_all _, spanName_snd_head _⟩

/-- (b) **closed case**: in `${n op a}Y` (one line, `Y` empty or ending with the last `}` of the line) the
    argument is `a` — whatever braces `a` contains — exactly when the brace counter of
    `getFirstBraceClosingIndex` on that text returns to zero at the `}` after `a` -/
theorem subst_op_unbalanced_closed (env : Env) (t : List Seg) (n : Str) (o : Op) (a Y Z : Str) (h : WF t = true)
    (hn : validName n = true) (ha : noNL a) (hY : noNL Y) (hYe : EndsClose Y) (hZ : ¬ closesOnLine Z)
    (hfc : firstClose ('$' :: '{' :: (n ++ (o.str ++ (a ++ '}' :: Y)))) = some (2 + n.length + o.str.length + a.length)) :
    subst env (renderL t ++ '$' :: '{' :: (n ++ (o.str ++ (a ++ '}' :: (Y ++ Z))))) =
      seq (evalOut env t) (seq (opOut env n o (subst env a)) (subst env (Y ++ Z))) := by
  rw [subst_render_append env t _ h (by simp [noNameHead]; decide)]
  simp only [subst_eq_run]
  rw [run_op_closed env n o a Y Z hn ha hY hYe ((lastCloseLen_none_iff Z).2 hZ) hfc]

/-- (b) **open case**: when the braces of `${n op body}` (up to the last `}` of the line) never balance, nothing is
    cut off: the whole `body` — including any `}` and any `${…}` inside it — is interpolated as the argument -/
theorem subst_op_unbalanced_open (env : Env) (t : List Seg) (n : Str) (o : Op) (body Z : Str) (h : WF t = true)
    (hn : validName n = true) (hb : noNL body) (hZ : ¬ closesOnLine Z)
    (hfc : firstClose ('$' :: '{' :: (n ++ (o.str ++ (body ++ ['}'])))) = none) :
    subst env (renderL t ++ '$' :: '{' :: (n ++ (o.str ++ (body ++ '}' :: Z)))) =
      seq (evalOut env t) (seq (opOut env n o (subst env body)) (subst env Z)) := by
  rw [subst_render_append env t _ h (by simp [noNameHead]; decide)]
  simp only [subst_eq_run]
  rw [run_op_open env n o body Z hn hb ((lastCloseLen_none_iff Z).2 hZ) hfc]

/-! Instances: `${A:-{} ${B}` — the unbalanced `{` makes `{} ${B` the default, whose `${B` is malformed;
    `${A:-a}b}` — the first `}` closes, `b}` is ordinary text. -/

example : firstClose "${A:-{} ${B}".toList = none := by decide

example : subst (fun _ => none) "${A:-{} ${B}".toList = .err .invalid := by
  have := subst_op_unbalanced_open (fun _ => none) [] ['A'] .colonDash "{} ${B".toList [] (by decide) (by decide)
    (by intro c hc; revert c; decide) (by rintro ⟨c, hc, _⟩; simp at hc) (by decide)
  simp only [renderL, List.nil_append, Op.str, List.cons_append] at this
  have hb : subst (fun _ => none) "{} ${B".toList = .err .invalid := by decide
  rw [show "${A:-{} ${B}".toList = '$' :: '{' :: ('A' :: ':' :: '-' :: ("{} ${B".toList ++ ['}'])) from by decide, this, hb]
  decide

example : firstClose "${A:-a}b}".toList = some 6 := by decide

/-! ## No closed form in terms of the AST for unbalanced arguments -/


/-- Outside `WF` the concrete syntax does not determine the AST: an argument literal with an unbalanced `{`
    followed by a literal `}` renders to the same text as the balanced literal `{}` — and the two ASTs mean
    different things when the variable is set.  No function of the text can be `evalOut` on both. -/
theorem unbalanced_literal_is_ambiguous :
    let t1 : List Seg := [.op ['A'] .colonDash [.lit ['{']], .lit ['}']]
    let t2 : List Seg := [.op ['A'] .colonDash [.lit ['{', '}']]]
    let env : Env := fun n => if n = ['A'] then some ['v'] else none
    renderL t1 = renderL t2 ∧ WF t2 = true ∧ WF t1 = false ∧
    evalOut env t1 = .ok ['v', '}'] ∧ evalOut env t2 = .ok ['v'] := by
  decide

/-- consequently `Substitute` follows the balanced reading and differs from the meaning of the unbalanced AST -/
theorem unbalanced_literal_follows_balanced_reading :
    let t1 : List Seg := [.op ['A'] .colonDash [.lit ['{']], .lit ['}']]
    let env : Env := fun n => if n = ['A'] then some ['v'] else none
    subst env (renderL t1) = .ok ['v'] ∧ subst env (renderL t1) ≠ evalOut env t1 := by
  intro t1 env
  have h2 := subst_render env [.op ['A'] .colonDash [.lit ['{', '}']]] (by decide)
  have hr : renderL t1 = renderL [.op ['A'] .colonDash [.lit ['{', '}']]] := by decide
  have he : evalOut env [.op ['A'] .colonDash [.lit ['{', '}']]] = .ok ['v'] := by decide
  have h1 : evalOut env t1 = .ok ['v', '}'] := by decide
  rw [hr, h2, he, h1]
  exact ⟨rfl, by decide⟩


theorem unbalanced_open_instance : subst (fun _ => none) "${A:-{} ${B}".toList = .err .invalid := by
  have := subst_op_unbalanced_open (fun _ => none) [] ['A'] .colonDash "{} ${B".toList [] (by decide) (by decide)
    (by intro c hc; revert c; decide) (by rintro ⟨c, hc, _⟩; simp at hc) (by decide)
  simp only [renderL, List.nil_append, Op.str, List.cons_append] at this
  have hb : subst (fun _ => none) "{} ${B".toList = .err .invalid := by decide
  rw [show "${A:-{} ${B}".toList = '$' :: '{' :: ('A' :: ':' :: '-' :: ("{} ${B".toList ++ ['}'])) from by decide, this, hb]
  decide

/-- … and there is no per-segment meaning either: the same segment `${A:-{}` (unbalanced `{` in the default)
    means `{` at the end of the text but swallows a later `${B}` on the same line — what an unbalanced argument
    contributes depends on the text that follows it, so no closed form in terms of the AST exists -/
theorem unbalanced_argument_not_compositional :
    let seg : Seg := .op ['A'] .colonDash [.lit ['{']]
    let env : Env := fun _ => none
    subst env (seg.render ++ []) = seq (toOut (seg.eval env)) (subst env []) ∧
    subst env (seg.render ++ " ${B}".toList) ≠ seq (toOut (seg.eval env)) (subst env " ${B}".toList) := by
  intro seg env
  constructor
  · decide
  · have h1 : subst env (seg.render ++ " ${B}".toList) = .err .invalid := unbalanced_open_instance
    have h2 : seq (toOut (seg.eval env)) (subst env " ${B}".toList) = .ok "{ ".toList := by decide
    rw [h1, h2]; decide

/-! ### The tail of the greedy match (round 6; seed C08-8)

The regexp's `.*` runs to the **last** `}` of the line, `DefaultReplacementAppliedFunc` cuts the match at the first
balanced one and must give the rest (`rest`) a substitution pass of its own — whatever it holds, also when it holds no
further `${` (an escape `$$` or an unbraced `$NAME` before a later `}`). -/

/-- after an operator substitution the remaining text (any text that does not start with a name character, in
    particular text with `$$` / `$NAME` and later closing braces on the same line) is interpolated by a pass of its
    own and appended: nothing of it is copied verbatim, nothing is glued to the value and expanded again -/
theorem subst_op_then_tail (env : Env) (n : Str) (o : Op) (arg : List Seg) (X : Str)
    (hn : validName n = true) (harg : wfL true arg = true) (hX : noNameHead X = true) :
    subst env ((Seg.op n o arg).render ++ X) = seq (subst env (Seg.op n o arg).render) (subst env X) := by
  have hwf : WF [Seg.op n o arg] = true := by simp [WF, wfL, Seg.wf, hn, harg]
  have h1 := subst_render_append env [Seg.op n o arg] X hwf hX
  have h2 := subst_render env [Seg.op n o arg] hwf
  rw [renderL, renderL, List.append_nil] at h1 h2
  rw [h1, h2]

/-- `${A:-x} $$ }` with `A` unset is `x $ }`: the escape in the tail is unescaped although no `${` follows -/
theorem tail_escape_is_unescaped : subst (fun _ => none) "${A:-x} $$ }".toList = .ok "x $ }".toList := by
  have := subst_op_then_tail (fun _ => none) ['A'] .colonDash [.lit ['x']] " $$ }".toList (by decide) (by decide) (by decide)
  have h1 : subst (fun _ => none) (Seg.op ['A'] .colonDash [.lit ['x']]).render = .ok ['x'] := by decide
  have h2 : subst (fun _ => none) " $$ }".toList = .ok " $ }".toList := by decide
  rw [show "${A:-x} $$ }".toList = (Seg.op ['A'] .colonDash [.lit ['x']]).render ++ " $$ }".toList from by decide, this, h1, h2]
  decide

/-- `${A:-x} $B }` with `B = b`: the unbraced variable in the tail is substituted -/
theorem tail_variable_is_substituted :
    subst (fun k => if k = ['B'] then some ['b'] else none) "${A:-x} $B }".toList = .ok "x b }".toList := by
  have := subst_op_then_tail (fun k => if k = ['B'] then some ['b'] else none) ['A'] .colonDash [.lit ['x']] " $B }".toList
    (by decide) (by decide) (by decide)
  have h1 : subst (fun k => if k = ['B'] then some ['b'] else none) (Seg.op ['A'] .colonDash [.lit ['x']]).render = .ok ['x'] := by decide
  have h2 : subst (fun k => if k = ['B'] then some ['b'] else none) " $B }".toList = .ok " b }".toList := by decide
  rw [show "${A:-x} $B }".toList = (Seg.op ['A'] .colonDash [.lit ['x']]).render ++ " $B }".toList from by decide, this, h1, h2]
  decide

end CV.Template
