import ComposeVerif.Props.C06Env
import ComposeVerif.Props.C06Anchor
/-!
# C06 — the property in one statement (composition of the clause theorems)

`include_eq_paste` says the result is the paste of `subLoads`; `include_env_closed_form` says which environment each
sub-load got; `include_anchor_is_projDir_partial` says which directory its paths are anchored in; `plan_ok_fresh` says
its files are not on the include chain.  `include_property` puts them together for one call of `ApplyInclude` by an
including project in the absolute directory `L` (`baseDir = L`: the root load, and every nested load).
-/
namespace CV.Include
open CV CV.Val

variable {C : Type}

/-- one entry of `include:` "loaded on its own", as the property describes it: `im` is the sub-load of the entry's files
(`pl.paths`, none of them on the chain) in the project directory `pl.projDir`, with working directory `pl.relwd` —
which, joined back onto the including directory, is the project directory whenever the directory the entry names
exists (and is a non-empty relative path unless `project_directory` is absolute) — and with the environment `env'`: the parent's value for every variable the parent defines, otherwise the value
of the last env file of the entry (declared `env_file`s, or the project directory's `.env`) that defines it -/
structure LoadedOnItsOwn (W : World) (E : EnvWorld C) (L : String) (env : Env) (chain : List String)
    (r : IncCfg) (im : KVs) : Prop where
  ex : ∃ pl env' efs fromFile es,
    plan W L L chain r = .ok pl ∧
    (∀ p ∈ pl.paths, p ∉ chain) ∧
    (∀ p0 rest, r.path = p0 :: rest → PlanDirsExist W L r p0 →
        Include.join L pl.relwd = Include.clean pl.projDir ∨ (Include.isAbs pl.relwd = true ∧ pl.relwd = pl.projDir)) ∧
    (∀ p0 rest, r.path = p0 :: rest → Include.isAbs r.projectDirectory = false → PlanDirsExist W L r p0 →
        pl.relwd ≠ "" ∧ Include.isAbs pl.relwd = false ∧ Include.join L pl.relwd = Include.clean pl.projDir) ∧
    envFiles W L pl.projDir r.envFile = .ok efs ∧ Parsed E env efs [] es fromFile ∧
    (∀ x, Env.get env' x = match Env.get env x with
      | some v => some v
      | none => lastDefined es x) ∧
    W.loadModel pl.relwd pl.projDir pl.paths env' chain = .ok im

/-- every entry, in order -/
inductive AllLoadedOnTheirOwn (W : World) (E : EnvWorld C) (L : String) (env : Env) (chain : List String) :
    List IncCfg → List KVs → Prop
  | nil : AllLoadedOnTheirOwn W E L env chain [] []
  | cons {r rs im ims} : LoadedOnItsOwn W E L env chain r im → AllLoadedOnTheirOwn W E L env chain rs ims →
      AllLoadedOnTheirOwn W E L env chain (r :: rs) (im :: ims)

theorem subLoads_each (W : World) (E : EnvWorld C) (hW : W.envFromFile = getEnvFromFile E)
    (wd L : String) (hL : Include.isAbs L = true) (hb : baseDir wd L = L) (env : Env) (chain : List String) :
    ∀ (cfgs : List IncCfg) (ims : List KVs), subLoads W wd L env chain cfgs = .ok ims →
      AllLoadedOnTheirOwn W E L env chain cfgs ims
  | [], ims, h => by
    simp only [subLoads] at h; cases h; exact .nil
  | r :: rs, ims, h => by
    simp only [subLoads, hb] at h
    obtain ⟨pl, hp, h⟩ := bind_eq_ok h
    obtain ⟨env', he, h⟩ := bind_eq_ok h
    obtain ⟨im, hl, h⟩ := bind_eq_ok h
    obtain ⟨ims', hs, h⟩ := bind_eq_ok h
    cases h
    have hs' : subLoads W wd L env chain rs = .ok ims' := hs
    obtain ⟨efs, ff, es, hef, hpar, hget⟩ := include_env_closed_form W E hW L pl.projDir env env' r.envFile he
    refine .cons ⟨⟨pl, env', efs, ff, es, hp, plan_ok_fresh W L L chain r pl hp, ?_, ?_, hef, hpar, hget, hl⟩⟩
      (subLoads_each W E hW wd L hL hb env chain rs ims' hs')
    · intro p0 rest hpath hex
      exact include_anchor_is_projDir_partial W L chain r pl p0 rest hL hpath hex hp
    · intro p0 rest hpath hpd hex
      exact include_anchor_is_projDir_rel_partial W L chain r pl p0 rest hL hpath hpd hex hp

/-- **include_property**: whenever `ApplyInclude` succeeds for an including project in the absolute directory `L`, there
are the entries of `include:` and, for each, the included project *as loaded on its own* (`LoadedOnItsOwn`: fresh files,
own directory, parent environment completed from its env files) such that the result is the including document with —
for each of services / volumes / networks / secrets / configs and each name — its own definition if it has one, else
the first included project's; other keys untouched; `include` gone -/
theorem include_property (W : World) (E : EnvWorld C) (hW : W.envFromFile = getEnvFromFile E)
    (wd L : String) (hL : Include.isAbs L = true) (hb : baseDir wd L = L) (env : Env) (chain : List String)
    (model r : KVs) (h : applyInclude W wd L env chain model = .ok r) :
    ∃ cfgs ims, loadIncludeConfig (lookup "include" model) = .ok cfgs ∧
      AllLoadedOnTheirOwn W E L env chain cfgs ims ∧
      (∀ k, k ∈ resourceKinds → ∀ n, resourceOf r k n = pastedResource model ims k n) ∧
      (∀ k, k ∉ resourceKinds → k ≠ "include" → lookup k r = lookup k model) ∧
      lookup "include" r = none := by
  obtain ⟨cfgs, ims, hc, hs, hp, ho, hi⟩ := include_eq_paste W wd L env chain model r h
  exact ⟨cfgs, ims, hc, subLoads_each W E hW wd L hL hb env chain cfgs ims hs, hp, ho, hi⟩

/-- the root load: `workingDir` is the local loader's directory -/
theorem include_property_root (W : World) (E : EnvWorld C) (hW : W.envFromFile = getEnvFromFile E)
    (L : String) (hL : Include.isAbs L = true) (env : Env) (chain : List String)
    (model r : KVs) (h : applyInclude W L L env chain model = .ok r) :
    ∃ cfgs ims, loadIncludeConfig (lookup "include" model) = .ok cfgs ∧
      AllLoadedOnTheirOwn W E L env chain cfgs ims ∧
      (∀ k, k ∈ resourceKinds → ∀ n, resourceOf r k n = pastedResource model ims k n) ∧
      (∀ k, k ∉ resourceKinds → k ≠ "include" → lookup k r = lookup k model) ∧
      lookup "include" r = none :=
  include_property W E hW L L hL (baseDir_root L hL) env chain model r h

/-- non-vacuity: `/r/compose.yaml` (service `a`) includes `sub/inc.yaml` (service `b`, image from `${V}` of `sub/.env`);
the hypotheses hold and the call succeeds with both services -/
example :
    let E : EnvWorld (List (String × String)) :=
      { abs := fun p => p, stat := fun p => if p = "/r/sub/.env" then .file else .missing,
        read := fun _ => .ok [("V", "from-dotenv")], parse := fun c _ => .ok c }
    let W : World :=
      { cwd := "/cwd", isDir := fun p => p == "/r" || p == "/r/sub", isFile := fun p => p == "/r/sub/inc.yaml" || p == "/r/sub/.env",
        envFromFile := getEnvFromFile E,
        loadModel := fun _ _ _ env' _ => .ok [("services", .map [("b", .map [("image", .str ((Env.get env' "V").getD "unset"))])])] }
    W.envFromFile = getEnvFromFile E ∧ Include.isAbs "/r" = true ∧
    (match applyInclude W "/r" "/r" [] ["/r/compose.yaml"]
        [("include", .seq [.str "sub/inc.yaml"]), ("services", .map [("a", .map [("image", .str "a")])])] with
      | .ok r => veq (.map r)
          (.map [("services", .map [("a", .map [("image", .str "a")]), ("b", .map [("image", .str "from-dotenv")])])])
      | _ => false) = true := by
  refine ⟨rfl, by decide +kernel, by decide +kernel⟩

end CV.Include
