import ComposeVerif.Props.C06Env
import ComposeVerif.Props.C06Anchor
import ComposeVerif.Props.C06Resolve
/-!
# C06 — the property in one statement (composition of the clause theorems)

`include_eq_paste` says the result is the paste of `subLoads`; `include_env_closed_form` says which environment each
sub-load got; `include_anchor_is_projDir_partial` says which directory its paths are anchored in; `plan_ok_fresh` says
its files are not on the include chain.  `include_property` puts them together for one call of `ApplyInclude` by an
including project in the absolute directory `L` (`baseDir = L`: the root load, and every nested load).
-/
namespace CV.Include
open CV CV.Val

variable {C : Type}

/-- one entry of `include:` "loaded on its own", as the property describes it: `im` is the sub-load of the entry's files
(`pl.paths`, none of them on the chain) in the project directory `pl.projDir`, with working directory `pl.relwd` —
which, joined back onto the including directory, is the project directory whenever the directory the entry names
exists (and is a non-empty relative path unless `project_directory` is absolute) — and with the environment `env'`: the parent's value for every variable the parent defines, otherwise the value
of the last env file of the entry (declared `env_file`s, or the project directory's `.env`) that defines it -/
structure LoadedOnItsOwn (W : World) (E : EnvWorld C) (L : String) (env : Env) (chain : List String)
    (r : IncCfg) (im : KVs) : Prop where
  ex : ∃ pl env' efs fromFile es,
    plan W L L chain r = .ok pl ∧
    (∀ p ∈ pl.paths, p ∉ chain) ∧
    (∀ p0 rest, r.path = p0 :: rest → PlanDirsExist W L r p0 →
        Include.join L pl.relwd = Include.clean pl.projDir ∨ (Include.isAbs pl.relwd = true ∧ pl.relwd = pl.projDir)) ∧
    (∀ p0 rest, r.path = p0 :: rest → Include.isAbs r.projectDirectory = false → PlanDirsExist W L r p0 →
        pl.relwd ≠ "" ∧ Include.isAbs pl.relwd = false ∧ Include.join L pl.relwd = Include.clean pl.projDir) ∧
    envFiles W L pl.projDir r.envFile = .ok efs ∧ Parsed E env efs [] es fromFile ∧
    (∀ x, Env.get env' x = match Env.get env x with
      | some v => some v
      | none => lastDefined es x) ∧
    W.loadModel pl.relwd pl.projDir pl.paths env' chain = .ok im

/-- every entry, in order -/
inductive AllLoadedOnTheirOwn (W : World) (E : EnvWorld C) (L : String) (env : Env) (chain : List String) :
    List IncCfg → List KVs → Prop
  | nil : AllLoadedOnTheirOwn W E L env chain [] []
  | cons {r rs im ims} : LoadedOnItsOwn W E L env chain r im → AllLoadedOnTheirOwn W E L env chain rs ims →
      AllLoadedOnTheirOwn W E L env chain (r :: rs) (im :: ims)

theorem subLoads_each (W : World) (E : EnvWorld C) (hW : W.envFromFile = getEnvFromFile E)
    (wd L : String) (hL : Include.isAbs L = true) (hb : baseDir wd L = L) (env : Env) (chain : List String) :
    ∀ (cfgs : List IncCfg) (ims : List KVs), subLoads W wd L env chain cfgs = .ok ims →
      AllLoadedOnTheirOwn W E L env chain cfgs ims
  | [], ims, h => by
    simp only [subLoads] at h; cases h; exact .nil
  | r :: rs, ims, h => by
    simp only [subLoads, hb] at h
    obtain ⟨pl, hp, h⟩ := bind_eq_ok h
    obtain ⟨env', he, h⟩ := bind_eq_ok h
    obtain ⟨im, hl, h⟩ := bind_eq_ok h
    obtain ⟨ims', hs, h⟩ := bind_eq_ok h
    cases h
    have hs' : subLoads W wd L env chain rs = .ok ims' := hs
    obtain ⟨efs, ff, es, hef, hpar, hget⟩ := include_env_closed_form W E hW L pl.projDir env env' r.envFile he
    refine .cons ⟨⟨pl, env', efs, ff, es, hp, plan_ok_fresh W L L chain r pl hp, ?_, ?_, hef, hpar, hget, hl⟩⟩
      (subLoads_each W E hW wd L hL hb env chain rs ims' hs')
    · intro p0 rest hpath hex
      exact include_anchor_is_projDir_partial W L chain r pl p0 rest hL hpath hex hp
    · intro p0 rest hpath hpd hex
      exact include_anchor_is_projDir_rel_partial W L chain r pl p0 rest hL hpath hpd hex hp

/-- **include_property**: whenever `ApplyInclude` succeeds for an including project in the absolute directory `L`, there
are the entries of `include:` and, for each, the included project *as loaded on its own* (`LoadedOnItsOwn`: fresh files,
own directory, parent environment completed from its env files) such that the result is the including document with —
for each of services / volumes / networks / secrets / configs and each name — its own definition if it has one, else
the first included project's; other keys untouched; `include` gone -/
theorem include_property (W : World) (E : EnvWorld C) (hW : W.envFromFile = getEnvFromFile E)
    (wd L : String) (hL : Include.isAbs L = true) (hb : baseDir wd L = L) (env : Env) (chain : List String)
    (model r : KVs) (h : applyInclude W wd L env chain model = .ok r) :
    ∃ cfgs ims, loadIncludeConfig (lookup "include" model) = .ok cfgs ∧
      AllLoadedOnTheirOwn W E L env chain cfgs ims ∧
      (∀ k, k ∈ resourceKinds → ∀ n, resourceOf r k n = pastedResource model ims k n) ∧
      (∀ k, k ∉ resourceKinds → k ≠ "include" → lookup k r = lookup k model) ∧
      lookup "include" r = none := by
  obtain ⟨cfgs, ims, hc, hs, hp, ho, hi⟩ := include_eq_paste W wd L env chain model r h
  exact ⟨cfgs, ims, hc, subLoads_each W E hW wd L hL hb env chain cfgs ims hs, hp, ho, hi⟩

/-- the root load: `workingDir` is the local loader's directory -/
theorem include_property_root (W : World) (E : EnvWorld C) (hW : W.envFromFile = getEnvFromFile E)
    (L : String) (hL : Include.isAbs L = true) (env : Env) (chain : List String)
    (model r : KVs) (h : applyInclude W L L env chain model = .ok r) :
    ∃ cfgs ims, loadIncludeConfig (lookup "include" model) = .ok cfgs ∧
      AllLoadedOnTheirOwn W E L env chain cfgs ims ∧
      (∀ k, k ∈ resourceKinds → ∀ n, resourceOf r k n = pastedResource model ims k n) ∧
      (∀ k, k ∉ resourceKinds → k ≠ "include" → lookup k r = lookup k model) ∧
      lookup "include" r = none :=
  include_property W E hW L L hL (baseDir_root L hL) env chain model r h

/-- non-vacuity: `/r/compose.yaml` (service `a`) includes `sub/inc.yaml` (service `b`, image from `${V}` of `sub/.env`);
the hypotheses hold and the call succeeds with both services -/
example :
    let E : EnvWorld (List (String × String)) :=
      { abs := fun p => p, stat := fun p => if p = "/r/sub/.env" then .file else .missing,
        read := fun _ => .ok [("V", "from-dotenv")], parse := fun c _ => .ok c }
    let W : World :=
      { cwd := "/cwd", isDir := fun p => p == "/r" || p == "/r/sub", isFile := fun p => p == "/r/sub/inc.yaml" || p == "/r/sub/.env",
        envFromFile := getEnvFromFile E,
        loadModel := fun _ _ _ env' _ => .ok [("services", .map [("b", .map [("image", .str ((Env.get env' "V").getD "unset"))])])] }
    W.envFromFile = getEnvFromFile E ∧ Include.isAbs "/r" = true ∧
    (match applyInclude W "/r" "/r" [] ["/r/compose.yaml"]
        [("include", .seq [.str "sub/inc.yaml"]), ("services", .map [("a", .map [("image", .str "a")])])] with
      | .ok r => veq (.map r)
          (.map [("services", .map [("a", .map [("image", .str "a")]), ("b", .map [("image", .str "from-dotenv")])])])
      | _ => false) = true := by
  refine ⟨rfl, by decide +kernel, by decide +kernel⟩

/-! ## round 6: the included branch of `loadYamlModel` inside the property

A world whose sub-load ends, like `loadYamlModel` for an included model, with `resolveModelEnv true` on the environment it
was given (`IncludedBranchWorld`; the executable world is one: `loadYaml_is_included_branch`). -/

/-- the sub-load is some load `pre` followed by the last statement of `loadYamlModel` for an included model -/
def IncludedBranchWorld (W : World) (pre : String → String → List String → Env → List String → Out KVs) : Prop :=
  ∀ relwd pd paths env' chain,
    W.loadModel relwd pd paths env' chain = (pre relwd pd paths env' chain).bind fun d => .ok (resolveModelEnv true env' d)

/-- what the resolvers did to one included model `im`, against the same project loaded on its own (`resolveModelEnv false`
of the same pre-model `d` under the same environment `env'`, which extends the including environment `env`) -/
def ResolvedAsOnItsOwn (env : Env) (im : KVs) : Prop :=
  ∃ env' d, Extends env' env ∧ im = resolveModelEnv true env' d ∧
    (∀ k, k ≠ "configs" → lookup k im = lookup k (resolveModelEnv false env' d)) ∧
    resolvedSection (resolveSource secretCarrier env) (lookup "secrets" im) = lookup "secrets" (resolveModelEnv false env' d) ∧
    (NoEqNames env →
      resolvedSection (resolveService env) (lookup "services" im) = lookup "services" (resolveModelEnv false env' d)) ∧
    lookup "configs" im = lookup "configs" d

theorem loadedOnItsOwn_resolved {W : World} {E : EnvWorld C} {pre} (hR : IncludedBranchWorld W pre)
    {L : String} {env : Env} {chain : List String} {r : IncCfg} {im : KVs}
    (h : LoadedOnItsOwn W E L env chain r im) : ResolvedAsOnItsOwn env im := by
  obtain ⟨pl, env', efs, ff, es, _, _, _, _, _, _, hget, hl⟩ := h.ex
  have hx : Extends env' env := by
    intro k v hk
    rw [hget k, hk]
  rw [hR] at hl
  obtain ⟨d, _, hd⟩ := bind_eq_ok hl
  cases hd
  exact ⟨env', d, hx, rfl, fun k hk => included_branch_eq_own_except_configs env' d hk,
    included_secret_survives_parent hx d, fun hn => included_service_survives_parent hx hn d,
    included_branch_configs_untouched env' d⟩

theorem allLoadedOnTheirOwn_resolved {W : World} {E : EnvWorld C} {pre} (hR : IncludedBranchWorld W pre)
    {L : String} {env : Env} {chain : List String} :
    ∀ {cfgs : List IncCfg} {ims : List KVs}, AllLoadedOnTheirOwn W E L env chain cfgs ims →
      ∀ im ∈ ims, ResolvedAsOnItsOwn env im
  | _, _, .nil => by intro im hm; cases hm
  | _, _, .cons h t => by
    intro im hm
    cases hm with
    | head => exact loadedOnItsOwn_resolved hR h
    | tail _ hm' => exact allLoadedOnTheirOwn_resolved hR t im hm'

/-- **include_property_resolved**: `include_property`, plus: every included model that is pasted equals — in services,
volumes, networks, secrets — the included project loaded on its own with the environment the property describes, and the
including model's own final `ResolveEnvironment` (environment `env`) leaves those secrets and services as they are;
its configs are as written (resolved by the including model only: `included_config_eq_paste_partial`) -/
theorem include_property_resolved (W : World) (E : EnvWorld C) (hW : W.envFromFile = getEnvFromFile E)
    (pre : String → String → List String → Env → List String → Out KVs) (hR : IncludedBranchWorld W pre)
    (wd L : String) (hL : Include.isAbs L = true) (hb : baseDir wd L = L) (env : Env) (chain : List String)
    (model r : KVs) (h : applyInclude W wd L env chain model = .ok r) :
    ∃ cfgs ims, loadIncludeConfig (lookup "include" model) = .ok cfgs ∧
      AllLoadedOnTheirOwn W E L env chain cfgs ims ∧
      (∀ im ∈ ims, ResolvedAsOnItsOwn env im) ∧
      (∀ k, k ∈ resourceKinds → ∀ n, resourceOf r k n = pastedResource model ims k n) ∧
      (∀ k, k ∉ resourceKinds → k ≠ "include" → lookup k r = lookup k model) ∧
      lookup "include" r = none := by
  obtain ⟨cfgs, ims, hc, ha, hp, ho, hi⟩ := include_property W E hW wd L hL hb env chain model r h
  exact ⟨cfgs, ims, hc, ha, allLoadedOnTheirOwn_resolved hR ha, hp, ho, hi⟩

/-- non-vacuity: a world whose sub-load resolves a fixed model with the environment it is given is an
`IncludedBranchWorld` -/
example :
    let d : KVs := [("secrets", .map [("s", .map [("environment", .str "V")])])]
    let W : World :=
      { cwd := "/cwd", isDir := fun _ => false, isFile := fun _ => false, envFromFile := fun _ _ => .ok [],
        loadModel := fun _ _ _ env' _ => .ok (resolveModelEnv true env' d) }
    IncludedBranchWorld W (fun _ _ _ _ _ => .ok d) := by
  intro d W relwd pd paths env' chain
  rfl

end CV.Include
