import ComposeVerif.Lemmas.DecodeF
import ComposeVerif.Props.C09Generic
import ComposeVerif.Lemmas.Duration
import ComposeVerif.Gen.Types
import ComposeVerif.Lemmas.AuditCmd
/-!
# C09 — the generic round trip for both renderings, with hand-written codecs composed in

`generic_roundtrip_fmt` generalises `generic_roundtrip` (Props/C09Generic.lean) to the JSON rendering and to types that
contain values of hand-written types (`Leaves`), by composing the separately proved custom round trips.
-/
namespace CV.C09
open CV CV.TypeDesc CV.Marshal CV.Encode CV.Decode CV.Generic CV.GenericF

/-- **generic round trip, YAML and JSON, with leaf codecs**: for every plain type (over the given leaves) and every
    stable value of it, the rendering in that format succeeds and decoding the rendering (always by the yaml tags — the
    loader reads both renderings with the same decoder) gives the value back -/
theorem generic_roundtrip_fmt (env : Env) (fmt : Fmt) (L : Leaves) (hL : LeafSound env fmt L)
    (f : Nat) (ty : TyExpr) (v : Val)
    (hp : GenericF.plainB env fmt L.names f ty = true) (hs : GenericF.Stable env fmt L f ty v) :
    ∃ t, encode env fmt f ty v = .ok t ∧ decode env f ty t = .ok v :=
  let ⟨t, he, hd, _⟩ := generic_roundtrip_aux env fmt L hL f ty v hp hs
  ⟨t, he, hd⟩

/-- no leaves at all -/
def noLeaves : Leaves := { names := [], ok := fun _ _ => False }

theorem noLeaves_sound (env : Env) (fmt : Fmt) : LeafSound env fmt noLeaves := by
  intro n hn; simp [noLeaves] at hn

/-- **the JSON variant of `generic_roundtrip`** -/
theorem generic_roundtrip_json (env : Env) (f : Nat) (ty : TyExpr) (v : Val)
    (hp : GenericF.plainB env .json [] f ty = true) (hs : GenericF.Stable env .json noLeaves f ty v) :
    ∃ t, encode env .json f ty v = .ok t ∧ decode env f ty t = .ok v :=
  generic_roundtrip_fmt env .json noLeaves (noLeaves_sound env .json) f ty v hp hs

/-- the model types of the current source in the scope of the JSON variant (same list as for YAML) -/
theorem plain_model_types_json :
    (["CredentialSpecConfig", "DeviceMapping", "DiscreteGenericResource", "ExtendsConfig", "FileReferenceConfig",
      "ServiceSecretConfig", "ServiceConfigObjConfig", "GenericResource", "Placement", "PlacementPreferences",
      "ServiceDependency", "DependsOnConfig", "ServicePortConfig", "ServiceVolumeBind", "ServiceVolumeVolume", "WeightDevice"].all
      fun n => GenericF.plainB genEnv .json [] 12 (.named n)) = true := by
  decide

/-! ## composing the proved custom round trips: byte sizes and durations as leaves -/

def inInt64 (i : Int) : Prop := -(two63 : Int) ≤ i ∧ i < (two63 : Int)

/-- byte sizes and durations: every int64 value -/
def sizeAndDuration : Leaves :=
  { names := ["UnitBytes", "Duration"], ok := fun _ v => ∃ i : Int, v = .int i ∧ inInt64 i }

theorem sizeAndDuration_sound (env : Env) (fmt : Fmt) : LeafSound env fmt sizeAndDuration := by
  intro n hn f v _ hok _
  obtain ⟨i, hv, hi⟩ := hok
  subst hv
  simp only [sizeAndDuration, List.contains_cons, List.contains_nil, Bool.or_false, Bool.or_eq_true, beq_iff_eq] at hn
  rcases hn with h | h <;> subst h
  · refine ⟨.str (fmtInt i), ?_, ?_, fun _ => by simp⟩
    · cases fmt <;> simp [encode, custom, marshalY_UnitBytes, marshalJ_UnitBytes]
    · have : decode_UnitBytes (.str (fmtInt i)) = .ok (.int i) := by
        simp only [decode_UnitBytes, parseInt64?, parseInt_fmtInt, hi.1, hi.2, and_self, if_true]
      simp [decode, customDecode, this]
  · refine ⟨.str (durString i), ?_, ?_, fun _ => by simp⟩
    · cases fmt <;> simp [encode, custom, marshal_Duration]
    · have : decode_Duration (.str (durString i)) = .ok (.int i) := parseDuration_durString i hi
      simp [decode, customDecode, this]

/-- **types containing byte sizes and durations** round-trip in both renderings (instance of the theorem with the
    two proved custom round trips composed in) -/
theorem generic_roundtrip_with_sizes_and_durations (env : Env) (fmt : Fmt) (f : Nat) (ty : TyExpr) (v : Val)
    (hp : GenericF.plainB env fmt sizeAndDuration.names f ty = true) (hs : GenericF.Stable env fmt sizeAndDuration f ty v) :
    ∃ t, encode env fmt f ty v = .ok t ∧ decode env f ty t = .ok v :=
  generic_roundtrip_fmt env fmt sizeAndDuration (sizeAndDuration_sound env fmt) f ty v hp hs

/-- model types of the current source that come into scope with these two leaves (both renderings) -/
theorem plain_model_types_with_leaves :
    (["ServiceVolumeTmpfs", "ThrottleDevice", "UpdateConfig", "RestartPolicy"].all fun n =>
      GenericF.plainB genEnv .yaml ["UnitBytes", "Duration"] 12 (.named n) &&
      GenericF.plainB genEnv .json ["UnitBytes", "Duration"] 12 (.named n)) = true := by
  decide

end CV.C09

namespace CV.C09
open CV CV.Decode

/-- **extension attributes**: `processExtensions` undoes the encoder's inline splice — on a rendering whose extension
    entries (`x-…` keys) were spliced in front of the struct's own entries (none of which starts with `x-`), it gathers exactly
    those entries under `#extensions`, the key the decoder reads the extension map from, and processes the other values -/
theorem procExt_splice (f : Nat) (ext out : List (String × Val))
    (hext : ∀ p ∈ ext, isExtKey p.1 = true) (hout : ∀ p ∈ out, isExtKey p.1 = false) (hne : ext ≠ []) :
    procExt (f + 1) (.map (ext ++ out)) =
      .map (out.map (fun p => (p.1, procExt f p.2)) ++ [("#extensions", .map ext)]) := by
  have h1 : (ext ++ out).filter (fun p => isExtKey p.1) = ext := by
    rw [List.filter_append, List.filter_eq_self.mpr hext, List.filter_eq_nil_iff.mpr (fun p hp => by simp [hout p hp])]
    simp
  have h2 : (ext ++ out).filter (fun p => !isExtKey p.1) = out := by
    rw [List.filter_append, List.filter_eq_nil_iff.mpr (fun p hp => by simp [hext p hp]),
      List.filter_eq_self.mpr (fun p hp => by simp [hout p hp])]
    simp
  have h3 : ext.isEmpty = false := by
    cases ext with
    | nil => exact absurd rfl hne
    | cons _ _ => rfl
  simp only [procExt, h1, h2, h3, Bool.false_eq_true, if_false]

/-- without extension entries nothing is added -/
theorem procExt_plain (f : Nat) (out : List (String × Val)) (hout : ∀ p ∈ out, isExtKey p.1 = false) :
    procExt (f + 1) (.map out) = .map (out.map (fun p => (p.1, procExt f p.2))) := by
  have h1 : out.filter (fun p => isExtKey p.1) = [] := List.filter_eq_nil_iff.mpr (fun p hp => by simp [hout p hp])
  have h2 : out.filter (fun p => !isExtKey p.1) = out := List.filter_eq_self.mpr (fun p hp => by simp [hout p hp])
  simp [procExt, h1, h2]

example : procExt 3 (.map [("x-a", .int 1), ("image", .str "i")]) = .map [("image", .str "i"), ("#extensions", .map [("x-a", .int 1)])] := by
  rfl

end CV.C09
