import ComposeVerif.Props.C04
import ComposeVerif.Lemmas.UnicityStage
/-!
# C04 — "a single entry per key" holds for the accumulated model after every document, whatever the stages in between do

`processRawYaml` calls `override.EnforceUnicity` twice: after the merge and again after schema validation,
canonicalisation and omit-empty ("Canonical transformation can reveal duplicates").  Those stages belong to other
properties and are the parameter `post` of the model; the theorems here hold for **every** `post`:

* `enforce_idem` / `enforceTop_idem` — `EnforceUnicity` is idempotent on whole trees (a successful result is a fixed point);
* `fixpoint_seq_nodup` — what being a fixed point means: at every keyed-list path the index keys are pairwise distinct;
* `docStepU_deduplicated`, `loadDocsU_deduplicated`, `loadFilesU_deduplicated` — after every document / file the
  accumulated model is such a fixed point, however many files and documents, whatever `post` (short-syntax expansion,
  defaults, …) did to the merged tree;
* `second_enforce_redundant_without_post` — with no stage in between, the second call changes nothing
  (`docStepU .ok = docStep .ok`): it exists only for what `post` reveals;
* `second_enforce_needed` — and it is needed: a `post` that rewrites two entries to the same key (what canonicalisation
  does to `"8080:80"` and its long form) leaves a duplicate without it.
-/
namespace CV.C04
open CV CV.Val CV.Merge CV.Unicity CV.Reset

/-- a de-duplicated keyed list is left alone by a second pass -/
theorem enforce_seq_idem (ix : Indexer) (xs : List Val) (ks : List String) (p : TPath)
    (hp : indexerAt p = some ix) (hk : indexAll ix xs = .ok ks) :
    enforce (.seq (dedup ks xs)) p = .ok (.seq (dedup ks xs)) := by
  have hpairs : ∀ e ∈ dedupKVs (ks.zip xs), index ix e.2 = .ok e.1 := by
    rw [dedupKVs_eq]
    exact foldl_step_all _ _ [] (fun e he => by simp at he) (indexAll_zip ix xs ks hk)
  have h1 : indexAll ix (dedup ks xs) = .ok ((dedupKVs (ks.zip xs)).map Prod.fst) := indexAll_of_pairs ix _ hpairs
  rw [enforce_indexed_seq p ix _ _ hp h1]
  unfold dedup
  rw [zip_fst_snd, unicity_idem]

mutual
/-- **`EnforceUnicity` is idempotent on whole trees**: a successful result is a fixed point -/
theorem enforce_idem : ∀ (v : Val) (p : TPath) (u : Val), enforce v p = .ok u → enforce u p = .ok u
  | .map kvs, p, u, h => by
    simp only [enforce] at h
    obtain ⟨m, hm, h⟩ := out_bind_ok h
    simp only [Out.ok.injEq] at h; subst h
    simp only [enforce, enforceKVs_idem kvs p m hm, Out.bind]
  | .seq xs, p, u, h => by
    simp only [enforce] at h
    cases hp : indexerAt p with
    | none => rw [hp] at h; simp only [Out.ok.injEq] at h; subst h; simp only [enforce, hp]
    | some ix =>
      rw [hp] at h
      obtain ⟨ks, hk, h⟩ := out_bind_ok h
      simp only [Out.ok.injEq] at h; subst h
      exact enforce_seq_idem ix xs ks p hp hk
  | .null, _, u, h => by simp only [enforce, Out.ok.injEq] at h; subst h; simp [enforce]
  | .bool _, _, u, h => by simp only [enforce, Out.ok.injEq] at h; subst h; simp [enforce]
  | .int _, _, u, h => by simp only [enforce, Out.ok.injEq] at h; subst h; simp [enforce]
  | .float _, _, u, h => by simp only [enforce, Out.ok.injEq] at h; subst h; simp [enforce]
  | .str _, _, u, h => by simp only [enforce, Out.ok.injEq] at h; subst h; simp [enforce]
theorem enforceKVs_idem : ∀ (kvs : KVs) (p : TPath) (m : KVs), enforceKVs kvs p = .ok m → enforceKVs m p = .ok m
  | [], _, m, h => by simp only [enforceKVs, Out.ok.injEq] at h; subst h; simp [enforceKVs]
  | (k, e) :: r, p, m, h => by
    simp only [enforceKVs] at h
    obtain ⟨u, hu, h⟩ := out_bind_ok h
    obtain ⟨r', hr, h⟩ := out_bind_ok h
    simp only [Out.ok.injEq] at h; subst h
    simp only [enforceKVs, enforce_idem e (next p k) u hu, enforceKVs_idem r p r' hr, Out.bind]
end

theorem enforceTop_idem (v u : Val) (h : enforceTop v = .ok u) : enforceTop u = .ok u := by
  unfold enforceTop at h
  cases v with
  | map kvs =>
    simp only at h
    have hu := enforce_idem _ _ _ h
    simp only [enforce] at h
    obtain ⟨m, _, h⟩ := out_bind_ok h
    simp only [Out.ok.injEq] at h; subst h
    exact hu
  | _ => simp at h

/-! ### what a fixed point is -/

/-- **meaning of the fixed point**: a keyed list that `EnforceUnicity` leaves alone has pairwise distinct index keys —
"a single entry per key" -/
theorem fixpoint_seq_nodup (ix : Indexer) (xs : List Val) (p : TPath) (hp : indexerAt p = some ix)
    (h : enforce (.seq xs) p = .ok (.seq xs)) : ∃ ks, indexAll ix xs = .ok ks ∧ ks.Nodup := by
  simp only [enforce, hp] at h
  obtain ⟨ks, hk, h⟩ := out_bind_ok h
  simp only [Out.ok.injEq, Val.seq.injEq] at h
  refine ⟨ks, hk, ?_⟩
  have hlen : ks.length = xs.length := indexAll_length ix xs ks hk
  have h1 : (dedupKVs (ks.zip xs)).length = xs.length := by
    have := congrArg List.length h
    simpa [dedup] using this
  have h2 : (keys (dedupKVs (ks.zip xs))).length = xs.length := by simpa [keys] using h1
  rw [dedupKVs_eq, keys_foldl_step] at h2
  have hz : (ks.zip xs).map Prod.fst = ks := by
    rw [List.map_fst_zip]; omega
  rw [hz] at h2
  have h3 : (ks.foldl addKey []).length = xs.length := h2
  exact (nodup_of_length_foldl_addKey ks [] (by simp) (by simp only [List.length_nil]; omega)).1

/-! ### the invariant of the fold over documents and files -/

/-- after the per-document step (both `EnforceUnicity` calls, any stages in between) the accumulated model is a fixed
point of `EnforceUnicity` -/
theorem docStepU_deduplicated (post : Val → Out Val) (dict : Val) (doc : YNode) (r : Val)
    (h : docStepU post dict doc = .ok r) : enforceTop r = .ok r := by
  unfold docStepU docStep at h
  simp only at h
  obtain ⟨m, _, h⟩ := out_bind_ok h
  obtain ⟨u, _, h⟩ := out_bind_ok h
  unfold postU at h
  obtain ⟨w, _, h⟩ := out_bind_ok h
  exact enforceTop_idem w r h

theorem loadDocsU_deduplicated (post : Val → Out Val) : ∀ (docs : List YNode) (dict r : Val),
    enforceTop dict = .ok dict → loadDocsU post dict docs = .ok r → enforceTop r = .ok r := by
  intro docs
  induction docs with
  | nil => intro dict r hd h; simp only [loadDocsU, loadDocs, Out.ok.injEq] at h; subst h; exact hd
  | cons d ds ih =>
    intro dict r _ h
    simp only [loadDocsU, loadDocs] at h
    obtain ⟨dict', h1, h2⟩ := out_bind_ok h
    exact ih dict' r (docStepU_deduplicated post dict d dict' h1) h2

/-- **whole fold**: however many files and `---` documents, and whatever the other stages do, the model the loader
accumulates holds a single entry per key in every keyed list (it is a fixed point of `EnforceUnicity`) -/
theorem loadFilesU_deduplicated (post : Val → Out Val) : ∀ (files : List (List YNode)) (dict r : Val),
    enforceTop dict = .ok dict → loadFilesU post dict files = .ok r → enforceTop r = .ok r := by
  intro files
  induction files with
  | nil => intro dict r hd h; simp only [loadFilesU, loadFiles, Out.ok.injEq] at h; subst h; exact hd
  | cons f fs ih =>
    intro dict r hd h
    simp only [loadFilesU, loadFiles] at h
    obtain ⟨dict', h1, h2⟩ := out_bind_ok h
    exact ih dict' r (loadDocsU_deduplicated post f dict dict' hd h1) h2

/-- the loader starts from the empty mapping, which is a fixed point -/
example : enforceTop (.map []) = .ok (.map []) := rfl

/-- with no stage between the two calls the second one changes nothing -/
theorem second_enforce_redundant_without_post (dict : Val) (doc : YNode) :
    docStepU .ok dict doc = docStep .ok dict doc := by
  unfold docStepU docStep postU
  simp only
  cases merge (applyNull (readDoc doc).2 dict TPath.root) (readDoc doc).1 with
  | ok m =>
    simp only [Out.bind]
    cases hu : enforceTop m with
    | ok u => simp only [enforceTop_idem m u hu]
    | err e => rfl
    | panic s => rfl
  | err e => rfl
  | panic s => rfl

/-- … and it is needed: a later stage that rewrites two entries to one key (canonicalisation expands `"8080:80"` to the
long form an override already spelled) leaves both entries unless `EnforceUnicity` runs again -/
theorem second_enforce_needed :
    let twice : Val := .map [("services", .map [("web", .map [("ports", .seq [
      .map [("target", .int 80), ("published", .str "8080")], .map [("target", .int 80), ("published", .str "8080"), ("mode", .str "host")]])])])]
    let once : Val := .map [("services", .map [("web", .map [("ports", .seq [
      .map [("target", .int 80), ("published", .str "8080"), ("mode", .str "host")]])])])]
    docStep (fun _ => .ok twice) (.map []) (.map .none []) = .ok twice ∧
    docStepU (fun _ => .ok twice) (.map []) (.map .none []) = .ok once := by
  exact ⟨rfl, rfl⟩

end CV.C04
