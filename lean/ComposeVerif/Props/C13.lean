import ComposeVerif.Lemmas.TravInvS
import ComposeVerif.Lemmas.TravLive
import ComposeVerif.Lemmas.TravFair
import ComposeVerif.Lemmas.TravSkip
import ComposeVerif.Lemmas.TravRank
import ComposeVerif.Lemmas.DepGraphProj
import ComposeVerif.Neg.C13
import ComposeVerif.Lemmas.AuditCmd  -- makes sure the audit command is built with this module (the check does not build it itself)
/-!
# C13 — dependency-ordered traversal: once each, after dependencies, bounded, live

Property theorems about `Trav.step?` (the model of `graph.walk`), for **every** finite acyclic graph
(`GraphOK`), every concurrency limit, every root selection (`Graph.skip`), and every schedule
(`Reach` = any interleaving of the primitive steps, any visitor duration, any visitor result, any Go map
iteration order).  Helper lemmas live in `Lemmas/Trav*.lean`.

Reading guide: `s.log` is the ghost log of visitor entries (`Ev.start v`) and returns (`Ev.finish v err`),
newest first; `starts`/`finishes` project it to vertices; `terminal s` = `walk` has returned.
-/
namespace CV.Trav

/-- **once (at most)**: along every schedule the visitor is entered at most once per vertex, returns at most once per
vertex, and is entered only for vertices of the graph that are not skipped by the root selection. -/
theorem once {g : Graph} {lim : Option Nat} (hg : GraphOK g) {s : St} (h : Reach g lim s) :
    (starts s.log).Nodup ∧ (finishes s.log).Nodup ∧
    ∀ v ∈ starts s.log, v ∈ g.verts ∧ g.skip v = false := by
  have hI := (reach_inv hg h).l
  exact ⟨hI.startsNodup, hI.finishesNodup, fun v hv => ⟨hI.startedVerts v hv, (hI.startedWhere v hv).1⟩⟩

/-- **once (exactly), on success**: when `walk` has returned without error (and the caller did not cancel its own
context meanwhile), every vertex that is not skipped (all of them without roots; the roots and their transitive
dependents otherwise) has been entered and has returned; with `once` this is "exactly once". -/
theorem exactly_once_on_success {g : Graph} {lim : Option Nat} (hg : GraphOK g) {s : St} (h : Reach g lim s)
    (ht : terminal s) (hok : s.firstErr = none) (hext : s.extCancelled = false) :
    ∀ v ∈ g.verts, g.skip v = false → v ∈ starts s.log ∧ v ∈ finishes s.log := by
  have hI := reach_inv hg h
  intro v hv hk
  have hnc : s.cancelled = false := by
    rw [hI.e.cancelledIff]
    have := hI.e.firstErrLast
    rw [hok] at this
    cases hx : s.errExits with
    | nil => simp [hext]
    | cons a r =>
      rw [hx] at this
      cases hl : (a :: r).getLast? with
      | some x => rw [hl] at this; cases this
      | none => simp at hl
  have hrecv : v ∈ s.received := by
    rcases hI.s.cDeadWhy ht.2.2 with hc | hall
    · rw [hnc] at hc; cases hc
    · exact hall v hv
  have hvis := hI.a.handed v (.inr hrecv)
  rcases hI.l.visitedFin v hvis with hk' | hf
  · rw [hk] at hk'; cases hk'
  · exact ⟨hI.l.finSubStarts v hf, hf⟩

/-- **after dependencies**: whenever the visitor is entered for `v`, the visitor of every prerequisite of `v`
(dependency; dependent in reverse mode) that is visited at all has already returned — it is found further
down the log. -/
theorem after_deps {g : Graph} {lim : Option Nat} (hg : GraphOK g) {s : St} (h : Reach g lim s)
    (l1 l2 : List Ev) (v : V) (hlog : s.log = l1 ++ Ev.start v :: l2) :
    ∀ d ∈ g.pre v, g.skip d = false → d ∈ finishes l2 := by
  have hok := (reach_inv hg h).l.logOK
  rw [hlog] at hok
  clear hlog
  induction l1 with
  | nil => exact hok.1
  | cons e r ih =>
    cases e with
    | start u => exact ih hok.2
    | finish u b => exact ih hok

/-- a prerequisite that is never visited because of the root selection imposes nothing; one that is visited has
status `visited` before `v` is even claimed (state form of `after_deps`) -/
theorem claimed_after_deps_visited {g : Graph} {lim : Option Nat} (hg : GraphOK g) {s : St} (h : Reach g lim s)
    (v : V) (hv : s.status v ≠ .absent) : ∀ d ∈ g.pre v, s.status d = .visited :=
  (reach_inv hg h).l.depsVisited v (.inr hv)

/-- **bounded**: never more than `n` visitor callbacks in progress under `WithMaxConcurrency(n)` — for every schedule,
error or not.  (Full strength since the repair of DESIGN §10 #12: the coordinator keeps its errgroup slot until the
caller has left the extremities loop; the behaviour of the code before the repair is kept in `Neg/C13.lean`.) -/
theorem bounded {g : Graph} {n : Nat} (hg : GraphOK g) {s : St} (h : Reach g (some n) s) : running s ≤ n := by
  have hI := reach_inv hg h
  have h2 := List.length_filter_le (fun (p : V × WPc) => p.2 == WPc.running) s.workers
  cases ha : s.cAlive with
  | true =>
    have := hI.s.semLe n rfl
    simp only [sem, ha, if_true] at this
    unfold running; omega
  | false =>
    rcases hI.s.cDeadBound ha with hall | ⟨_, hlen⟩
    · have : s.workers.filter (fun p => p.2 == WPc.running) = [] := by
        rw [List.filter_eq_nil_iff]
        rintro ⟨v, pc⟩ hm
        obtain ⟨e, rfl⟩ := hI.a.handedPc v pc (.inr (hall v (hI.b.wkVerts v pc hm))) hm
        simp
      unfold running; rw [this]; exact Nat.zero_le _
    · have := hlen n rfl
      unfold running; omega

/-- **deadlock-free**: every reachable state that is not terminal has an enabled step — in particular a worker
that finished is never forgotten by the coordinator (no lost wake-up), whatever the completion order. -/
theorem deadlock_free {g : Graph} {lim : Option Nat} (hg : GraphOK g) (hl : ∀ n, lim = some n → 1 ≤ n)
    {s : St} (h : Reach g lim s) : terminal s ∨ ∃ l s', step? g lim s l = some s' :=
  let hI := reach_inv hg h
  deadlock_free_inv g hg lim hl s hI.a hI.b

/-- **terminates**: every schedule is finite — a run of `k` steps from a reachable state lowers the measure `mu`
by at least `k`, so no run from the initial state is longer than `mu g (init g)`. -/
theorem terminates {g : Graph} {lim : Option Nat} (hg : GraphOK g) {s s' : St} (h : Reach g lim s)
    (ls : List Label) (hr : runL g lim s ls = some s') : ls.length + mu g s' ≤ mu g s := by
  induction ls generalizing s with
  | nil => simp [runL] at hr; subst hr; simp
  | cons l r ih =>
    simp only [runL] at hr
    cases hs : step? g lim s l with
    | none => simp [hs] at hr
    | some s1 =>
      simp [hs] at hr
      have hI := reach_inv hg h
      have hd := mu_decreases hg hI.a hI.b (step?_sound hs)
      have := ih (.step h hs) hr
      simp only [List.length_cons]; omega

/-- a schedule that cannot be extended has ended with `walk` returned (liveness = `terminates` + this) -/
theorem maximal_run_is_terminal {g : Graph} {lim : Option Nat} (hg : GraphOK g) (hl : ∀ n, lim = some n → 1 ≤ n)
    {s : St} (h : Reach g lim s) (hmax : ∀ l, step? g lim s l = none) : terminal s := by
  rcases deadlock_free hg hl h with ht | ⟨l, s', hs⟩
  · exact ht
  · rw [hmax l] at hs; cases hs

/-- **complete on success**: `walk` returned nil ⇒ every vertex went through the whole life cycle (visited and
received by the coordinator). -/
theorem terminal_complete {g : Graph} {lim : Option Nat} (hg : GraphOK g) {s : St} (h : Reach g lim s)
    (ht : terminal s) (hnc : s.cancelled = false) : ∀ v ∈ g.verts, s.status v = .visited ∧ v ∈ s.received := by
  have hI := reach_inv hg h
  intro v hv
  rcases hI.s.cDeadWhy ht.2.2 with hc | hall
  · rw [hnc] at hc; cases hc
  · exact ⟨hI.a.handed v (.inr (hall v hv)), hall v hv⟩

/-- **returns after all visits**: when `walk` has returned, every visitor callback that was entered has returned. -/
theorem returns_after_all_visits {g : Graph} {lim : Option Nat} (hg : GraphOK g) {s : St} (h : Reach g lim s)
    (ht : terminal s) : ∀ v ∈ starts s.log, v ∈ finishes s.log := by
  have hI := reach_inv hg h
  intro v hv
  rcases (hI.l.startedWhere v hv).2 with hf | hw
  · exact hf
  · rw [ht.2.1] at hw; cases hw

/-- **result = first error**: the value `walk` returns (`firstErr`) is `none` exactly when no failing visit was
handed to the errgroup, otherwise it is the *first* such visit, and that visit's callback really returned an error;
the group's context is cancelled exactly by such an error or by the caller (`extCancel`); at termination `none` means
no visitor failed at all. -/
theorem result_first_error {g : Graph} {lim : Option Nat} (hg : GraphOK g) {s : St} (h : Reach g lim s) :
    s.firstErr = s.errExits.getLast? ∧
    (∀ v, s.firstErr = some v → Ev.finish v true ∈ s.log) ∧
    (s.cancelled = true ↔ s.firstErr ≠ none ∨ s.extCancelled = true) ∧
    (terminal s → s.firstErr = none → ∀ v, Ev.finish v true ∉ s.log) := by
  have hI := reach_inv hg h
  have hfl := hI.e.firstErrLast
  refine ⟨hfl, ?_, ?_, ?_⟩
  · intro v hv
    rw [hfl] at hv
    exact hI.e.errExitsFin v (List.mem_of_getLast? hv)
  · rw [hI.e.cancelledIff, hfl]
    cases hx : s.errExits with
    | nil => simp
    | cons a r =>
      cases hl : (a :: r).getLast? with
      | some x => simp
      | none => simp at hl
  · intro ht hnone v hv
    rcases hI.e.errAccounted v hv with ⟨pc, hpc, _⟩ | hx
    · rw [ht.2.1] at hpc; cases hpc
    · rw [hfl] at hnone
      cases hxs : s.errExits with
      | nil => rw [hxs] at hx; cases hx
      | cons a r =>
        rw [hxs] at hnone
        cases hl : (a :: r).getLast? with
        | some x => rw [hl] at hnone; cases hnone
        | none => simp at hl

/-! ### round 5: liveness that does not lean on the environment, completion, no overlap, exact counts -/

/-- **progress of `walk` itself**: in every reachable state `walk` has returned, or one of its own goroutines can take a
step (`internal`: every label but a visitor's return and the caller's cancellation), or a visitor callback is in
progress — and that visitor may return, with either result.  So `walk` never waits for anything but a visitor:
no lost wake-up, no full channel, no errgroup slot that nobody frees; on the success path, after an error, after a
cancellation, with or without skipped (root-selection) vertices.  (`deadlock_free` alone would also be satisfied by the
environment step `extCancel`.) -/
theorem progress_internal {g : Graph} {lim : Option Nat} (hg : GraphOK g) (hl : ∀ n, lim = some n → 1 ≤ n)
    {s : St} (h : Reach g lim s) :
    terminal s ∨ (∃ l s', internal l = true ∧ step? g lim s l = some s') ∨
    (∃ v, wpc s.workers v = some .running ∧ ∀ e, ∃ s', step? g lim s (.wReturn v e) = some s') := by
  have hI := reach_inv hg h
  rcases progress_inv g hg lim hl s hI.a hI.b with ht | hi | ⟨v, hv⟩
  · exact .inl ht
  · exact .inr (.inl hi)
  · exact .inr (.inr ⟨v, hv, fun e => running_can_return g lim s v e hv⟩)

/-- **liveness under fairness**: a schedule that is fair to `walk` (no internal step is left enabled) and in which every
visitor that was entered has returned (no visitor in progress) has ended with `walk` returned.  Together with
`terminates` (no infinite schedule): under a fair scheduler and visitors that return, `walk` returns. -/
theorem fair_maximal_run_is_terminal {g : Graph} {lim : Option Nat} (hg : GraphOK g) (hl : ∀ n, lim = some n → 1 ≤ n)
    {s : St} (h : Reach g lim s) (hint : ∀ l, internal l = true → step? g lim s l = none)
    (hvis : ∀ v, wpc s.workers v ≠ some .running) : terminal s := by
  rcases progress_internal hg hl h with ht | ⟨l, s', hi, hs⟩ | ⟨v, hv, _⟩
  · exact ht
  · rw [hint l hi] at hs; cases hs
  · exact absurd hv (hvis v)

/-- **every reachable state can be completed** without an error and without a cancellation: there is a continuation
(every visitor still in progress returns nil, nobody cancels) of at most `mu g s` steps after which `walk` has
returned.  No reachable state is doomed. -/
theorem every_state_can_finish {g : Graph} {lim : Option Nat} (hg : GraphOK g) (hl : ∀ n, lim = some n → 1 ≤ n)
    {s : St} (h : Reach g lim s) :
    ∃ ls s', runL g lim s ls = some s' ∧ terminal s' ∧ ls.length ≤ mu g s ∧ ls.all calm = true :=
  can_finish hg hl (mu g s) s h (Nat.le_refl _)

/-- **no overlap with prerequisites** (state form of `after_deps`, for every moment and not only visitor entry): while
a worker of `v` exists (from `eg.Go` to its exit — in particular while `v`'s visitor runs), every prerequisite `d` of `v`
that still has a worker is past `t.done` (`marked` / `sent`): its visitor has returned. -/
theorem no_overlap_with_deps {g : Graph} {lim : Option Nat} (hg : GraphOK g) {s : St} (h : Reach g lim s)
    (v : V) (pc : WPc) (hv : (v, pc) ∈ s.workers) (d : V) (hd : d ∈ g.pre v) (pcd : WPc) (hdw : (d, pcd) ∈ s.workers) :
    ∃ e, pcd = .marked e ∨ pcd = .sent e :=
  let hI := reach_inv hg h
  worker_pre_done hI.a (fun u hu => hI.l.depsVisited u (.inr hu)) v pc hv d hd pcd hdw

/-- **exact counts on success**: when `walk` returned nil (and the caller did not cancel), the visitor was entered
exactly once for every vertex the root selection keeps and never for a vertex it skips; skipped vertices still went
through the whole hand-off (status `visited`, received by the coordinator) — the ignored-node path is live. -/
theorem exact_counts_on_success {g : Graph} {lim : Option Nat} (hg : GraphOK g) {s : St} (h : Reach g lim s)
    (ht : terminal s) (hok : s.firstErr = none) (hext : s.extCancelled = false) :
    ∀ v ∈ g.verts, (starts s.log).count v = (if g.skip v then 0 else 1) ∧
                   (finishes s.log).count v = (if g.skip v then 0 else 1) ∧
                   s.status v = .visited ∧ v ∈ s.received := by
  intro v hv
  have ⟨hn1, hn2, hwhere⟩ := once hg h
  have hfs : ∀ u ∈ finishes s.log, u ∈ starts s.log := (reach_inv hg h).l.finSubStarts
  have hnc : s.cancelled = false := by
    have h3 := (result_first_error hg h).2.2.1
    cases hc : s.cancelled with
    | false => rfl
    | true =>
      rcases h3.mp hc with h' | h'
      · exact absurd hok h'
      · rw [hext] at h'; cases h'
  have ⟨hvis, hrecv⟩ := terminal_complete hg h ht hnc v hv
  cases hk : g.skip v with
  | true =>
    have hns : v ∉ starts s.log := fun hm => by have := (hwhere v hm).2; rw [hk] at this; cases this
    have hnf : v ∉ finishes s.log := fun hm => hns (hfs v hm)
    simp [List.count_eq_zero.mpr hns, List.count_eq_zero.mpr hnf, hvis, hrecv]
  | false =>
    have ⟨hs, hf⟩ := exactly_once_on_success hg h ht hok hext v hv hk
    have c1 : (starts s.log).count v = 1 :=
      Nat.le_antisymm (List.nodup_iff_count.mp hn1 v) (List.count_pos_iff.mpr hs)
    have c2 : (finishes s.log).count v = 1 :=
      Nat.le_antisymm (List.nodup_iff_count.mp hn2 v) (List.count_pos_iff.mpr hf)
    simp [c1, c2, hvis, hrecv]

/-- **the error path is live and exact**: whenever `walk` has returned, whatever happened (errors, cancellation), every
visitor that was entered has returned exactly once, no vertex was entered twice, and the value returned is `nil`
exactly when no failing visit reached the errgroup — otherwise the first one. -/
theorem outcome_on_return {g : Graph} {lim : Option Nat} (hg : GraphOK g) {s : St} (h : Reach g lim s) (ht : terminal s) :
    (∀ v, (starts s.log).count v = (finishes s.log).count v ∧ (starts s.log).count v ≤ 1) ∧
    (s.firstErr = none ↔ ∀ v, Ev.finish v true ∉ s.log) := by
  have ⟨hn1, hn2, _⟩ := once hg h
  have hfs : ∀ u ∈ finishes s.log, u ∈ starts s.log := (reach_inv hg h).l.finSubStarts
  have hret := returns_after_all_visits hg h ht
  have hres := result_first_error hg h
  refine ⟨fun v => ⟨?_, List.nodup_iff_count.mp hn1 v⟩, ⟨hres.2.2.2 ht, ?_⟩⟩
  · by_cases hm : v ∈ starts s.log
    · have a := List.count_pos_iff.mpr hm
      have b := List.count_pos_iff.mpr (hret v hm)
      have c := List.nodup_iff_count.mp hn1 v
      have d := List.nodup_iff_count.mp hn2 v
      omega
    · have hm2 : v ∉ finishes s.log := fun x => hm (hfs v x)
      rw [List.count_eq_zero.mpr hm, List.count_eq_zero.mpr hm2]
  · intro hno
    cases hf : s.firstErr with
    | none => rfl
    | some v => exact absurd (hres.2.1 v hf) (hno v)

/-! ### non-vacuity: a concrete diamond graph satisfies the hypotheses and has a complete successful run -/

/-- diamond: 3 depends on 1 and 2, which depend on 0 -/
def diamond : Graph :=
  { verts := [0, 1, 2, 3]
    pre := fun v => if v = 1 then [0] else if v = 2 then [0] else if v = 3 then [1, 2] else []
    post := fun v => if v = 0 then [1, 2] else if v = 1 then [3] else if v = 2 then [3] else []
    skip := fun _ => false }

example : GraphOK diamond where
  nodup := by decide
  nonempty := by decide
  pre_mem := by decide
  post_mem := by decide
  pre_post := by decide
  rank := ⟨fun v => v, by decide⟩

/-- a full schedule of the diamond under `WithMaxConcurrency(1)`: 0, then 2 and 1 one after the other, then 3 -/
def diamondRun : List Label :=
  [.schedNext .M 0, .ready .M, .enter .M, .spawn .M, .schedEnd .M,
   .wBegin 0, .wReturn 0 false, .wDone 0, .wSend 0, .wExit 0,
   .cRecv, .schedNext .C 2, .ready .C, .enter .C, .spawn .C, .schedNext .C 1, .ready .C, .enter .C,
   .wBegin 2, .wReturn 2 false, .wDone 2, .wSend 2, .wExit 2, .spawn .C, .schedEnd .C,
   .cRecv, .schedNext .C 3, .ready .C, .schedEnd .C,
   .wBegin 1, .wReturn 1 false, .wDone 1, .wSend 1, .wExit 1,
   .cRecv, .schedNext .C 3, .ready .C, .enter .C, .spawn .C, .schedEnd .C,
   .wBegin 3, .wReturn 3 false, .wDone 3, .wSend 3, .wExit 3, .cRecv]

/-- the hypotheses of `exactly_once_on_success` / `terminal_complete` are satisfiable: the run above is a schedule of
the model that ends terminal without error, having visited 0, 2, 1, 3 in an admissible order -/
example : (runL diamond (some 1) (init diamond) diamondRun).map
    (fun s => (decide (terminal s), s.firstErr, s.cancelled, (starts s.log).reverse, (finishes s.log).reverse))
    = some (true, none, false, [0, 2, 1, 3], [0, 2, 1, 3]) := by decide

/-- … and a failing visitor: 0 fails, `walk` still terminates, returns that error, and 1, 2, 3 are never visited -/
example : (runL diamond none (init diamond)
    [.schedNext .M 0, .ready .M, .enter .M, .spawn .M, .schedEnd .M,
     .wBegin 0, .wReturn 0 true, .wDone 0, .wSend 0, .wExit 0, .cCtxDone]).map
    (fun s => (decide (terminal s), s.firstErr, (starts s.log).reverse))
    = some (true, some 0, [0]) := by decide

/-- why `exactly_once_on_success` needs `extCancelled = false`: if the caller cancels its own context the coordinator
may leave, `walk` returns nil, and services 1, 2, 3 have never been visited (outside the property, inside the model) -/
example : (runL diamond none (init diamond)
    [.schedNext .M 0, .ready .M, .enter .M, .spawn .M, .schedEnd .M, .extCancel, .cCtxDone,
     .wBegin 0, .wReturn 0 false, .wDone 0, .wSend 0, .wExit 0]).map
    (fun s => (decide (terminal s), s.firstErr, s.extCancelled, (starts s.log).reverse))
    = some (true, none, true, [0]) := by decide

/-- the measure of `terminates` on the diamond: no schedule has more than 54 steps (the complete run above has 46) -/
example : mu diamond (init diamond) = 54 ∧ diamondRun.length = 46 := by decide

/-- non-vacuity for `exact_counts_on_success` on the ignored-node path: 1 depends on 0, the root selection keeps only 1;
0 goes through the whole life cycle without its visitor being entered, 1 is visited exactly once -/
def chainSkip : Graph :=
  { verts := [0, 1], pre := fun v => if v = 1 then [0] else [], post := fun v => if v = 0 then [1] else [],
    skip := fun v => v == 0 }

example : GraphOK chainSkip :=
  ⟨by decide, by decide, by decide, by decide, by decide, ⟨fun v => v, by decide⟩⟩

example : (runL chainSkip (some 1) (init chainSkip)
    [.schedNext .M 0, .ready .M, .enter .M, .spawn .M, .schedEnd .M, .wBegin 0, .wDone 0, .wSend 0, .wExit 0,
     .cRecv, .schedNext .C 1, .ready .C, .enter .C, .spawn .C, .schedEnd .C,
     .wBegin 1, .wReturn 1 false, .wDone 1, .wSend 1, .wExit 1, .cRecv]).map
    (fun s => (decide (terminal s) && s.firstErr.isNone && !s.extCancelled && decide (s.status 0 = .visited),
               (starts s.log).count 0, (starts s.log).count 1, s.received))
    = some (true, 0, 1, [1, 0]) := by decide

/-- non-vacuity for the third alternative of `progress_internal`: with the only visitor in progress nothing else can
move (coordinator at `select` on an empty channel, caller in `eg.Wait`) — `walk` waits for the visitor and only for it -/
example : (runL chainSkip none (init chainSkip)
    [.schedNext .M 0, .ready .M, .enter .M, .spawn .M, .schedEnd .M, .wBegin 0, .wDone 0, .wSend 0, .wExit 0,
     .cRecv, .schedNext .C 1, .ready .C, .enter .C, .spawn .C, .schedEnd .C, .wBegin 1]).map
    (fun s => (decide (terminal s), wpc s.workers 1,
               (step? chainSkip none s .cRecv).isSome || (step? chainSkip none s .cCtxDone).isSome ||
               (step? chainSkip none s (.schedEnd .C)).isSome || (step? chainSkip none s (.wDone 1)).isSome,
               (step? chainSkip none s (.wReturn 1 true)).isSome))
    = some (false, some .running, false, true) := by decide

end CV.Trav

/-! ## Graph construction: cycles are refused before any visit, the project is not modified

Model: `DepGraph.run` = `newGraph` followed by `checkCycle`, everything `CollectInDependencyOrder` does before `walk`
is called (so "refused" = no visitor is ever entered: `walk` is not reached). -/
namespace CV.DepGraph

/-- **cyclic ⇒ refused**: on any finite vertex set closed under the adjacency, a closed walk through some vertex makes
`checkCycle` answer "cycle" (the depth-first search with fuel `|V| + 1` cannot miss it). -/
theorem cyclic_refused (adj : Name → List Name) (verts : List Name)
    (hclosed : ∀ v ∈ verts, ∀ c ∈ adj v, c ∈ verts) (v : Name) (hv : v ∈ verts) (n : Nat) (h : Reaches adj n v v) :
    checkCycle verts adj = true :=
  checkCycle_complete adj verts hclosed v hv n h

/-- **acyclic ⇒ accepted**, and the hypothesis of the traversal theorems is the right one: a graph with a rank function
(`Trav.GraphOK.rank`) passes `checkCycle`; conversely whatever `checkCycle` reports is a real closed walk. -/
theorem acyclic_accepted (adj : Name → List Name) (verts : List Name) :
    (∀ rk : Name → Nat, (∀ v c, c ∈ adj v → rk c < rk v) → checkCycle verts adj = false) ∧
    (checkCycle verts adj = true → ∃ x n, Reaches adj n x x) :=
  ⟨fun rk hrk => checkCycle_accepts_ranked adj verts rk hrk, checkCycle_sound adj verts⟩

/-- **project unmodified** (full strength since `fix:` 3143716; the hypothesis "no service depends on itself and
optionally on a service that is not enabled" is gone): the caller's project is left as it was, whatever the outcome.
Pre-fix witnesses: `Neg/C13.lean` (`runOld`). -/
theorem project_unmodified (p : Proj) : (run p).changed = [] :=
  project_unmodified_full p

/-- **a self dependency is refused in every iteration order** (was order dependent next to an optional missing
dependency): if service `s` lists itself, the outcome is not "ok" -/
theorem self_dependency_refused (s : Svc) (dis : List Name) (hself : ∃ d ∈ s.deps, d.name = s.name) :
    (run ⟨[s], dis⟩).cls ≠ "ok" := by
  obtain ⟨d, hd, hn⟩ := hself
  simp only [run, List.map_cons, List.map_nil, build]
  have key : ∀ (l : List Dep) (es : List Name), (d ∈ l ∨ s.name ∈ es) →
      (scanDeps [s.name] dis l es).1 ≠ none ∨ s.name ∈ (scanDeps [s.name] dis l es).2 := by
    intro l
    induction l with
    | nil => intro es h; rcases h with h | h; cases h; exact .inr h
    | cons x r ih =>
      intro es h
      simp only [scanDeps]
      split
      · apply ih
        rcases h with h | h
        · rcases List.mem_cons.mp h with rfl | h'
          · right; rw [hn]; simp
          · exact .inl h'
        · right; simp [h]
      · rename_i hx
        split
        · left; simp
        · apply ih
          rcases h with h | h
          · rcases List.mem_cons.mp h with rfl | h'
            · rw [hn] at hx; simp at hx
            · exact .inl h'
          · exact .inr h
  rcases hs : scanDeps [s.name] dis s.deps [] with ⟨e, es⟩
  have := key s.deps [] (.inl hd)
  rw [hs] at this
  cases e with
  | some e => cases e <;> simp
  | none =>
    simp only [ne_eq, not_true_eq_false, false_or] at this
    simp only [build, List.nil_append]
    have hc : checkCycle [s.name] (adjOf [(s.name, es)]) = true := by
      simp only [checkCycle, List.any_cons, List.any_nil, Bool.or_false, List.length_cons, List.length_nil]
      simp only [searchCycle, adjOf, List.find?, beq_self_eq_true, List.any_eq_true]
      exact ⟨s.name, this, by simp⟩
    simp [hc]

/-- **a cyclic project is refused before any visit** (project level): `depAdj p` is the dependency graph the property
speaks about — each service's dependencies that are enabled services.  If it has a closed walk through a service,
`newGraph` + `checkCycle` never answer "ok" (a missing required dependency is reported first, or the cycle is found), so
`walk` is not reached and no visitor is called.  Holds for every iteration order: `run` is applied to the lists as given,
and the statement quantifies over all of them. -/
theorem cyclic_project_refused (p : Proj) (v : Name) (hv : v ∈ p.services.map (·.name)) (n : Nat)
    (h : Reaches (depAdj p) n v v) : (run p).cls ≠ "ok" :=
  cyclic_project_refused_lemma p v hv n h

/-- **accepted ⇔ acyclic** when no required dependency is missing (`build` reports no error): the graph `newGraph`
hands to `walk` is exactly `depAdj p` (`build_is_depAdj`), it is accepted iff it has no closed walk, and then it has a
rank function — the hypothesis `GraphOK.rank` under which all traversal theorems are proved. -/
theorem accepted_iff_acyclic (p : Proj)
    (hb : (build (p.services.map (·.name)) p.disabled p.services []).1 = none) :
    ((run p).cls = "ok" ↔ ∀ v ∈ p.services.map (·.name), ∀ n, ¬ Reaches (depAdj p) n v v) ∧
    ((run p).cls = "ok" → ∃ rk : Name → Nat, ∀ v ∈ p.services.map (·.name), ∀ c ∈ depAdj p v, rk c < rk v) := by
  have hiff : (run p).cls = "ok" ↔ ∀ v ∈ p.services.map (·.name), ∀ n, ¬ Reaches (depAdj p) n v v := by
    constructor
    · intro hok v hv n hr
      exact cyclic_project_refused_lemma p v hv n hr hok
    · exact acyclic_project_accepted_lemma p hb
  refine ⟨hiff, ?_⟩
  intro hok
  obtain ⟨rk, hrk, _⟩ := CV.Trav.rank_of_acyclic (depAdj p) _ (depAdj_closed p) (hiff.mp hok)
  exact ⟨rk, hrk⟩

/-- non-vacuity for the two theorems above: a 3-cycle behind an entry service that sorts first (the shape seed C13-2
hid from the search) is refused; the same services without the back edge are accepted -/
example : (run ⟨[⟨0, [⟨1, true⟩]⟩, ⟨1, [⟨2, true⟩]⟩, ⟨2, [⟨1, true⟩]⟩], []⟩).cls = "cycle" ∧
          (run ⟨[⟨0, [⟨1, true⟩]⟩, ⟨1, [⟨2, true⟩]⟩, ⟨2, []⟩], []⟩).cls = "ok" := by decide

/-- non-vacuity: a chain 2 → 1 → 0 with an optional dependency on a missing service satisfies the hypothesis, is
accepted and unmodified; closing the chain into a cycle is refused -/
example : (run ⟨[⟨0, [⟨9, false⟩]⟩, ⟨1, [⟨0, true⟩]⟩, ⟨2, [⟨1, true⟩]⟩], []⟩) = ⟨"ok", []⟩ ∧
          (run ⟨[⟨0, [⟨2, true⟩]⟩, ⟨1, [⟨0, true⟩]⟩, ⟨2, [⟨1, true⟩]⟩], []⟩) = ⟨"cycle", []⟩ := by decide

end CV.DepGraph

namespace CV.Trav
open CV.DepGraph (Reaches)

/-- **root selection** (`WithRootNodesAndDown`): on an acyclic dependency graph the visitor is called for a service iff
no roots were given, or it is a root, or it transitively depends on a root.  (`verts.length` is the recursion bound
the model of `vertex.descendents` is run with.) -/
theorem roots_select_dependents (deps : V → List V) (verts : List V) (after : List V) (v : V)
    (hclosed : ∀ v ∈ verts, ∀ c ∈ deps v, c ∈ verts) (hacyc : ∀ v ∈ verts, ∀ n, ¬ Reaches deps n v v) (hv : v ∈ verts) :
    skipOf deps verts.length after v = false ↔ after = [] ∨ v ∈ after ∨ ∃ r ∈ after, ∃ n, Reaches deps n v r := by
  obtain ⟨rk, hrk, hle⟩ := rank_of_acyclic deps verts hclosed hacyc
  rw [skipOf_false_iff]
  constructor
  · rintro (h | h | ⟨r, hr, n, _, hn⟩)
    · exact .inl h
    · exact .inr (.inl h)
    · exact .inr (.inr ⟨r, hr, n, hn⟩)
  · rintro (h | h | ⟨r, hr, n, hn⟩)
    · exact .inl h
    · exact .inr (.inl h)
    · have := acyclic_of_rank deps verts hclosed rk hrk hn hv
      exact .inr (.inr ⟨r, hr, n, by have := hle v; omega, hn⟩)

/-- **acyclic = ranked = accepted**: for a finite vertex set closed under the adjacency, "no closed walk" (what
`checkCycle` decides) and "a rank function exists" (`GraphOK.rank`, the hypothesis of every traversal theorem above) are
the same thing, and whatever `checkCycle` accepts has a rank function bounded by the number of vertices. -/
theorem acyclic_ranked_accepted (adj : V → List V) (verts : List V) (hclosed : ∀ v ∈ verts, ∀ c ∈ adj v, c ∈ verts) :
    ((∀ v ∈ verts, ∀ n, ¬ Reaches adj n v v) ↔ ∃ rk : V → Nat, ∀ v ∈ verts, ∀ c ∈ adj v, rk c < rk v) ∧
    (CV.DepGraph.checkCycle verts adj = false →
      ∃ rk : V → Nat, (∀ v ∈ verts, ∀ c ∈ adj v, rk c < rk v) ∧ ∀ v, rk v ≤ verts.length) :=
  ⟨acyclic_iff_ranked adj verts hclosed, ranked_of_checkCycle_false adj verts hclosed⟩

/-- non-vacuity: chain 2 → 1 → 0 (2 depends on 1 depends on 0), root 1: 0 is skipped, 1 and 2 are visited -/
example : let deps : V → List V := fun v => if v = 2 then [1] else if v = 1 then [0] else []
    (skipOf deps 3 [1] 0, skipOf deps 3 [1] 1, skipOf deps 3 [1] 2) = (true, false, false) := by decide

end CV.Trav
