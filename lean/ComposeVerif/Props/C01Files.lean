import ComposeVerif.Model.C01Files
/-!
# C01 — a missing or unreadable `env_file` / `label_file` is an error naming it (optional env files excepted)

For every state of the disk, every list of files: `resolveService` answers ok only if every label file and every
required env file is a readable file that parses, and every optional env file is either absent or such a file; an error
names a path of the service's lists at which the disk is not a parsable file; an absent optional env file alone never
causes an error.  Tie: stream `c01files` (real `WithServicesEnvironmentResolved` / `WithServicesLabelsResolved` on a
materialised directory), and the whole-load streams `missing/…` and `unreadable/…`.
-/
namespace CV.C01
open CV.C01.Files

theorem loadEnvFiles_ok_sound (fs : String → Disk) : ∀ (es : List EnvFile) (acc l : List String),
    loadEnvFiles fs es acc = .ok l →
      ∀ e ∈ es, fs e.path = .file true ∨ (e.required = false ∧ isMissing (fs e.path) = true)
  | [], _, _, _, e, he => by cases he
  | x :: r, acc, l, h, e, he => by
    unfold loadEnvFiles at h
    by_cases hm : isMissing (fs x.path) = true
    · simp only [hm, if_true] at h
      by_cases hr : x.required = true
      · simp [hr] at h
      · simp only [hr] at h
        cases he with
        | head => exact .inr ⟨by simpa using hr, hm⟩
        | tail _ he' => exact loadEnvFiles_ok_sound fs r acc l h e he'
    · simp only [hm] at h
      cases hd : fs x.path with
      | file b =>
        cases b with
        | true =>
          simp only [hd, loadMappingFile] at h
          cases he with
          | head => exact .inl hd
          | tail _ he' => exact loadEnvFiles_ok_sound fs r _ l h e he'
        | false => simp [hd, loadMappingFile] at h
      | absent => simp [hd, isMissing] at hm
      | parentIsFile => simp [hd, isMissing] at hm
      | directory => simp [hd, loadMappingFile] at h
      | unreadable => simp [hd, loadMappingFile] at h

theorem loadLabelFiles_ok_sound (fs : String → Disk) : ∀ (ps : List String) (acc l : List String),
    loadLabelFiles fs ps acc = .ok l → ∀ p ∈ ps, fs p = .file true
  | [], _, _, _, p, hp => by cases hp
  | x :: r, acc, l, h, p, hp => by
    unfold loadLabelFiles at h
    by_cases hm : isMissing (fs x) = true
    · simp [hm] at h
    · simp only [hm] at h
      cases hd : fs x with
      | file b =>
        cases b with
        | true =>
          simp only [hd, loadMappingFile] at h
          cases hp with
          | head => exact hd
          | tail _ hp' => exact loadLabelFiles_ok_sound fs r _ l h p hp'
        | false => simp [hd, loadMappingFile] at h
      | absent => simp [hd, isMissing] at hm
      | parentIsFile => simp [hd, isMissing] at hm
      | directory => simp [hd, loadMappingFile] at h
      | unreadable => simp [hd, loadMappingFile] at h

/-- `files_missing_or_unreadable_err` (contrapositive form): the service resolves only if nothing it needs is missing
or unreadable — every label file and every required env file is a file that parses, an optional env file is that or absent -/
theorem files_missing_or_unreadable_err (fs : String → Disk) (envFiles : List EnvFile) (labelFiles : List String) (l : List String)
    (h : resolveService fs false envFiles labelFiles = .ok l) :
    (∀ e ∈ envFiles, fs e.path = .file true ∨ (e.required = false ∧ isMissing (fs e.path) = true)) ∧
    (∀ p ∈ labelFiles, fs p = .file true) := by
  unfold resolveService at h
  simp only [Bool.false_eq_true, if_false] at h
  cases h1 : loadEnvFiles fs envFiles [] with
  | err c p => rw [h1] at h; cases h
  | ok l1 =>
    rw [h1] at h
    cases h2 : loadLabelFiles fs labelFiles [] with
    | err c p => rw [h2] at h; cases h
    | ok l2 => exact ⟨loadEnvFiles_ok_sound fs envFiles [] l1 h1, loadLabelFiles_ok_sound fs labelFiles [] l2 h2⟩

theorem loadEnvFiles_err_names (fs : String → Disk) : ∀ (es : List EnvFile) (acc : List String) (c p : String),
    loadEnvFiles fs es acc = .err c p → ∃ e ∈ es, e.path = p ∧ fs p ≠ .file true ∧ (isMissing (fs p) = true → e.required = true)
  | [], _, _, _, h => by simp [loadEnvFiles] at h
  | x :: r, acc, c, p, h => by
    unfold loadEnvFiles at h
    by_cases hm : isMissing (fs x.path) = true
    · simp only [hm, if_true] at h
      by_cases hr : x.required = true
      · simp only [hr, if_true, Out.err.injEq] at h
        refine ⟨x, List.mem_cons_self .., h.2, ?_, fun _ => hr⟩
        rw [← h.2]; intro e; rw [e] at hm; simp [isMissing] at hm
      · simp only [hr] at h
        obtain ⟨e, he, h1, h2, h3⟩ := loadEnvFiles_err_names fs r acc c p h
        exact ⟨e, List.mem_cons_of_mem _ he, h1, h2, h3⟩
    · simp only [hm] at h
      cases hd : fs x.path with
      | file b =>
        cases b with
        | true =>
          simp only [hd, loadMappingFile] at h
          obtain ⟨e, he, h1, h2, h3⟩ := loadEnvFiles_err_names fs r _ c p h
          exact ⟨e, List.mem_cons_of_mem _ he, h1, h2, h3⟩
        | false =>
          simp [hd, loadMappingFile, isMissing] at h
          refine ⟨x, List.mem_cons_self .., h.2, ?_, ?_⟩ <;> rw [← h.2, hd] <;> simp [isMissing]
      | absent => simp [hd, isMissing] at hm
      | parentIsFile => simp [hd, isMissing] at hm
      | directory =>
        simp [hd, loadMappingFile, isMissing] at h
        refine ⟨x, List.mem_cons_self .., h.2, ?_, ?_⟩ <;> rw [← h.2, hd] <;> simp [isMissing]
      | unreadable =>
        simp [hd, loadMappingFile, isMissing] at h
        refine ⟨x, List.mem_cons_self .., h.2, ?_, ?_⟩ <;> rw [← h.2, hd] <;> simp [isMissing]

/-- `envFile_error_names_a_culprit`: an error of the env-file loop names one of the service's env files, the disk does
not hold a parsable file there, and if it is merely absent the entry was a required one (an absent OPTIONAL env file
is never the reason of an error) -/
theorem envFile_error_names_a_culprit (fs : String → Disk) (es : List EnvFile) (c p : String)
    (h : loadEnvFiles fs es [] = .err c p) :
    ∃ e ∈ es, e.path = p ∧ fs p ≠ .file true ∧ (isMissing (fs p) = true → e.required = true) :=
  loadEnvFiles_err_names fs es [] c p h

/-! non-vacuity -/
example : resolveService (fun p => if p = "opt.env" then .absent else .file true) false
    [⟨"a.env", true⟩, ⟨"opt.env", false⟩] ["a.labels"] = .ok ["a.env", "a.labels"] := by decide
example : resolveService (fun p => if p = "a.env" then .parentIsFile else .file true) false
    [⟨"a.env", true⟩] [] = .err "notFound" "a.env" := by decide
example : resolveService (fun p => if p = "opt.env" then .directory else .file true) false
    [⟨"opt.env", false⟩] [] = .err "read" "opt.env" := by decide
example : resolveService (fun _ => .absent) true [⟨"a.env", true⟩] ["a.labels"] = .err "notFound" "a.labels" := by decide


/-! ## all services of a project (round 6) -/

theorem envPass_ok_iff (fs : String → Disk) : ∀ (svcs : List Svc) (acc : List String),
    (envPass fs svcs acc).isOk = true ↔ ∀ s ∈ svcs, (loadEnvFiles fs s.envFiles []).isOk = true
  | [], acc => by simp [envPass, Out.isOk]
  | s :: r, acc => by
    unfold envPass
    cases h : loadEnvFiles fs s.envFiles [] with
    | err c p => simp [Out.isOk, h]
    | ok l =>
      have ih := envPass_ok_iff fs r (acc ++ l)
      simp only [List.forall_mem_cons, h]
      exact ⟨fun hh => ⟨rfl, ih.mp hh⟩, fun hh => ih.mpr hh.2⟩

theorem labelPass_ok_iff (fs : String → Disk) : ∀ (svcs : List Svc) (acc : List String),
    (labelPass fs svcs acc).isOk = true ↔ ∀ s ∈ svcs, (loadLabelFiles fs s.labelFiles []).isOk = true
  | [], acc => by simp [labelPass, Out.isOk]
  | s :: r, acc => by
    unfold labelPass
    cases h : loadLabelFiles fs s.labelFiles [] with
    | err c p => simp [Out.isOk, h]
    | ok l =>
      have ih := labelPass_ok_iff fs r (acc ++ l)
      simp only [List.forall_mem_cons, h]
      exact ⟨fun hh => ⟨rfl, ih.mp hh⟩, fun hh => ih.mpr hh.2⟩

/-- the project resolves iff every service does, each on its own: nothing is carried from one service to the next -/
theorem resolveProject_ok_iff (fs : String → Disk) (skipEnv : Bool) (svcs : List Svc) :
    (resolveProject fs skipEnv svcs).isOk = true ↔
      (skipEnv = true ∨ ∀ s ∈ svcs, (loadEnvFiles fs s.envFiles []).isOk = true) ∧
      ∀ s ∈ svcs, (loadLabelFiles fs s.labelFiles []).isOk = true := by
  rw [← envPass_ok_iff fs svcs [], ← labelPass_ok_iff fs svcs []]
  unfold resolveProject
  cases skipEnv with
  | true =>
    simp only [if_true]
    cases labelPass fs svcs [] <;> simp [Out.isOk]
  | false =>
    simp only [Bool.false_eq_true, if_false, false_or]
    cases envPass fs svcs [] <;> cases labelPass fs svcs [] <;> simp [Out.isOk]

/-- whether the project resolves does not depend on the order in which the Go map hands out the services -/
theorem resolveProject_ok_perm (fs : String → Disk) (skipEnv : Bool) (svcs svcs' : List Svc) (hp : svcs.Perm svcs') :
    (resolveProject fs skipEnv svcs).isOk = (resolveProject fs skipEnv svcs').isOk := by
  rw [Bool.eq_iff_iff, resolveProject_ok_iff, resolveProject_ok_iff]
  simp only [hp.mem_iff]

/-- **the clause, for a whole project**: if ANY service lists, at ANY position, a required env file that is not there,
the project does not resolve — whatever other references to the same path exist (optional ones, earlier ones, in the
same or in other services) and in whatever order the services are visited.  (What seeded change C01-8 falsifies.) -/
theorem project_required_env_file_missing_err (fs : String → Disk) (svcs : List Svc) (s : Svc) (e : EnvFile)
    (hs : s ∈ svcs) (he : e ∈ s.envFiles) (hr : e.required = true) (hm : isMissing (fs e.path) = true) :
    (resolveProject fs false svcs).isOk = false := by
  cases h : (resolveProject fs false svcs).isOk with
  | false => rfl
  | true =>
    exfalso
    have h1 := ((resolveProject_ok_iff fs false svcs).mp h).1
    simp only [Bool.false_eq_true, false_or] at h1
    have h2 := h1 s hs
    cases hl : loadEnvFiles fs s.envFiles [] with
    | err c p => simp [hl, Out.isOk] at h2
    | ok l =>
      rcases loadEnvFiles_ok_sound fs s.envFiles [] l hl e he with g | ⟨g, _⟩
      · rw [g] at hm; simp [isMissing] at hm
      · rw [hr] at g; cases g

/-- … and the same for a label file (there is no optional form) -/
theorem project_label_file_missing_err (fs : String → Disk) (skipEnv : Bool) (svcs : List Svc) (s : Svc) (p : String)
    (hs : s ∈ svcs) (hp : p ∈ s.labelFiles) (hm : isMissing (fs p) = true) :
    (resolveProject fs skipEnv svcs).isOk = false := by
  cases h : (resolveProject fs skipEnv svcs).isOk with
  | false => rfl
  | true =>
    exfalso
    have h2 := ((resolveProject_ok_iff fs skipEnv svcs).mp h).2 s hs
    cases hl : loadLabelFiles fs s.labelFiles [] with
    | err c q => simp [hl, Out.isOk] at h2
    | ok l =>
      have g := loadLabelFiles_ok_sound fs s.labelFiles [] l hl p hp
      rw [g] at hm; simp [isMissing] at hm

/-- non-vacuity: the shape of seeded change C01-8 — service `a` marks `x.env` optional, service `b` requires it, nothing on disk -/
example : (resolveProject (fun _ => .absent) false
    [⟨[⟨"x.env", false⟩], []⟩, ⟨[⟨"x.env", true⟩], []⟩]).isOk = false :=
  project_required_env_file_missing_err _ _ ⟨[⟨"x.env", true⟩], []⟩ ⟨"x.env", true⟩ (by simp) (by simp) rfl rfl

end CV.C01
