import ComposeVerif.Model.C01Files
/-!
# C01 — a missing or unreadable `env_file` / `label_file` is an error naming it (optional env files excepted)

For every state of the disk, every list of files: `resolveService` answers ok only if every label file and every
required env file is a readable file that parses, and every optional env file is either absent or such a file; an error
names a path of the service's lists at which the disk is not a parsable file; an absent optional env file alone never
causes an error.  Tie: stream `c01files` (real `WithServicesEnvironmentResolved` / `WithServicesLabelsResolved` on a
materialised directory), and the whole-load streams `missing/…` and `unreadable/…`.
-/
namespace CV.C01
open CV.C01.Files

theorem loadEnvFiles_ok_sound (fs : String → Disk) : ∀ (es : List EnvFile) (acc l : List String),
    loadEnvFiles fs es acc = .ok l →
      ∀ e ∈ es, fs e.path = .file true ∨ (e.required = false ∧ isMissing (fs e.path) = true)
  | [], _, _, _, e, he => by cases he
  | x :: r, acc, l, h, e, he => by
    unfold loadEnvFiles at h
    by_cases hm : isMissing (fs x.path) = true
    · simp only [hm, if_true] at h
      by_cases hr : x.required = true
      · simp [hr] at h
      · simp only [hr] at h
        cases he with
        | head => exact .inr ⟨by simpa using hr, hm⟩
        | tail _ he' => exact loadEnvFiles_ok_sound fs r acc l h e he'
    · simp only [hm] at h
      cases hd : fs x.path with
      | file b =>
        cases b with
        | true =>
          simp only [hd, loadMappingFile] at h
          cases he with
          | head => exact .inl hd
          | tail _ he' => exact loadEnvFiles_ok_sound fs r _ l h e he'
        | false => simp [hd, loadMappingFile] at h
      | absent => simp [hd, isMissing] at hm
      | parentIsFile => simp [hd, isMissing] at hm
      | directory => simp [hd, loadMappingFile] at h
      | unreadable => simp [hd, loadMappingFile] at h

theorem loadLabelFiles_ok_sound (fs : String → Disk) : ∀ (ps : List String) (acc l : List String),
    loadLabelFiles fs ps acc = .ok l → ∀ p ∈ ps, fs p = .file true
  | [], _, _, _, p, hp => by cases hp
  | x :: r, acc, l, h, p, hp => by
    unfold loadLabelFiles at h
    by_cases hm : isMissing (fs x) = true
    · simp [hm] at h
    · simp only [hm] at h
      cases hd : fs x with
      | file b =>
        cases b with
        | true =>
          simp only [hd, loadMappingFile] at h
          cases hp with
          | head => exact hd
          | tail _ hp' => exact loadLabelFiles_ok_sound fs r _ l h p hp'
        | false => simp [hd, loadMappingFile] at h
      | absent => simp [hd, isMissing] at hm
      | parentIsFile => simp [hd, isMissing] at hm
      | directory => simp [hd, loadMappingFile] at h
      | unreadable => simp [hd, loadMappingFile] at h

/-- `files_missing_or_unreadable_err` (contrapositive form): the service resolves only if nothing it needs is missing
or unreadable — every label file and every required env file is a file that parses, an optional env file is that or absent -/
theorem files_missing_or_unreadable_err (fs : String → Disk) (envFiles : List EnvFile) (labelFiles : List String) (l : List String)
    (h : resolveService fs false envFiles labelFiles = .ok l) :
    (∀ e ∈ envFiles, fs e.path = .file true ∨ (e.required = false ∧ isMissing (fs e.path) = true)) ∧
    (∀ p ∈ labelFiles, fs p = .file true) := by
  unfold resolveService at h
  simp only [Bool.false_eq_true, if_false] at h
  cases h1 : loadEnvFiles fs envFiles [] with
  | err c p => rw [h1] at h; cases h
  | ok l1 =>
    rw [h1] at h
    cases h2 : loadLabelFiles fs labelFiles [] with
    | err c p => rw [h2] at h; cases h
    | ok l2 => exact ⟨loadEnvFiles_ok_sound fs envFiles [] l1 h1, loadLabelFiles_ok_sound fs labelFiles [] l2 h2⟩

theorem loadEnvFiles_err_names (fs : String → Disk) : ∀ (es : List EnvFile) (acc : List String) (c p : String),
    loadEnvFiles fs es acc = .err c p → ∃ e ∈ es, e.path = p ∧ fs p ≠ .file true ∧ (isMissing (fs p) = true → e.required = true)
  | [], _, _, _, h => by simp [loadEnvFiles] at h
  | x :: r, acc, c, p, h => by
    unfold loadEnvFiles at h
    by_cases hm : isMissing (fs x.path) = true
    · simp only [hm, if_true] at h
      by_cases hr : x.required = true
      · simp only [hr, if_true, Out.err.injEq] at h
        refine ⟨x, List.mem_cons_self .., h.2, ?_, fun _ => hr⟩
        rw [← h.2]; intro e; rw [e] at hm; simp [isMissing] at hm
      · simp only [hr] at h
        obtain ⟨e, he, h1, h2, h3⟩ := loadEnvFiles_err_names fs r acc c p h
        exact ⟨e, List.mem_cons_of_mem _ he, h1, h2, h3⟩
    · simp only [hm] at h
      cases hd : fs x.path with
      | file b =>
        cases b with
        | true =>
          simp only [hd, loadMappingFile] at h
          obtain ⟨e, he, h1, h2, h3⟩ := loadEnvFiles_err_names fs r _ c p h
          exact ⟨e, List.mem_cons_of_mem _ he, h1, h2, h3⟩
        | false =>
          simp [hd, loadMappingFile, isMissing] at h
          refine ⟨x, List.mem_cons_self .., h.2, ?_, ?_⟩ <;> rw [← h.2, hd] <;> simp [isMissing]
      | absent => simp [hd, isMissing] at hm
      | parentIsFile => simp [hd, isMissing] at hm
      | directory =>
        simp [hd, loadMappingFile, isMissing] at h
        refine ⟨x, List.mem_cons_self .., h.2, ?_, ?_⟩ <;> rw [← h.2, hd] <;> simp [isMissing]
      | unreadable =>
        simp [hd, loadMappingFile, isMissing] at h
        refine ⟨x, List.mem_cons_self .., h.2, ?_, ?_⟩ <;> rw [← h.2, hd] <;> simp [isMissing]

/-- `envFile_error_names_a_culprit`: an error of the env-file loop names one of the service's env files, the disk does
not hold a parsable file there, and if it is merely absent the entry was a required one (an absent OPTIONAL env file
is never the reason of an error) -/
theorem envFile_error_names_a_culprit (fs : String → Disk) (es : List EnvFile) (c p : String)
    (h : loadEnvFiles fs es [] = .err c p) :
    ∃ e ∈ es, e.path = p ∧ fs p ≠ .file true ∧ (isMissing (fs p) = true → e.required = true) :=
  loadEnvFiles_err_names fs es [] c p h

/-! non-vacuity -/
example : resolveService (fun p => if p = "opt.env" then .absent else .file true) false
    [⟨"a.env", true⟩, ⟨"opt.env", false⟩] ["a.labels"] = .ok ["a.env", "a.labels"] := by decide
example : resolveService (fun p => if p = "a.env" then .parentIsFile else .file true) false
    [⟨"a.env", true⟩] [] = .err "notFound" "a.env" := by decide
example : resolveService (fun p => if p = "opt.env" then .directory else .file true) false
    [⟨"opt.env", false⟩] [] = .err "read" "opt.env" := by decide
example : resolveService (fun _ => .absent) true [⟨"a.env", true⟩] ["a.labels"] = .err "notFound" "a.labels" := by decide

end CV.C01
