import ComposeVerif.Model.Pipeline
import ComposeVerif.Props.C11
import ComposeVerif.Gen.C11Facts
/-!
# C11 — the defaults clause for the composed loader (`Pipeline.load` / `Pipeline.loadY`)

`Props/C11.lean` proves the clauses of the property for the stage functions (`Normalize`, `SetDefaultValues`,
`Canonical`).  The property speaks about what the *loader* returns.  `Model/Pipeline.lean` composes the stages the
way `loader/loader.go` does; the part of that glue that belongs to this property is the tail of `load`:

    if !opts.SkipNormalization { dict["name"] = opts.projectName; dict, err = Normalize(dict, environment) }

(`Pipeline.finishLoad`) and the defaults stage of `loadYamlModel` (`Pipeline.defaultsStage`).  The statements here are
about those composed functions — for every configuration, option combination and list of documents:

* the `<project>` that every implicit resource name embeds is the ONE resolved project name (`c.projectName`: `-p`,
  COMPOSE_PROJECT_NAME, `name:`, directory — whatever `loader.projectName` resolved), never the `name:` a file wrote:
  `finishLoad_file_name_irrelevant`, `load_name_is_project_name`, `load_resource_names`, `load_network_names`;
* `default` is among the networks of the loaded model iff it was declared or a service uses it
  (`load_default_network_iff`);
* **implicit ≡ explicit for the composed tail**: the loaded model — every default written out — handed to the tail of
  `load` again comes back unchanged, so it loads to what the implicit model loads to (`finishLoad_fixed_point`,
  `finishLoad_implicit_eq_explicit`, `load_result_is_fixed_point`); the same for the defaults stage
  (`defaultsStage_fixed_point`);
* source tie: `load_tail_is_source` pins the printed statement of `load` that `finishLoad` mirrors.
-/
namespace CV.C11.Whole
open CV CV.Val CV.C11 CV.C11.Spec CV.Pipeline

/-- the glue statement of `loader.load` that `Pipeline.finishLoad` models (regenerated from loader/loader.go on every
run): `name` is overwritten *unconditionally* with the resolved project name before `Normalize` -/
theorem load_tail_is_source :
    CV.Gen.c11_stmt_load_normalize =
      "if !opts.SkipNormalization { dict[\"name\"] = opts.projectName dict, err = Normalize(dict, configDetails.Environment) if err != nil { return nil, err } }" := by
  rfl

/-! ## `ofC11` only forwards -/

theorem ofC11_ok {stage : String} {o : C11.Out KVs} {e : KVs} (h : ofC11 stage o = .ok e) : o = .ok e := by
  cases o <;> simp [ofC11] at h
  exact congrArg _ h

/-- the model `Normalize` receives in `load`: the merged model with `name` forced -/
def named (c : Cfg) (dict : KVs) : KVs := insert "name" (.str c.projectName) dict

/-- `finishLoad` with normalisation on returns `e` exactly when `Normalize` returns `e` on the model with the name
forced (and the two error tests passed) -/
theorem finishLoad_ok_iff (c : Cfg) (hn : c.opts.skipNormalization = false) (dict e : KVs) :
    finishLoad c dict = .ok e ↔
      (dict ≠ [] ∧ c.projectName ≠ "" ∧ normalize c.clean c.env (named c dict) = .ok e) := by
  unfold finishLoad named
  cases dict with
  | nil => simp
  | cons x r =>
    by_cases hp : c.projectName = ""
    · simp [hp]
    · simp only [List.isEmpty_cons, Bool.false_eq_true, if_false, hp, hn, ne_eq, not_false_eq_true,
        reduceCtorEq, true_and]
      constructor
      · intro h; exact ofC11_ok h
      · intro h; rw [h]; rfl

/-! ## the project name -/

/-- **the `name:` the files wrote has no influence on what `load` returns**: whatever value `v` the merged model
carries under `name` (or none at all), the tail of `load` returns the same outcome — the project name is the resolved
one.  (Seeded change C11-7 — `name` forced only when the files have none — falsifies exactly this.) -/
theorem finishLoad_file_name_irrelevant (c : Cfg) (hn : c.opts.skipNormalization = false) (dict : KVs) (hd : dict ≠ [])
    (v : Val) : finishLoad c (insert "name" v dict) = finishLoad c dict := by
  unfold finishLoad
  have h1 : (insert "name" v dict).isEmpty = false := by
    cases h : insert "name" v dict with
    | nil => exact absurd h (insert_ne_nil _ _ _)
    | cons _ _ => rfl
  have h2 : dict.isEmpty = false := by
    cases dict with
    | nil => exact absurd rfl hd
    | cons _ _ => rfl
  rw [h1, h2, insert_insert, hn]
  simp

/-- a configuration for the examples: project name `cli` (set imperatively, say), no variables -/
def exampleCfg : Cfg where
  opts := { skipValidation := true }
  interp := ⟨[], ⟨fun _ => none, fun _ => none⟩, fun _ => none⟩
  paths := { wd := "/w".toList, home := none }
  env := []
  projectName := "cli"
  clean := id
  omitPats := []

example : finishLoad exampleCfg [("name", .str "fromfile"), ("volumes", .map [("v", .null)])] =
    .ok [("name", .str "cli"), ("volumes", .map [("v", .map [("name", .str "cli_v")])])] := by rfl

/-- the loaded model is named by the resolved project name -/
theorem finishLoad_name (c : Cfg) (hn : c.opts.skipNormalization = false) (dict e : KVs)
    (h : finishLoad c dict = .ok e) : lookup "name" e = some (.str c.projectName) := by
  obtain ⟨_, _, hz⟩ := (finishLoad_ok_iff c hn dict e).mp h
  unfold normalize at hz
  split at hz
  · cases hz
  · split at hz
    · cases hz
    · split at hz
      · cases hz
      · injection hz with hz
        subst hz
        rw [normalize_top_frame c.clean c.env _ "name" (by decide) (by decide) (by decide)]
        exact lookup_insert_self _ _ _

theorem normalize_ok_pure {clean : String → String} {env : Env} {d e : KVs} (h : normalize clean env d = .ok e) :
    e = normalizePure clean env d := by
  unfold normalize at h
  split at h
  · cases h
  · split at h
    · cases h
    · split at h
      · cases h
      · injection h with h; exact h.symm

/-- **volumes, configs, secrets of the loaded model**: the section the merged model carries, every resource named by
`setNameFromKey` with the *resolved* project name (`<project>_<key>`; `<key>` when external; an explicit name kept:
`resource_name_default`, `resource_default_name_spec`, `resource_name_explicit_preserved`) -/
theorem finishLoad_resource_names (c : Cfg) (hn : c.opts.skipNormalization = false) (dict e : KVs)
    (h : finishLoad c dict = .ok e) (r : String) (hr : r = "volumes" ∨ r = "configs" ∨ r = "secrets") :
    lookup r e = (lookup r dict).map (nameSectionV (some (.str c.projectName))) := by
  obtain ⟨_, _, hz⟩ := (finishLoad_ok_iff c hn dict e).mp h
  rw [normalize_ok_pure hz, normalized_resources c.clean c.env _ r hr]
  have hne : r ≠ "name" := by rcases hr with h | h | h <;> subst h <;> decide
  unfold named
  rw [lookup_insert_self, lookup_insert_ne hne]

/-- **the clause of the property, per resource, for the tail of `load`**: a volume / config / secret `key` of the merged
model comes out with every attribute it had, and `name` filled — when absent or null — with `<project>_<key>`
(`<key>` when external), `<project>` being the resolved project name whatever `name:` the files carried; an
explicit name survives (`filledNil`) -/
theorem finishLoad_resource (c : Cfg) (hn : c.opts.skipNormalization = false) (dict e : KVs)
    (h : finishLoad c dict = .ok e) (r : String) (hr : r = "volumes" ∨ r = "configs" ∨ r = "secrets")
    (top : KVs) (hsec : lookup r dict = some (.map top)) (key : String) (res : KVs)
    (hres : lookup key top = some (.map res)) :
    ∃ top' res', lookup r e = some (.map top') ∧ lookup key top' = some (.map res') ∧
      look res' = filledNil "name"
        (.str (resourceName c.projectName key (match lookup "external" res with | some x => isTrue x | none => false) none))
        (look res) := by
  refine ⟨mapAt (nameResource (some (.str c.projectName))) top, nameResourceKVs (some (.str c.projectName)) key res, ?_, ?_, ?_⟩
  · rw [finishLoad_resource_names c hn dict e h r hr, hsec]; rfl
  · rw [lookup_mapAt, hres]; rfl
  · rw [resource_name_default, resource_default_name_spec]; rfl

/-- a resource written without attributes (`key:`) gets the mapping `{name: <project>_<key>}` -/
theorem finishLoad_null_resource (c : Cfg) (hn : c.opts.skipNormalization = false) (dict e : KVs)
    (h : finishLoad c dict = .ok e) (r : String) (hr : r = "volumes" ∨ r = "configs" ∨ r = "secrets")
    (top : KVs) (hsec : lookup r dict = some (.map top)) (key : String) (hres : lookup key top = some .null) :
    ∃ top', lookup r e = some (.map top') ∧
      lookup key top' = some (.map [("name", .str (c.projectName ++ "_" ++ key))]) := by
  refine ⟨mapAt (nameResource (some (.str c.projectName))) top, ?_, ?_⟩
  · rw [finishLoad_resource_names c hn dict e h r hr, hsec]; rfl
  · rw [lookup_mapAt, hres]; rfl

theorem declaredNetworks_named (c : Cfg) (dict : KVs) : declaredNetworks (named c dict) = declaredNetworks dict := by
  unfold declaredNetworks named
  rw [lookup_insert_ne (by decide)]

theorem usesDefaultNetwork_named (c : Cfg) (dict : KVs) : usesDefaultNetwork (named c dict) = usesDefaultNetwork dict := by
  unfold usesDefaultNetwork named
  rw [lookup_insert_ne (by decide)]

theorem nnNetworks_named (c : Cfg) (dict : KVs) : nnNetworks (named c dict) = nnNetworks dict := by
  unfold nnNetworks
  rw [declaredNetworks_named, usesDefaultNetwork_named]

/-- **networks of the loaded model**: the declared networks plus `default` when a service uses it (`nnNetworks`), each
named with the resolved project name — the implicit `default` network is `<project>_default` -/
theorem finishLoad_network_names (c : Cfg) (hn : c.opts.skipNormalization = false) (dict e : KVs)
    (h : finishLoad c dict = .ok e) (hne : nnNetworks dict ≠ []) :
    lookup "networks" e = some (.map (mapAt (nameResource (some (.str c.projectName))) (nnNetworks dict))) := by
  obtain ⟨_, _, hz⟩ := (finishLoad_ok_iff c hn dict e).mp h
  rw [normalize_ok_pure hz, lookup_networks_normalizePure, nnNetworks_named]
  have hname : lookup "name" (named c dict) = some (.str c.projectName) := lookup_insert_self _ _ _
  cases hnn : nnNetworks dict with
  | nil => exact absurd hnn hne
  | cons x t => simp only [hname]

/-- **`default` is a network of the loaded model iff it was declared or some service (without network_mode) is
attached to it** — stated for the tail of `load`, whatever `name:` the files carried -/
theorem finishLoad_default_network_iff (c : Cfg) (hn : c.opts.skipNormalization = false) (dict e : KVs)
    (h : finishLoad c dict = .ok e) :
    (∃ nets, lookup "networks" e = some (.map nets) ∧ (lookup "default" nets).isSome = true) ↔
      ((lookup "default" (declaredNetworks dict)).isSome = true ∨ usesDefaultNetwork dict = true) := by
  obtain ⟨_, _, hz⟩ := (finishLoad_ok_iff c hn dict e).mp h
  rw [normalize_ok_pure hz, default_network_iff_normalized, declaredNetworks_named, usesDefaultNetwork_named]

/-! ## implicit ≡ explicit for the composed tail -/

/-- **the loaded model is a fixed point of the tail of `load`** (normalisation on or off): every default it could add
is written, the name it would force is there -/
theorem finishLoad_fixed_point (c : Cfg) (hclean : ∀ s, c.clean (c.clean s) = c.clean s)
    (henv : envLookup c.env "" = none) (dict e : KVs) (h : finishLoad c dict = .ok e) :
    finishLoad c e = .ok e := by
  cases hn : c.opts.skipNormalization with
  | true =>
    unfold finishLoad at h ⊢
    rw [hn] at h ⊢
    cases dict with
    | nil => simp at h
    | cons x r =>
      by_cases hp : c.projectName = ""
      · simp [hp] at h
      · simp only [List.isEmpty_cons, Bool.false_eq_true, if_false, hp, if_true] at h
        injection h with h
        subst h
        simp [hp]
  | false =>
    have hname := finishLoad_name c hn dict e h
    obtain ⟨_, hp, hz⟩ := (finishLoad_ok_iff c hn dict e).mp h
    refine (finishLoad_ok_iff c hn e e).mpr ⟨?_, hp, ?_⟩
    · intro he; rw [he] at hname; simp [lookup] at hname
    · unfold named
      rw [insert_of_lookup hname]
      exact normalize_fixed_point c.clean hclean c.env henv _ e hz

/-- **implicit ≡ explicit (tail of `load`)**: the model with every default of `Normalize` written out loads to what
the implicit one loads to -/
theorem finishLoad_implicit_eq_explicit (c : Cfg) (hclean : ∀ s, c.clean (c.clean s) = c.clean s)
    (henv : envLookup c.env "" = none) (dict e : KVs) (h : finishLoad c dict = .ok e) :
    finishLoad c e = finishLoad c dict := by
  rw [h]; exact finishLoad_fixed_point c hclean henv dict e h

/-- **the defaults stage** (`if !opts.SkipDefaultValues { SetDefaultValues }`, regenerated table): its result is a
fixed point of the stage, with the option set or not -/
theorem defaultsStage_fixed_point (c : Cfg) (d e : Val) (h : defaultsStage c d = .ok e) : defaultsStage c e = .ok e := by
  unfold defaultsStage at h
  split at h
  · rename_i kvs
    split at h
    · rename_i hs
      injection h with h; subst h
      simp [defaultsStage, hs]
    · rename_i hs
      cases hsd : C11.setDefaultValues Gen.defaultValues kvs with
      | ok v =>
        rw [hsd] at h
        simp only [ofC11] at h
        injection h with h; subst h
        cases v with
        | map kvs' =>
          have := setDefaultValues_idempotent kvs kvs' hsd
          simp [defaultsStage, hs, this, ofC11]
        | _ =>
          exfalso
          have := setDefaults_only_adds _ _ _ _ hsd
          simp [Extends] at this
      | err x => rw [hsd] at h; simp [ofC11] at h
      | panic s => rw [hsd] at h; simp [ofC11] at h
  · cases h

/-! ## the two options that switch the defaulting stages off -/

/-- `SkipNormalization`: the tail of `load` adds no default and does not touch `name` -/
theorem finishLoad_skip (c : Cfg) (hn : c.opts.skipNormalization = true) (dict : KVs) (hd : dict ≠ [])
    (hp : c.projectName ≠ "") : finishLoad c dict = .ok dict := by
  unfold finishLoad
  cases dict with
  | nil => exact absurd rfl hd
  | cons x r => simp [hp, hn]

/-- `SkipDefaultValues`: the defaults stage is the identity on a mapping -/
theorem defaultsStage_skip (c : Cfg) (hs : c.opts.skipDefaultValues = true) (kvs : KVs) :
    defaultsStage c (.map kvs) = .ok (.map kvs) := by
  simp [defaultsStage, hs]

/-- without the option it is `SetDefaultValues` with the regenerated table -/
theorem defaultsStage_runs (c : Cfg) (hs : c.opts.skipDefaultValues = false) (kvs : KVs) :
    defaultsStage c (.map kvs) = ofC11 "defaults" (C11.setDefaultValues Gen.defaultValues kvs) := by
  simp [defaultsStage, hs]

/-! ## the statements at `Pipeline.load` / `Pipeline.loadY` -/

theorem bind_ok {α β : Type} {o : Pipeline.Out α} {f : α → Pipeline.Out β} {b : β} (h : o.bind f = .ok b) :
    ∃ a, o = .ok a ∧ f a = .ok b := by
  cases o with
  | ok a => exact ⟨a, rfl, h⟩
  | err x => cases h
  | panic s => cases h

/-- `load` = `loadYamlModel` then the tail -/
theorem load_ok (c : Cfg) (docs : List KVs) (e : KVs) (h : load c docs = .ok e) :
    ∃ m, loadYamlModel c docs = .ok m ∧ finishLoad c m = .ok e := by
  unfold load at h
  split at h
  · cases h
  · exact bind_ok h

theorem loadY_ok (c : Cfg) (files : List (List Reset.YNode)) (e : KVs) (h : loadY c files = .ok e) :
    ∃ m, loadYamlModelY c files = .ok m ∧ finishLoad c m = .ok e := by
  unfold loadY at h
  split at h
  · cases h
  · exact bind_ok h

/-- **whatever the documents say under `name`, the loaded model carries the resolved project name** -/
theorem load_name_is_project_name (c : Cfg) (hn : c.opts.skipNormalization = false) (docs : List KVs) (e : KVs)
    (h : load c docs = .ok e) : lookup "name" e = some (.str c.projectName) := by
  obtain ⟨m, _, hf⟩ := load_ok c docs e h
  exact finishLoad_name c hn m e hf

theorem loadY_name_is_project_name (c : Cfg) (hn : c.opts.skipNormalization = false) (files : List (List Reset.YNode))
    (e : KVs) (h : loadY c files = .ok e) : lookup "name" e = some (.str c.projectName) := by
  obtain ⟨m, _, hf⟩ := loadY_ok c files e h
  exact finishLoad_name c hn m e hf

/-- **every volume, config and secret of the loaded model is named from the resolved project name**: the section is
the one of the model before `Normalize` (`m`), each resource through `setNameFromKey` with `c.projectName` -/
theorem load_resource_names (c : Cfg) (hn : c.opts.skipNormalization = false) (docs : List KVs) (e : KVs)
    (h : load c docs = .ok e) (r : String) (hr : r = "volumes" ∨ r = "configs" ∨ r = "secrets") :
    ∃ m, loadYamlModel c docs = .ok m ∧
      lookup r e = (lookup r m).map (nameSectionV (some (.str c.projectName))) := by
  obtain ⟨m, hm, hf⟩ := load_ok c docs e h
  exact ⟨m, hm, finishLoad_resource_names c hn m e hf r hr⟩

/-- **networks of the loaded model** (the implicit `default` included) are named from the resolved project name -/
theorem load_network_names (c : Cfg) (hn : c.opts.skipNormalization = false) (docs : List KVs) (e : KVs)
    (h : load c docs = .ok e) :
    ∃ m, loadYamlModel c docs = .ok m ∧
      (nnNetworks m ≠ [] →
        lookup "networks" e = some (.map (mapAt (nameResource (some (.str c.projectName))) (nnNetworks m)))) := by
  obtain ⟨m, hm, hf⟩ := load_ok c docs e h
  exact ⟨m, hm, finishLoad_network_names c hn m e hf⟩

/-- **`default` network iff declared or used**, for the whole load -/
theorem load_default_network_iff (c : Cfg) (hn : c.opts.skipNormalization = false) (docs : List KVs) (e : KVs)
    (h : load c docs = .ok e) :
    ∃ m, loadYamlModel c docs = .ok m ∧
      ((∃ nets, lookup "networks" e = some (.map nets) ∧ (lookup "default" nets).isSome = true) ↔
        ((lookup "default" (declaredNetworks m)).isSome = true ∨ usesDefaultNetwork m = true)) := by
  obtain ⟨m, hm, hf⟩ := load_ok c docs e h
  exact ⟨m, hm, finishLoad_default_network_iff c hn m e hf⟩

/-- the same three statements for files given as YAML text (`loadY`: several documents per file, `!reset` / `!override`) -/
theorem loadY_resource_names (c : Cfg) (hn : c.opts.skipNormalization = false) (files : List (List Reset.YNode)) (e : KVs)
    (h : loadY c files = .ok e) (r : String) (hr : r = "volumes" ∨ r = "configs" ∨ r = "secrets") :
    ∃ m, loadYamlModelY c files = .ok m ∧
      lookup r e = (lookup r m).map (nameSectionV (some (.str c.projectName))) := by
  obtain ⟨m, hm, hf⟩ := loadY_ok c files e h
  exact ⟨m, hm, finishLoad_resource_names c hn m e hf r hr⟩

theorem loadY_network_names (c : Cfg) (hn : c.opts.skipNormalization = false) (files : List (List Reset.YNode)) (e : KVs)
    (h : loadY c files = .ok e) :
    ∃ m, loadYamlModelY c files = .ok m ∧
      (nnNetworks m ≠ [] →
        lookup "networks" e = some (.map (mapAt (nameResource (some (.str c.projectName))) (nnNetworks m)))) := by
  obtain ⟨m, hm, hf⟩ := loadY_ok c files e h
  exact ⟨m, hm, finishLoad_network_names c hn m e hf⟩

theorem loadY_default_network_iff (c : Cfg) (hn : c.opts.skipNormalization = false) (files : List (List Reset.YNode))
    (e : KVs) (h : loadY c files = .ok e) :
    ∃ m, loadYamlModelY c files = .ok m ∧
      ((∃ nets, lookup "networks" e = some (.map nets) ∧ (lookup "default" nets).isSome = true) ↔
        ((lookup "default" (declaredNetworks m)).isSome = true ∨ usesDefaultNetwork m = true)) := by
  obtain ⟨m, hm, hf⟩ := loadY_ok c files e h
  exact ⟨m, hm, finishLoad_default_network_iff c hn m e hf⟩

/-- **what `load` returns is a fixed point of its own defaulting tail**: handing the loaded model (all defaults
explicit) to `dict["name"] = …; Normalize` again returns it unchanged -/
theorem load_result_is_fixed_point (c : Cfg) (hclean : ∀ s, c.clean (c.clean s) = c.clean s)
    (henv : envLookup c.env "" = none) (docs : List KVs) (e : KVs) (h : load c docs = .ok e) :
    finishLoad c e = .ok e := by
  obtain ⟨m, _, hf⟩ := load_ok c docs e h
  exact finishLoad_fixed_point c hclean henv m e hf

theorem loadY_result_is_fixed_point (c : Cfg) (hclean : ∀ s, c.clean (c.clean s) = c.clean s)
    (henv : envLookup c.env "" = none) (files : List (List Reset.YNode)) (e : KVs) (h : loadY c files = .ok e) :
    finishLoad c e = .ok e := by
  obtain ⟨m, _, hf⟩ := loadY_ok c files e h
  exact finishLoad_fixed_point c hclean henv m e hf

/-- non-vacuity: the example configuration satisfies the hypotheses, and the tail of `load` succeeds on a model that
carries another `name:` (the whole `load` on a small project is evaluated by `#guard`: the kernel does not unfold the
well-founded recursions of two stage models) -/
example : (∀ s, exampleCfg.clean (exampleCfg.clean s) = exampleCfg.clean s) ∧ envLookup exampleCfg.env "" = none ∧
    exampleCfg.opts.skipNormalization = false := ⟨fun _ => rfl, rfl, rfl⟩
#guard (load exampleCfg [[("name", .str "fromfile"), ("services", .map [("a", .map [("image", .str "i")])]),
    ("volumes", .map [("v", .null)])]]).stage == "ok"

end CV.C11.Whole
