import ComposeVerif.Lemmas.AuditCmd
import ComposeVerif.Lemmas.Graph
import ComposeVerif.Lemmas.Equiv
import ComposeVerif.Lemmas.Post
import ComposeVerif.Neg.C10
import ComposeVerif.Lemmas.Consistency
import ComposeVerif.Lemmas.Validate
import ComposeVerif.Lemmas.Path
import ComposeVerif.Gen.Tables
/-!
# C10 — a loaded project is referentially consistent; inconsistent models are rejected

Property theorems only.  `checkConsistency` is the model of `loader.checkConsistency`
(Model/Consistency.lean), `Consistent` / `ConsistentFull` the specification (Spec/Consistency.lean).
Go map iteration order = list order of `services`, `dependsOn`, `secrets`; the specification only
uses membership, so every `↔ spec` theorem holds for every order.
-/
namespace CV.Consistency

/-! ## rule by rule -/

/-- each rule function of the loop body decides exactly its clause of the specification -/
theorem rule_iff (p : Proj) (s : Svc) (r : Rule) : ruleCheck p s r = none ↔ Holds p s r :=
  ruleCheck_iff p s r

/-- the loop body returns `nil` for a service iff every rule holds for it -/
theorem checkSvc_iff (p : Proj) (s : Svc) : checkSvc p s = none ↔ ∀ r, Holds p s r :=
  checkSvc_none_iff p s

theorem checkConsistency_none_iff (p : Proj) :
    checkConsistency p = none ↔
      (∀ e ∈ p.services, checkSvc p e.2 = none) ∧ (∀ e ∈ p.secrets, checkSecret e.2 = none) ∧ checkCycleProj p = none := by
  simp only [checkConsistency, orE_none, List.findSome?_eq_none_iff]

/-- **completeness, rule by rule** (no hypothesis, any iteration order): a project in which some enabled
service breaks some rule is rejected -/
theorem consistency_complete_rule (p : Proj) (e : String × Svc) (he : e ∈ p.services) (r : Rule)
    (hbad : ¬ Holds p e.2 r) : ∃ err, checkConsistency p = some err := by
  cases h : checkConsistency p with
  | some err => exact ⟨err, rfl⟩
  | none =>
    have := ((checkConsistency_none_iff p).mp h).1 e he
    exact absurd ((checkSvc_iff p e.2).mp this r) hbad

/-- a secret without `file`, `environment` or `external` is rejected -/
theorem consistency_complete_secret (p : Proj) (hbad : ¬ SecretsSourced p) : ∃ err, checkConsistency p = some err := by
  cases h : checkConsistency p with
  | some err => exact ⟨err, rfl⟩
  | none =>
    refine absurd (fun e he => ?_) hbad
    exact (checkSecret_iff e.2).mp (((checkConsistency_none_iff p).mp h).2.1 e he)

/-- **soundness of the rules** (no hypothesis): acceptance implies every rule for every enabled service, and sourced secrets -/
theorem consistency_sound_rules (p : Proj) (h : checkConsistency p = none) :
    (∀ e ∈ p.services, ∀ r, Holds p e.2 r) ∧ SecretsSourced p := by
  have h' := (checkConsistency_none_iff p).mp h
  exact ⟨fun e he => (checkSvc_iff p e.2).mp (h'.1 e he), fun e he => (checkSecret_iff e.2).mp (h'.2.1 e he)⟩

/-- the error class reported for a service comes from a rule that the service really breaks -/
theorem checkSvc_error_truthful (p : Proj) (s : Svc) (e : Err) (h : checkSvc p s = some e) :
    ∃ r, ruleCheck p s r = some e ∧ ¬ Holds p s r := by
  obtain ⟨r, hr⟩ := checkSvc_some p s e h
  exact ⟨r, hr, fun hh => by rw [(rule_iff p s r).mpr hh] at hr; cases hr⟩

/-! ## cycles -/

/-- **`checkCycle` ⇔ there is a cycle**, for every digraph (adjacency lists whose edges end in vertices) -/
theorem checkCycle_iff_acyclic (g : Graph) (hcl : g.Closed) : hasCycle g = false ↔ ∀ v, ¬ Walk g.E v v := by
  have h := hasCycle_iff g hcl
  constructor
  · intro hf v w
    rw [h.mpr ⟨v, w⟩] at hf; cases hf
  · intro ha
    cases hh : hasCycle g
    · rfl
    · obtain ⟨w, hw⟩ := h.mp hh
      exact absurd hw (ha w)

/-- the fuel `len(vertices)` given to `searchCycle` is enough: more fuel never changes the answer -/
theorem search_fuel_sufficient (g : Graph) (hcl : g.Closed) (v : String) (hv : v ∈ g.keys) (extra : Nat) :
    search g (g.length + extra) [v] v = search g g.length [v] v := by
  cases h : search g g.length [v] v with
  | true =>
    obtain ⟨w, hw⟩ := search_sound g g.length [v] v (by simp) h
    -- a cycle reachable from v exists iff …; use completeness on the bigger fuel through `Bad`
    cases h' : search g (g.length + extra) [v] v with
    | true => rfl
    | false =>
      exfalso
      -- the smaller search succeeded, so `v` is Bad; then the bigger one succeeds as well
      have hbad : g.Bad v := by
        by_cases hb : g.Bad v
        · exact hb
        · exfalso
          -- if v were not Bad the search could not succeed (soundness in the contrapositive, vertex-wise)
          exact hb (bad_of_search g g.length [v] v (by simp) h)
      have := search_complete g hcl (g.length + extra) [v] v hbad (by simp) (by
        intro u hu; have : u = v := by simpa using hu
        exact this ▸ hv) (by rw [Graph.keys_length]; simp; omega)
      rw [this] at h'; cases h'
  | false =>
    cases h' : search g (g.length + extra) [v] v with
    | false => rfl
    | true =>
      exfalso
      have hbad : g.Bad v := bad_of_search g (g.length + extra) [v] v (by simp) h'
      have := search_complete g hcl g.length [v] v hbad (by simp) (by
        intro u hu; have : u = v := by simpa using hu
        exact this ▸ hv) (by rw [Graph.keys_length]; simp)
      rw [this] at h; cases h
where
  /-- vertex-wise soundness: a successful search from a walk ending in `v` shows that `v` reaches a cycle -/
  bad_of_search (g : Graph) : ∀ (fuel : Nat) (path : List String) (v : String),
      (∀ u ∈ path, u = v ∨ Walk g.E u v) → search g fuel path v = true → g.Bad v
    | 0, _, _, _, h => by simp [search] at h
    | fuel + 1, path, v, inv, h => by
      rw [search_succ, List.any_eq_true] at h
      obtain ⟨c, hc, h⟩ := h
      have hE : g.E v c := hc
      rw [Bool.or_eq_true] at h
      rcases h with h | h
      · have hm : c ∈ path := List.contains_iff_mem.mp h
        rcases inv c hm with rfl | w
        · exact ⟨c, .inl rfl, .single hE⟩
        · exact ⟨c, .inr (.single hE), w.snoc hE⟩
      · have ih := bad_of_search g fuel (path ++ [c]) c (by
          intro u hu
          rcases List.mem_append.mp hu with hu | hu
          · rcases inv u hu with rfl | w
            · exact .inr (.single hE)
            · exact .inr (w.snoc hE)
          · exact .inl (by simpa using hu)) h
        obtain ⟨w, hr, hw⟩ := ih
        refine ⟨w, .inr ?_, hw⟩
        rcases hr with rfl | hr
        · exact .single hE
        · exact .cons hE hr

/-- on a project whose dependencies can be resolved and that does not have the ambiguous shape,
`graph.CheckCycle` returns `nil` iff the dependency graph over enabled services is acyclic -/
theorem checkCycleProj_iff_partial (p : Proj) (hnd : p.enabled.Nodup) (hb : DepsBuildable p) (hn : NoAmbiguousSelfDep p) :
    checkCycleProj p = none ↔ Acyclic p := by
  unfold checkCycleProj
  rw [newGraph_eq_exact p hb hn]
  simp only [guard_none]
  rw [← acyclicB_iff p hnd]
  unfold acyclicB
  cases hasCycle (exactGraph p) <;> simp

/-! ## the whole function -/

theorem depsBuildable_of_rules (p : Proj) (h : ∀ e ∈ p.services, Holds p e.2 .dependsOn) : DepsBuildable p := by
  intro e he d hd
  rcases h e he d hd with h | h
  · exact .inl h
  · exact .inr h.2

theorem noAmbiguous_of_acyclic (p : Proj) (h : Acyclic p) : NoAmbiguousSelfDep p := by
  intro e he hself
  obtain ⟨r, hr⟩ := hself
  exact absurd (Walk.single ⟨e.2, he, List.mem_map.mpr ⟨e, he, rfl⟩, r, hr⟩) (h e.1)

/-- **no false rejection** (full strength, any iteration order): every project that satisfies the specification is accepted -/
theorem consistent_accepted (p : Proj) (hnd : p.enabled.Nodup) (h : ConsistentFull p) : checkConsistency p = none := by
  rw [checkConsistency_none_iff]
  refine ⟨fun e he => (checkSvc_iff p e.2).mpr (h.1 e he), fun e he => (checkSecret_iff e.2).mpr (h.2.1 e he), ?_⟩
  exact (checkCycleProj_iff_partial p hnd (depsBuildable_of_rules p fun e he => h.1 e he .dependsOn)
    (noAmbiguous_of_acyclic p h.2.2)).mpr h.2.2

/-- **accepted ⇒ consistent**, on projects without the ambiguous shape (a service that depends on itself and
optionally on something that is not an enabled service).  Without the hypothesis the statement is false on the
unchanged tree: `Neg/C10.lean`. -/
theorem consistency_sound_partial (p : Proj) (hnd : p.enabled.Nodup) (hn : NoAmbiguousSelfDep p)
    (h : checkConsistency p = none) : ConsistentFull p := by
  have hr := consistency_sound_rules p h
  refine ⟨hr.1, hr.2, ?_⟩
  exact (checkCycleProj_iff_partial p hnd (depsBuildable_of_rules p fun e he => hr.1 e he .dependsOn) hn).mp
    ((checkConsistency_none_iff p).mp h).2.2

theorem consistency_sound_property_partial (p : Proj) (hnd : p.enabled.Nodup) (hn : NoAmbiguousSelfDep p)
    (h : checkConsistency p = none) : Consistent p :=
  (consistency_sound_partial p hnd hn h).consistent

/-- `checkConsistency = nil ↔ ConsistentFull` on projects without the ambiguous shape -/
theorem checkConsistency_iff_partial (p : Proj) (hnd : p.enabled.Nodup) (hn : NoAmbiguousSelfDep p) :
    checkConsistency p = none ↔ ConsistentFull p :=
  ⟨consistency_sound_partial p hnd hn, consistent_accepted p hnd⟩

/-- **completeness for cycles** on projects without the ambiguous shape: a cyclic dependency graph is rejected -/
theorem consistency_complete_cycle_partial (p : Proj) (hnd : p.enabled.Nodup) (hn : NoAmbiguousSelfDep p)
    (hbad : ¬ Acyclic p) : ∃ err, checkConsistency p = some err := by
  cases h : checkConsistency p with
  | some err => exact ⟨err, rfl⟩
  | none => exact absurd (consistency_sound_partial p hnd hn h).2.2 hbad

/-- the decision procedure the oracle runs on the project returned by a load is correct (full strength) -/
theorem consistentB_iff (p : Proj) (hnd : p.enabled.Nodup) : consistentB p = true ↔ ConsistentFull p := by
  unfold consistentB ConsistentFull
  rw [Bool.and_eq_true, Bool.and_eq_true, acyclicB_iff p hnd]
  have h1 : rulesB p = true ↔ ∀ e ∈ p.services, ∀ r, Holds p e.2 r := by
    unfold rulesB
    rw [List.all_eq_true]
    refine forall_congr' fun e => imp_congr_right fun _ => ?_
    rw [List.all_eq_true]
    constructor
    · intro h r
      have := h r (by cases r <;> simp [Rule.all])
      exact (rule_iff p e.2 r).mp (by simpa using this)
    · intro h r _
      simpa using (rule_iff p e.2 r).mpr (h r)
  have h2 : secretsB p = true ↔ SecretsSourced p := by
    unfold secretsB SecretsSourced
    rw [List.all_eq_true]
    refine forall_congr' fun e => imp_congr_right fun _ => ?_
    rw [← checkSecret_iff]
    simp
  rw [h1, h2, and_assoc]

/-! ## the project that is returned -/

/-- when `graph.CheckCycle` accepts, the dependency graph of the project *as it leaves the call* is acyclic
(no hypothesis on the shape, any iteration order) -/
theorem accepted_returned_acyclic (p : Proj) (hnd : p.enabled.Nodup) (h : checkCycleProj p = none) :
    Acyclic (postState p) := by
  unfold checkCycleProj at h
  cases hg : newGraph p with
  | error e => rw [hg] at h; cases h
  | ok g =>
    rw [hg] at h
    simp only [guard_none] at h
    intro v w
    have hw : Walk g.E v v := w.mono (postState_edges_in_graph p hnd g hg)
    have := (hasCycle_iff g (newGraph_closed p hnd g hg)).mpr ⟨v, hw⟩
    rw [this] at h; cases h

/-- **accepted ⇒ the returned project is consistent** — full strength: every project, every iteration order.
(`postState` = the project after `checkConsistency`: `deploy.replicas` aligned with `scale`, and the self
dependencies `newGraph` deleted.)  This is the first sentence of the property; the defect of `newGraph`
only breaks the converse sentence (`Neg/C10.lean`). -/
theorem accepted_returned_consistent (p : Proj) (hnd : p.enabled.Nodup) (h : checkConsistency p = none) :
    ConsistentFull (postState p) := by
  have hr := consistency_sound_rules p h
  refine ⟨?_, ?_, accepted_returned_acyclic p hnd ((checkConsistency_none_iff p).mp h).2.2⟩
  · intro e he r
    simp only [postState, List.mem_map] at he
    obtain ⟨e0, he0, rfl⟩ := he
    exact holds_post p e0.1 e0.2 r (hr.1 e0 he0 r)
  · exact hr.2

/-! ## every iteration order -/

/-- the specification does not depend on the order of any Go map -/
theorem consistent_order_independent (p p' : Proj) (hp : ProjEquiv p p') : ConsistentFull p ↔ ConsistentFull p' :=
  ⟨consistentFull_equiv hp, consistentFull_equiv hp.symm⟩

/-- **acceptance is the same for every iteration order** of the services map, of each `depends_on` / `networks`
map and of the secrets map — on projects without the ambiguous shape (false without it: `Neg.checkConsistency_order_dependent`) -/
theorem checkConsistency_order_independent_partial (p p' : Proj) (hp : ProjEquiv p p')
    (hnd : p.enabled.Nodup) (hnd' : p'.enabled.Nodup) (hn : NoAmbiguousSelfDep p) :
    checkConsistency p = none ↔ checkConsistency p' = none := by
  rw [checkConsistency_iff_partial p hnd hn, checkConsistency_iff_partial p' hnd' (noAmbiguous_equiv hp hn)]
  exact consistent_order_independent p p' hp

/-- rejection of a project that breaks a rule does not depend on the order either (no hypothesis) -/
theorem rejection_order_independent (p p' : Proj) (hp : ProjEquiv p p') (e : String × Svc) (he : e ∈ p.services) (r : Rule)
    (hbad : ¬ Holds p e.2 r) : ∃ err, checkConsistency p' = some err := by
  obtain ⟨s', hs', hse⟩ := hp.fwd e.1 e.2 he
  exact consistency_complete_rule p' (e.1, s') hs' r fun h => hbad (holds_equiv hp.symm hse.symm r h)

/-! ## non-vacuity -/

/-- a consistent project with a build, networks, a `service:` reference, an optional dependency on a disabled
service, paired settings and a two-edge dependency chain -/
def exampleProj : Proj :=
  { services := [
      ("web", { image := "nginx", networks := ["front"], dependsOn := [("db", true), ("off", false)],
                scale := some 2, deploy := some { replicas := some 2 }, secrets := ["tok"] }),
      ("db", { build := some { dockerfile := "Dockerfile", secrets := ["tok"] }, volumes := [("volume", "data")],
               cpus := "0.5", deploy := some { limits := some { cpus := "0.5" } } }),
      ("side", { image := "s", networkMode := "service:web", dependsOn := [("web", true)] })],
    disabled := ["off"], networks := ["front"], volumes := ["data"],
    secrets := [("tok", { file := "./tok" })] }

example : exampleProj.enabled.Nodup := by decide
example : NoAmbiguousSelfDep exampleProj := by
  intro e he
  simp only [exampleProj, List.mem_cons, List.not_mem_nil, or_false] at he
  rcases he with rfl | rfl | rfl <;> decide
example : checkConsistency exampleProj = none := by decide
example : ConsistentFull exampleProj :=
  (consistentB_iff exampleProj (by decide)).mp (by decide)
example : consistentB exampleProj = true := by decide
/-- reordering the services map is a `ProjEquiv` -/
example : ProjEquiv exampleProj { exampleProj with services := exampleProj.services.reverse, secrets := exampleProj.secrets } :=
  ProjEquiv.of_perm exampleProj _ (List.reverse_perm _) _ (List.Perm.refl _)

/-- a graph with a cycle that is only found from the second start vertex's subtree -/
example : hasCycle [("a", ["b"]), ("b", ["c"]), ("c", ["b"])] = true := by decide
example : hasCycle [("a", ["b", "c"]), ("b", ["c"]), ("c", [])] = false := by decide
example : (exactGraph exampleProj).Closed := exactGraph_closed exampleProj
example : hasCycle (exactGraph exampleProj) = false := by decide

end CV.Consistency

/-! ## structural exclusivity checks on the merged tree (`validation.Validate`) -/
namespace CV.Validate
open CV CV.TPath

/-- the `checks` table in the source now is the table the model was written against (patterns and checkers) -/
theorem validate_table_is_source :
    CV.Gen.validationChecks = table.map (fun r => (r.1, r.2.goName)) := by decide

/-- no two patterns of the table can match the same path … -/
theorem validate_table_exclusive : PairwiseExclusive table := by decide

/-- … hence Go's random iteration over the `checks` map always selects the same checker -/
theorem validate_table_order_irrelevant (t' : List (List String × Checker)) (hp : t'.Perm table) (x : TPath) :
    firstMatch t' x = firstMatch table x :=
  firstMatch_perm validate_table_exclusive hp x

/-- **`Validate` returns nil iff every checked node of the tree satisfies its rule** (all trees; the statement on
the right only speaks about membership, so it holds for every iteration order of every mapping) -/
theorem validate_iff (t : Val) : validate t = .ok ↔ ValidTree t := by
  rw [validate_ok_iff_failures]
  unfold failures ValidTree
  rw [failuresAt_nil_iff]
  unfold AllOK
  exact forall_congr' fun q => forall_congr' fun w => forall_congr' fun c =>
    imp_congr_right fun _ => imp_congr_right fun _ => run_ok_iff c w

/-- the decision procedure used by the harness agrees with the model -/
theorem validTreeB_iff (t : Val) : validTreeB t = true ↔ ValidTree t := by
  rw [← validate_iff, validate_ok_iff_failures]
  unfold validTreeB
  cases failures t <;> simp

theorem reaches_top {top : Val.KVs} {sec name : String} {entries : Val.KVs} {v : Val}
    (hroot : next TPath.root sec = [sec]) (hsec : firstMatch table [sec] = none) (hne : ([sec] : TPath) ≠ TPath.root)
    (h1 : (sec, Val.map entries) ∈ top) (h2 : (name, v) ∈ entries) :
    Reaches TPath.root (.map top) [sec, ghostify name] v := by
  refine .inMap (by decide) h1 ?_
  rw [hroot]
  refine .inMap hsec h2 ?_
  have : next [sec] name = [sec, ghostify name] := by
    unfold next; simp [hne]
  rw [this]
  exact .here

/-- **an external volume declared together with creation parameters is rejected**, wherever the two halves came from -/
theorem validate_rejects_external_volume_with_parameters (top vols kvs : Val.KVs) (name k : String) (x : Val)
    (h1 : ("volumes", Val.map vols) ∈ top) (h2 : (name, Val.map kvs) ∈ vols)
    (hext : Val.lookup "external" kvs = some (.bool true)) (hk : (k, x) ∈ kvs) (hbad : externalAllowed k = false) :
    validate (.map top) ≠ .ok := by
  intro hok
  have hv := (validate_iff _).mp hok _ _ .volume
    (reaches_top (by decide) (by decide) (by decide) h1 h2) (by simp [firstMatch, table, pmatch])
  rcases hv with h | ⟨kvs', h, hx⟩
  · cases h
  · cases h
    rcases hx with h | h | ⟨-, h⟩
    · rw [hext] at h; cases h
    · rw [hext] at h; cases h
    · have := h (k, x) hk
      rw [hbad] at this; cases this

/-- **a secret with none (and no driver / external) or several of its mutually exclusive sources is rejected** -/
theorem validate_rejects_secret_sources (top secs kvs : Val.KVs) (name : String)
    (h1 : ("secrets", Val.map secs) ∈ top) (h2 : (name, Val.map kvs) ∈ secs)
    (hbad : countPresent ["file", "environment"] kvs > 1 ∨
      (countPresent ["file", "environment"] kvs = 0 ∧ has "driver" kvs = false ∧ has "external" kvs = false)) :
    validate (.map top) ≠ .ok := by
  intro hok
  have hv := (validate_iff _).mp hok _ _ (.fileObject ["file", "environment"])
    (reaches_top (by decide) (by decide) (by decide) h1 h2) (by simp [firstMatch, table, pmatch])
  obtain ⟨kvs', h, hx⟩ := hv
  cases h
  rcases hbad with hb | ⟨hb, hd, he⟩
  · rcases hx with h | ⟨h, -⟩ <;> omega
  · rcases hx with h | ⟨-, h | h⟩
    · omega
    · rw [hd] at h; cases h
    · rw [he] at h; cases h

/-- **a config with none (and no driver / external) or several of its mutually exclusive sources is rejected** -/
theorem validate_rejects_config_sources (top cfgs kvs : Val.KVs) (name : String)
    (h1 : ("configs", Val.map cfgs) ∈ top) (h2 : (name, Val.map kvs) ∈ cfgs)
    (hbad : countPresent ["file", "environment", "content"] kvs > 1 ∨
      (countPresent ["file", "environment", "content"] kvs = 0 ∧ has "driver" kvs = false ∧ has "external" kvs = false)) :
    validate (.map top) ≠ .ok := by
  intro hok
  have hv := (validate_iff _).mp hok _ _ (.fileObject ["file", "environment", "content"])
    (reaches_top (by decide) (by decide) (by decide) h1 h2) (by simp [firstMatch, table, pmatch])
  obtain ⟨kvs', h, hx⟩ := hv
  cases h
  rcases hbad with hb | ⟨hb, hd, he⟩
  · rcases hx with h | ⟨h, -⟩ <;> omega
  · rcases hx with h | ⟨-, h | h⟩
    · omega
    · rw [hd] at h; cases h
    · rw [he] at h; cases h

/-! non-vacuity -/
def exampleTree : Val :=
  .map [("volumes", .map [("data", .null), ("ext", .map [("external", .bool true), ("name", .str "n")])]),
        ("secrets", .map [("tok", .map [("file", .str "./t")])]),
        ("configs", .map [("c", .map [("content", .str "x")])]),
        ("services", .map [("a", .map [("image", .str "i"),
            ("gpus", .seq [.map [("count", .int 1)]]),
            ("develop", .map [("watch", .seq [.map [("path", .str "./p"), ("action", .str "rebuild")]])])])])]

example : validate exampleTree = .ok := by decide
example : ValidTree exampleTree := (validate_iff _).mp (by decide)
example : validate (.map [("volumes", .map [("ext", .map [("external", .bool true), ("driver", .str "d")])])]) = .err .conflictingExternal := by decide
example : validate (.map [("secrets", .map [("s", .map [("file", .str "f"), ("environment", .str "E")])])]) = .err .exclusive := by decide
example : validate (.map [("configs", .map [("c", .map [("name", .str "n")])])]) = .err .missing := by decide
example : validate (.map [("secrets", .map [("s", .str "oops")])]) = .panic "validation.init.checkFileObject" := by decide

end CV.Validate
