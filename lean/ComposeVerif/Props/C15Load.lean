import ComposeVerif.Model.SelectLoad
import ComposeVerif.Props.C15
/-!
# C15 (round 6) — the loader side: `Options.Profiles` → the partition of the loaded project

Theorems about `loadApply` (`Model/SelectLoad.lean`: the tail of `loader.modelToProject`), and their composition with the
history theorems of `Props/C15.lean`: whatever profile list the loader is given and whatever sequence of selection
operations follows, `Services ⊎ DisabledServices` is exactly the set of declared services.
-/
namespace CV.Sel

/-- what `Transform` hands over: all declared services enabled under distinct keys, filed under their own name, each
`depends_on` a map -/
def Loadable (p0 : Proj) : Prop := Declared p0 ∧ (keys p0.services).Nodup ∧ NamesOK p0 ∧ SvcWF p0
instance (p : Proj) : Decidable (Loadable p) := by unfold Loadable NamesOK; exact inferInstance

theorem Loadable.partition {p0 : Proj} (l : Loadable p0) : Partition p0 := by
  obtain ⟨⟨d, _⟩, nd, _, _⟩ := l
  refine ⟨nd, ?_, ?_⟩ <;> simp [d]

theorem Loadable.good {p0 : Proj} (l : Loadable p0) : Good p0 := ⟨l.partition, l.2.2.2, l.2.2.1⟩

theorem Loadable.find {p0 : Proj} (l : Loadable p0) (k : String) : find p0 k = lookup k p0.services := by
  unfold CV.Sel.find; rw [l.1.1]; cases lookup k p0.services <;> rfl

/-- the result of a successful load is one of two projects -/
theorem loadApply_ok {p0 : Proj} {P : List String} {sc sr : Bool} {q : Proj} (hq : loadApply p0 P sc sr = .ok q) :
    q = withProfiles p0 P ∨ q = resolveEnabled (withProfiles p0 P) := by
  unfold loadApply at hq
  simp only [] at hq
  split at hq
  · cases hq
  · cases sr <;> simp at hq <;> simp [hq]

/-- **the loader applies the profile rule exactly**: after `modelToProject` with `Options.Profiles = P` the project
records `P`, is a partition of the declared services, a declared service is enabled iff it has no profile, a listed
profile, or `*` is listed, and is disabled otherwise -/
theorem load_profiles_exact {p0 : Proj} (l : Loadable p0) (P : List String) (sc sr : Bool) {q : Proj}
    (hq : loadApply p0 P sc sr = .ok q) :
    Partition q ∧ q.profiles = P ∧ SameSet (known q) (keys p0.services) ∧
    (∀ k, k ∈ keys q.services ↔ ∃ s, lookup k p0.services = some s ∧ Active s P) ∧
    (∀ k, k ∈ keys q.disabled ↔ ∃ s, lookup k p0.services = some s ∧ ¬Active s P) := by
  have h := l.partition
  have hp := withProfiles_partition h P
  have E : ∀ k, k ∈ keys (withProfiles p0 P).services ↔ ∃ s, lookup k p0.services = some s ∧ Active s P := by
    intro k; rw [profiles_enabled_iff h P k, l.find]
  have D : ∀ k, k ∈ keys (withProfiles p0 P).disabled ↔ ∃ s, lookup k p0.services = some s ∧ ¬Active s P := by
    intro k
    rw [← lookup_isSome, lookup_withProfiles_disabled h, l.find]
    cases hs : lookup k p0.services with
    | none => simp
    | some s =>
      by_cases a : hasProfile s P = true
      · simp [Option.filter, a, (hasProfile_iff s P).1 a]
      · have : ¬Active s P := fun c => a ((hasProfile_iff s P).2 c)
        simp [Option.filter, a, this]
  have K : SameSet (known (withProfiles p0 P)) (keys p0.services) := by
    constructor
    · intro x hx
      rcases mem_known.1 hx with a | a
      · obtain ⟨s, hs, _⟩ := (E x).1 a; exact keys_of_lookup hs
      · obtain ⟨s, hs, _⟩ := (D x).1 a; exact keys_of_lookup hs
    · intro x hx
      obtain ⟨s, hs⟩ := Option.isSome_iff_exists.1 (lookup_isSome.2 hx)
      by_cases a : Active s P
      · exact mem_known.2 (.inl ((E x).2 ⟨s, hs, a⟩))
      · exact mem_known.2 (.inr ((D x).2 ⟨s, hs, a⟩))
  rcases loadApply_ok hq with rfl | rfl
  · exact ⟨hp, rfl, K, E, D⟩
  · refine ⟨resolveEnabled_partition hp, rfl, ?_, ?_, D⟩
    · have : known (resolveEnabled (withProfiles p0 P)) = known (withProfiles p0 P) := by
        unfold known; rw [keys_resolveEnabled]; rfl
      rw [this]; exact K
    · intro k; rw [keys_resolveEnabled]; exact E k

/-- a loaded project is a well-formed receiver for every theorem of `Props/C15.lean`, and its enabled services are
active under the recorded profiles (`ProfilesOK`: the hypothesis "as a load leaves it" of `enable_activates_profiles`,
`enable_undoes_disable`, `profilesOK_inv` is discharged here, inside the model) -/
theorem load_good {p0 : Proj} (l : Loadable p0) (P : List String) (sc sr : Bool) {q : Proj}
    (hq : loadApply p0 P sc sr = .ok q) : Good q ∧ ProfilesOK q ∧ Carried p0 q := by
  have g := l.good
  have s1 := partition_step g (.profiles P) (q := withProfiles p0 P) rfl
  have ok1 : ProfilesOK (withProfiles p0 P) := by
    intro kv hkv
    rw [withProfiles_services g.1] at hkv
    exact (hasProfile_iff kv.2 P).1 (List.mem_filter.1 hkv).2
  rcases loadApply_ok hq with rfl | rfl
  · exact ⟨s1.1, ok1, s1.2⟩
  · have c := carried_resolveEnabled s1.1.2.1
    have hp := resolveEnabled_partition s1.1.1
    exact ⟨⟨hp, svcWF_resolveEnabled s1.1.2.1, namesOK_of_carried s1.1.2.2 hp c⟩,
      profilesOK_resolveEnabled ok1, s1.2.trans c⟩

/-- **load, then any history**: for every profile list given to the loader and every sequence of selection operations
applied to the loaded project (failed ones leave it unchanged), the enabled and the disabled services are disjoint
sets whose union is exactly the set of declared services, and every enabled service is active under the recorded
profiles.  By induction over the operation list (`partition_inv`, `profilesOK_inv`) from the loader's own step. -/
theorem load_then_history {p0 : Proj} (l : Loadable p0) (P : List String) (sc sr : Bool) {q : Proj}
    (hq : loadApply p0 P sc sr = .ok q) (ops : List Op) :
    Partition (run q ops) ∧ SameSet (known (run q ops)) (keys p0.services) ∧ ProfilesOK (run q ops) ∧
    Conserved p0 (run q ops) := by
  obtain ⟨g, ok, c⟩ := load_good l P sc sr hq
  have inv := partition_inv g ops
  have K := (load_profiles_exact l P sc sr hq).2.2.1
  refine ⟨inv.1.1, ⟨fun x hx => K.1 x ((inv.2.known x).2 hx), fun x hx => (inv.2.known x).1 (K.2 x hx)⟩,
    profilesOK_inv g ok ops, conserved_of_carried inv.1.1 (c.trans inv.2)⟩

/-- with `*` among the profiles the loader disables nothing -/
theorem load_star_enables_all {p0 : Proj} (l : Loadable p0) {P : List String} (hs : "*" ∈ P) (sc sr : Bool) {q : Proj}
    (hq : loadApply p0 P sc sr = .ok q) : q.disabled = [] := by
  have : (withProfiles p0 P).disabled = [] := by
    rw [withProfiles_disabled l.partition, List.filter_eq_nil_iff]
    intro kv _
    have : hasProfile kv.2 P = true := (hasProfile_iff kv.2 P).2 (.inr (.inl hs))
    simp [this]
  rcases loadApply_ok hq with rfl | rfl
  · exact this
  · exact this

/-- a disabled service of a loaded project is the declared service, untouched (its environment is *not* resolved) -/
theorem load_disabled_untouched {p0 : Proj} (l : Loadable p0) (P : List String) (sc sr : Bool) {q : Proj}
    (hq : loadApply p0 P sc sr = .ok q) {k : String} {s : Svc} (hk : lookup k q.disabled = some s) :
    lookup k p0.services = some s := by
  have : lookup k (withProfiles p0 P).disabled = some s := by
    rcases loadApply_ok hq with rfl | rfl
    · exact hk
    · exact hk
  rw [lookup_withProfiles_disabled l.partition, l.find] at this
  cases h : lookup k p0.services with
  | none => simp [h] at this
  | some t =>
    rw [h] at this
    simp only [Option.filter] at this
    split at this <;> simp_all

/-- the loader's profile step *is* the history operation `WithProfiles`: a load with the two checks skipped equals the
one-step history -/
theorem load_is_profiles_op (p0 : Proj) (P : List String) :
    loadApply p0 P true true = .ok (run p0 [.profiles P]) := rfl

/-- what the consistency check establishes: every dependency of an enabled service is an enabled service, or a disabled
one through an optional edge -/
theorem load_consistent {p0 : Proj} (P : List String) (sr : Bool) {q : Proj}
    (hq : loadApply p0 P false sr = .ok q) :
    ∀ kv ∈ q.services, ∀ d ∈ kv.2.deps,
      d.1 ∈ keys q.services ∨ (d.1 ∈ keys q.disabled ∧ d.2.required = false) := by
  have base : ∀ kv ∈ (withProfiles p0 P).services, ∀ d ∈ kv.2.deps,
      d.1 ∈ keys (withProfiles p0 P).services ∨ (d.1 ∈ keys (withProfiles p0 P).disabled ∧ d.2.required = false) := by
    have hc : checkDeps (withProfiles p0 P) = none := by
      unfold loadApply at hq
      simp only [] at hq
      split at hq
      · cases hq
      · rename_i hn
        cases hcd : checkDeps (withProfiles p0 P) with
        | none => rfl
        | some x => simp [hcd] at hn
    intro kv hkv d hd
    unfold checkDeps at hc
    rw [List.head?_eq_none_iff, List.flatMap_eq_nil_iff] at hc
    have := hc kv hkv
    rw [List.map_eq_nil_iff, List.filter_eq_nil_iff] at this
    have off := this d hd
    unfold depOffence getService at off
    cases hl : lookup d.1 (withProfiles p0 P).services with
    | some s => exact .inl (keys_of_lookup hl)
    | none =>
      rw [hl] at off
      simp only [] at off
      by_cases hd' : has d.1 (withProfiles p0 P).disabled = true
      · right
        refine ⟨lookup_isSome.1 hd', ?_⟩
        simp [hd'] at off
        exact off
      · simp [hd'] at off
  rcases loadApply_ok hq with rfl | rfl
  · exact base
  · intro kv hkv d hd
    have : kv ∈ (withProfiles p0 P).services.map fun kv => (kv.1, resolveEnvSvc (withProfiles p0 P).environment kv.2) := hkv
    obtain ⟨kv0, hm, rfl⟩ := List.mem_map.1 this
    have := base kv0 hm d hd
    rw [keys_resolveEnabled]
    exact this

theorem reach_enabled {svcs : AL Svc} {pol : Policy} {roots : List String} {x : String}
    (h : Reach svcs pol roots x) : x ∈ keys svcs := by
  cases h with
  | root _ hk => exact hk
  | step _ e =>
    cases pol with
    | deps => obtain ⟨_, _, _, h⟩ := e; exact h
    | dependents => obtain ⟨_, s, hs, _⟩ := e; exact keys_of_lookup hs
    | ignore => exact e.elim

/-- **load ∘ select**: on a project loaded with the consistency check, selecting enabled services never fails, whatever
the dependency policy — the check has already made sure the closure meets no missing required dependency -/
theorem load_select_never_fails {p0 : Proj} (l : Loadable p0) (P : List String) (sr : Bool) {q : Proj}
    (hq : loadApply p0 P false sr = .ok q) {names : List String} (hn : names ≠ [])
    (sub : ∀ n ∈ names, n ∈ keys q.services) (pol : Policy) :
    ∃ r, withSelectedServices q names pol = .ok r := by
  obtain ⟨g, _, _⟩ := load_good l P false sr hq
  have ne : withSelectedServices q names pol ≠ .err := by
    rw [Ne, select_error_iff g hn]
    rintro (⟨n, hnm, hnk⟩ | ⟨x, hx, hpol, hm⟩)
    · exact hnk (sub n hnm)
    · have hxk := reach_enabled hx
      obtain ⟨s, hs⟩ := Option.isSome_iff_exists.1 (lookup_isSome.2 hxk)
      rw [hs] at hm
      obtain ⟨kv, hkv, hr, hmiss⟩ := hm
      rcases load_consistent P sr hq (x, s) (mem_of_lookup hs) kv hkv with a | a
      · exact hmiss a
      · rw [a.2] at hr; cases hr
  have nf := select_never_out_of_fuel g.1 g.2.2 names pol
  cases hw : withSelectedServices q names pol with
  | ok r => exact ⟨r, rfl⟩
  | err => exact absurd hw ne
  | fuel => exact absurd hw nf

/-! ## `cli.WithDefaultProfiles` -/

/-- profiles given by the caller win over `COMPOSE_PROFILES` -/
theorem defaultProfiles_given {given : List String} (h : given ≠ []) (env : AL String) :
    defaultProfiles given env = given := by
  unfold defaultProfiles; cases given <;> simp_all

/-- without `COMPOSE_PROFILES` (and without given profiles) the profile list is `[""]`, under which exactly the
services without profile are enabled: the empty name matches no declared profile unless one is literally `""` -/
theorem defaultProfiles_unset {env : AL String} (h : lookup "COMPOSE_PROFILES" env = none) :
    defaultProfiles [] env = [""] := by
  unfold defaultProfiles; rw [h]; decide

theorem active_under_empty_name (s : Svc) (h : "" ∉ s.profiles) : Active s [""] ↔ s.profiles = [] := by
  unfold Active
  constructor
  · rintro (a | a | ⟨x, hx, hm⟩)
    · exact a
    · simp at a
    · simp at hm; subst hm; exact absurd hx h
  · exact fun a => .inl a

/-! ## non-vacuity -/

def exDecl : Proj :=
  { services := [("web", exSvc "web" [] [("db", ⟨true, "c"⟩), ("dbg", ⟨false, "c"⟩)]), ("db", exSvc "db" [] []),
      ("dbg", exSvc "dbg" ["debug"] []), ("job", exSvc "job" ["batch"] [("db", ⟨true, "c"⟩)])]
    disabled := [], profiles := [], networks := [], volumes := [], secrets := [], configs := [] }

example : Loadable exDecl := by decide
example : ∃ q, loadApply exDecl ["debug"] false false = .ok q ∧ keys q.services = ["web", "db", "dbg"] ∧
    keys q.disabled = ["job"] := ⟨_, rfl, by decide, by decide⟩
example : ∃ q, loadApply exDecl (defaultProfiles [] [("COMPOSE_PROFILES", " batch , debug")]) false true = .ok q ∧
    q.profiles = ["batch", "debug"] ∧ q.disabled = [] := ⟨_, rfl, by decide, by decide⟩
-- a required dependency on a profile-disabled service is what the consistency check rejects
example : loadApply { exDecl with services := exDecl.services ++ [("x", exSvc "x" [] [("job", ⟨true, "c"⟩)])] } [] false false
    = .undefinedDependency := by decide

end CV.Sel
