import ComposeVerif.Model.Include
import ComposeVerif.Spec.Include
import ComposeVerif.Lemmas.Include
import ComposeVerif.Lemmas.PathsCompose
import ComposeVerif.Lemmas.PathsClean
import ComposeVerif.Lemmas.C11Walk
import ComposeVerif.Gen.Tables
import ComposeVerif.Props.C06
/-!
# C06 — the imported resources under the *parent's* later stages

`include_eq_paste` (Props/C06.lean) says what `ApplyInclude` hands to the parent: the resources of the included
projects as their own load produced them — defaults written out (`SetDefaultValues`), paths resolved against the
working directory `relwd` the plan chose (relative to the including project).  The parent then runs its own
stages over the merged document.  This file states, with the C11 (`setDefaults`) and C12 (`Paths.walk`, `join`)
models, what those stages do to an imported resource `v` at its path `p = [section, name]`:

* **defaults**: `d` = the included resource with its defaults written; running the defaults again is the identity;
* **paths**: `v = resolve relwd d`; the parent's resolution against its directory `W` gives exactly the one-stage
  resolution of `d` against `Join(W, relwd)` — the included project's directory — under the row hypotheses C12 needs
  (`ComposeAt`: the stage-1 value must not start with `~`, look remote, or look Windows-absolute: `Neg/C12.lean`);
* **nesting**: two levels of include resolve like one level against the twice-joined directory (`join_assoc`).

Not proved here: that `SetDefaultValues` leaves a *resolved* resource alone (defaults and path resolution commute),
and the canonical transformers on whole documents (C03 proves their idempotence leaf-wise).  Both are covered by the
paste oracle on the real loader.
-/
namespace CV.Include
open CV CV.Val CV.Paths

/-- the configuration of one `ResolveRelativePaths` run: working directory `w`, everything else shared -/
def cfgAt (home : Option Paths.Str) (remote : Paths.Str → Bool) (sym : Paths.Str → Option Paths.Str) (w : String) : Paths.Cfg :=
  ⟨w.toList, home, remote, sym⟩

/-- **imported_defaults_stable**: the included load wrote the defaults of the resource (`d`); when the parent runs
`SetDefaultValues` over it again nothing changes -/
theorem imported_defaults_stable (tbl : List (List String × String)) (p : TPath) (u d : Val)
    (h : CV.C11.setDefaults tbl p u = .ok d) : CV.C11.setDefaults tbl p d = .ok d :=
  CV.C11.setDefaults_idem tbl p u d h

/-- **imported_paths_two_stage** (`resolve_compose` for include): `d` is an included resource before path
resolution, `v` what the included load made of it against the plan's working directory `pl.relwd` (relative).  The
parent's `ResolveRelativePaths` against its own directory `wd` turns `v` into exactly what a single resolution of `d`
against `Join(wd, relwd)` gives — same value, same error, same panic -/
theorem imported_paths_two_stage (home : Option Paths.Str) (remote : Paths.Str → Bool) (sym : Paths.Str → Option Paths.Str)
    (wd relwd : String) (p : TPath) (d v : Val)
    (hrows : RowsOK (ComposeAt (cfgAt home remote sym relwd) (cfgAt home remote sym wd) (cfgAt home remote sym (Include.join wd relwd)))
      CV.Gen.resolvers p d)
    (h1 : Paths.walk CV.Gen.resolvers (cfgAt home remote sym relwd) p d = .ok v) :
    Paths.walk CV.Gen.resolvers (cfgAt home remote sym wd) p v =
      Paths.walk CV.Gen.resolvers (cfgAt home remote sym (Include.join wd relwd)) p d :=
  walk_compose _ _ _ _ p d v hrows h1

/-- the directory of the one-stage resolution is `filepath.Join(wd, relwd)` of the C12 model -/
theorem cfgAt_join (home : Option Paths.Str) (remote : Paths.Str → Bool) (sym : Paths.Str → Option Paths.Str) (wd relwd : String) :
    (cfgAt home remote sym (Include.join wd relwd)).wd = Paths.join wd.toList relwd.toList := by
  simp [cfgAt, Include.join]

/-- **imported_paths_nested** (nested includes compose): a resource of a project included at depth 2 is resolved
against `r2` (its own load), then `r1` (the load of the project that includes it), then the root directory `w`.
The result is the one-stage resolution against `Join(Join(w, r1), r2)` — the directory the depth-2 project has
when it is loaded on its own -/
theorem imported_paths_nested (home : Option Paths.Str) (remote : Paths.Str → Bool) (sym : Paths.Str → Option Paths.Str)
    (w r1 r2 : String) (p : TPath) (d v2 v1 : Val)
    (hw : w ≠ "") (hr1 : r1 ≠ "") (hr1rel : Include.isAbs r1 = false)
    (hrows2 : RowsOK (ComposeAt (cfgAt home remote sym r2) (cfgAt home remote sym r1) (cfgAt home remote sym (Include.join r1 r2)))
      CV.Gen.resolvers p d)
    (hrows1 : RowsOK (ComposeAt (cfgAt home remote sym (Include.join r1 r2)) (cfgAt home remote sym w)
        (cfgAt home remote sym (Include.join w (Include.join r1 r2)))) CV.Gen.resolvers p d)
    (h2 : Paths.walk CV.Gen.resolvers (cfgAt home remote sym r2) p d = .ok v2)
    (h1 : Paths.walk CV.Gen.resolvers (cfgAt home remote sym r1) p v2 = .ok v1) :
    Paths.walk CV.Gen.resolvers (cfgAt home remote sym w) p v1 =
      Paths.walk CV.Gen.resolvers (cfgAt home remote sym (Include.join (Include.join w r1) r2)) p d := by
  have e1 : Paths.walk CV.Gen.resolvers (cfgAt home remote sym (Include.join r1 r2)) p d = .ok v1 := by
    rw [← walk_compose _ _ _ _ p d v2 hrows2 h2]; exact h1
  rw [walk_compose _ _ _ _ p d v1 hrows1 e1]
  have hj : Include.join (Include.join w r1) r2 = Include.join w (Include.join r1 r2) := by
    have hw' : w.toList ≠ [] := by
      intro e; apply hw; exact String.ext (by simpa using e)
    have hr' : r1.toList ≠ [] := by
      intro e; apply hr1; exact String.ext (by simpa using e)
    simp only [Include.join, String.toList_ofList]
    rw [join_assoc w.toList r1.toList r2.toList hw' hr' hr1rel]
  rw [hj]

end CV.Include

namespace CV.Include
open CV CV.Val CV.Paths

/-- non-vacuity of the row hypothesis: the `file: x` attribute of secret `s` in an included project whose working
directory is `sub`, parent directory `/w` (the theorem is stated for every path `p`; `TPath.next` goes through
`String.replace`, which the kernel does not reduce, so the witness sits at the attribute itself) -/
example :
    RowsOK (ComposeAt (cfgAt none (fun _ => false) some "sub") (cfgAt none (fun _ => false) some "/w")
        (cfgAt none (fun _ => false) some (Include.join "/w" "sub")))
      CV.Gen.resolvers ["secrets", "s", "file"] (.str "x") := by
  have hf : TPath.firstMatch CV.Gen.resolvers ["secrets", "s", "file"] = some "maybeUnixPath" := by decide
  have hj : Include.join "/w" "sub" = String.ofList (Paths.join "/w".toList "sub".toList) := rfl
  simp only [RowsOK, hf]
  have := composeAt_maybeUnixPath none (fun _ => false) "/w".toList "sub".toList (by decide) (by decide) (by decide) "x"
    ("sub/x".toList) (by decide) (by decide)
  simpa [cfgAt, hj] using this

end CV.Include
