import ComposeVerif.Model.Include
import ComposeVerif.Spec.Include
import ComposeVerif.Lemmas.Include
import ComposeVerif.Lemmas.PathsCompose
import ComposeVerif.Lemmas.PathsClean
import ComposeVerif.Lemmas.C11Walk
import ComposeVerif.Lemmas.ShortIdem
import ComposeVerif.Gen.Tables
import ComposeVerif.Props.C06
/-!
# C06 — the imported resources under the *parent's* later stages

`include_eq_paste` (Props/C06.lean) says what `ApplyInclude` hands to the parent: the resources of the included
projects as their own load produced them — defaults written out (`SetDefaultValues`), paths resolved against the
working directory `relwd` the plan chose (relative to the including project).  The parent then runs its own
stages over the merged document.  This file states, with the C11 (`setDefaults`) and C12 (`Paths.walk`, `join`)
models, what those stages do to an imported resource `v` at its path `p = [section, name]`:

* **defaults**: `d` = the included resource with its defaults written; running the defaults again is the identity;
* **paths**: `v = resolve relwd d`; the parent's resolution against its directory `W` gives exactly the one-stage
  resolution of `d` against `Join(W, relwd)` — the included project's directory — for **every** tree (C12's round-2
  repair of the resolvers, the guarded join, made `resolve_compose` hold at full strength: `composeAt_all`);
* **nesting**: two levels of include resolve like one level against the twice-joined directory (`join_assoc`).

* **canonical form**: `transform.Canonical` run again by the parent is the identity on an imported resource (C03).

Not proved here: that `SetDefaultValues` and `Canonical` leave a *resolved* resource alone (the parent runs them on the
value after stage-1 path resolution, i.e. on `v`, while their idempotence is about `d`/`c`; one needs that path
resolution preserves being a fixed point of both — it only rewrites strings at path attributes, C12 `frame`).  That
commutation is covered by the paste oracle on the real loader.
-/
namespace CV.Include
open CV CV.Val CV.Paths

/-- the configuration of one `ResolveRelativePaths` run of the default loader (no remote resource loaders, no symbolic
links): working directory `w`, home directory `home` -/
def cfgAt (home : Option Paths.Str) (w : String) : Paths.Cfg :=
  ⟨w.toList, home, fun _ => false, some⟩

theorem toList_ne_nil (w : String) (h : w ≠ "") : w.toList ≠ [] := by
  intro e; apply h; exact String.ext (by simpa using e)

/-- **imported_defaults_stable**: the included load wrote the defaults of the resource (`d`); when the parent runs
`SetDefaultValues` over it again nothing changes -/
theorem imported_defaults_stable (tbl : List (List String × String)) (p : TPath) (u d : Val)
    (h : CV.C11.setDefaults tbl p u = .ok d) : CV.C11.setDefaults tbl p d = .ok d :=
  CV.C11.setDefaults_idem tbl p u d h

/-- **imported_canonical_stable**: the included load canonicalised the resource (`c`, at its path `p`); when the parent
runs `transform.Canonical` over the merged document again, the imported resource is a fixed point (C03's
`canonical_idem` induction, at any path) -/
theorem imported_canonical_stable (p : TPath) (u c : Val)
    (h : CV.Short.transform false p u = .ok c) : CV.Short.transform false p c = .ok c :=
  CV.Short.idem_T u p c h

/-- the directory of the one-stage resolution is `filepath.Join(wd, relwd)` of the C12 model -/
theorem cfgAt_join (home : Option Paths.Str) (wd relwd : String) :
    cfgAt home (Include.join wd relwd) = ⟨Paths.join wd.toList relwd.toList, home, fun _ => false, some⟩ := by
  simp [cfgAt, Include.join]

/-- **imported_paths_two_stage** (`resolve_compose` for include, full strength): `d` is an included resource — any
tree at any path `p` — before path resolution, `v` what the included load made of it against the plan's working
directory `relwd` (relative, non-empty).  The parent's `ResolveRelativePaths` against its own directory `wd` turns `v`
into exactly what a single resolution of `d` against `Join(wd, relwd)` gives: same value, same error.  No hypothesis on
the tree (`hhome`: a set home directory is not the empty string) -/
theorem imported_paths_two_stage (home : Option Paths.Str) (hhome : ∀ h, home = some h → h ≠ [])
    (wd relwd : String) (hwd : wd ≠ "") (hrel : relwd ≠ "") (hrelr : Include.isAbs relwd = false)
    (p : TPath) (d v : Val)
    (h1 : Paths.walk CV.Gen.resolvers (cfgAt home relwd) p d = .ok v) :
    Paths.walk CV.Gen.resolvers (cfgAt home wd) p v =
      Paths.walk CV.Gen.resolvers (cfgAt home (Include.join wd relwd)) p d := by
  rw [cfgAt_join]
  exact walk_compose _ _ _ _ p d v
    ((rowsOK_of_forall _ (composeAt_all home (fun _ => false) wd.toList relwd.toList (toList_ne_nil wd hwd)
        (toList_ne_nil relwd hrel) hrelr hhome (fun _ => rfl)) _).1 p d) h1

/-- **imported_paths_nested** (nested includes compose): a resource of a project included at depth 2 is resolved
against `r2` (its own load), then `r1` (the load of the project that includes it), then the root directory `w`.
The result is the one-stage resolution against `Join(Join(w, r1), r2)` — the directory the depth-2 project has
when it is loaded on its own — for every tree -/
theorem imported_paths_nested (home : Option Paths.Str) (hhome : ∀ h, home = some h → h ≠ [])
    (w r1 r2 : String) (p : TPath) (d v2 v1 : Val)
    (hw : w ≠ "") (hr1 : r1 ≠ "") (hr1rel : Include.isAbs r1 = false) (hr2 : r2 ≠ "") (hr2rel : Include.isAbs r2 = false)
    (h2 : Paths.walk CV.Gen.resolvers (cfgAt home r2) p d = .ok v2)
    (h1 : Paths.walk CV.Gen.resolvers (cfgAt home r1) p v2 = .ok v1) :
    Paths.walk CV.Gen.resolvers (cfgAt home w) p v1 =
      Paths.walk CV.Gen.resolvers (cfgAt home (Include.join (Include.join w r1) r2)) p d := by
  have hw' := toList_ne_nil w hw
  have hr1' := toList_ne_nil r1 hr1
  have e1 : Paths.walk CV.Gen.resolvers (cfgAt home (Include.join r1 r2)) p d = .ok v1 := by
    rw [← imported_paths_two_stage home hhome r1 r2 hr1 hr2 hr2rel p d v2 h2]; exact h1
  have hj12 : Include.join r1 r2 ≠ "" := by
    intro e
    have : (Include.join r1 r2).toList = [] := by rw [e]; rfl
    simp only [Include.join, String.toList_ofList] at this
    exact join_ne_nil _ _ hr1' this
  have hj12r : Include.isAbs (Include.join r1 r2) = false := by
    simp only [Include.isAbs, Include.join, String.toList_ofList]
    exact isAbs_join_rel _ _ hr1' hr1rel
  rw [imported_paths_two_stage home hhome w (Include.join r1 r2) hw hj12 hj12r p d v1 e1]
  have hj : Include.join (Include.join w r1) r2 = Include.join w (Include.join r1 r2) := by
    simp only [Include.join, String.toList_ofList]
    rw [join_assoc w.toList r1.toList r2.toList hw' hr1' hr1rel]
  rw [hj]

/-- the hypotheses are satisfiable: parent directory `/w`, included project in `sub`, no home directory -/
example : ("/w" : String) ≠ "" ∧ ("sub" : String) ≠ "" ∧ Include.isAbs "sub" = false ∧
    (∀ h, (none : Option Paths.Str) = some h → h ≠ []) := by
  refine ⟨by decide, by decide, by decide, ?_⟩
  intro h e; cases e

end CV.Include
