import ComposeVerif.Lemmas.TravInvS
import ComposeVerif.Lemmas.TravLive
import ComposeVerif.Gen.Globals
import ComposeVerif.Neg.C19Traversal
import ComposeVerif.Lemmas.TravLocked
import ComposeVerif.Props.C13
/-!
# C19 — the dependency-ordered traversal is free of deadlocks and terminates

The traversal clause of C19 ("dependency-ordered traversal … free of … deadlocks") decided by theorems: corollaries of
the C13 development (`Model/Trav.lean`, `Lemmas/TravLive.lean`) for **every** finite acyclic dependency graph, every
direction, every root selection, every concurrency limit `≥ 1` (or none) and every schedule, together with the
regenerated fact that the errgroup of the source has the `limit + 1` slots the model assumes
(`Neg/C19Traversal.lean`: with `limit` slots a one-service walk under `WithMaxConcurrency(1)` deadlocks).
-/
namespace CV.C19
open CV.Trav

/-- **no deadlock**: in every reachable state of the walk, `walk` has returned or some goroutine can take a step
    (no lost wake-up, no visitor waiting for a slot the coordinator holds) -/
theorem traversal_deadlock_free {g : Graph} {lim : Option Nat} (hg : GraphOK g) (hl : ∀ n, lim = some n → 1 ≤ n)
    {s : St} (h : Reach g lim s) : terminal s ∨ ∃ l s', step? g lim s l = some s' :=
  let hI := reach_inv hg h
  deadlock_free_inv g hg lim hl s hI.a hI.b

/-- **termination**: a run of `k` steps from a reachable state lowers the measure by at least `k`; no schedule of the
    walk is longer than `mu g (init g)` -/
theorem traversal_terminates {g : Graph} {lim : Option Nat} (hg : GraphOK g) (ls : List Label) (s' : St)
    (hr : runL g lim (init g) ls = some s') : ls.length ≤ mu g (init g) := by
  have key : ∀ (ls : List Label) (s : St), Reach g lim s → runL g lim s ls = some s' → ls.length + mu g s' ≤ mu g s := by
    intro ls
    induction ls with
    | nil => intro s _ hr; simp [runL] at hr; subst hr; simp
    | cons l r ih =>
      intro s h hr
      simp only [runL] at hr
      cases hs : step? g lim s l with
      | none => simp [hs] at hr
      | some s1 =>
        simp [hs] at hr
        have hI := reach_inv hg h
        have hd := mu_decreases hg hI.a hI.b (step?_sound hs)
        have := ih s1 (.step h hs) hr
        simp only [List.length_cons]; omega
  have := key ls (init g) .init hr
  omega

/-- **every schedule can be completed**: from every reachable state some continuation ends with `walk` returned
    (with `traversal_terminates`: every maximal schedule is finite and ends returned) -/
theorem traversal_can_finish {g : Graph} {lim : Option Nat} (hg : GraphOK g) (hl : ∀ n, lim = some n → 1 ≤ n)
    {s : St} (h : Reach g lim s) : ∃ ls s', runL g lim s ls = some s' ∧ terminal s' := by
  have key : ∀ k, ∀ s, Reach g lim s → mu g s ≤ k → ∃ ls s', runL g lim s ls = some s' ∧ terminal s' := by
    intro k
    induction k with
    | zero =>
      intro s hs hk
      rcases traversal_deadlock_free hg hl hs with ht | ⟨l, s1, hst⟩
      · exact ⟨[], s, rfl, ht⟩
      · have hI := reach_inv hg hs
        have := mu_decreases hg hI.a hI.b (step?_sound hst); omega
    | succ k ih =>
      intro s hs hk
      rcases traversal_deadlock_free hg hl hs with ht | ⟨l, s1, hst⟩
      · exact ⟨[], s, rfl, ht⟩
      · have hI := reach_inv hg hs
        have hlt := mu_decreases hg hI.a hI.b (step?_sound hst)
        obtain ⟨ls, s', hrun, ht⟩ := ih s1 (.step hs hst) (by omega)
        exact ⟨l :: ls, s', by simp [runL, hst, hrun], ht⟩
  exact key (mu g s) s h (Nat.le_refl _)

/-- **the traversal propagates its first error** (C19's clause, from C13's `result_first_error` / `outcome_on_return`):
    whenever `walk` has returned — every graph, limit, root selection, schedule — the value it returns is `nil` exactly
    when no visitor failed, otherwise it is the error of the FIRST failing visit handed to the errgroup, and that visitor
    really returned an error -/
theorem traversal_first_error {g : Graph} {lim : Option Nat} (hg : GraphOK g) {s : St} (h : Reach g lim s) (ht : terminal s) :
    s.firstErr = s.errExits.getLast? ∧
    (∀ v, s.firstErr = some v → Ev.finish v true ∈ s.log) ∧
    (s.firstErr = none ↔ ∀ v, Ev.finish v true ∉ s.log) :=
  let r := result_first_error hg h
  ⟨r.1, r.2.1, (outcome_on_return hg h ht).2⟩

/-- **the supplied function is called exactly once per selected service** (and never for a skipped one) when the walk
    returns without error; whatever happened, no service is visited twice and every visitor that was entered has returned
    before `walk` returns — no visitor is still running (and still writing) after the parallel operation is over -/
theorem traversal_calls_exactly_once {g : Graph} {lim : Option Nat} (hg : GraphOK g) {s : St} (h : Reach g lim s)
    (ht : terminal s) :
    (∀ v, (starts s.log).count v = (finishes s.log).count v ∧ (starts s.log).count v ≤ 1) ∧
    (s.firstErr = none → s.extCancelled = false →
      ∀ v ∈ g.verts, (starts s.log).count v = (if g.skip v then 0 else 1) ∧ s.status v = .visited) :=
  ⟨(outcome_on_return hg h ht).1, fun hok hext v hv =>
    let r := exact_counts_on_success hg h ht hok hext v hv
    ⟨r.1, r.2.2.1⟩⟩

/-- the source gives the errgroup `maxConcurrency + 1` slots, and only when a limit is set — what `slotFree` models -/
theorem traversal_limit_is_the_sources :
    CV.Gen.travSetLimitArgs = ["t.maxConcurrency + 1"] ∧ CV.Gen.travSetLimitGuards = ["t.maxConcurrency > 0"] := by
  decide

/-- **the walk writes `t.status` only through the lock-guarded sections**: every step of the traversal model leaves the
    status map unchanged, or applies the section `enterF v` (`enter` on an absent vertex), or the section `doneF v`
    (`wDone`) to it — the sections whose source is pinned by `traversal_sections_source_is_modelled` and whose interleavings
    are serialisable by `CV.Locked.locked_serializable` (so one atomic model step per section is sound) -/
theorem traversal_status_written_only_by_sections {g : Graph} {lim : Option Nat} {s s' : St} {l : Label}
    (h : step? g lim s l = some s') :
    stL s' = stL s ∨ (∃ v, stL s' = CV.Locked.enterF v (stL s)) ∨ (∃ v, stL s' = CV.Locked.doneF v (stL s)) :=
  status_step_sections h

/-! non-vacuity: a graph satisfying `GraphOK` with a real choice of schedules -/
def chain : Graph :=
  { verts := [0, 1, 2], pre := fun v => if v = 0 then [] else [v - 1],
    post := fun v => if v < 2 then [v + 1] else [], skip := fun _ => false }

example : GraphOK chain where
  nodup := by decide
  nonempty := by decide
  pre_mem := by decide
  post_mem := by decide
  pre_post := by decide
  rank := ⟨fun v => v, by decide⟩

end CV.C19
