import ComposeVerif.Lemmas.HeapProg
import ComposeVerif.Model.Derivations
import ComposeVerif.Gen.Derivations
import ComposeVerif.Props.C14
/-!
# C14 — the derivations as heap programs: receiver free ⇒ confined (closes the `Confined` hypothesis of `derivation_isolated`)

`Model/HeapProg.lean` is a small Go-statement semantics over the heap model (assignment, struct-field update, make,
deep copy, field store through a pointer, map store / delete, range, if, early return).  `Stmt.rf` is the syntactic
condition the escape extractor (`Gen.Derivations.receiverEscapes = []`, `receiverWrites = []`) checks on the Go source:
no expression mentions the receiver except as the source of a deep copy.  `Model/Derivations.lean` holds the nine
derivations of `types/project.go` as programs of that language; `c14.deriv` runs them against the real methods.
-/
namespace CV.Heap
open CV.Gen.CopyPlan

/-- type and resolved plan of `Project.deepCopy()` -/
def projTy : Ty := match roots with | r :: _ => rootTy r | [] => .unknown "no root"
def projPlan : Plan := match roots with | r :: _ => rootPlan r | [] => .unknown "no root"

theorem projPlan_deep : deep projTy projPlan = true ∧ covers projTy projPlan = true := by decide +kernel

/-- **receiver free ⇒ confined** (every program of the statement language, every receiver, all pure arguments, any
allocation state, any deep copy plan): if no expression of the program mentions the receiver variable — it may only be the
source of a deep copy — then after the run
* the receiver variable still holds the receiver, and every value allocated before the frontier is unchanged by the
  program's writes;
* every write goes through an address allocated since the frontier and stores only such addresses (`Confined`);
* every other variable — the result in particular — holds only memory allocated since the frontier. -/
theorem prog_confined (t : Ty) (plan : Plan) (prog : List Stmt) (p : GoVal) (args : List (String × PData)) (n : Nat)
    (hrf : rfL prog = true) (hd : deep t plan = true) (hb : Below n p) :
    let st := runProg t plan prog p args n
    getVar "p" st.vars = p ∧ (∀ u, Below n u → writes st.log u = u) ∧ Confined n st.next st.log ∧
      ∀ x, x ≠ "p" → Within n st.next (addrs (getVar x st.vars)) := by
  have h0 : Inv n p { vars := [("p", p)], pvars := args, next := n } :=
    ⟨by simp [getVar], Nat.le_refl n, by intro x v hm hx; simp at hm; exact absurd hm.1 hx, by intro w hw; cases hw⟩
  have h := execL_inv hd hb prog _ hrf h0
  refine ⟨h.recv, ?_, h.log, fun x hx => ⟨h.le, h.var x hx⟩⟩
  intro u hu
  apply writes_not_mem
  intro w hw hmem
  have := (h.log w hw).1
  have := hu _ hmem
  omega

/-- the result of a receiver-free program shares no address with the receiver -/
theorem prog_result_isolated (t : Ty) (plan : Plan) (prog : List Stmt) (p : GoVal) (args : List (String × PData)) (n : Nat)
    (hrf : rfL prog = true) (hd : deep t plan = true) (hb : Below n p) :
    Isolated (getVar "result" (runProg t plan prog p args n).vars) p := by
  intro a ha hap
  have := ((prog_confined t plan prog p args n hrf hd hb).2.2.2 "result" (by decide)).2 a ha
  have := hb a hap
  omega

/-- the nine derivations of `types/project.go`, as modelled, are receiver free -/
theorem derivations_receiver_free : ∀ pr ∈ Deriv.programs, rfL pr.2 = true := by decide

/-- every method of `Project` that returns a `*Project` in the source tree now has a heap program -/
theorem derivations_modelled : ∀ d ∈ CV.Gen.Derivations.derivations, d.1 ∈ Deriv.programs.map (·.1) := by decide

/-- **the nine derivations are confined**, for every project and all arguments, with the copy plan that is in the tree now:
the receiver is unchanged, everything allocated before the call is unchanged, and the result shares no address with
the receiver. -/
theorem derivations_confined (pr : String × List Stmt) (hpr : pr ∈ Deriv.programs)
    (p : GoVal) (args : List (String × PData)) (n : Nat) (hb : Below n p) :
    let st := runProg projTy projPlan pr.2 p args n
    getVar "p" st.vars = p ∧ (∀ u, Below n u → writes st.log u = u) ∧ Confined n st.next st.log ∧
      Isolated (getVar "result" st.vars) p :=
  have h := prog_confined projTy projPlan pr.2 p args n (derivations_receiver_free pr hpr) projPlan_deep.1 hb
  ⟨h.1, h.2.1, h.2.2.1, prog_result_isolated projTy projPlan pr.2 p args n (derivations_receiver_free pr hpr) projPlan_deep.1 hb⟩

/-! ## histories of programs -/

/-- a chain of projects, each allocated entirely after the frontier the previous step started from -/
inductive Chain : GoVal → Nat → List GoVal → Prop where
  | nil (v : GoVal) (n : Nat) : Chain v n []
  | cons {v v' : GoVal} {n n' : Nat} {rest : List GoVal} :
      Within n n' (addrs v') → Chain v' n' rest → Chain v n (v' :: rest)

theorem chain_above : ∀ {v : GoVal} {n : Nat} {l : List GoVal}, Chain v n l → ∀ w ∈ l, ∀ a ∈ addrs w, n ≤ a := by
  intro v n l h
  induction h with
  | nil => intro w hw; cases hw
  | @cons v v' n n' rest hw _ ih =>
    intro w hmem a ha
    rcases List.mem_cons.mp hmem with rfl | hm
    · exact (hw.2 a ha).1
    · have := ih w hm a ha; have := hw.1; omega

/-- the projects of a chain are pairwise isolated -/
theorem chain_pairwise : ∀ {v : GoVal} {n : Nat} {l : List GoVal}, Chain v n l → Below n v →
    List.Pairwise Isolated (v :: l) := by
  intro v n l h
  induction h with
  | nil => intro _; simp
  | @cons v v' n n' rest hw hrest ih =>
    intro hb
    have hb' : Below n' v' := fun a ha => (hw.2 a ha).2
    have ih' := ih hb'
    simp only [List.pairwise_cons] at ih' ⊢
    refine ⟨?_, ih'⟩
    intro w hmem a ha haw
    have hlow := hb a ha
    rcases List.mem_cons.mp hmem with rfl | hm
    · have := (hw.2 a haw).1; omega
    · have := chain_above hrest w hm a haw; have := hw.1; omega

/-- run a history of derivation programs, each on the result of the previous one -/
def runHistory (t : Ty) (plan : Plan) : List (List Stmt × List (String × PData)) → GoVal → Nat → List GoVal
  | [], _, _ => []
  | (prog, args) :: r, v, n =>
    let st := runProg t plan prog v args n
    getVar "result" st.vars :: runHistory t plan r (getVar "result" st.vars) st.next

/-- **histories of derivations** (any length, any of the receiver-free programs, any arguments): all projects of the
history, the original included, are pairwise isolated -/
theorem prog_history_isolated (t : Ty) (plan : Plan) (hd : deep t plan = true) :
    ∀ (h : List (List Stmt × List (String × PData))) (v : GoVal) (n : Nat),
      (∀ e ∈ h, rfL e.1 = true) → Below n v → List.Pairwise Isolated (v :: runHistory t plan h v n) := by
  intro h v n hrf hb
  apply chain_pairwise _ hb
  induction h generalizing v n with
  | nil => exact Chain.nil v n
  | cons e r ih =>
    obtain ⟨prog, args⟩ := e
    have hc := prog_confined t plan prog v args n (hrf _ (List.mem_cons_self ..)) hd hb
    have hw := hc.2.2.2 "result" (by decide)
    simp only [runHistory]
    refine Chain.cons hw (ih _ _ (fun e he => hrf e (List.mem_cons_of_mem _ he)) ?_)
    intro a ha
    exact (hw.2 a ha).2

/-! ## non-vacuity -/

/-- a project with one service on one network, and one network with a labels map -/
def exProj : GoVal := .ptr 1 (.struct [
  (.fld Deriv.fNetworks, .map 2 [(.str "net", .struct [(.fld Deriv.fLabels, .map 3 [(.str "l", .scalar "s:v")])])]),
  (.fld Deriv.fServices, .map 4 [(.str "web", .struct [(.fld Deriv.fNetworks, .map 5 [(.str "net", .nil)])])])])
def exTy2 : Ty := .ptr (.struct [
  (Deriv.fNetworks, .map (.struct [(Deriv.fLabels, .map .scalar)])),
  (Deriv.fServices, .map (.struct [(Deriv.fNetworks, .map (.ptr .scalar))]))])
def exPlan2 : Plan := .newPtr (.fields [
  (Deriv.fNetworks, .newMap (.fields [(Deriv.fLabels, .newMap .assign)])),
  (Deriv.fServices, .newMap (.fields [(Deriv.fNetworks, .newMap (.newPtr .assign))]))])

/-- the repaired `WithoutUnnecessaryResources` really runs on it: it writes, keeps the network, and the result's
addresses are all new -/
example : (runProg exTy2 exPlan2 Deriv.withoutUnnecessaryResources exProj [] 6).err = none ∧
    (runProg exTy2 exPlan2 Deriv.withoutUnnecessaryResources exProj [] 6).log.length = 5 ∧
    addrs (getVar "result" (runProg exTy2 exPlan2 Deriv.withoutUnnecessaryResources exProj [] 6).vars) = [6, 11, 8, 9, 10, 12, 13, 14] := by
  decide +kernel

end CV.Heap
