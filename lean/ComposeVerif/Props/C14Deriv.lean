import ComposeVerif.Lemmas.HeapProg
import ComposeVerif.Lemmas.HeapResolve
import ComposeVerif.Model.Derivations
import ComposeVerif.Gen.Derivations
import ComposeVerif.Gen.C14Progs
import ComposeVerif.Props.C14
/-!
# C14 — the derivations as heap programs: receiver free ⇒ confined (closes the `Confined` hypothesis of `derivation_isolated`)

`Model/HeapProg.lean` is a small Go-statement semantics over the heap model (assignment, struct-field update, make,
deep copy, field store through a pointer, map store / delete, range, if, early return).  `Stmt.rf` is the syntactic
condition the escape extractor (`Gen.Derivations.receiverEscapes = []`, `receiverWrites = []`) checks on the Go source:
no expression mentions the receiver except as the source of a deep copy.  `Model/Derivations.lean` holds the nine
derivations of `types/project.go` as programs of that language; `c14.deriv` runs them against the real methods.
-/
namespace CV.Heap
open CV.Gen.CopyPlan

/-- type and resolved plan of `Project.deepCopy()` -/
def projTy : Ty := match roots with | r :: _ => rootTy r | [] => .unknown "no root"
def projPlan : Plan := match roots with | r :: _ => rootPlan r | [] => .unknown "no root"

theorem projPlan_deep : deep projTy projPlan = true ∧ covers projTy projPlan = true := by decide +kernel

/-- **receiver free ⇒ confined** (every program of the statement language, every receiver, all pure arguments, any
allocation state, any deep copy plan): if no expression of the program mentions the receiver variable — it may only be the
source of a deep copy — then after the run
* the receiver variable still holds the receiver, and every value allocated before the frontier is unchanged by the
  program's writes;
* every write goes through an address allocated since the frontier and stores only such addresses (`Confined`);
* every other variable — the result in particular — holds only memory allocated since the frontier. -/
theorem prog_confined (t : Ty) (plan : Plan) (prog : List Stmt) (p : GoVal) (args : List (String × PData)) (n : Nat)
    (hrf : rfL prog = true) (hd : deep t plan = true) (hb : Below n p) :
    let st := runProg t plan prog p args n
    getVar "p" st.vars = p ∧ (∀ u, Below n u → writes st.log u = u) ∧ Confined n st.next st.log ∧
      ∀ x, x ≠ "p" → Within n st.next (addrs (getVar x st.vars)) := by
  have h0 : Inv n p { vars := [("p", p)], pvars := args, next := n } :=
    ⟨by simp [getVar], Nat.le_refl n, by intro x v hm hx; simp at hm; exact absurd hm.1 hx, by intro w hw; cases hw⟩
  have h := execL_inv hd hb prog _ hrf h0
  refine ⟨h.recv, ?_, h.log, fun x hx => ⟨h.le, h.var x hx⟩⟩
  intro u hu
  apply writes_not_mem
  intro w hw hmem
  have := (h.log w hw).1
  have := hu _ hmem
  omega

/-- the result of a receiver-free program shares no address with the receiver -/
theorem prog_result_isolated (t : Ty) (plan : Plan) (prog : List Stmt) (p : GoVal) (args : List (String × PData)) (n : Nat)
    (hrf : rfL prog = true) (hd : deep t plan = true) (hb : Below n p) :
    Isolated (getVar "result" (runProg t plan prog p args n).vars) p := by
  intro a ha hap
  have := ((prog_confined t plan prog p args n hrf hd hb).2.2.2 "result" (by decide)).2 a ha
  have := hb a hap
  omega

/-- the nine derivations of `types/project.go`, as modelled, are receiver free -/
theorem derivations_receiver_free : ∀ pr ∈ Deriv.programs, rfL pr.2 = true := by decide

/-- every method of `Project` that returns a `*Project` in the source tree now has a heap program -/
theorem derivations_modelled : ∀ d ∈ CV.Gen.Derivations.derivations, d.1 ∈ Deriv.programs.map (·.1) := by decide

/-- **the nine derivations are confined**, for every project and all arguments, with the copy plan that is in the tree now:
the receiver is unchanged, everything allocated before the call is unchanged, and the result shares no address with
the receiver. -/
theorem derivations_confined (pr : String × List Stmt) (hpr : pr ∈ Deriv.programs)
    (p : GoVal) (args : List (String × PData)) (n : Nat) (hb : Below n p) :
    let st := runProg projTy projPlan pr.2 p args n
    getVar "p" st.vars = p ∧ (∀ u, Below n u → writes st.log u = u) ∧ Confined n st.next st.log ∧
      Isolated (getVar "result" st.vars) p :=
  have h := prog_confined projTy projPlan pr.2 p args n (derivations_receiver_free pr hpr) projPlan_deep.1 hb
  ⟨h.1, h.2.1, h.2.2.1, prog_result_isolated projTy projPlan pr.2 p args n (derivations_receiver_free pr hpr) projPlan_deep.1 hb⟩

/-- **fuel independence**: the resolved root types and plans contain no unresolved node, and any fuel ≥ 64 (in fact any
fuel ≥ the nesting depth) resolves to the same type and plan -/
theorem root_resolution_fuel_independent :
    ∀ r ∈ roots, ∀ m, 64 ≤ m → Plan.resolve fns m r.2.2 = rootPlan r ∧ Ty.resolve types m r.2.1 = rootTy r := by
  have hc : ∀ r ∈ roots, (rootPlan r).closed = true ∧ (rootTy r).closed = true := by decide +kernel
  intro r hr m hm
  exact ⟨Plan.resolve_ge fns 64 r.2.2 (hc r hr).1 m hm, Ty.resolve_ge types 64 r.2.1 (hc r hr).2 m hm⟩

/-! ## the programs are the source (facts regenerated by `translator/c14prog.go`) -/

/-- **the heap programs mirror the source statement for statement**: the statement skeleton the translator prints from
`types/project.go` (copies, makes, field stores, map stores / deletes, ranges, branches, early returns, calls of other
modelled functions, with the root variable of every expression) is the skeleton `renderL` prints from the hand-written
programs.  A store added to a derivation, a loop over another map, the receiver read where the copy was, a reordering:
each breaks this until the program is re-aligned — so `derivations_receiver_free` is about the code in the tree now. -/
theorem programs_are_source : Deriv.skeletons = CV.Gen.C14Progs.skeletons := by decide +kernel

/-- the functions mirrored by hand without a skeleton (the goroutine fan-out of `WithServicesTransform`, the closure of
`WithImagesResolved`, `withServices`, `HasProfile`, the `MappingWithEquals` / `Labels` helpers behind the `call(…)` nodes)
still have the source text the programs and pure functions were written against -/
theorem mirrored_sources_unchanged : CV.Gen.C14Progs.sources = [
  ("WithServicesTransform", "func (p *Project) WithServicesTransform(fn func(name string, s ServiceConfig) (ServiceConfig, error)) (*Project, error) { type result struct { name string service ServiceConfig } expect := len(p.Services) resultCh := make(chan result, expect) newProject := p.deepCopy() services := newProject.Services eg, ctx := errgroup.WithContext(context.Background()) eg.Go(func() error { s := Services{} for expect > 0 { select { case <-ctx.Done(): return nil case r := <-resultCh: s[r.name] = r.service expect-- } } newProject.Services = s return nil }) for n, s := range services { name := n service := s eg.Go(func() error { updated, err := fn(name, service) if err != nil { return err } resultCh <- result{ name: name, service: updated, } return nil }) } return newProject, eg.Wait() }"),
  ("WithImagesResolved", "func (p *Project) WithImagesResolved(resolver func(named reference.Named) (godigest.Digest, error)) (*Project, error) { return p.WithServicesTransform(func(name string, service ServiceConfig) (ServiceConfig, error) { if service.Image == \"\" { return service, nil } named, err := reference.ParseDockerRef(service.Image) if err != nil { return service, err } if _, ok := named.(reference.Canonical); !ok { digest, err := resolver(named) if err != nil { return service, err } named, err = reference.WithDigest(named, digest) if err != nil { return service, err } } service.Image = named.String() return service, nil }) }"),
  ("withServices", "func (p *Project) withServices(names []string, fn ServiceFunc, seen map[string]bool, options []DependencyOption, dependencies map[string]ServiceDependency) error { services, servicesNotFound := p.getServicesByNames(names...) if len(servicesNotFound) > 0 { for _, serviceNotFound := range servicesNotFound { if dependency, ok := dependencies[serviceNotFound]; !ok || dependency.Required { return fmt.Errorf(\"no such service: %s\", serviceNotFound) } } } opts := withServicesOptions{ dependencyPolicy: includeDependencies, } for _, option := range options { option(&opts) } for name, service := range services { if seen[name] { continue } seen[name] = true var dependencies map[string]ServiceDependency switch opts.dependencyPolicy { case includeDependents: dependencies = utils.MapsAppend(dependencies, p.dependentsForService(service)) case includeDependencies: dependencies = utils.MapsAppend(dependencies, service.DependsOn) case ignoreDependencies: } if len(dependencies) > 0 { err := p.withServices(utils.MapKeys(dependencies), fn, seen, options, dependencies) if err != nil { return err } } if err := fn(name, service.deepCopy()); err != nil { return err } } return nil }"),
  ("dependentsForService", "func (p *Project) dependentsForService(s ServiceConfig) map[string]ServiceDependency { dependent := make(map[string]ServiceDependency) for _, service := range p.Services { for name, dependency := range service.DependsOn { if name == s.Name { dependent[service.Name] = dependency } } } return dependent }"),
  ("HasProfile", "func (s ServiceConfig) HasProfile(profiles []string) bool { if len(s.Profiles) == 0 { return true } for _, p := range profiles { if p == \"*\" { return true } for _, sp := range s.Profiles { if sp == p { return true } } } return false }"),
  ("MappingWithEquals.Resolve", "func (m MappingWithEquals) Resolve(lookupFn func(string) (string, bool)) MappingWithEquals { for k, v := range m { if v == nil { if value, ok := lookupFn(k); ok { m[k] = &value } } } return m }"),
  ("MappingWithEquals.OverrideBy", "func (m MappingWithEquals) OverrideBy(other MappingWithEquals) MappingWithEquals { for k, v := range other { m[k] = v } return m }"),
  ("Labels.ToMappingWithEquals", "func (l Labels) ToMappingWithEquals() MappingWithEquals { mapping := MappingWithEquals{} for k, v := range l { v := v mapping[k] = &v } return mapping }"),
  ("Labels.Add", "func (l Labels) Add(key, value string) Labels { if l == nil { l = Labels{} } l[key] = value return l }"),
  ("NewLabelsFromMappingWithEquals", "func NewLabelsFromMappingWithEquals(mapping MappingWithEquals) Labels { labels := Labels{} for k, v := range mapping { if v != nil { labels[k] = *v } } return labels }")] := by decide +kernel

/-! ## histories of programs -/

/-- a chain of projects, each allocated entirely after the frontier the previous step started from -/
inductive Chain : GoVal → Nat → List GoVal → Prop where
  | nil (v : GoVal) (n : Nat) : Chain v n []
  | cons {v v' : GoVal} {n n' : Nat} {rest : List GoVal} :
      Within n n' (addrs v') → Chain v' n' rest → Chain v n (v' :: rest)

theorem chain_above : ∀ {v : GoVal} {n : Nat} {l : List GoVal}, Chain v n l → ∀ w ∈ l, ∀ a ∈ addrs w, n ≤ a := by
  intro v n l h
  induction h with
  | nil => intro w hw; cases hw
  | @cons v v' n n' rest hw _ ih =>
    intro w hmem a ha
    rcases List.mem_cons.mp hmem with rfl | hm
    · exact (hw.2 a ha).1
    · have := ih w hm a ha; have := hw.1; omega

/-- the projects of a chain are pairwise isolated -/
theorem chain_pairwise : ∀ {v : GoVal} {n : Nat} {l : List GoVal}, Chain v n l → Below n v →
    List.Pairwise Isolated (v :: l) := by
  intro v n l h
  induction h with
  | nil => intro _; simp
  | @cons v v' n n' rest hw hrest ih =>
    intro hb
    have hb' : Below n' v' := fun a ha => (hw.2 a ha).2
    have ih' := ih hb'
    simp only [List.pairwise_cons] at ih' ⊢
    refine ⟨?_, ih'⟩
    intro w hmem a ha haw
    have hlow := hb a ha
    rcases List.mem_cons.mp hmem with rfl | hm
    · have := (hw.2 a haw).1; omega
    · have := chain_above hrest w hm a haw; have := hw.1; omega

/-- run a history of derivation programs, each on the result of the previous one -/
def runHistory (t : Ty) (plan : Plan) : List (List Stmt × List (String × PData)) → GoVal → Nat → List GoVal
  | [], _, _ => []
  | (prog, args) :: r, v, n =>
    let st := runProg t plan prog v args n
    getVar "result" st.vars :: runHistory t plan r (getVar "result" st.vars) st.next

/-- **histories of derivations** (any length, any of the receiver-free programs, any arguments): all projects of the
history, the original included, are pairwise isolated -/
theorem prog_history_isolated (t : Ty) (plan : Plan) (hd : deep t plan = true) :
    ∀ (h : List (List Stmt × List (String × PData))) (v : GoVal) (n : Nat),
      (∀ e ∈ h, rfL e.1 = true) → Below n v → List.Pairwise Isolated (v :: runHistory t plan h v n) := by
  intro h v n hrf hb
  apply chain_pairwise _ hb
  induction h generalizing v n with
  | nil => exact Chain.nil v n
  | cons e r ih =>
    obtain ⟨prog, args⟩ := e
    have hc := prog_confined t plan prog v args n (hrf _ (List.mem_cons_self ..)) hd hb
    have hw := hc.2.2.2 "result" (by decide)
    simp only [runHistory]
    refine Chain.cons hw (ih _ _ (fun e he => hrf e (List.mem_cons_of_mem _ he)) ?_)
    intro a ha
    exact (hw.2 a ha).2

/-! ## non-vacuity -/

/-- a project with one service on one network, and one network with a labels map -/
def exProj : GoVal := .ptr 1 (.struct [
  (.fld Deriv.fNetworks, .map 2 [(.str "net", .struct [(.fld Deriv.fLabels, .map 3 [(.str "l", .scalar "s:v")])])]),
  (.fld Deriv.fServices, .map 4 [(.str "web", .struct [(.fld Deriv.fNetworks, .map 5 [(.str "net", .nil)])])])])
def exTy2 : Ty := .ptr (.struct [
  (Deriv.fNetworks, .map (.struct [(Deriv.fLabels, .map .scalar)])),
  (Deriv.fServices, .map (.struct [(Deriv.fNetworks, .map (.ptr .scalar))]))])
def exPlan2 : Plan := .newPtr (.fields [
  (Deriv.fNetworks, .newMap (.fields [(Deriv.fLabels, .newMap .assign)])),
  (Deriv.fServices, .newMap (.fields [(Deriv.fNetworks, .newMap (.newPtr .assign))]))])

/-- the repaired `WithoutUnnecessaryResources` really runs on it: it writes, keeps the network, and the result's
addresses are all new -/
example : (runProg exTy2 exPlan2 Deriv.withoutUnnecessaryResources exProj [] 6).err = none ∧
    (runProg exTy2 exPlan2 Deriv.withoutUnnecessaryResources exProj [] 6).log.length = 5 ∧
    addrs (getVar "result" (runProg exTy2 exPlan2 Deriv.withoutUnnecessaryResources exProj [] 6).vars) = [6, 11, 8, 9, 10, 12, 13, 14] := by
  decide +kernel

end CV.Heap
