import ComposeVerif.Props.C15
/-!
# C15 (round 6) — compositions of the selection operations

Which compositions commute, which are idempotent, which are not.  Equalities between projects are stated at the level of
the Go map (`LookEq`: the same value under every key): list order is Go's iteration order, which `*_perm` proved irrelevant.

* `select_closure_total` — the transitive closure clause with no fuel left visible: `WithSelectedServices` either is rejected
  exactly when the reference outcome is a rejection, or returns the project whose enabled set is the `Reach` closure.
* `profiles_absorbs_history` — `WithProfiles P` after any history enables the same services as `WithProfiles P` before it.
* `profiles_recorded_list_not_identity` — but re-applying the *recorded* profile list is **not** the identity after a
  history (the "fast path" of seeded change C15-7 is wrong for exactly this reason).
* `disable_names_order_free` / `disable_idempotent` / `disable_args_do_not_commute` — the enabled half of
  `WithServicesDisabled` depends on the *set* of names only; the operation is idempotent; the disabled half is order dependent.
-/
namespace CV.Sel

/-! ## the closure clause, fuel-free -/

/-- **`WithSelectedServices`, total statement**: on a well-formed project and a non-empty name list the operation
is decided by the reference `selectWanted` (roots known? closure free of missing required dependencies?): it is rejected
iff the reference rejects, and otherwise returns a project `q` that satisfies `SelectSpec` for the reference set `S`,
where `S` is exactly the least set containing the names and closed under the policy's edges.  No fuel, no hypothesis
about the walk: the model's fuel is discharged inside (`select_never_out_of_fuel`). -/
theorem select_closure_total {p : Proj} (g : Good p) {names : List String} (hn : names ≠ []) (pol : Policy) :
    match selectWanted p names pol with
    | none => withSelectedServices p names pol = .err
    | some S => (∀ x, x ∈ S ↔ Reach p.services pol names x) ∧
        ∃ q, withSelectedServices p names pol = .ok q ∧ SelectSpec p S q ∧ SelectMovedSpec p S q ∧
          (∀ x, x ∈ keys q.services ↔ Reach p.services pol names x) := by
  cases hw : selectWanted p names pol with
  | none => exact (selectWanted_none_iff g hn pol).1 hw
  | some S =>
    have hS : S = closure p.services pol names := by
      unfold selectWanted at hw
      split at hw
      · cases hw
      · simp only [] at hw
        split at hw
        · cases hw
        · exact (Option.some.inj hw).symm
    have ne : withSelectedServices p names pol ≠ .err := by
      intro e
      have := (selectWanted_none_iff g hn pol).2 e
      rw [hw] at this; cases this
    have nf := select_never_out_of_fuel g.1 g.2.2 names pol
    refine ⟨fun x => by rw [hS]; exact closure_eq_reach g.1.1 pol names x, ?_⟩
    cases hq : withSelectedServices p names pol with
    | err => exact absurd hq ne
    | fuel => exact absurd hq nf
    | ok q =>
      have hreach := selected_eq_closure g.1 g.2.2 hn hq
      have hSR : ∀ x, x ∈ S ↔ Reach p.services pol names x := fun x => by
        rw [hS]; exact closure_eq_reach g.1.1 pol names x
      obtain ⟨S', hS', spec, _, _⟩ := select_exact g hn hq
      exact ⟨q, rfl, selectSpec_congr (S := S') (S' := S)
        ⟨fun x hx => (hSR x).2 ((hS' x).1 hx), fun x hx => (hS' x).2 ((hSR x).1 hx)⟩ spec,
        select_moved_exact g.1 g.2.2 hn hq S hSR, hreach⟩

/-! ## `WithProfiles` after a history -/

theorem active_of_svcLe {s t : Svc} (h : SvcLe s t) (P : List String) : Active s P ↔ Active t P := by
  have e : s.profiles = t.profiles := by
    have := h.1; unfold sameButDeps at this; exact (Svc.mk.inj this).2.2.1
  unfold Active; rw [e]

/-- **`WithProfiles` forgets the history**: whatever sequence of operations was applied before, `WithProfiles P` enables
exactly the services that `WithProfiles P` enables on the original project (contents: the current ones, `history_conserved`) -/
theorem profiles_absorbs_history {p : Proj} (g : Good p) (ops : List Op) (P : List String) (k : String) :
    k ∈ keys (withProfiles (run p ops) P).services ↔ k ∈ keys (withProfiles p P).services := by
  have inv := partition_inv g ops
  rw [profiles_enabled_iff inv.1.1 P k, profiles_enabled_iff g.1 P k]
  have c := inv.2 k
  cases hp : find p k with
  | none =>
    cases hr : find (run p ops) k with
    | none => simp
    | some t => rw [hp, hr] at c; exact c.elim
  | some s =>
    cases hr : find (run p ops) k with
    | none => rw [hp, hr] at c; exact c.elim
    | some t =>
      rw [hp, hr] at c
      have := active_of_svcLe c P
      constructor
      · rintro ⟨_, e, a⟩; cases e; exact ⟨s, rfl, this.2 a⟩
      · rintro ⟨_, e, a⟩; cases e; exact ⟨t, rfl, this.1 a⟩

/-- … and the same for the disabled half -/
theorem profiles_absorbs_history_disabled {p : Proj} (g : Good p) (ops : List Op) (P : List String) (k : String) :
    k ∈ keys (withProfiles (run p ops) P).disabled ↔ k ∈ keys (withProfiles p P).disabled := by
  have inv := partition_inv g ops
  have h1 := withProfiles_partition inv.1.1 P
  have h2 := withProfiles_partition g.1 P
  have k1 : k ∈ known (withProfiles (run p ops) P) ↔ k ∈ known (withProfiles p P) := by
    have a := (partition_step inv.1 (.profiles P) (q := withProfiles (run p ops) P) rfl).2.known k
    have b := (partition_step g (.profiles P) (q := withProfiles p P) rfl).2.known k
    rw [← a, ← b]; exact (inv.2.known k).symm
  have e := profiles_absorbs_history g ops P k
  rw [mem_known, mem_known] at k1
  constructor
  · intro hd
    have : k ∉ keys (withProfiles (run p ops) P).services := fun hs => h1.2.2 k hs hd
    rcases k1.1 (.inr hd) with a | a
    · exact absurd (e.2 a) this
    · exact a
  · intro hd
    have : k ∉ keys (withProfiles p P).services := fun hs => h2.2.2 k hs hd
    rcases k1.2 (.inr hd) with a | a
    · exact absurd (e.1 a) this
    · exact a

def fastPathProj : Proj :=
  { services := [("a", exSvc "a" [] []), ("b", exSvc "b" [] [("a", ⟨true, "c"⟩)])], disabled := [], profiles := [],
    networks := [], volumes := [], secrets := [], configs := [] }

/-- **re-applying the recorded profile list is not the identity after a history**: a service without profile that was
disabled by name comes back.  (Seeded change C15-7 returns the receiver's copy when `p.Profiles` equals the argument:
exactly the equation refuted here.) -/
theorem profiles_recorded_list_not_identity :
    ∃ (p : Proj) (ops : List Op), Good p ∧ ProfilesOK p ∧
      keys (withProfiles (run p ops) (run p ops).profiles).services ≠ keys (run p ops).services :=
  ⟨fastPathProj, [.disable ["a"]], ⟨by decide, by decide, by decide⟩, by decide, by decide⟩

/-- what does hold: directly after `WithProfiles P` (no operation in between) a second `WithProfiles P` changes nothing -/
theorem profiles_recorded_list_identity_partial {p : Proj} (h : Partition p) (P : List String) :
    LookEq (withProfiles (withProfiles p P) (withProfiles p P).profiles).services (withProfiles p P).services ∧
    LookEq (withProfiles (withProfiles p P) (withProfiles p P).profiles).disabled (withProfiles p P).disabled :=
  profiles_idempotent h P

/-! ## `WithServicesDisabled`: set of names, idempotence, argument order -/

theorem dropDeps_congr {a b : List String} (e : ∀ x, x ∈ a ↔ x ∈ b) (s : Svc) : dropDeps a s = dropDeps b s := by
  unfold dropDeps
  congr 1
  apply List.filter_congr
  intro d _
  simp [e d.1]

theorem dropDeps_idem (a : List String) (s : Svc) : dropDeps a (dropDeps a s) = dropDeps a s := by
  unfold dropDeps
  simp [List.filter_filter]

/-- the enabled half of `WithServicesDisabled` depends on the **set** of names only: any reordering or repetition of the
arguments gives the same enabled map -/
theorem disable_names_order_free (p : Proj) {a b : List String} (e : ∀ x, x ∈ a ↔ x ∈ b) :
    LookEq (withServicesDisabled p a).services (withServicesDisabled p b).services := by
  intro k
  rw [lookup_withServicesDisabled_services, lookup_withServicesDisabled_services]
  by_cases hk : k ∈ a
  · simp [hk, (e k).1 hk]
  · have hk' : k ∉ b := fun c => hk ((e k).2 c)
    simp only [hk, hk', if_false]
    cases lookup k p.services with
    | none => rfl
    | some s => simp [dropDeps_congr e s]

theorem disabled_unchanged_of_not_enabled (names : List String) :
    ∀ (q : Proj), (∀ m ∈ names, m ∉ keys q.services) → LookEq (withServicesDisabled q names).disabled q.disabled := by
  unfold withServicesDisabled
  induction names with
  | nil => intro q _ k; rfl
  | cons n ns ih =>
    intro q hq k
    simp only [List.foldl_cons]
    have hn : n ∉ keys q.services := hq n (List.mem_cons_self ..)
    rw [ih (disableOne q n) (fun m hm c => hq m (List.mem_cons_of_mem _ hm) (mem_keys_disableOne_services.1 c).1) k,
      lookup_disableOne_disabled]
    simp [hn]

/-- **`WithServicesDisabled` is idempotent**: disabling the same names again returns the same enabled and the same
disabled map -/
theorem disable_idempotent (p : Proj) (names : List String) :
    LookEq (withServicesDisabled (withServicesDisabled p names) names).services (withServicesDisabled p names).services ∧
    LookEq (withServicesDisabled (withServicesDisabled p names) names).disabled (withServicesDisabled p names).disabled := by
  refine ⟨fun k => ?_, disabled_unchanged_of_not_enabled names _
    (fun m hm c => (mem_keys_withServicesDisabled_services.1 c).2 hm)⟩
  rw [lookup_withServicesDisabled_services, lookup_withServicesDisabled_services]
  by_cases hk : k ∈ names
  · simp [hk]
  · simp only [hk, if_false]
    cases lookup k p.services with
    | none => rfl
    | some s => simp [dropDeps_idem]

/-- the disabled half is **not** symmetric in the arguments: `b` depends on `a`; disabled as `[a, b]` it has lost the
edge, disabled as `[b, a]` it keeps it (`disable_moved_exact`: `upTo`) -/
theorem disable_args_do_not_commute :
    ∃ (p : Proj) (a b : String), Good p ∧
      lookup b (withServicesDisabled p [a, b]).disabled ≠ lookup b (withServicesDisabled p [b, a]).disabled :=
  ⟨fastPathProj, "a", "b", ⟨by decide, by decide, by decide⟩, by decide⟩

/-- disabling, then enabling by profile: `WithServicesDisabled` commutes with a following `WithProfiles` as far as the
partition goes (instance of `profiles_absorbs_history`) -/
theorem profiles_after_disable {p : Proj} (g : Good p) (names P : List String) (k : String) :
    k ∈ keys (withProfiles (withServicesDisabled p names) P).services ↔ k ∈ keys (withProfiles p P).services :=
  profiles_absorbs_history g [.disable names] P k

/-- selecting, then `WithProfiles`: the services pruned away by a successful selection come back exactly as the profile
rule says (instance of `profiles_absorbs_history`; a failed selection leaves the project as it was) -/
theorem profiles_after_select {p : Proj} (g : Good p) (names : List String) (pol : Policy) (P : List String) (k : String) :
    k ∈ keys (withProfiles (run p [.select names pol]) P).services ↔ k ∈ keys (withProfiles p P).services :=
  profiles_absorbs_history g [.select names pol] P k

/-! ## `WithServicesEnabled` is idempotent -/

theorem resolveEnv_idem (penv : AL String) (env : AL (Option String)) :
    resolveEnv penv (resolveEnv penv env) = resolveEnv penv env := by
  unfold resolveEnv
  rw [List.map_map]
  apply List.map_congr_left
  intro kv _
  obtain ⟨k, v⟩ := kv
  cases v with
  | some x => rfl
  | none =>
    simp only [Function.comp]
    cases h : lookup k penv <;> simp [h]

theorem resolveEnabled_idem (p : Proj) : resolveEnabled (resolveEnabled p) = resolveEnabled p := by
  unfold resolveEnabled
  simp only [List.map_map]
  congr 1
  apply List.map_congr_left
  intro kv _
  simp [Function.comp, resolveEnvSvc, resolveEnv_idem]

/-- re-applying the recorded profile list **is** the identity when the partition already follows the profile rule -/
theorem withProfiles_fix {q : Proj} (h : Partition q) (hs : ∀ kv ∈ q.services, hasProfile kv.2 q.profiles = true)
    (hd : ∀ kv ∈ q.disabled, hasProfile kv.2 q.profiles = false) : withProfiles q q.profiles = q := by
  have f1 : (q.services ++ q.disabled).filter (fun kv => hasProfile kv.2 q.profiles) = q.services := by
    rw [List.filter_append, List.filter_eq_self.2 hs, List.filter_eq_nil_iff.2 (fun kv hk => by simp [hd kv hk]),
      List.append_nil]
  have f2 : (q.services ++ q.disabled).filter (fun kv => !hasProfile kv.2 q.profiles) = q.disabled := by
    rw [List.filter_append, List.filter_eq_nil_iff.2 (fun kv hk => by simp [hs kv hk]),
      List.filter_eq_self.2 (fun kv hk => by simp [hd kv hk]), List.nil_append]
  have e1 := withProfiles_services h q.profiles
  have e2 := withProfiles_disabled h q.profiles
  rw [f1] at e1; rw [f2] at e2
  have e : withProfiles q q.profiles =
      { q with services := (withProfiles q q.profiles).services, disabled := (withProfiles q q.profiles).disabled } := rfl
  rw [e, e1, e2]

theorem foldl_enable_fix (q : Proj) (names : List String)
    (hn : ∀ n ∈ names, has n q.services = true ∨ lookup n q.disabled = none) (acc : List String) :
    names.foldl (fun acc n =>
      if has n q.services then acc
      else acc ++ (match lookup n q.disabled with | some s => s.profiles | none => [])) acc = acc := by
  induction names generalizing acc with
  | nil => rfl
  | cons n ns ih =>
    simp only [List.foldl_cons]
    rcases hn n (List.mem_cons_self ..) with a | a
    · simp only [a, if_true]; exact ih (fun m hm => hn m (List.mem_cons_of_mem _ hm)) acc
    · by_cases b : has n q.services = true
      · simp only [b, if_true]; exact ih (fun m hm => hn m (List.mem_cons_of_mem _ hm)) acc
      · simp only [b, a, List.append_nil]
        exact ih (fun m hm => hn m (List.mem_cons_of_mem _ hm)) acc

/-- **`WithServicesEnabled` is idempotent** on a project as a load (and every history after it) leaves it: enabling the
same names again returns the same project — no profile is added twice, no environment resolved differently -/
theorem enable_idempotent {p : Proj} (g : Good p) (ok : ProfilesOK p) (names : List String) :
    withServicesEnabled (withServicesEnabled p names) names = withServicesEnabled p names := by
  by_cases hne : names = []
  · subst hne; rfl
  have hemp : names.isEmpty = false := by cases names <;> simp_all
  have eq : withServicesEnabled p names = resolveEnabled (withProfiles p (enableProfiles p names)) := by
    simp [withServicesEnabled, hemp]
  have st := partition_step g (.enable names) (q := withServicesEnabled p names) rfl
  have sp := withServicesEnabled_spec g.1 names
  unfold EnableSpec at sp
  rw [if_neg hne] at sp
  obtain ⟨-, -, -, sp4⟩ := sp
  -- every name is enabled now, or unknown
  have hn : ∀ n ∈ names, has n (withServicesEnabled p names).services = true ∨
      lookup n (withServicesEnabled p names).disabled = none := by
    intro n hnm
    by_cases hk : n ∈ known p
    · left; exact lookup_isSome.2 (sp4 ok n hnm hk).1
    · right
      rw [lookup_eq_none]
      intro c
      exact hk ((st.2.known n).2 (mem_known.2 (.inr c)))
  have e1 : enableProfiles (withServicesEnabled p names) names = (withServicesEnabled p names).profiles :=
    foldl_enable_fix _ names hn _
  -- the partition already follows the profile rule
  have hp := withProfiles_partition g.1 (enableProfiles p names)
  have prof : (withServicesEnabled p names).profiles = enableProfiles p names := by rw [eq]; rfl
  have hs : ∀ kv ∈ (withServicesEnabled p names).services,
      hasProfile kv.2 (withServicesEnabled p names).profiles = true := by
    intro kv hkv
    rw [prof]
    rw [eq] at hkv
    have : kv ∈ (withProfiles p (enableProfiles p names)).services.map
        fun kv => (kv.1, resolveEnvSvc (withProfiles p (enableProfiles p names)).environment kv.2) := hkv
    obtain ⟨kv0, hm, rfl⟩ := List.mem_map.1 this
    rw [withProfiles_services g.1] at hm
    exact (List.mem_filter.1 hm).2
  have hd : ∀ kv ∈ (withServicesEnabled p names).disabled,
      hasProfile kv.2 (withServicesEnabled p names).profiles = false := by
    intro kv hkv
    rw [prof]
    rw [eq] at hkv
    have hm : kv ∈ (withProfiles p (enableProfiles p names)).disabled := hkv
    rw [withProfiles_disabled g.1] at hm
    simpa using (List.mem_filter.1 hm).2
  have e2 := withProfiles_fix st.1.1 hs hd
  show (if names.isEmpty then _ else resolveEnabled (withProfiles _ (enableProfiles _ names))) = _
  rw [hemp, e1, e2]
  simp only [Bool.false_eq_true, if_false]
  rw [eq, resolveEnabled_idem]

/-! ## histories compose; the last `WithProfiles` decides; the closure is monotone -/

/-- histories compose: running `a ++ b` is running `b` on the result of `a` -/
theorem run_append (p : Proj) (a b : List Op) : run p (a ++ b) = run (run p a) b := by
  induction a generalizing p with
  | nil => rfl
  | cons o os ih =>
    simp only [List.cons_append, run_cons]
    cases applyOp p o <;> exact ih _

/-- **any history that ends with `WithProfiles P` leaves the partition `WithProfiles P` alone would**: the last profile
selection decides which services are enabled, whatever was enabled, disabled or selected before -/
theorem history_ending_with_profiles {p : Proj} (g : Good p) (ops : List Op) (P : List String) (k : String) :
    k ∈ keys (run p (ops ++ [.profiles P])).services ↔ k ∈ keys (withProfiles p P).services := by
  rw [run_append]
  exact profiles_absorbs_history g ops P k

/-- the closure is monotone in the requested names -/
theorem reach_mono {svcs : AL Svc} {pol : Policy} {a b : List String} (sub : ∀ x ∈ a, x ∈ b) {x : String}
    (h : Reach svcs pol a x) : Reach svcs pol b x := by
  induction h with
  | root hr hk => exact .root (sub _ hr) hk
  | step _ e ih => exact .step ih e

/-- **selecting more names keeps more services**: if both selections succeed, the enabled set of the smaller request is
contained in that of the larger one -/
theorem select_monotone {p : Proj} (g : Good p) {a b : List String} (ha : a ≠ []) (hb : b ≠ []) (sub : ∀ x ∈ a, x ∈ b)
    {pol : Policy} {qa qb : Proj} (ea : withSelectedServices p a pol = .ok qa) (eb : withSelectedServices p b pol = .ok qb)
    (x : String) (hx : x ∈ keys qa.services) : x ∈ keys qb.services := by
  rw [selected_eq_closure g.1 g.2.2 hb eb]
  exact reach_mono sub ((selected_eq_closure g.1 g.2.2 ha ea x).1 hx)

/-! ## `WithServicesDisabled` and `WithSelectedServices`: inclusion, not commutation -/

theorem mem_keys_dropDeps {ns : List String} {s : Svc} {y : String} (h : y ∈ keys (dropDeps ns s).deps) :
    y ∈ keys s.deps ∧ y ∉ ns := by
  unfold dropDeps at h
  obtain ⟨v, hv⟩ := mem_keys.1 h
  have := List.mem_filter.1 hv
  exact ⟨mem_keys.2 ⟨v, this.1⟩, by simpa using this.2⟩

/-- an edge of the walk after `WithServicesDisabled ns` is an edge of the walk before it, between services outside `ns` -/
theorem edge_disable {p : Proj} {ns : List String} {pol : Policy} {x y : String}
    (e : Edge (withServicesDisabled p ns).services pol x y) : Edge p.services pol x y ∧ y ∉ ns := by
  cases pol with
  | deps =>
    obtain ⟨s', hs', hy, hk⟩ := e
    rw [lookup_withServicesDisabled_services] at hs'
    split at hs'
    · cases hs'
    · cases hl : lookup x p.services with
      | none => rw [hl] at hs'; cases hs'
      | some s =>
        rw [hl] at hs'
        simp only [Option.map_some, Option.some.injEq] at hs'
        subst hs'
        have hk' := mem_keys_withServicesDisabled_services.1 hk
        exact ⟨⟨s, hl, (mem_keys_dropDeps hy).1, hk'.1⟩, hk'.2⟩
  | dependents =>
    obtain ⟨hx, s', hs', hxd⟩ := e
    have hx' := mem_keys_withServicesDisabled_services.1 hx
    rw [lookup_withServicesDisabled_services] at hs'
    split at hs'
    · cases hs'
    · rename_i hyn
      cases hl : lookup y p.services with
      | none => rw [hl] at hs'; cases hs'
      | some s =>
        rw [hl] at hs'
        simp only [Option.map_some, Option.some.injEq] at hs'
        subst hs'
        exact ⟨⟨hx'.1, s, hl, (mem_keys_dropDeps hxd).1⟩, hyn⟩
  | ignore => exact e.elim

/-- **disable, then select ⊆ select**: the closure computed after `WithServicesDisabled ns` is contained in the closure
computed before it and avoids `ns` — disabling first can only shrink a selection (it cuts the paths through `ns`) -/
theorem reach_after_disable {p : Proj} {ns names : List String} {pol : Policy} {x : String}
    (h : Reach (withServicesDisabled p ns).services pol names x) : Reach p.services pol names x ∧ x ∉ ns := by
  induction h with
  | root hr hk =>
    have := mem_keys_withServicesDisabled_services.1 hk
    exact ⟨.root hr this.1, this.2⟩
  | step _ e ih =>
    have := edge_disable e
    exact ⟨.step ih.1 this.1, this.2⟩

/-- at the level of the operations: when both selections succeed, what is kept after disabling `ns` first is kept without
disabling, and contains no name of `ns` -/
theorem disable_then_select_subset {p : Proj} (g : Good p) (ns : List String) {names : List String} (hn : names ≠ [])
    {pol : Policy} {q1 q2 : Proj} (e1 : withSelectedServices (withServicesDisabled p ns) names pol = .ok q1)
    (e2 : withSelectedServices p names pol = .ok q2) (x : String) (hx : x ∈ keys q1.services) :
    x ∈ keys q2.services ∧ x ∉ ns := by
  have g' := (partition_step g (.disable ns) (q := withServicesDisabled p ns) rfl).1
  have r := reach_after_disable ((selected_eq_closure g'.1 g'.2.2 hn e1 x).1 hx)
  exact ⟨(selected_eq_closure g.1 g.2.2 hn e2 x).2 r.1, r.2⟩

def chainProj : Proj :=
  { services := [("a", exSvc "a" [] [("b", ⟨false, "c"⟩)]), ("b", exSvc "b" [] [("c", ⟨false, "c"⟩)]), ("c", exSvc "c" [] [])],
    disabled := [], profiles := [], networks := [], volumes := [], secrets := [], configs := [] }

/-- … and the inclusion is strict in general: `WithServicesDisabled` and `WithSelectedServices` do **not** commute.  On the chain
`a → b → c` (optional edges) selecting `a` after disabling `b` keeps `a` alone, while selecting `a` first keeps `c` too -/
theorem select_disable_do_not_commute :
    ∃ (p : Proj) (ns names : List String) (pol : Policy), Good p ∧
      keys (run p [.disable ns, .select names pol]).services ≠ keys (run p [.select names pol, .disable ns]).services :=
  ⟨chainProj, ["b"], ["a"], .deps, ⟨by decide, by decide, by decide⟩, by decide⟩

/-! ## non-vacuity -/

example : Good fastPathProj := ⟨by decide, by decide, by decide⟩
example : Good exProj ∧ ProfilesOK exProj ∧ withServicesEnabled exProj ["cache"] ≠ exProj :=
  ⟨⟨by decide, by decide, by decide⟩, by decide, by decide⟩
example : selectWanted fastPathProj ["b"] .deps = some ["b", "a"] := by decide
example : selectWanted fastPathProj ["zz"] .deps = none := by decide
example : keys (withProfiles (run fastPathProj [.disable ["a"], .select ["b"] .deps]) ["x"]).services = ["b", "a"] := by decide

end CV.Sel
