import ComposeVerif.Model.DerivApply
import ComposeVerif.Props.C14Deriv
import ComposeVerif.Gen.C14Progs
/-!
# C14 (round 6) — every function that returns a `*Project` is covered; the marshaller option path is a derivation

The census `Gen.C14Progs.projectReturning` (regenerated: every function / method of package `types` with a result of type
`*Project`) is exactly the list `Deriv.coverage` speaks about: the nine derivations (heap programs, `derivations_confined`),
`deepCopy` (`deepCopy_roots_sound`), `marshallOptions.apply` (heap program `applyProg`, below) and `applyMarshallOptions`
(returns what `apply` returns; text pinned).  A new function that hands out a project breaks `project_returning_covered`
until it has a program and a stream.
-/
namespace CV.Heap
open CV.Gen.CopyPlan

/-- **census**: the functions of package `types` that return a `*Project` in the tree now are exactly the ones `coverage` lists -/
theorem project_returning_covered : CV.Gen.C14Progs.projectReturning.map (·.1) = Deriv.coverage.map (·.1) := by decide

/-- every `prog` entry names a program of `programsAll`, every `delegate` entry names a covered function -/
theorem coverage_closed : ∀ c ∈ Deriv.coverage, Deriv.Cover.closed c.2 = true := by decide

/-- the methods of `Project` in the census are the derivations of `Gen.Derivations` plus `deepCopy` (two independent
extractors agree) -/
theorem census_agrees_with_derivations :
    (CV.Gen.C14Progs.projectReturning.filter (fun r => r.2 == "Project")).map (·.1) =
      (CV.Gen.Derivations.derivations.map fun d => "Project." ++ d.1) ++ ["Project.deepCopy"] := by decide

/-- the *views*: the methods of `Project` that hand out model state which is not a project are exactly these six.  They
are readers — what they return shares the receiver's maps by design (a `ServiceConfig` value holds the receiver's
`Environment`, `DependsOn`, … maps; `AllServices` / `GetServices` build a fresh outer map of such values) — so the
property's isolation clause does not speak about them; its "receiver deeply equal to what it was" clause does, and the
oracle's `Accessors` step (`c14.history`) calls every one of them (`dependentsForService` through
`GetDependentsForService`, `getServicesByNames` through `GetServices`) and compares the receiver cell by cell.  A new
view breaks this theorem until the step calls it. -/
theorem project_views_listed : CV.Gen.C14Progs.projectViews = [
  ("Project.AllServices", "Services"),
  ("Project.GetDisabledService", "ServiceConfig, error"),
  ("Project.GetService", "ServiceConfig, error"),
  ("Project.GetServices", "Services, error"),
  ("Project.dependentsForService", "map[string]ServiceDependency"),
  ("Project.getServicesByNames", "Services, []string")] := rfl

/-- **`apply` is the source**: the skeleton of the hand-written program is the skeleton regenerated from `types/project.go` -/
theorem apply_is_source : Deriv.renderL Deriv.applyProg = CV.Gen.C14Progs.applySkeleton := by decide +kernel

/-- the glue: `applyMarshallOptions` returns what `apply` returns on the options it folded; `WithSecretContent` only sets the flag -/
theorem marshal_sources_unchanged : CV.Gen.C14Progs.marshalSources = [
  ("applyMarshallOptions", "func applyMarshallOptions(p *Project, options ...func(*marshallOptions)) *Project { opts := &marshallOptions{} for _, option := range options { option(opts) } p = opts.apply(p) return p }"),
  ("WithSecretContent", "func WithSecretContent(o *marshallOptions) { o.secretsContent = true }")] := rfl

/-- `MarshalYAML` / `MarshalJSON` mention their receiver in one statement only: the call of `applyMarshallOptions`;
everything they encode is read from its result -/
theorem marshal_reads_only_applied : CV.Gen.C14Progs.marshalReceiverUses = [
  ("MarshalYAML", ["src := applyMarshallOptions(p, options...)"]),
  ("MarshalJSON", ["src := applyMarshallOptions(p, options...)"])] := rfl

/-- the branch under `WithSecretContent` is receiver free -/
theorem applySecrets_receiver_free : rfL Deriv.applySecrets = true := by decide

/-- **rendering with secret content never writes into the receiver**: for every project, any allocation state, with the
copy plan in the tree now — the receiver is unchanged, everything allocated before the call is unchanged, every write
(the `marshallContent` flags) goes through and stores only memory allocated since the call, and the project handed to the
encoder shares no address with the receiver. -/
theorem apply_secrets_confined (p : GoVal) (args : List (String × PData)) (n : Nat) (hb : Below n p)
    (hopt : getP "secretsContent" args = some ["1"]) :
    let st := runProg projTy projPlan Deriv.applyProg p args n
    getVar "p" st.vars = p ∧ (∀ u, Below n u → writes st.log u = u) ∧ Confined n st.next st.log ∧
      Isolated (getVar "result" st.vars) p := by
  have hrun : runProg projTy projPlan Deriv.applyProg p args n = runProg projTy projPlan Deriv.applySecrets p args n := by
    simp [runProg, Deriv.applyProg, execL, execS, St.plist, hopt]
  rw [hrun]
  have h := prog_confined projTy projPlan Deriv.applySecrets p args n applySecrets_receiver_free projPlan_deep.1 hb
  exact ⟨h.1, h.2.1, h.2.2.1,
    prog_result_isolated projTy projPlan Deriv.applySecrets p args n applySecrets_receiver_free projPlan_deep.1 hb⟩

/-- the bodies that make a project out of a project, all of them: the nine derivations and the secret-content branch of `apply` -/
def derivationBodies : List (String × List Stmt) :=
  Deriv.programs ++ [("marshallOptions.apply[WithSecretContent]", Deriv.applySecrets)]

/-- **every body that derives a project is confined** — one statement for all ten: receiver unchanged, everything
allocated before the call unchanged, writes confined to memory allocated since the call, result isolated from the
receiver; for every project, all arguments, any allocation state, with the copy plan in the tree now -/
theorem all_derivations_confined (pr : String × List Stmt) (hpr : pr ∈ derivationBodies)
    (p : GoVal) (args : List (String × PData)) (n : Nat) (hb : Below n p) :
    let st := runProg projTy projPlan pr.2 p args n
    getVar "p" st.vars = p ∧ (∀ u, Below n u → writes st.log u = u) ∧ Confined n st.next st.log ∧
      Isolated (getVar "result" st.vars) p := by
  have hrf : rfL pr.2 = true := by
    rcases List.mem_append.mp hpr with hm | hm
    · exact derivations_receiver_free pr hm
    · rw [List.mem_singleton.mp hm]; exact applySecrets_receiver_free
  have h := prog_confined projTy projPlan pr.2 p args n hrf projPlan_deep.1 hb
  exact ⟨h.1, h.2.1, h.2.2.1, prog_result_isolated projTy projPlan pr.2 p args n hrf projPlan_deep.1 hb⟩

/-- **plain rendering is the identity**: without the option nothing is allocated, nothing is written, and the project
handed to the encoder is the receiver itself (it never leaves `MarshalYAML` / `MarshalJSON`: `marshal_reads_only_applied`) -/
theorem apply_plain_identity (p : GoVal) (args : List (String × PData)) (n : Nat)
    (hopt : getP "secretsContent" args ≠ some ["1"]) :
    let st := runProg projTy projPlan Deriv.applyProg p args n
    getVar "result" st.vars = p ∧ getVar "p" st.vars = p ∧ st.log = [] ∧ st.next = n ∧ st.err = none := by
  have hc : (({ vars := [("p", p)], pvars := args, next := n } : St).plist "secretsContent" == ["1"]) = false := by
    simp only [St.plist]
    cases h : getP "secretsContent" args with
    | none => decide
    | some l =>
      simp only [Option.getD_some, beq_eq_false_iff_ne, ne_eq]
      intro hl; exact hopt (by rw [h, hl])
  simp [runProg, Deriv.applyProg, Deriv.applyPlain, execL, execS, hc, getVar, setVar, Expr.eval]

/-- **histories that render in between**: a history of any length whose steps are any of the nine derivations or the
secret-content branch of `apply`, with any arguments — all projects, the original included, are pairwise isolated -/
theorem history_with_marshal_isolated (h : List (List Stmt × List (String × PData))) (v : GoVal) (n : Nat)
    (hmem : ∀ e ∈ h, e.1 ∈ Deriv.applySecrets :: Deriv.programs.map (·.2)) (hb : Below n v) :
    List.Pairwise Isolated (v :: runHistory projTy projPlan h v n) := by
  apply prog_history_isolated projTy projPlan projPlan_deep.1 h v n _ hb
  intro e he
  rcases List.mem_cons.mp (hmem e he) with heq | hm
  · rw [heq]; exact applySecrets_receiver_free
  · obtain ⟨pr, hpr, hpe⟩ := List.mem_map.mp hm
    rw [← hpe]; exact derivations_receiver_free pr hpr

/-! ## branching histories (the shape the round-6 oracle drives: any step may derive from *any* earlier project) -/

/-- one step of a branching history: the index of the project it derives from (0 = the original), a program, its arguments -/
abbrev TStep := Nat × List Stmt × List (String × PData)

/-- run a branching history: `acc` holds every project made so far (the original first); a step whose index is out of
range derives from `nil` (an empty project).  Returns all projects and the write log of every step. -/
def runTree (t : Ty) (plan : Plan) : List TStep → List GoVal → Nat → List GoVal × List (List (Nat × Cell))
  | [], acc, _ => (acc, [])
  | (i, prog, args) :: r, acc, n =>
    let st := runProg t plan prog (acc.getD i .nil) args n
    let rest := runTree t plan r (acc ++ [getVar "result" st.vars]) st.next
    (rest.1, st.log :: rest.2)

theorem below_getD {n : Nat} {acc : List GoVal} (h : ∀ v ∈ acc, Below n v) (i : Nat) : Below n (acc.getD i .nil) := by
  rw [List.getD_eq_getElem?_getD]
  cases hi : acc[i]? with
  | none => intro a ha; simp [addrs] at ha
  | some v => exact h v (List.mem_of_getElem? hi)

/-- **branching histories** (any length, any receiver-free programs, any arguments, each step deriving from any earlier
project): all projects are pairwise isolated, and the projects that existed before the history started are unchanged by
every write of every step. -/
theorem tree_history_isolated (t : Ty) (plan : Plan) (hd : deep t plan = true) :
    ∀ (h : List TStep) (acc : List GoVal) (n : Nat),
      (∀ e ∈ h, rfL e.2.1 = true) → (∀ v ∈ acc, Below n v) → List.Pairwise Isolated acc →
      List.Pairwise Isolated (runTree t plan h acc n).1 ∧
      ∀ log ∈ (runTree t plan h acc n).2, ∀ v ∈ acc, writes log v = v := by
  intro h
  induction h with
  | nil => intro acc n _ _ hp; exact ⟨hp, by intro log hl; cases hl⟩
  | cons e r ih =>
    intro acc n hrf hb hp
    obtain ⟨i, prog, args⟩ := e
    have hbr : Below n (acc.getD i .nil) := below_getD hb i
    have hc := prog_confined t plan prog (acc.getD i .nil) args n (hrf _ (List.mem_cons_self ..)) hd hbr
    have hw := hc.2.2.2 "result" (by decide)
    simp only [runTree]
    have hb' : ∀ v ∈ acc ++ [getVar "result" (runProg t plan prog (acc.getD i .nil) args n).vars],
        Below (runProg t plan prog (acc.getD i .nil) args n).next v := by
      intro v hv a ha
      rcases List.mem_append.mp hv with hm | hm
      · have := hb v hm a ha; have := hw.1; omega
      · rw [List.mem_singleton.mp hm] at ha; exact (hw.2 a ha).2
    have hp' : List.Pairwise Isolated (acc ++ [getVar "result" (runProg t plan prog (acc.getD i .nil) args n).vars]) := by
      rw [List.pairwise_append]
      refine ⟨hp, List.pairwise_singleton _ _, ?_⟩
      intro v hv w hw' a ha haw
      rw [List.mem_singleton.mp hw'] at haw
      have := hb v hv a ha; have := (hw.2 a haw).1; omega
    have ih' := ih _ _ (fun e he => hrf e (List.mem_cons_of_mem _ he)) hb' hp'
    refine ⟨ih'.1, ?_⟩
    intro log hl v hv
    rcases List.mem_cons.mp hl with rfl | hm
    · exact hc.2.1 v (hb v hv)
    · exact ih'.2 log hm v (List.mem_append_left _ hv)

/-- … for the code in the tree now: any branching history over the nine derivations and the secret-content rendering,
starting from one project -/
theorem tree_history_tree (h : List TStep) (v : GoVal) (n : Nat) (hb : Below n v)
    (hmem : ∀ e ∈ h, e.2.1 ∈ Deriv.applySecrets :: Deriv.programs.map (·.2)) :
    List.Pairwise Isolated (runTree projTy projPlan h [v] n).1 ∧
      ∀ log ∈ (runTree projTy projPlan h [v] n).2, writes log v = v := by
  have hrf : ∀ e ∈ h, rfL e.2.1 = true := by
    intro e he
    rcases List.mem_cons.mp (hmem e he) with heq | hm
    · rw [heq]; exact applySecrets_receiver_free
    · obtain ⟨pr, hpr, hpe⟩ := List.mem_map.mp hm
      rw [← hpe]; exact derivations_receiver_free pr hpr
  have := tree_history_isolated projTy projPlan projPlan_deep.1 h [v] n hrf
    (by intro w hw; rw [List.mem_singleton.mp hw]; exact hb) (List.pairwise_singleton _ _)
  exact ⟨this.1, fun log hl => this.2 log hl v (List.mem_singleton.mpr rfl)⟩

/-- non-vacuity: three siblings derived from the same project (`WithoutUnnecessaryResources` twice and a plain copy, all
from #0): four projects, the three results occupy fresh, disjoint address ranges and no step is stuck -/
example :
    ((runTree exTy2 exPlan2 [(0, Deriv.withoutUnnecessaryResources, []), (0, Deriv.withoutUnnecessaryResources, []),
        (0, [.deepCopy "c" (.var "p"), .assign "result" (.var "c")], [])] [exProj] 6).1.map fun v => (addrs v).foldl min 1000) = [1, 6, 15, 24] := by
  decide +kernel

/-! ## non-vacuity -/

/-- a project with two secrets whose flag is unset -/
def exSecrets : GoVal := .ptr 1 (.struct [
  (.fld Deriv.fSecrets, .map 2 [(.str "a", .struct [(.fld Deriv.fMarshallContent, .scalar "")]),
                                 (.str "b", .struct [(.fld Deriv.fMarshallContent, .scalar "")])])])
def exSecretsTy : Ty := .ptr (.struct [(Deriv.fSecrets, .map (.struct [(Deriv.fMarshallContent, .scalar)]))])
def exSecretsPlan : Plan := .newPtr (.fields [(Deriv.fSecrets, .newMap (.fields [(Deriv.fMarshallContent, .assign)]))])

def secretFlag (proj : GoVal) (name : String) : String :=
  scalarStr (getFld Deriv.fMarshallContent (getIdx name (getFld Deriv.fSecrets proj)))

/-- with the option the program copies (addresses 3, 4), writes the two flags through the copy's map (address 4), the
result carries the flags and the receiver keeps its unset ones; without it the result is the receiver (addresses 1, 2) -/
example :
    let st := runProg exSecretsTy exSecretsPlan Deriv.applyProg exSecrets [("secretsContent", some ["1"])] 3
    st.err = none ∧ st.log.map (·.1) = [4, 4] ∧ addrs (getVar "result" st.vars) = [3, 4] ∧
    secretFlag (getVar "result" st.vars) "a" = "b:true" ∧ secretFlag (getVar "result" st.vars) "b" = "b:true" ∧
    secretFlag (getVar "p" st.vars) "a" = "" ∧ secretFlag (getVar "p" st.vars) "b" = "" := by
  decide +kernel

example :
    let st := runProg exSecretsTy exSecretsPlan Deriv.applyProg exSecrets [] 3
    addrs (getVar "result" st.vars) = [1, 2] ∧ st.log.length = 0 := by
  decide +kernel

end CV.Heap
