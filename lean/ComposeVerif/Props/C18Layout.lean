import ComposeVerif.Spec.DotenvStmts
import ComposeVerif.Lemmas.Dotenv
/-!
# C18 — layout is irrelevant (round 6)

What a well-formed file denotes depends only on the sequence of its statements — `KEY` (inherited) or `KEY` with a
value — not on blank lines, comment lines, indentation, `export`, the separator (`=` or `:`), white space around the
separator, trailing white space or inline comments.  Stated for the real scanner model through `parse_render`.
-/
namespace CV.Dotenv
open CV CV.Template

theorem evalFrom_stmts (lookup : Env) : ∀ (ls : List Line) (m : Map), evalFrom lookup ls m = evalStmts lookup (stmtSeq ls) m
  | [], m => rfl
  | .blank _ :: ls, m => by rw [evalFrom, stmtSeq]; exact evalFrom_stmts lookup ls m
  | .comment _ _ :: ls, m => by rw [evalFrom, stmtSeq]; exact evalFrom_stmts lookup ls m
  | .bare _ _ key _ :: ls, m => by
    rw [evalFrom, stmtSeq, evalStmts]
    cases lookup key with
    | some v => exact evalFrom_stmts lookup ls _
    | none => exact evalFrom_stmts lookup ls m
  | .assign _ _ key _ _ _ v _ _ :: ls, m => by
    rw [evalFrom, stmtSeq, evalStmts]
    cases v.eval (envOf lookup m) with
    | ok s => exact evalFrom_stmts lookup ls _
    | err e => rfl
    | panic p => rfl

/-- **the parser's result on a well-formed file is the meaning of its statement sequence** -/
theorem parse_render_stmts (lookup : Env) (ls : List Line) (hwf : WF ls = true) :
    parse (render ls) lookup = evalStmts lookup (stmtSeq ls) [] := by
  rw [parse_render_lemma lookup ls hwf, evalLines, evalFrom_stmts]

/-- **layout is irrelevant**: two well-formed files with the same statements parse to the same result under every
    lookup — blank lines, comments, indentation, `export`, `=` / `:`, surrounding white space, inline comments and
    the quoting style's layout do not matter -/
theorem parse_layout_irrelevant (lookup : Env) (ls ls' : List Line) (h : WF ls = true) (h' : WF ls' = true)
    (hs : stmtSeq ls = stmtSeq ls') : parse (render ls) lookup = parse (render ls') lookup := by
  rw [parse_render_stmts lookup ls h, parse_render_stmts lookup ls' h', hs]

theorem evalStmts_append (lookup : Env) : ∀ (a b : List (Str × Option Value)) (m : Map),
    evalStmts lookup (a ++ b) m = (evalStmts lookup a m).andThen (fun m' => evalStmts lookup b m')
  | [], b, m => rfl
  | (key, none) :: a, b, m => by
    rw [List.cons_append, evalStmts, evalStmts]
    cases lookup key with
    | some v => exact evalStmts_append lookup a b _
    | none => exact evalStmts_append lookup a b m
  | (key, some v) :: a, b, m => by
    rw [List.cons_append, evalStmts, evalStmts]
    cases v.eval (envOf lookup m) with
    | ok s => exact evalStmts_append lookup a b _
    | err e => rfl
    | panic p => rfl

/-- **later assignments win**, for statement sequences of any length: if the statements before the last one evaluate to
    `m'` and the last one assigns `k` a value that evaluates (in "lookup first, earlier lines second") to `s`, then the file
    defines `k` as `s` — whatever was assigned to `k` before — and every other name is what it was -/
theorem last_assignment_wins (lookup : Env) (r : List (Str × Option Value)) (k : Str) (v : Value) (m m' : Map) (s : Str)
    (hr : evalStmts lookup r m = .ok m') (hv : v.eval (envOf lookup m') = .ok s) :
    ∃ res, evalStmts lookup (r ++ [(k, some v)]) m = .ok res ∧ get res k = some s ∧ ∀ k', k' ≠ k → get res k' = get m' k' := by
  refine ⟨put m' k s, ?_, get_put_same_lemma m' k s, fun k' h => get_put_other_lemma m' k k' s h⟩
  rw [evalStmts_append, hr]
  simp only [POut.andThen, evalStmts, hv]

/-- … and a bare key at the end takes the lookup's value over any earlier assignment, and leaves it alone when the lookup has none -/
theorem last_bare_key (lookup : Env) (r : List (Str × Option Value)) (k : Str) (m m' : Map)
    (hr : evalStmts lookup r m = .ok m') :
    evalStmts lookup (r ++ [(k, none)]) m = .ok (match lookup k with | some v => put m' k v | none => m') := by
  rw [evalStmts_append, hr]
  simp only [POut.andThen, evalStmts]
  cases lookup k <;> rfl


/-- non-vacuity: `export A = 1 # c`, a comment, a blank line, `  B` vs `A:1`, `B` -/
example :
    let ls := [Line.assign [] (some [' ']) ['A'] [' '] .eq [' '] (.unq ['1']) [' '] (some [' ', 'c']),
               Line.comment [] ['x'], Line.blank [' '], Line.bare [' ', ' '] none ['B'] []]
    let ls' := [Line.assign [] none ['A'] [] .colon [] (.unq ['1']) [] none, Line.bare [] none ['B'] []]
    WF ls = true ∧ WF ls' = true ∧ stmtSeq ls = stmtSeq ls' ∧ render ls ≠ render ls' := by decide

end CV.Dotenv
