import ComposeVerif.Model.Derivations
import ComposeVerif.Gen.C14Progs
/-! C14 — `programs_are_source`, second half of the skeleton table (see `Props/C14DerivSrc.lean`) -/
namespace CV.Heap

/-- the statement skeletons rendered from the hand-written heap programs equal the ones regenerated from
`types/project.go` — the entries after the fifth of the table -/
theorem programs_are_source_b : Deriv.skeletons.drop 5 = CV.Gen.C14Progs.skeletons.drop 5 := by decide +kernel

end CV.Heap
