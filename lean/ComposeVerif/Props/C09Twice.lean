import ComposeVerif.Props.C11Keys
import ComposeVerif.Gen.C11Facts
/-!
# C09 — an entity spelled twice: the reload of the rendering collapses nothing more  (round 6)

Property theorems only.  Models: `Model/C11Keys.lean` (`portIndexer`, `mountIndexer`, `envFileIndexer`, the sequence
branch of `enforceUnicity`) and the defaults of `Model/C11Defaults.lean` — tied to override/uncity.go and
transform/*.go by C11's regenerated bodies and streams; this module states the clause **C09** needs from them.

A loaded project holds, for `ports` / `secrets` / `env_file`, the list `ys` that `EnforceUnicity` left, with the
defaults written out (`ys.map f`).  The rendering spells every entry in long syntax with its defaults, and the reload
runs `EnforceUnicity` and the defaults on that list again.  The round trip needs the reload to be a **fixed point**:
no entry collapses into another one and no entry changes.  This holds because the unicity key does not depend on the
spelling (`key (f x) = key x`, C11) — and fails as soon as the key of the long form leaves a default out
(`Neg`-style witness at the end: seed C09-7's `portIndexer`).
-/
namespace CV.C11
open CV CV.Val

/-! ## 0. source tie (C11 pins all indexers in `indexers_are_source`; the one this module's headline is about is pinned here too) -/

/-- `portIndexer` is the function `portKey` mirrors: `host_ip` defaults to 0.0.0.0 and `protocol` to tcp inside the key -/
theorem port_indexer_is_source :
    CV.Gen.c11_body_portIndexer =
      "{ switch value := y.(type) { case int: return strconv.Itoa(value), nil case map[string]any: target, ok := value[\"target\"] if !ok { return \"\", fmt.Errorf(\"service ports %s is missing a target port\", p) } published, ok := value[\"published\"] if !ok { if pub, ok := value[\"published\"]; ok { published = fmt.Sprintf(\"%d\", pub) } } host, ok := value[\"host_ip\"] if !ok { host = \"0.0.0.0\" } protocol, ok := value[\"protocol\"] if !ok { protocol = \"tcp\" } return fmt.Sprintf(\"%s:%v:%v/%s\", host, published, target, protocol), nil case string: return value, nil } return \"\", nil }" := rfl

/-! ## 1. the fixed point -/

/-- `m[k] = x` for a key the map does not hold appends -/
theorem insert_fresh (k : String) (x : Val) : ∀ (acc : KVs), (∀ kv ∈ acc, kv.1 ≠ k) → Val.insert k x acc = acc ++ [(k, x)]
  | [], _ => rfl
  | (k', v') :: r, h => by
    have hk : k ≠ k' := fun e => h (k', v') List.mem_cons_self e.symm
    simp only [Val.insert, hk, if_false, List.cons_append]
    rw [insert_fresh k x r (fun kv hkv => h kv (List.mem_cons_of_mem _ hkv))]

/-- the loop of `enforceUnicity` on entries whose keys are pairwise distinct and new: every entry is appended -/
theorem uniqAcc_distinct (key : Val → Out String) : ∀ (ys : List Val) (ks : List String) (acc : KVs),
    ys.map key = ks.map Out.ok → ks.Nodup → (∀ kv ∈ acc, kv.1 ∉ ks) → uniqAcc key ys acc = .ok (acc ++ ks.zip ys)
  | [], [], acc, _, _, _ => by simp [uniqAcc]
  | [], _ :: _, _, h, _, _ => by simp at h
  | _ :: _, [], _, h, _, _ => by simp at h
  | y :: r, k :: ks, acc, h, hnd, hd => by
    simp only [List.map_cons, List.cons.injEq] at h
    rw [uniqAcc, h.1]
    simp only
    rw [insert_fresh k y acc (fun kv hkv e => hd kv hkv (by rw [e]; exact List.mem_cons_self))]
    rw [uniqAcc_distinct key r ks _ h.2 (List.nodup_cons.mp hnd).2]
    · simp [List.append_assoc]
    · intro kv hkv
      rcases List.mem_append.mp hkv with e | e
      · exact fun hin => hd kv e (List.mem_cons_of_mem _ hin)
      · simp only [List.mem_singleton] at e
        rw [e]
        exact (List.nodup_cons.mp hnd).1

/-- **a list whose entries have pairwise distinct keys passes `EnforceUnicity` unchanged** -/
theorem enforceSeq_distinct_id (key : Val → Out String) (ys : List Val) (ks : List String)
    (hk : ys.map key = ks.map Out.ok) (hnd : ks.Nodup) : enforceSeq key ys = .ok ys := by
  unfold enforceSeq
  rw [uniqAcc_distinct key ys ks [] hk hnd (fun _ h => by cases h)]
  have hl : ys.length ≤ ks.length := by
    have := congrArg List.length hk
    simp only [List.length_map] at this
    omega
  simp [Out.map, List.map_snd_zip hl]

/-- what `EnforceUnicity` returns is a fixed point of `EnforceUnicity` -/
theorem enforceSeq_idem (key : Val → Out String) (xs ys : List Val) (h : enforceSeq key xs = .ok ys) :
    enforceSeq key ys = .ok ys := by
  unfold enforceSeq at h
  cases ha : uniqAcc key xs [] with
  | ok acc =>
    simp only [ha, Out.map, Out.ok.injEq] at h
    have hi := uniqAcc_inv key xs [] acc ⟨by simp [keys], fun _ hx => by cases hx⟩ ha
    refine enforceSeq_distinct_id key ys (keys acc) ?_ hi.1
    rw [← h, List.map_map]
    unfold keys
    rw [List.map_map]
    apply List.map_congr_left
    intro kv hkv
    exact hi.2 kv hkv
  | err e => simp [ha, Out.map] at h
  | panic s => simp [ha, Out.map] at h

/-- **reload fixed point**, for any key and any rewriting `f` of entries (the defaults written out) that leaves keys
alone and is idempotent: the list the project holds (`ys.map f`, `ys` what `EnforceUnicity` left of the merged files)
goes through `EnforceUnicity` and `f` unchanged — the reload of the rendering neither collapses nor alters an entry. -/
theorem reload_fixed_point (key : Val → Out String) (f : Val → Val) (hk : ∀ x, key (f x) = key x) (hf : ∀ x, f (f x) = f x)
    (xs ys : List Val) (h : enforceSeq key xs = .ok ys) :
    (enforceSeq key (ys.map f)).map (List.map f) = .ok (ys.map f) := by
  rw [enforceSeq_commutes key f hk, enforceSeq_idem key xs ys h]
  simp [Out.map, hf]

theorem portDefaultsV_idem (x : Val) : portDefaultsV (portDefaultsV x) = portDefaultsV x := by
  cases x with
  | map m =>
    simp only [portDefaultsV]
    congr 1
    have h1 : lookup "protocol" (setIfAbsent "mode" (.str "ingress") (setIfAbsent "protocol" (.str "tcp") m)) =
        some ((lookup "protocol" m).getD (.str "tcp")) := by
      rw [lookup_setIfAbsent_ne (by decide), lookup_setIfAbsent_self]
    have h2 : lookup "mode" (setIfAbsent "mode" (.str "ingress") (setIfAbsent "protocol" (.str "tcp") m)) =
        some ((lookup "mode" (setIfAbsent "protocol" (.str "tcp") m)).getD (.str "ingress")) := lookup_setIfAbsent_self _ _ _
    have e1 : ∀ m' : KVs, ∀ v, lookup "protocol" m' = some v → setIfAbsent "protocol" (.str "tcp") m' = m' := by
      intro m' v hv; simp [setIfAbsent, hv]
    have e2 : ∀ m' : KVs, ∀ v, lookup "mode" m' = some v → setIfAbsent "mode" (.str "ingress") m' = m' := by
      intro m' v hv; simp [setIfAbsent, hv]
    rw [e1 _ _ h1, e2 _ _ h2]
  | _ => rfl

/-- **ports**: one port spelled twice (short and long syntax, with and without `protocol` / `mode`, in one list or in
merged files) is collapsed by the first load; the rendering of the result reloads to itself -/
theorem ports_reload_fixed_point (xs ys : List Val) (h : enforceSeq portKey xs = .ok ys) :
    (enforceSeq portKey (ys.map portDefaultsV)).map (List.map portDefaultsV) = .ok (ys.map portDefaultsV) :=
  reload_fixed_point portKey portDefaultsV port_key_defaults_invariant portDefaultsV_idem xs ys h

/-- non-vacuity, and the input class of the oracle stream `twice:entries:ports`: `"8080:80"` as `transformPorts`
canonicalises it, and the same port in long syntax without `protocol`, are one port; its rendering is a fixed point -/
example :
    let short : Val := .map [("mode", .str "ingress"), ("target", .int 80), ("published", .str "8080"), ("protocol", .str "tcp")]
    let long : Val := .map [("target", .int 80), ("published", .str "8080")]
    enforceSeq portKey [short, long] = .ok [long] ∧
    (enforceSeq portKey ([long].map portDefaultsV)).map (List.map portDefaultsV) = .ok ([long].map portDefaultsV) := by
  intro short long
  have h : enforceSeq portKey [short, long] = .ok [long] :=
    restated_entry_is_one portKey short long "0.0.0.0:8080:80/tcp" (by rfl) (by rfl)
  exact ⟨h, ports_reload_fixed_point _ _ h⟩

theorem setIfAbsent_present {k : String} {x : Val} (v : Val) {m : KVs} (h : lookup k m = some x) : setIfAbsent k v m = m := by
  simp [setIfAbsent, h]

theorem secretDefaultsV_idem (x : Val) : secretDefaultsV (secretDefaultsV x) = secretDefaultsV x := by
  cases x with
  | map m =>
    simp only [secretDefaultsV]
    congr 1
    exact setIfAbsent_present _ (lookup_setIfAbsent_self "target" (.str ("/run/secrets/" ++ fmtS (lookup "source" m))) m)
  | _ => rfl

theorem envFileValue_idem (x : Val) : envFileValue (envFileValue x) = envFileValue x := by
  cases x with
  | map m =>
    simp only [envFileValue]
    congr 1
    exact setIfAbsent_present _ (lookup_setIfAbsent_self "required" (.bool true) m)
  | str s => simp [envFileValue, setIfAbsent, lookup]
  | _ => rfl

/-- **service secrets**: `- s1` and `{source: s1}` / `{source: s1, target: /run/secrets/s1}` are one reference; the
rendering of what the first load kept reloads to itself -/
theorem secrets_reload_fixed_point (xs ys : List Val) (h : enforceSeq (mountKey "/run/secrets") xs = .ok ys) :
    (enforceSeq (mountKey "/run/secrets") (ys.map secretDefaultsV)).map (List.map secretDefaultsV) = .ok (ys.map secretDefaultsV) :=
  reload_fixed_point _ secretDefaultsV secret_key_defaults_invariant secretDefaultsV_idem xs ys h

/-- **env_file**: `./a.env` and `{path: ./a.env}` / `{path: ./a.env, required: true}` are one entry; likewise -/
theorem env_file_reload_fixed_point (xs ys : List Val) (h : enforceSeq envFileKey xs = .ok ys) :
    (enforceSeq envFileKey (ys.map envFileValue)).map (List.map envFileValue) = .ok (ys.map envFileValue) :=
  reload_fixed_point _ envFileValue env_file_key_defaults_invariant envFileValue_idem xs ys h

end CV.C11
