import ComposeVerif.Props.C10
import ComposeVerif.Props.C10Rules
import ComposeVerif.Lemmas.Merge
/-!
# C10 — "with the violating part placed in any file": the structural rules across `override.Merge`

`validation.Validate` runs on the **merge result** of all files (`check_guards_are_source`, Props/C10Glue.lean), because a
violation can be *assembled* by the merge out of files none of which is violating on its own: a secret with `file:` in
one file and `environment:` in a later one, an external volume that gets its `driver:` from an override.  The theorems
here compose the model of `override.Merge` (Model/Merge.lean, property C04) with the model of `Validate`
(Model/Validate.lean): for **every** pair of files, whatever else they contain, the assembled violation is rejected.
-/
namespace CV.Validate
open CV CV.Val CV.Merge

/-! ## helper lemmas about one level of the plain mapping merge -/

theorem lookup_mem' : ∀ (kvs : KVs) (k : String) (v : Val), Val.lookup k kvs = some v → (k, v) ∈ kvs
  | [], _, _, h => by cases h
  | (k', v') :: r, k, v, h => by
    unfold Val.lookup at h
    by_cases hk : k = k'
    · rw [if_pos hk] at h; cases h; subst hk; exact List.mem_cons_self
    · rw [if_neg hk] at h; exact List.mem_cons_of_mem _ (lookup_mem' r k v h)

/-- a path whose first part is no first part of any row of the table of special mergers has no special merger -/
theorem firstMatch_none_of_heads {α : Type} (h : String) (rest : List String) :
    ∀ t : List (List String × α),
      (t.all fun e => match e.1 with | [] => true | a :: _ => a != "*" && a != h) = true →
      TPath.firstMatch t (h :: rest) = none
  | [], _ => rfl
  | (pat, x) :: r, ht => by
    simp only [List.all_cons, Bool.and_eq_true] at ht
    have ih := firstMatch_none_of_heads h rest r ht.2
    unfold TPath.firstMatch
    have : TPath.pmatch pat (h :: rest) = false := by
      cases pat with
      | nil => rfl
      | cons a as =>
        have h1 := ht.1
        simp only [Bool.and_eq_true, bne_iff_ne, ne_eq] at h1
        simp [TPath.pmatch, h1.1, h1.2]
    rw [this]
    simpa using ih

/-- no special merger anywhere below `secrets` / `configs` -/
theorem ruleAt_secrets (rest : List String) : ruleAt ("secrets" :: rest) = none := by
  unfold ruleAt ruleAtIn
  rw [firstMatch_none_of_heads "secrets" rest CV.Gen.mergeSpecials (by decide)]

theorem ruleAt_configs (rest : List String) : ruleAt ("configs" :: rest) = none := by
  unfold ruleAt ruleAtIn
  rw [firstMatch_none_of_heads "configs" rest CV.Gen.mergeSpecials (by decide)]

theorem ruleAt_root : ruleAt TPath.root = none := by decide

theorem pmatch_length : ∀ (pat p : List String), TPath.pmatch pat p = true → pat.length = p.length
  | [], [], _ => rfl
  | [], _ :: _, h => by simp [TPath.pmatch] at h
  | _ :: _, [], h => by simp [TPath.pmatch] at h
  | a :: as, b :: bs, h => by
    simp only [TPath.pmatch, Bool.and_eq_true] at h
    simp [pmatch_length as bs h.2]

/-- no row of the table of special mergers has two parts: a resource entry `sec.name` is merged as a plain mapping -/
theorem firstMatch_none_of_length {α : Type} (p : TPath) (n : Nat) (hn : p.length = n) :
    ∀ t : List (List String × α), (t.all fun e => e.1.length != n) = true → TPath.firstMatch t p = none
  | [], _ => rfl
  | (pat, x) :: r, ht => by
    simp only [List.all_cons, Bool.and_eq_true, bne_iff_ne, ne_eq] at ht
    unfold TPath.firstMatch
    have : TPath.pmatch pat p = false := by
      cases h : TPath.pmatch pat p
      · rfl
      · exact absurd ((pmatch_length pat p h).trans hn) ht.1
    rw [this]
    simpa using firstMatch_none_of_length p n hn r (by simpa using ht.2)

theorem ruleAt_two_parts (a b : String) : ruleAt [a, b] = none := by
  unfold ruleAt ruleAtIn
  rw [firstMatch_none_of_length [a, b] 2 rfl CV.Gen.mergeSpecials (by decide)]

theorem ruleAt_one_part (a : String) : ruleAt [a] = none := by
  unfold ruleAt ruleAtIn
  rw [firstMatch_none_of_length [a] 1 rfl CV.Gen.mergeSpecials (by decide)]

/-- two mappings at a path without special merger merge to a mapping: `mergeMappings` one fuel level down -/
theorem merge_map_level (n : Nat) (a b : KVs) (p : TPath) (hp : ruleAt p = none) (z : Val)
    (h : mergeYaml (n + 1) (.map a) (.map b) p = .ok z) : ∃ m, z = .map m ∧ mergeKVs n a b p = .ok m := by
  simp only [mergeYaml, mergeStep, hp, defaultStep] at h
  unfold mergeKVs
  cases hm : mergeKVsWith (mergeYaml n) a b p with
  | ok m => rw [hm] at h; simp only [Out.bind] at h; cases h; exact ⟨m, rfl, rfl⟩
  | err e => rw [hm] at h; simp only [Out.bind] at h; cases h
  | panic s => rw [hm] at h; simp only [Out.bind] at h; cases h

/-- descend at a key for which both files hold a mapping -/
theorem merge_descend (n : Nat) (a b m : KVs) (p : TPath) (hb : (keys b).Nodup) (h : mergeKVs (n + 1) a b p = .ok m)
    (k : String) (hx : hasXPrefix k = false) (x y : KVs) (hka : Val.lookup k a = some (.map x))
    (hkb : Val.lookup k b = some (.map y)) (hp : ruleAt (Merge.next p k) = none) :
    ∃ z, Val.lookup k m = some (.map z) ∧ mergeKVs n x y (Merge.next p k) = .ok z := by
  have hpw := mergeKVsWith_pointwise (mergeYaml (n + 1)) p b a m hb h k
  rw [hka, hkb] at hpw
  simp only [PointwiseAt, hx, Bool.false_eq_true, if_false] at hpw
  obtain ⟨z, hz, hl⟩ := hpw
  obtain ⟨m', rfl, hm'⟩ := merge_map_level n x y _ hp z hz
  exact ⟨m', hl, hm'⟩

/-- **the merge never drops a key**: what either file sets at a mapping is set in the result -/
theorem merge_keeps_key (n : Nat) (a b m : KVs) (p : TPath) (hb : (keys b).Nodup) (h : mergeKVs n a b p = .ok m)
    (k : String) (hk : has k a = true ∨ has k b = true) : has k m = true := by
  have hpw := mergeKVsWith_pointwise (mergeYaml n) p b a m hb h k
  unfold has at hk ⊢
  cases ha : Val.lookup k a <;> cases hb' : Val.lookup k b <;> rw [ha, hb'] at hpw <;> simp only [PointwiseAt] at hpw
  · rw [ha, hb'] at hk; simp at hk
  · rw [hpw]; rfl
  · rw [hpw]; rfl
  · by_cases hx : hasXPrefix k = true
    · rw [if_pos hx] at hpw; rw [hpw]; rfl
    · rw [if_neg hx] at hpw; obtain ⟨z, -, hl⟩ := hpw; rw [hl]; rfl

/-- a key only the base has keeps its value; a key only the override has gets the override's value -/
theorem merge_base_only (n : Nat) (a b m : KVs) (p : TPath) (hb : (keys b).Nodup) (h : mergeKVs n a b p = .ok m)
    (k : String) (hkb : Val.lookup k b = none) : Val.lookup k m = Val.lookup k a := by
  have hpw := mergeKVsWith_pointwise (mergeYaml n) p b a m hb h k
  rw [hkb] at hpw
  exact pointwiseAt_none_right.mp hpw

theorem merge_over_only (n : Nat) (a b m : KVs) (p : TPath) (hb : (keys b).Nodup) (h : mergeKVs n a b p = .ok m)
    (k : String) (y : Val) (hka : Val.lookup k a = none) (hkb : Val.lookup k b = some y) : Val.lookup k m = some y := by
  have hpw := mergeKVsWith_pointwise (mergeYaml n) p b a m hb h k
  rw [hka, hkb] at hpw
  exact hpw

/-- the entry `sec.name` of the merge of two files that both declare it as a mapping: it is a mapping in the result, the
`mergeMappings` of the two declarations -/
theorem merged_resource (sec : String) (hs1 : ruleAt [sec] = none) (hs2 : ∀ s, ruleAt [sec, s] = none)
    (hnext : Merge.next TPath.root sec = [sec]) (hxs : hasXPrefix sec = false) (hne : ([sec] : TPath) ≠ TPath.root)
    (A B SA SB a b : KVs) (merged : Val) (name : String)
    (hBn : (keys B).Nodup) (hSBn : (keys SB).Nodup)
    (hm : Merge.merge (.map A) (.map B) = .ok merged)
    (hA : Val.lookup sec A = some (.map SA)) (hB : Val.lookup sec B = some (.map SB))
    (hSA : Val.lookup name SA = some (.map a)) (hSB : Val.lookup name SB = some (.map b))
    (hx : hasXPrefix name = false) :
    ∃ top secs m n p, merged = .map top ∧ (sec, Val.map secs) ∈ top ∧ (name, Val.map m) ∈ secs ∧
      mergeKVs n a b p = .ok m := by
  have hfuel : fuelFor (.map B) = (depth (.map B) + 5) + 1 + 1 + 1 := rfl
  unfold Merge.merge at hm
  simp only at hm
  rw [hfuel] at hm
  obtain ⟨top, rfl, htop⟩ := merge_map_level _ A B TPath.root ruleAt_root merged hm
  obtain ⟨secs, hl1, hsecs⟩ := merge_descend _ A B top TPath.root hBn htop sec hxs SA SB hA hB (by rw [hnext]; exact hs1)
  rw [hnext] at hsecs
  have hn2 : Merge.next [sec] name = [sec, esc name] := by unfold Merge.next; rw [if_neg hne]; rfl
  obtain ⟨m, hl2, hmm⟩ := merge_descend _ SA SB secs [sec] hSBn hsecs name hx a b hSA hSB (by rw [hn2]; exact hs2 _)
  exact ⟨top, secs, m, _, _, rfl, lookup_mem' _ _ _ hl1, lookup_mem' _ _ _ hl2, hmm⟩

/-! ## the property's clauses, for every pair of files -/

/-- **a secret that gets `file` from one file and `environment` from the other (in either order) is rejected**, whatever
else the two files contain — neither file needs to be violating on its own -/
theorem split_secret_sources_rejected (A B SA SB a b : KVs) (merged : Val) (name : String)
    (hBn : (keys B).Nodup) (hSBn : (keys SB).Nodup) (hbn : (keys b).Nodup)
    (hm : Merge.merge (.map A) (.map B) = .ok merged)
    (hA : Val.lookup "secrets" A = some (.map SA)) (hB : Val.lookup "secrets" B = some (.map SB))
    (hSA : Val.lookup name SA = some (.map a)) (hSB : Val.lookup name SB = some (.map b))
    (hx : hasXPrefix name = false)
    (hfile : has "file" a = true ∨ has "file" b = true) (henv : has "environment" a = true ∨ has "environment" b = true) :
    validate merged ≠ .ok := by
  obtain ⟨top, secs, m, n, p, rfl, h1, h2, hmm⟩ :=
    merged_resource "secrets" (ruleAt_secrets []) (fun s => ruleAt_secrets [s]) (by decide) (by decide) (by decide) A B SA SB a b merged name hBn hSBn hm hA hB hSA hSB hx
  have hf := merge_keeps_key n a b m p hbn hmm "file" hfile
  have he := merge_keeps_key n a b m p hbn hmm "environment" henv
  exact validate_rejects_secret_sources top secs m name h1 h2 (.inl (by simp [countPresent, List.filter, hf, he]))

/-- **a config that gets two different sources out of `file` / `environment` / `content` from the two files is rejected** -/
theorem split_config_sources_rejected (A B SA SB a b : KVs) (merged : Val) (name : String) (k1 k2 : String)
    (hk : (k1, k2) ∈ [("file", "environment"), ("file", "content"), ("environment", "content")])
    (hBn : (keys B).Nodup) (hSBn : (keys SB).Nodup) (hbn : (keys b).Nodup)
    (hm : Merge.merge (.map A) (.map B) = .ok merged)
    (hA : Val.lookup "configs" A = some (.map SA)) (hB : Val.lookup "configs" B = some (.map SB))
    (hSA : Val.lookup name SA = some (.map a)) (hSB : Val.lookup name SB = some (.map b))
    (hx : hasXPrefix name = false)
    (h1 : has k1 a = true ∨ has k1 b = true) (h2 : has k2 a = true ∨ has k2 b = true) :
    validate merged ≠ .ok := by
  obtain ⟨top, secs, m, n, p, rfl, hm1, hm2, hmm⟩ :=
    merged_resource "configs" (ruleAt_configs []) (fun s => ruleAt_configs [s]) (by decide) (by decide) (by decide) A B SA SB a b merged name hBn hSBn hm hA hB hSA hSB hx
  have hf := merge_keeps_key n a b m p hbn hmm k1 h1
  have he := merge_keeps_key n a b m p hbn hmm k2 h2
  refine validate_rejects_config_sources top secs m name hm1 hm2 (.inl ?_)
  simp only [List.mem_cons, Prod.mk.injEq, List.not_mem_nil, or_false] at hk
  rcases hk with ⟨rfl, rfl⟩ | ⟨rfl, rfl⟩ | ⟨rfl, rfl⟩
  · cases hc : has "content" m <;> simp [countPresent, List.filter, hf, he, hc]
  · cases hc : has "environment" m <;> simp [countPresent, List.filter, hf, he, hc]
  · cases hc : has "file" m <;> simp [countPresent, List.filter, hf, he, hc]

/-- **an external volume that gets a creation parameter (`driver`, `driver_opts`, `labels`, …) from the other file is
rejected** — `external: true` in one file only, the parameter in either -/
theorem split_external_volume_rejected (A B SA SB a b : KVs) (merged : Val) (name k : String)
    (hBn : (keys B).Nodup) (hSBn : (keys SB).Nodup) (hbn : (keys b).Nodup)
    (hm : Merge.merge (.map A) (.map B) = .ok merged)
    (hA : Val.lookup "volumes" A = some (.map SA)) (hB : Val.lookup "volumes" B = some (.map SB))
    (hSA : Val.lookup name SA = some (.map a)) (hSB : Val.lookup name SB = some (.map b))
    (hx : hasXPrefix name = false)
    (hext : (Val.lookup "external" a = some (.bool true) ∧ Val.lookup "external" b = none) ∨
            (Val.lookup "external" a = none ∧ Val.lookup "external" b = some (.bool true)))
    (hk : has k a = true ∨ has k b = true) (hbad : externalAllowed k = false) :
    validate merged ≠ .ok := by
  obtain ⟨top, secs, m, n, p, rfl, h1, h2, hmm⟩ :=
    merged_resource "volumes" (ruleAt_one_part _) (ruleAt_two_parts _) (by decide) (by decide) (by decide)
      A B SA SB a b merged name hBn hSBn hm hA hB hSA hSB hx
  have hkm := merge_keeps_key n a b m p hbn hmm k hk
  have hem : Val.lookup "external" m = some (.bool true) := by
    rcases hext with ⟨ha, hb⟩ | ⟨ha, hb⟩
    · rw [merge_base_only n a b m p hbn hmm "external" hb, ha]
    · exact merge_over_only n a b m p hbn hmm "external" _ ha hb
  unfold has at hkm
  cases hl : Val.lookup k m with
  | none => rw [hl] at hkm; cases hkm
  | some x => exact validate_rejects_external_volume_with_parameters top secs m name k x h1 h2 hem (lookup_mem' _ _ _ hl) hbad

/-! ## "… base service": a violating device request in an `extends` base survives `override.ExtendService` -/

theorem firstMatch_none_of_third {α : Type} (a b c : String) :
    ∀ t : List (List String × α),
      (t.all fun e => match e.1 with | [_, _, z] => z != "*" && z != c | _ => true) = true →
      TPath.firstMatch t [a, b, c] = none
  | [], _ => rfl
  | (pat, x) :: r, ht => by
    simp only [List.all_cons, Bool.and_eq_true] at ht
    unfold TPath.firstMatch
    have : TPath.pmatch pat [a, b, c] = false := by
      cases h : TPath.pmatch pat [a, b, c]
      · rfl
      · have hl := pmatch_length pat _ h
        match pat, hl, ht.1, h with
        | [x1, x2, x3], _, h1, h =>
          simp only [Bool.and_eq_true, bne_iff_ne, ne_eq] at h1
          simp [TPath.pmatch, h1.1, h1.2] at h
    rw [this]
    simpa using firstMatch_none_of_third a b c r ht.2

theorem ruleAt_service_gpus (s : String) : ruleAt ["services", s, "gpus"] = none := by
  unfold ruleAt ruleAtIn
  rw [firstMatch_none_of_third "services" s "gpus" CV.Gen.mergeSpecials (by decide)]

/-- **the violating part in a base service**: when the extended base holds a device request with both `count` and
`device_ids`, the service that `ExtendService` produces still holds it (its `gpus` list is the base's followed by the
extending service's own requests, if any), and any tree containing that service is rejected -/
theorem extends_keeps_gpus_violation (svcA svcB kvs : KVs) (merged : Val) (ga : List Val)
    (hBn : (keys svcB).Nodup)
    (hm : extendService (.map svcA) (.map svcB) = .ok merged)
    (hA : Val.lookup "gpus" svcA = some (.seq ga))
    (hB : Val.lookup "gpus" svcB = none ∨ ∃ gb, Val.lookup "gpus" svcB = some (.seq gb))
    (hbad : Val.map kvs ∈ ga) (hc : has "count" kvs = true) (hi : has "device_ids" kvs = true)
    (top svcs : KVs) (name : String) (h1 : ("services", Val.map svcs) ∈ top) (h2 : (name, merged) ∈ svcs) :
    validate (.map top) ≠ .ok := by
  have hfuel : fuelFor (.map svcB) = (depth (.map svcB) + 6) + 1 + 1 := rfl
  unfold extendService at hm
  simp only at hm
  rw [hfuel] at hm
  obtain ⟨m, rfl, hmm⟩ := merge_map_level _ svcA svcB _ (ruleAt_two_parts _ _) merged hm
  have hg : ∃ g, Val.lookup "gpus" m = some (.seq g) ∧ Val.map kvs ∈ g := by
    rcases hB with hB | ⟨gb, hB⟩
    · exact ⟨ga, by rw [merge_base_only _ svcA svcB m _ hBn hmm "gpus" hB, hA], hbad⟩
    · have hpw := mergeKVsWith_pointwise (mergeYaml _) _ svcB svcA m hBn hmm "gpus"
      rw [hA, hB] at hpw
      have hx : hasXPrefix "gpus" = false := by decide
      simp only [PointwiseAt, hx, Bool.false_eq_true, if_false] at hpw
      obtain ⟨z, hz, hl⟩ := hpw
      have hn : Merge.next ["services", "x"] "gpus" = ["services", "x", "gpus"] := by decide
      rw [hn] at hz
      simp only [mergeYaml, mergeStep, ruleAt_service_gpus, defaultStep] at hz
      cases hz
      exact ⟨ga ++ gb, hl, List.mem_append_left _ hbad⟩
  obtain ⟨g, hl, hmem⟩ := hg
  exact validate_rejects_gpus_count_and_ids top svcs m kvs name g h1 h2 (lookup_mem' _ _ _ hl) hmem hc hi

/-! ## non-vacuity: two files, each valid on its own, whose merge is rejected -/

def fileA : Val := .map [("services", .map [("a", .map [("image", .str "i")])]),
                          ("secrets", .map [("tok", .map [("file", .str "./tok")])])]
def fileB : Val := .map [("secrets", .map [("tok", .map [("environment", .str "TOKEN")])])]

example : validate fileA = .ok ∧ validate fileB = .ok := by decide
example : Merge.merge fileA fileB = .ok (.map [("services", .map [("a", .map [("image", .str "i")])]),
    ("secrets", .map [("tok", .map [("file", .str "./tok"), ("environment", .str "TOKEN")])])]) := by rfl
example : ∃ merged, Merge.merge fileA fileB = .ok merged ∧ validate merged ≠ .ok :=
  ⟨_, rfl, split_secret_sources_rejected
    [("services", .map [("a", .map [("image", .str "i")])]), ("secrets", .map [("tok", .map [("file", .str "./tok")])])]
    [("secrets", .map [("tok", .map [("environment", .str "TOKEN")])])]
    [("tok", .map [("file", .str "./tok")])] [("tok", .map [("environment", .str "TOKEN")])]
    [("file", .str "./tok")] [("environment", .str "TOKEN")] _ "tok"
    (by decide) (by decide) (by decide) rfl rfl rfl rfl rfl (by decide) (.inl (by decide)) (.inr (by decide))⟩

/-- an external volume whose `driver` arrives in an override -/
example : ∃ merged, Merge.merge (.map [("volumes", .map [("ev", .map [("external", .bool true)])])])
      (.map [("volumes", .map [("ev", .map [("driver", .str "foo")])])]) = .ok merged ∧ validate merged ≠ .ok :=
  ⟨_, rfl, split_external_volume_rejected
    [("volumes", .map [("ev", .map [("external", .bool true)])])] [("volumes", .map [("ev", .map [("driver", .str "foo")])])]
    [("ev", .map [("external", .bool true)])] [("ev", .map [("driver", .str "foo")])]
    [("external", .bool true)] [("driver", .str "foo")] _ "ev" "driver"
    (by decide) (by decide) (by decide) rfl rfl rfl rfl rfl (by decide) (.inl ⟨rfl, rfl⟩) (.inr (by decide)) (by decide)⟩

/-- a base service with a violating device request, extended by a service that adds a valid one -/
example : extendService (.map [("image", .str "i"), ("gpus", .seq [.map [("count", .int 1), ("device_ids", .seq [.str "0"])]])])
      (.map [("gpus", .seq [.map [("count", .int 2)]])])
    = .ok (.map [("image", .str "i"),
        ("gpus", .seq [.map [("count", .int 1), ("device_ids", .seq [.str "0"])], .map [("count", .int 2)]])]) := by rfl

end CV.Validate
