import ComposeVerif.Model.Pipeline
import ComposeVerif.Props.C02Deep
import ComposeVerif.Props.C02Stages
import ComposeVerif.Lemmas.C02StageDefaultsWF
import ComposeVerif.Lemmas.C02StagePathsWF
import ComposeVerif.Lemmas.C02WholeOmit
/-!
# C02 — the composed pipeline (`Model/Pipeline.lean`: `Pipeline.load`) and the order of map entries

The property speaks about a whole load.  `Pipeline.load c docs` composes the stage models in the order of
`loader.loadYamlModel` / `load` (per document: Interpolate → ApplyExtends → Merge → EnforceUnicity → schema →
Canonical → OmitEmpty → EnforceUnicity; then SetDefaultValues → Validate → ResolveRelativePaths → ResolveEnvironment;
then the name and Normalize) and is tied to `loader.LoadModelWithContext` by the streams `pipeline.load / loadY`.

**The full statement** is `LoadOrderIndependent`: two lists of documents that differ only in the order of the entries of
their mappings (at any depth; `Eqv`), given with two spellings of one environment, load alike — both fail, or both
succeed with models that again differ only in those orders.  It is *not* proved as a whole: four stages of the
composition have no whole-tree order-independence theorem yet (see `design/C02.md` §2.5).  What is proved:

* `load_order_independent_partial` — **the composition**: the statement for every configuration, from the per-stage
  theorems that exist (`Interpolate`, `override.Merge`, `Validate`, `SetDefaultValues`, `ResolveRelativePaths`, all
  whole-tree, all nesting levels) and a record `Residual c` that names, one field per stage, exactly what is still
  assumed of the other stages (each of them is observed on the real functions by `c02.stageRepeat`, and on the whole
  load by `c02.loadN` / `pipeline.load`);
* the glue in between is proved, not assumed: the error plumbing (`Same.bind`), the document loop (`processDocs_same`:
  an induction over the list of files that threads the model built so far), the empty-model test, the `name` entry,
  the option tests of every stage (a skipped stage is the identity);
* `Interpolate` and `Merge` are discharged *including* the preservation of distinct keys, so nothing is assumed about
  the intermediate trees between them.
-/
namespace CV.Det.Whole
open CV CV.Deep CV.Pipeline CV.Det.Stage
open CV.Val (lookup insert keys KVs)

/-- what is compared of an outcome: the result of a success; every failure is one observation (error texts, *which*
stage reports first, and error-versus-panic of a failing input may depend on the order; whether the load fails must not) -/
def optO {α : Type} : Pipeline.Out α → Option α
  | .ok a => some a
  | _ => none

/-- two outcomes are the same observation up to `R` -/
def Same {α : Type} (R : α → α → Prop) (x y : Pipeline.Out α) : Prop := ORel R (optO x) (optO y)

theorem EW.map_iff {a b : KVs} : EW (.map a) (.map b) ↔ MRel a b := by
  simp only [EW, MRel, Eqv.map_iff, WF.map_iff]

theorem Same.ok {α : Type} {R : α → α → Prop} {a b : α} (h : R a b) : Same R (.ok a) (.ok b) := h

/-- the error plumbing of the glue (`if err != nil { return nil, err }` after every stage) respects the observation -/
theorem Same.bind {α β : Type} {R : α → α → Prop} {S : β → β → Prop} {x y : Pipeline.Out α}
    {f g : α → Pipeline.Out β} (h : Same R x y) (hf : ∀ a b, R a b → Same S (f a) (g b)) :
    Same S (x.bind f) (y.bind g) := by
  cases x <;> cases y <;> simp only [Same, optO, ORel, Pipeline.Out.bind] at h ⊢ <;>
    first | exact hf _ _ h | exact h.elim | trivial

/-- a stage on trees treats two spellings alike and keeps keys distinct -/
def RespectsV (f : Val → Pipeline.Out Val) : Prop := ∀ v w, EW v w → Same EW (f v) (f w)

/-! ## the stages with a whole-tree theorem -/

/-- `Interpolate` as run by the pipeline (option test included), distinct keys preserved -/
theorem interpStage_same (c : Cfg) {a b : KVs} (h : MRel a b) : Same MRel (Pipeline.interpStage c a) (Pipeline.interpStage c b) := by
  unfold Pipeline.interpStage
  by_cases hs : c.opts.skipInterpolation = true
  · simp only [hs, if_true]; exact h
  · simp only [hs, Bool.false_eq_true, if_false]
    have e := interp_eqv c.interp TPath.root (Eqv.map_iff.mpr h.1) (WF.map_iff.mpr h.2.1) (WF.map_iff.mpr h.2.2)
    have wa := fun r => interp_wf c.interp TPath.root (v := .map a) (r := r) (WF.map_iff.mpr h.2.1)
    have wb := fun r => interp_wf c.interp TPath.root (v := .map b) (r := r) (WF.map_iff.mpr h.2.2)
    simp only [Interp.interp] at e wa wb
    simp only [Interp.interpolate]
    cases ha : Interp.interpKVs c.interp TPath.root a <;> cases hb : Interp.interpKVs c.interp TPath.root b <;>
      simp only [ha, hb, optI, ORel, Same, ofInterp, optO] at e wa wb ⊢
    · exact ⟨Eqv.map_iff.mp e, WF.map_iff.mp (wa _ rfl), WF.map_iff.mp (wb _ rfl)⟩

/-- `override.Merge` keeps keys distinct -/
theorem merge_wf {d o z : Val} (wd : WF d) (wo : WF o) (h : Merge.merge d o = .ok z) : WF z := by
  unfold Merge.merge at h
  split at h
  · exact CV.Deep.Props.mergeYaml_preserves_wf _ _ wd wo h
  · cases h

/-- `override.Merge(dict, cfg)` as run by the pipeline -/
theorem mergeStage_same {d d' : Val} {a b : KVs} (hd : EW d d') (h : MRel a b) :
    Same EW (ofMerge "merge" (Merge.merge d (.map a))) (ofMerge "merge" (Merge.merge d' (.map b))) := by
  have e := CV.Deep.Props.merge_deep_order_independent hd.1 (Eqv.map_iff.mpr h.1) hd.2.1 hd.2.2
    (WF.map_iff.mpr h.2.1) (WF.map_iff.mpr h.2.2)
  have w1 := fun z => merge_wf (z := z) hd.2.1 (WF.map_iff.mpr h.2.1)
  have w2 := fun z => merge_wf (z := z) hd.2.2 (WF.map_iff.mpr h.2.2)
  cases h1 : Merge.merge d (.map a) <;> cases h2 : Merge.merge d' (.map b) <;>
    simp only [h1, h2, OutEqv, Same, ofMerge, optO, ORel] at e w1 w2 ⊢
  · exact ⟨e, w1 _ rfl, w2 _ rfl⟩

/-- `validation.Validate` as run by the pipeline -/
theorem validateStage_same (c : Cfg) : RespectsV (Pipeline.validateStage c) := by
  intro v w h
  unfold Pipeline.validateStage
  by_cases hs : c.opts.skipValidation = true
  · simp only [hs, if_true]; exact h
  · simp only [hs, Bool.false_eq_true, if_false]
    have e := validate_eqv h.1 h.2.1 h.2.2
    cases hv : Validate.validate v <;> cases hw : Validate.validate w <;>
      simp only [hv, hw, ofValidate, Same, optO, ORel, reduceCtorEq, iff_false, false_iff, not_true_eq_false] at e ⊢
    · exact h

/-! ## `ResolveEnvironment` (glue of loader.go; `Pipeline.resolveEnvironment`) — proved, for two spellings of the environment -/

/-- two spellings of one environment: every variable has the same value -/
def LookupSame (env env' : List (String × String)) : Prop := ∀ k, env.lookup k = env'.lookup k

/-- a permutation of an environment with distinct names is another spelling of it -/
theorem lookupSame_of_perm {env env' : List (String × String)} (hp : env'.Perm env)
    (hn : (env.map Prod.fst).Nodup) : LookupSame env env' := by
  intro k
  induction hp with
  | nil => rfl
  | cons x _ ih =>
    simp only [List.map_cons, List.nodup_cons] at hn
    simp only [List.lookup, ih hn.2]
  | swap x y l =>
    simp only [List.map_cons, List.nodup_cons, List.mem_cons, not_or] at hn
    simp only [List.lookup]
    cases h1 : k == x.1 <;> cases h2 : k == y.1 <;> simp only []
    exact absurd ((beq_iff_eq.mp h2).symm.trans (beq_iff_eq.mp h1)) (fun e => hn.1.1 e.symm)
  | trans h12 h23 ih1 ih2 =>
    have hn2 := ((h23.map Prod.fst).nodup_iff).mpr hn
    rw [ih2 hn, ih1 hn2]

/-- `for name, value := range m { m[name] = f(value) }` -/
def mapVals (f : Val → Val) (m : KVs) : KVs := m.map fun kv => (kv.1, f kv.2)

theorem travOpt_total (f : Val → Val) : ∀ m : KVs, travOpt (fun _ v => some (f v)) m = some (mapVals f m)
  | [] => rfl
  | (k, v) :: r => by simp only [travOpt, travOpt_total f r, mapVals, List.map_cons]

/-- a loop that rewrites every value of a mapping by functions that respect the equivalence respects it -/
theorem mapVals_mrel (f f' : Val → Val) (hf : ∀ x y, EW x y → EW (f x) (f' y)) {a b : KVs} (h : MRel a b) :
    MRel (mapVals f a) (mapVals f' b) := by
  have e := travOpt_meqv (fun _ v => some (f v)) (fun _ v => some (f' v)) h.1 h.2.1 h.2.2
    (fun k x y hx hy => (hf x y ⟨h.1.2 k x y hx hy, h.2.1.2 k x hx, h.2.2.2 k y hy⟩).1)
  rw [travOpt_total, travOpt_total] at e
  refine ⟨e, travOpt_mwf _ h.2.1 (travOpt_total f a) ?_, travOpt_mwf _ h.2.2 (travOpt_total f' b) ?_⟩
  · intro k x z hx hz
    cases hz
    exact (hf x x ⟨Eqv.refl x (h.2.1.2 k x hx), h.2.1.2 k x hx, h.2.1.2 k x hx⟩).2.1
  · intro k y z hy hz
    cases hz
    exact (hf y y ⟨Eqv.refl y (h.2.2.2 k y hy), h.2.2.2 k y hy, h.2.2.2 k y hy⟩).2.2

theorem mrel_lookup_none {a b : KVs} (h : MRel a b) {k : String} (hx : lookup k a = none) : lookup k b = none :=
  (h.1.1 k).mp hx

theorem mrel_lookup_some {a b : KVs} (h : MRel a b) {k : String} {x : Val} (hx : lookup k a = some x) :
    ∃ y, lookup k b = some y ∧ EW x y := by
  obtain ⟨y, hy, e⟩ := h.1.lookup_some hx
  exact ⟨y, hy, e, h.2.1.2 k x hx, h.2.2.2 k y hy⟩

theorem mrel_insert {a b : KVs} (h : MRel a b) (k : String) {x y : Val} (hxy : EW x y) :
    MRel (insert k x a) (insert k y b) :=
  ⟨MEqv.insert h.1 k hxy.1, MWF.insert h.2.1 k hxy.2.1, MWF.insert h.2.2 k hxy.2.2⟩

/-- the body of the secrets / configs loop -/
theorem resolveObj_ew (carrier : String) {env env' : List (String × String)} (hl : LookupSame env env') {x y : Val}
    (h : EW x y) : EW (Secrets.resolveObj carrier env x) (Secrets.resolveObj carrier env' y) := by
  obtain ⟨he, wx, wy⟩ := h
  have he' := he
  cases he with
  | map h1 h2 =>
    rename_i a b
    have hm : MRel a b := ⟨⟨h1, h2⟩, WF.map_iff.mp wx, WF.map_iff.mp wy⟩
    simp only [Secrets.resolveObj]
    cases ha : lookup "environment" a with
    | none => rw [mrel_lookup_none hm ha]; exact EW.map_iff.mpr hm
    | some u =>
      obtain ⟨u', hb, eu⟩ := mrel_lookup_some hm ha
      rw [hb]
      obtain ⟨e, _, _⟩ := eu
      cases e with
      | str s =>
        simp only []
        by_cases hs : s = ""
        · simp only [hs, if_true]; exact EW.map_iff.mpr hm
        · simp only [hs, if_false, ← hl s]
          cases env.lookup s with
          | none => exact EW.map_iff.mpr hm
          | some found => exact EW.map_iff.mpr (mrel_insert hm carrier ⟨.str _, .str _, .str _⟩)
      | _ => exact EW.map_iff.mpr hm
  | _ => exact ⟨he', wx, wy⟩

theorem resolveObjs_eq (carrier : String) (env : List (String × String)) : ∀ objs : KVs,
    Secrets.resolveObjs carrier env objs = mapVals (Secrets.resolveObj carrier env) objs
  | [] => rfl
  | (n, cfg) :: r => by simp only [Secrets.resolveObjs, resolveObjs_eq carrier env r, mapVals, List.map_cons]

theorem resolveSection_mrel (sect carrier : String) {env env' : List (String × String)} (hl : LookupSame env env')
    {a b : KVs} (h : MRel a b) :
    MRel (Secrets.resolveSection sect carrier env a) (Secrets.resolveSection sect carrier env' b) := by
  simp only [Secrets.resolveSection]
  cases ha : lookup sect a with
  | none => rw [mrel_lookup_none h ha]; exact h
  | some u =>
    obtain ⟨u', hb, e, wu, wu'⟩ := mrel_lookup_some h ha
    rw [hb]
    cases e with
    | map h1 h2 =>
      simp only [resolveObjs_eq]
      exact mrel_insert h sect (EW.map_iff.mpr (mapVals_mrel _ _ (fun x y => resolveObj_ew carrier hl)
        ⟨⟨h1, h2⟩, WF.map_iff.mp wu, WF.map_iff.mp wu'⟩))
    | _ => exact h

/-- one element of `resolveServicesEnvironment` -/
theorem resolveEnvItems_ew {env env' : List (String × String)} (hl : LookupSame env env') :
    ∀ {xs ys : List Val}, Eqv (.seq xs) (.seq ys) →
      EW (.seq (xs.filterMap (resolveEnvItem env))) (.seq (ys.filterMap (resolveEnvItem env')))
  | [], _, h => by cases h; exact ⟨.seqNil, .seqNil, .seqNil⟩
  | x :: xs, _, h => by
    cases h with
    | seqCons hx hr =>
      have ih := resolveEnvItems_ew hl hr
      cases hx with
      | str s =>
        simp only [List.filterMap_cons, resolveEnvItem, ← hl s]
        cases env.lookup s with
        | none => exact ⟨.seqCons (.str _) ih.1, .seqCons (.str _) ih.2.1, .seqCons (.str _) ih.2.2⟩
        | some found => exact ⟨.seqCons (.str _) ih.1, .seqCons (.str _) ih.2.1, .seqCons (.str _) ih.2.2⟩
      | _ => simpa only [List.filterMap_cons, resolveEnvItem] using ih

theorem resolveServiceEnv_ew {env env' : List (String × String)} (hl : LookupSame env env') {x y : Val} (h : EW x y) :
    EW (resolveServiceEnv env x) (resolveServiceEnv env' y) := by
  obtain ⟨he, wx, wy⟩ := h
  have he' := he
  cases he with
  | map h1 h2 =>
    rename_i a b
    have hm : MRel a b := ⟨⟨h1, h2⟩, WF.map_iff.mp wx, WF.map_iff.mp wy⟩
    simp only [resolveServiceEnv]
    cases ha : lookup "environment" a with
    | none => rw [mrel_lookup_none hm ha]; exact EW.map_iff.mpr hm
    | some u =>
      obtain ⟨u', hb, e, _, _⟩ := mrel_lookup_some hm ha
      rw [hb]
      cases e with
      | seqNil => exact EW.map_iff.mpr (mrel_insert hm "environment" (resolveEnvItems_ew hl .seqNil))
      | seqCons e1 e2 => exact EW.map_iff.mpr (mrel_insert hm "environment" (resolveEnvItems_ew hl (.seqCons e1 e2)))
      | _ => exact EW.map_iff.mpr hm
  | _ => exact ⟨he', wx, wy⟩

theorem resolveServicesEnv_mrel {env env' : List (String × String)} (hl : LookupSame env env') {a b : KVs}
    (h : MRel a b) : MRel (resolveServicesEnv env a) (resolveServicesEnv env' b) := by
  simp only [resolveServicesEnv]
  cases ha : lookup "services" a with
  | none => rw [mrel_lookup_none h ha]; exact h
  | some u =>
    obtain ⟨u', hb, e, wu, wu'⟩ := mrel_lookup_some h ha
    rw [hb]
    cases e with
    | map h1 h2 =>
      exact mrel_insert h "services" (EW.map_iff.mpr (mapVals_mrel _ _ (fun x y => resolveServiceEnv_ew hl)
        ⟨⟨h1, h2⟩, WF.map_iff.mp wu, WF.map_iff.mp wu'⟩))
    | _ => exact h

/-- **`ResolveEnvironment(dict, environment)`** (services, secrets, configs) treats two spellings of the model and of the
environment alike, and keeps keys distinct -/
theorem resolveEnvironment_mrel {env env' : List (String × String)} (hl : LookupSame env env') {a b : KVs}
    (h : MRel a b) : MRel (resolveEnvironment env a) (resolveEnvironment env' b) := by
  unfold resolveEnvironment Secrets.resolveConfigsEnv Secrets.resolveSecretsEnv
  exact resolveSection_mrel _ _ hl (resolveSection_mrel _ _ hl (resolveServicesEnv_mrel hl h))

/-- what is still assumed of the stages without a whole-tree order-independence theorem.  One field per stage; each is the
statement "two spellings of one tree are treated alike, and keys stay distinct" for that stage as the pipeline runs it.
Nothing is assumed of `SetDefaultValues` and `ResolveRelativePaths`: order independence (`setDefaultValues_stage_perm`,
`resolve_stage_perm`) and preservation of distinct keys (`setDefaultValues_preserves_wf`, `resolvePaths_preserves_wf`) are proved. -/
structure Residual (c c' : Cfg) : Prop where
  /-- `ApplyExtends` is outside (C05 owns it; `applyExtends_order_independent` is about C02's own model of it) -/
  extendsOff : c.opts.skipExtends = true
  unicity : ∀ s, RespectsV (fun d => ofMerge s (Unicity.enforceTop d))
  /-- only asked when validation is on (`schemaStage_off` discharges it otherwise).  Until round 6 C01's schema model
  compared the items of a `uniqueItems` array through `jsonKey`, which spells a mapping in *list* order, and this field
  was refutable for the model; the integrator replaced it by `Schema.jsonEq`, which does not read the spelling
  (`Props/C01SchemaUnique`: `jsonEq_map_perm_left/right`, `schema_model_ignores_key_order`), so the field is provable
  now — the proof (conformance respects `Deep.Eqv`) is still to be written -/
  schema : c.opts.skipValidation = false → RespectsV (schemaStage c.opts)
  canonical : RespectsV (fun d => ofShort (Short.canonical c.opts.skipInterpolation d))
  /-- `Normalize` with the two spellings of the environment (`normalize_stage_perm` covers the two mappings it ranges) -/
  normalize : ∀ a b, MRel a b →
    Same MEqv (ofC11 "normalize" (C11.normalize c.clean c.env a)) (ofC11 "normalize" (C11.normalize c'.clean c'.env b))

/-- two configurations that differ in the spelling of the environment only -/
def SameButEnv (c c' : Cfg) : Prop :=
  c'.opts = c.opts ∧ c'.interp = c.interp ∧ c'.paths = c.paths ∧ c'.projectName = c.projectName ∧
  c'.omitPats = c.omitPats ∧ c'.mainFile = c.mainFile

/-- **`SetDefaultValues` keeps the keys of every mapping distinct** (whole tree walk, the four handlers) -/
theorem setDefaultValues_preserves_wf (tbl : List (List String × String)) {kvs : KVs} {r : Val} (w : MWF kvs)
    (h : C11.setDefaultValues tbl kvs = .ok r) : WF r := setDefaults_wf tbl TPath.root (WF.map_iff.mpr w) h

/-- **`ResolveRelativePaths` keeps the keys of every mapping distinct** (whole tree walk, the seven resolvers) -/
theorem resolvePaths_preserves_wf (cfg : Paths.Cfg) {v r : Val} (w : WF v) (h : Paths.resolve cfg v = .ok r) : WF r :=
  walk_wf Gen.resolvers cfg TPath.root w h

/-- `SetDefaultValues` as run by the pipeline -/
theorem defaultsStage_same (c : Cfg) : RespectsV (Pipeline.defaultsStage c) := by
  have hwf : ∀ kvs r, MWF kvs → C11.setDefaultValues Gen.defaultValues kvs = .ok r → WF r :=
    fun kvs r w h => setDefaultValues_preserves_wf _ w h
  intro v w h
  obtain ⟨he, wv, ww⟩ := h
  cases he with
  | map h1 h2 =>
    rename_i a b
    simp only [Pipeline.defaultsStage]
    by_cases hs : c.opts.skipDefaultValues = true
    · simp only [hs, if_true]; exact ⟨.map h1 h2, wv, ww⟩
    · simp only [hs, Bool.false_eq_true, if_false]
      have e := setDefaults_eqv Gen.defaultValues TPath.root (Eqv.map h1 h2) wv ww
      have w1 := fun r => hwf a r (WF.map_iff.mp wv)
      have w2 := fun r => hwf b r (WF.map_iff.mp ww)
      simp only [C11.setDefaultValues] at w1 w2 ⊢
      cases x : C11.setDefaults Gen.defaultValues TPath.root (.map a) <;>
        cases y : C11.setDefaults Gen.defaultValues TPath.root (.map b) <;>
        simp only [x, y, DRel, Same, ofC11, optO, ORel] at e w1 w2 ⊢
      · exact ⟨e, w1 _ rfl, w2 _ rfl⟩
  | _ => simp only [Pipeline.defaultsStage, Same, optO, ORel]

/-- `ResolveRelativePaths` as run by the pipeline -/
theorem pathsStage_same (c : Cfg) : RespectsV (Pipeline.pathsStage c) := by
  have hwf : ∀ v r, WF v → Paths.resolve c.paths v = .ok r → WF r := fun v r w h => resolvePaths_preserves_wf _ w h
  intro v w h
  unfold Pipeline.pathsStage
  by_cases hs : c.opts.resolvePaths = true
  · simp only [hs, if_true]
    have e := walk_eqv Gen.resolvers c.paths TPath.root h.1 h.2.1 h.2.2
    have w1 := fun r => hwf v r h.2.1
    have w2 := fun r => hwf w r h.2.2
    simp only [Paths.resolve] at w1 w2 ⊢
    cases x : Paths.walk Gen.resolvers c.paths TPath.root v <;> cases y : Paths.walk Gen.resolvers c.paths TPath.root w <;>
      simp only [x, y, PRel, Same, ofPaths, optO, ORel] at e w1 w2 ⊢
    · exact ⟨e, w1 _ rfl, w2 _ rfl⟩
  · simp only [hs, Bool.false_eq_true, if_false]; exact h

/-- with validation off the schema stage is the identity -/
theorem schemaStage_off (o : Opts) (h : o.skipValidation = true) : RespectsV (schemaStage o) := by
  intro v w hvw
  simp only [schemaStage, h, if_true]
  exact hvw

theorem schemaStage_same {c c' : Cfg} (R : Residual c c') : RespectsV (schemaStage c.opts) := by
  cases h : c.opts.skipValidation with
  | true => exact schemaStage_off _ h
  | false => exact R.schema h

/-- **`loader.OmitEmpty` as run by the pipeline** (a whole tree walk that drops empty values at the `omitempty` paths):
proved through the embedding into C01's `GoVal` model (`omit_ofVal`, `omitEmpty_eq`) and the loop lemma `fm_mrel` -/
theorem omitEmpty_same (pats : List (List String)) : RespectsV (Pipeline.omitEmpty pats) := by
  intro v w h
  obtain ⟨he, wv, ww⟩ := h
  cases he with
  | map h1 h2 =>
    rw [omitEmpty_eq, omitEmpty_eq]
    have := omitV_ew pats (Eqv.map h1 h2) wv ww TPath.root
    simp only [omitV] at this
    exact this
  | _ => simp only [Pipeline.omitEmpty, Same, optO, ORel]

/-! ## the composition -/

/-- `processRawYaml` from the merge on: six stages, error plumbing in between -/
theorem mergeStages_same {c c' : Cfg} (R : Residual c c') {d d' : Val} {a b : KVs} (hd : EW d d') (h : MRel a b) :
    Same EW (mergeStages c d a) (mergeStages c d' b) := by
  unfold mergeStages
  refine Same.bind (mergeStage_same hd h) fun x y hxy => ?_
  refine Same.bind (R.unicity "unicity" x y hxy) fun x y hxy => ?_
  refine Same.bind (schemaStage_same R x y hxy) fun x y hxy => ?_
  refine Same.bind (R.canonical x y hxy) fun x y hxy => ?_
  refine Same.bind (omitEmpty_same c.omitPats x y hxy) fun x y hxy => ?_
  exact R.unicity "unicity2" x y hxy

/-- one document merged into the model built so far -/
theorem processDoc_same {c c' : Cfg} (R : Residual c c') {d d' : Val} {a b : KVs} (hd : EW d d') (h : MRel a b) :
    Same EW (processDoc c d a) (processDoc c d' b) := by
  unfold processDoc
  refine Same.bind (interpStage_same c h) fun x y hxy => ?_
  have ex : ∀ z, extendsStage c z = .ok z := fun z => by simp only [extendsStage, R.extendsOff, if_true]
  simp only [ex, Pipeline.Out.bind]
  exact mergeStages_same R hd hxy

/-- the documents handed to the two loads: the same number of files, pairwise the same tree up to the order of the
entries of every mapping, keys distinct (what decoding a YAML document gives) -/
inductive DocsEqv : List KVs → List KVs → Prop
  | nil : DocsEqv [] []
  | cons {a b : KVs} {r r' : List KVs} : MRel a b → DocsEqv r r' → DocsEqv (a :: r) (b :: r')

/-- **the loop over `config.ConfigFiles`**: documents that pairwise differ only in the order of mapping entries, merged
into models that differ only so, give such models — or both loops fail (at whichever file) -/
theorem processDocs_same {c c' : Cfg} (R : Residual c c') : ∀ {docs docs' : List KVs}, DocsEqv docs docs' →
    ∀ {d d' : Val}, EW d d' → Same EW (processDocs c d docs) (processDocs c d' docs') := by
  intro docs docs' h
  induction h with
  | nil => intro d d' hd; exact hd
  | @cons a b r r' hab _ ih =>
    intro d d' hd
    have h1 := processDoc_same R hd hab
    simp only [processDocs]
    cases x : processDoc c d a <;> cases y : processDoc c d' b <;>
      simp only [x, y, Same, optO, ORel] at h1 ⊢
    · exact ih h1

/-- `loadYamlModel` after the loop -/
theorem finishModel_same {c c' : Cfg} (R : Residual c c') (hc : SameButEnv c c') (hl : LookupSame c.env c'.env)
    {d d' : Val} (hd : EW d d') :
    Same MRel (finishModel c d) (finishModel c' d') := by
  obtain ⟨ho, hi, hp, hn, hm, hf⟩ := hc
  have e1 : Pipeline.defaultsStage c' = Pipeline.defaultsStage c := by funext z; simp only [Pipeline.defaultsStage, ho]
  have e2 : Pipeline.validateStage c' = Pipeline.validateStage c := by funext z; simp only [Pipeline.validateStage, ho]
  have e3 : Pipeline.pathsStage c' = Pipeline.pathsStage c := by funext z; simp only [Pipeline.pathsStage, ho, hp]
  unfold finishModel
  rw [e1, e2, e3]
  refine Same.bind (defaultsStage_same c d d' hd) fun x y hxy => ?_
  refine Same.bind (validateStage_same c x y hxy) fun x y hxy => ?_
  refine Same.bind (pathsStage_same c x y hxy) fun x y hxy => ?_
  obtain ⟨he, wx, wy⟩ := hxy
  cases he with
  | map h1 h2 =>
    simp only [envStage]
    exact resolveEnvironment_mrel hl ⟨⟨h1, h2⟩, WF.map_iff.mp wx, WF.map_iff.mp wy⟩
  | _ => simp only [envStage, Same, optO, ORel]

/-- the tail of `load`: empty-model test, project name, `dict["name"] = …`, `Normalize` -/
theorem finishLoad_same {c c' : Cfg} (R : Residual c c') (hc : SameButEnv c c') {a b : KVs} (h : MRel a b) :
    Same MEqv (finishLoad c a) (finishLoad c' b) := by
  obtain ⟨ho, hi, hp, hn, hm, hf⟩ := hc
  unfold finishLoad
  rw [ho, hn]
  have hemp : a.isEmpty = b.isEmpty := by
    have := MEqv.nil_iff h.1
    cases a <;> cases b <;> simp_all
  rw [hemp]
  by_cases h1 : b.isEmpty = true
  · simp only [h1, if_true, Same, optO, ORel]
  · simp only [h1, Bool.false_eq_true, if_false]
    by_cases h2 : c.projectName = ""
    · simp only [h2, if_true, Same, optO, ORel]
    · simp only [h2, if_false]
      by_cases h3 : c.opts.skipNormalization = true
      · simp only [h3, if_true]; exact h.1
      · simp only [h3, Bool.false_eq_true, if_false]
        exact R.normalize _ _ ⟨h.1.insert "name" (Eqv.str _), h.2.1.insert "name" (WF.str _), h.2.2.insert "name" (WF.str _)⟩

/-- **the full statement** (not proved as a whole — see the module comment): a load does not depend on the order of
the entries of any mapping of its documents, nor on the order in which the environment is spelled -/
def LoadOrderIndependent : Prop :=
  ∀ (c c' : Cfg) (docs docs' : List KVs), SameButEnv c c' → c'.clean = c.clean → c'.env.Perm c.env →
    (c.env.map Prod.fst).Nodup → DocsEqv docs docs' → Same MEqv (load c docs) (load c' docs')

/-- nothing before the environment stages reads the environment -/
theorem processDoc_congr {c c' : Cfg} (hc : SameButEnv c c') : processDoc c' = processDoc c := by
  obtain ⟨ho, hi, hp, hn, hm, hf⟩ := hc
  have hms : mergeStages c' = mergeStages c := by funext d a; simp only [mergeStages, ho, hm]
  funext d a
  simp only [processDoc, Pipeline.interpStage, extendsStage, hms, ho, hi, hf]

theorem processDocs_congr {c c' : Cfg} (hc : SameButEnv c c') : ∀ (docs : List KVs) (d : Val),
    processDocs c' d docs = processDocs c d docs
  | [], _ => rfl
  | a :: r, d => by
    simp only [processDocs, processDoc_congr hc]
    cases processDoc c d a with
    | ok x => exact processDocs_congr hc r x
    | err e => rfl
    | panic s => rfl

/-- **`Pipeline.load` composed from its stages**: for every configuration, documents and spellings of the environment —
with what is still assumed of four stages named in `Residual` -/
theorem load_order_independent_partial {c c' : Cfg} (hc : SameButEnv c c') (hl : LookupSame c.env c'.env)
    (R : Residual c c') {docs docs' : List KVs} (h : DocsEqv docs docs') : Same MEqv (load c docs) (load c' docs') := by
  have hlen : docs.isEmpty = docs'.isEmpty := by cases h <;> rfl
  unfold load
  rw [hlen]
  by_cases he : docs'.isEmpty = true
  · simp only [he, if_true, Same, optO, ORel]
  · simp only [he, Bool.false_eq_true, if_false]
    unfold loadYamlModel
    rw [processDocs_congr hc]
    exact Same.bind (Same.bind (processDocs_same R h (EW.map_iff.mpr MRel.nil)) fun x y hxy => finishModel_same R hc hl hxy)
      fun a b hab => finishLoad_same R hc hab

/-- the same with the environment given as a permutation (Go: `types.Mapping`, a map ranged in any order) -/
theorem load_perm_partial {c c' : Cfg} (hc : SameButEnv c c') (hp : c'.env.Perm c.env) (hn : (c.env.map Prod.fst).Nodup)
    (R : Residual c c') {docs docs' : List KVs} (h : DocsEqv docs docs') : Same MEqv (load c docs) (load c' docs') :=
  load_order_independent_partial hc (lookupSame_of_perm hp hn) R h

/-- a permutation of the entries of a document with distinct keys is a `DocsEqv` spelling of it (non-vacuity of the
hypothesis: this is what `for k, v := range` in another order is) -/
theorem docsEqv_of_perm {a b : KVs} (wa : MWF a) (wb : MWF b) (hp : b.Perm a) : DocsEqv [a] [b] := by
  refine .cons ⟨?_, wa, wb⟩ .nil
  have hl : ∀ k, lookup k b = lookup k a := fun k => CV.Merge.lookup_perm wa.1 hp k
  refine ⟨fun k => by rw [hl k], fun k x y hx hy => ?_⟩
  rw [hl k, hx] at hy; cases hy
  exact Eqv.refl x (wa.2 k x hx)

example : DocsEqv [[("a", Val.str "1"), ("b", Val.null)]] [[("b", Val.null), ("a", Val.str "1")]] :=
  docsEqv_of_perm CV.Deep.Props.wf_labels
    (WF.map_iff.mp (WF.of_perm (List.Perm.swap _ _ _) CV.Deep.Props.wf_labels)) (List.Perm.swap _ _ _)

/-- non-vacuity of `LookupSame`: a permuted environment -/
example : LookupSame [("A", "1"), ("B", "2")] [("B", "2"), ("A", "1")] :=
  lookupSame_of_perm (List.Perm.swap _ _ _) (by decide)

end CV.Det.Whole
