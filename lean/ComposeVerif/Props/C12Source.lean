import ComposeVerif.Gen.PathsConsts
import ComposeVerif.Gen.Globals
import ComposeVerif.Lemmas.AuditCmd
/-!
# C12 — the source the models were written against (regenerated on every run)

`translator/c12.go` prints, without comments, the body of every function that `Model/Paths.lean`,
`Model/PathsOrigin.lean` and `Model/PathsSymlink.lean` mirror, and lists the package-level variables of packages
`paths` and `utils`.  Any edit to one of these functions breaks `modelled_functions_are_source` (on top of whatever the
correspondence finds); a package-level variable in `paths` / `utils` (a cache of `$HOME`, a memo of resolved links …)
breaks `paths_has_no_package_state` before any input is run: path resolution has to be a function of the tree, the
base directory, `$HOME` *now* and the file system *now*.
-/
namespace CV.Paths

/-- packages `paths` and `utils` were scanned and declare no package-level variable — neither in the C12 scan nor in
the library-wide list of C02/C19 (`Gen.Globals.packageVars`) -/
theorem paths_has_no_package_state :
    CV.Gen.paths_packageVars = [] ∧
    CV.Gen.paths_scannedFiles = ["paths/context.go", "paths/extends.go", "paths/home.go", "paths/resolve.go", "paths/unix.go", "paths/windows_path.go", "utils/collectionutils.go", "utils/pathutils.go", "utils/set.go", "utils/stringutils.go"] ∧
    (∀ e ∈ CV.Gen.packageVars, e.1 ≠ "paths" ∧ e.1 ≠ "utils") := by decide

/-- the bodies the models mirror are the ones in the source now -/
theorem modelled_functions_are_source :
    CV.Gen.paths_body_ResolveRelativePaths =
      "{ r := relativePathsResolver{ workingDir: base, remotes: remotes, } r.resolvers = map[tree.Path]resolver{ \"services.*.build.context\": r.absContextPath, \"services.*.build.additional_contexts.*\": r.absContextPath, \"services.*.env_file.*.path\": r.absPath, \"services.*.label_file.*\": r.absPath, \"services.*.extends.file\": r.absExtendsPath, \"services.*.develop.watch.*.path\": r.absSymbolicLink, \"services.*.volumes.*\": r.absVolumeMount, \"configs.*.file\": r.maybeUnixPath, \"secrets.*.file\": r.maybeUnixPath, \"include.path\": r.absPath, \"include.project_directory\": r.absPath, \"include.env_file\": r.absPath, \"volumes.*\": r.volumeDriverOpts, } _, err := r.resolveRelativePaths(project, tree.NewPath()) return err }" ∧
    CV.Gen.paths_body_isRemoteResource =
      "{ for _, remote := range r.remotes { if remote(path) { return true } } return false }" ∧
    CV.Gen.paths_body_resolveRelativePaths =
      "{ for pattern, resolver := range r.resolvers { if p.Matches(pattern) { return resolver(value) } } switch v := value.(type) { case map[string]any: for k, e := range v { resolved, err := r.resolveRelativePaths(e, p.Next(k)) if err != nil { return nil, err } v[k] = resolved } case []any: for i, e := range v { resolved, err := r.resolveRelativePaths(e, p.Next(\"[]\")) if err != nil { return nil, err } v[i] = resolved } } return value, nil }" ∧
    CV.Gen.paths_body_absPath =
      "{ switch v := value.(type) { case []any: for i, s := range v { abs, err := r.absPath(s) if err != nil { return nil, err } v[i] = abs } return v, nil case string: v = ExpandUser(v) if filepath.IsAbs(v) { return v, nil } if v != \"\" { return r.join(v), nil } return v, nil } return nil, fmt.Errorf(\"unexpected type %T\", value) }" ∧
    CV.Gen.paths_body_join =
      "{ joined := filepath.Join(r.workingDir, p) if !filepath.IsAbs(joined) && (strings.HasPrefix(joined, \"~\") || isRemoteContext(joined) || isWindowsAbs(joined)) { return \".\" + string(filepath.Separator) + joined } return joined }" ∧
    CV.Gen.paths_body_absVolumeMount =
      "{ switch vol := a.(type) { case map[string]any: if vol[\"type\"] != types.VolumeTypeBind { return vol, nil } src, ok := vol[\"source\"] if !ok { return nil, errors.New(`invalid mount config for type \"bind\": field Source must not be empty`) } abs, err := r.maybeUnixPath(src) if err != nil { return nil, err } vol[\"source\"] = abs return vol, nil default: return a, nil } }" ∧
    CV.Gen.paths_body_volumeDriverOpts =
      "{ if a == nil { return nil, nil } vol, ok := a.(map[string]any) if !ok { return nil, fmt.Errorf(\"unexpected type %T\", a) } if vol[\"driver\"] != \"local\" { return vol, nil } do, ok := vol[\"driver_opts\"] if !ok || do == nil { return vol, nil } opts, ok := do.(map[string]any) if !ok { return nil, fmt.Errorf(\"unexpected type %T\", do) } if dev, ok := opts[\"device\"]; opts[\"o\"] == \"bind\" && ok { path, err := r.maybeUnixPath(dev) if err != nil { return nil, err } opts[\"device\"] = path } return vol, nil }" ∧
    CV.Gen.paths_body_absContextPath =
      "{ v, ok := value.(string) if !ok { return nil, fmt.Errorf(\"unexpected type %T\", value) } if strings.Contains(v, \"://\") { return v, nil } if isRemoteContext(v) { return v, nil } return r.absPath(v) }" ∧
    CV.Gen.paths_body_isRemoteContext =
      "{ for _, prefix := range []string{\"https://\", \"http://\", \"git://\", \"ssh://\", \"github.com/\", \"git@\"} { if strings.HasPrefix(maybeURL, prefix) { return true } } return false }" ∧
    CV.Gen.paths_body_maybeUnixPath =
      "{ p, ok := a.(string) if !ok { return nil, fmt.Errorf(\"unexpected type %T\", a) } p = ExpandUser(p) if !path.IsAbs(p) && !isWindowsAbs(p) { if filepath.IsAbs(p) { return p, nil } return r.join(p), nil } return p, nil }" ∧
    CV.Gen.paths_body_absSymbolicLink =
      "{ abs, err := r.absPath(value) if err != nil { return nil, err } str, ok := abs.(string) if !ok { return abs, nil } return utils.ResolveSymbolicLink(str) }" ∧
    CV.Gen.paths_body_absExtendsPath =
      "{ v, ok := value.(string) if !ok { return nil, fmt.Errorf(\"unexpected type %T\", value) } if r.isRemoteResource(v) { return v, nil } return r.absPath(v) }" ∧
    CV.Gen.paths_body_ExpandUser =
      "{ if strings.HasPrefix(p, \"~\") { home, err := os.UserHomeDir() if err != nil { logrus.Warn(\"cannot expand '~', because the environment lacks HOME\") return p } return filepath.Join(home, p[1:]) } return p }" ∧
    CV.Gen.paths_body_isSlash =
      "{ return c == '\\\\' || c == '/' }" ∧
    CV.Gen.paths_body_isWindowsAbs =
      "{ l := volumeNameLen(path) if l == 0 { return false } path = path[l:] if path == \"\" { return false } return isSlash(path[0]) }" ∧
    CV.Gen.paths_body_volumeNameLen =
      "{ if len(path) < 2 { return 0 } c := path[0] if path[1] == ':' && ('a' <= c && c <= 'z' || 'A' <= c && c <= 'Z') { return 2 } if l := len(path); l >= 5 && isSlash(path[0]) && isSlash(path[1]) && !isSlash(path[2]) && path[2] != '.' { for n := 3; n < l-1; n++ { if isSlash(path[n]) { n++ if !isSlash(path[n]) { if path[n] == '.' { break } for ; n < l; n++ { if isSlash(path[n]) { break } } return n } break } } } return 0 }" ∧
    CV.Gen.paths_body_ResolveSymbolicLink =
      "{ for range strings.Split(path, string(os.PathSeparator)) { sym, part, err := getSymbolinkLink(path) if err != nil { return \"\", err } if sym == \"\" && part == \"\" { return path, nil } resolved := path if path == part || strings.HasPrefix(path, part+string(os.PathSeparator)) { resolved = sym + strings.TrimPrefix(path, part) } if resolved == path { return path, nil } path = resolved } return path, nil }" ∧
    CV.Gen.paths_body_getSymbolinkLink =
      "{ if !filepath.IsAbs(path) { return \"\", \"\", nil } parts := strings.Split(path, string(os.PathSeparator)) currentPath := string(os.PathSeparator) for _, part := range parts { if part == \"\" { continue } currentPath = filepath.Join(currentPath, part) if isSymLink := isSymbolicLink(currentPath); isSymLink { target, err := filepath.EvalSymlinks(currentPath) if err != nil { return \"\", \"\", err } return target, currentPath, nil } } return \"\", \"\", nil }" ∧
    CV.Gen.paths_body_isSymbolicLink =
      "{ info, err := os.Lstat(path) if err != nil { return false } return info.Mode()&os.ModeSymlink != 0 }" ∧
    CV.Gen.paths_body_abs =
      "{ if filepath.IsAbs(p) { return p } return filepath.Join(l.WorkingDir, p) }" ∧
    CV.Gen.paths_body_Load =
      "{ return l.abs(p), nil }" ∧
    CV.Gen.paths_body_Dir =
      "{ path := l.abs(originalPath) if !l.isDir(path) { path = l.abs(filepath.Dir(originalPath)) } rel, err := filepath.Rel(l.WorkingDir, path) if err != nil { return path } return rel }" :=
  ⟨rfl, rfl, rfl, rfl, rfl, rfl, rfl, rfl, rfl, rfl, rfl, rfl, rfl, rfl, rfl, rfl, rfl, rfl, rfl, rfl, rfl, rfl⟩

end CV.Paths
