import ComposeVerif.Lemmas.ShortDecodeMore
import ComposeVerif.Lemmas.ShortDecode
/-!
# C03 — the scalar-or-mapping decoders (round 5)

`DeviceCount` (`count: all | "3" | 3`), `UlimitsConfig` (`nofile: N | {soft, hard}`), `ShellCommand` (list form),
`Options` — until round 4 covered by correspondence and the oracle only.
-/
namespace CV.Short
open CV

/-! ## `DeviceCount` -/

/-- `count: all` in any letter case is the integer -1 -/
theorem deviceCount_all (s : String) (h : lower s.toList = ['a', 'l', 'l']) :
    decodeDeviceCount (.str s) = some (.int (-1)) ∧ decodeDeviceCount (.int (-1)) = some (.int (-1)) := by
  simp [decodeDeviceCount, h]

example : decodeDeviceCount (.str "aLL") = some (.int (-1)) := (deviceCount_all "aLL" (by decide)).1

/-- a count written as a decimal string is the same typed value as the integer (every n < 2^63) -/
theorem deviceCount_string_eq_int (n : Nat) (h : n ≤ 9223372036854775807) :
    decodeDeviceCount (.str (String.ofList (natToDec n))) = decodeDeviceCount (.int n) := by
  have hd := natToDec_digits n
  have hall := digits_ne_all _ hd
  cases hs : natToDec n with
  | nil => exact absurd hs (natToDec_ne_nil n)
  | cons c r =>
    have hc : c.isDigit = true := hd c (by simp [hs])
    have hp : parseDecAux 0 (c :: r) = some n := by rw [← hs]; exact parseDecAux_natToDec n
    rw [hs] at hall
    rw [decodeDeviceCount_digit_head _ c r (by simp) hc hall, hp]
    simp [h, decodeDeviceCount]

/-- … with an explicit `+`, and with leading zeros -/
theorem deviceCount_plus_zeros (k n : Nat) (h : n ≤ 9223372036854775807) :
    decodeDeviceCount (.str (String.ofList ('+' :: (List.replicate k '0' ++ natToDec n)))) = decodeDeviceCount (.int n) := by
  rw [decodeDeviceCount_plus _ (List.replicate k '0' ++ natToDec n) (by simp), parseDecAux_zeros, parseDecAux_natToDec]
  simp [natToDec_ne_nil n, h, decodeDeviceCount]

/-- a negative count: `-n` as a string is the integer -n (n ≤ 2^63) -/
theorem deviceCount_negative (n : Nat) (h : n ≤ 9223372036854775808) :
    decodeDeviceCount (.str (String.ofList ('-' :: natToDec n))) = some (.int (-(n : Int))) := by
  rw [decodeDeviceCount_minus _ (natToDec n) (by simp), parseDecAux_natToDec]
  simp [natToDec_ne_nil n, h]

/-- near misses are rejected, never read partially: empty, a bare sign, a non-digit anywhere -/
theorem deviceCount_reject_empty : decodeDeviceCount (.str "") = none ∧ decodeDeviceCount (.str "-") = none
    ∧ decodeDeviceCount (.str "+") = none ∧ decodeDeviceCount (.str "1e3") = none ∧ decodeDeviceCount (.str " 1") = none
    ∧ decodeDeviceCount (.str "9223372036854775808") = none ∧ decodeDeviceCount (.str "-9223372036854775809") = none :=
  ⟨rfl, rfl, rfl, rfl, rfl, rfl, rfl⟩

example : decodeDeviceCount (.str "42") = some (.int 42) := rfl
example : decodeDeviceCount (.str (String.ofList (natToDec 42))) = decodeDeviceCount (.int (42 : Nat)) :=
  deviceCount_string_eq_int 42 (by decide)

/-! ## `UlimitsConfig` -/

/-- a single integer sets `Single` only -/
theorem ulimit_single (i : Int) :
    decodeUlimit (.int i) = some (.map [("single", .int i), ("soft", .int 0), ("hard", .int 0)]) := rfl

/-- the mapping form reads `soft` and `hard` wherever they stand (key order and further keys are irrelevant) -/
theorem ulimit_soft_hard (m : Val.KVs) (s h : Int)
    (hs : Val.lookup "soft" m = some (.int s)) (hh : Val.lookup "hard" m = some (.int h)) :
    decodeUlimit (.map m) = some (.map [("single", .int 0), ("soft", .int s), ("hard", .int h)]) := by
  rw [decodeUlimit_map]
  simp [ulimitField, hs, hh]

/-- so two mappings that agree on `soft` and `hard` decode alike (in particular every permutation) -/
theorem ulimit_order_irrelevant (m m' : Val.KVs)
    (hs : Val.lookup "soft" m = Val.lookup "soft" m') (hh : Val.lookup "hard" m = Val.lookup "hard" m') :
    decodeUlimit (.map m) = decodeUlimit (.map m') := by
  rw [decodeUlimit_map, decodeUlimit_map]
  simp only [ulimitField, hs, hh]

/-- a soft / hard value that is not an integer is rejected (never read as 0) -/
theorem ulimit_reject (m : Val.KVs) (v : Val) (k : String) (hk : k = "soft" ∨ k = "hard")
    (hv : Val.lookup k m = some v) (hni : ∀ i, v ≠ .int i) : decodeUlimit (.map m) = none := by
  rw [decodeUlimit_map]
  have hf : ulimitField k m = none := by
    cases v <;> simp_all [ulimitField]
  rcases hk with rfl | rfl
  · simp only [hf]
  · cases hsf : ulimitField "soft" m <;> simp only [hf]

example : decodeUlimit (.map [("hard", .int 2), ("soft", .int 1)])
    = some (.map [("single", .int 0), ("soft", .int 1), ("hard", .int 2)]) :=
  ulimit_soft_hard _ 1 2 rfl rfl
example : decodeUlimit (.map [("soft", .str "1")]) = none :=
  ulimit_reject _ (.str "1") "soft" (.inl rfl) rfl (by intro i h; cases h)

/-- `nofile: N` and `nofile: {soft: N, hard: N}` are **different** typed values (`Single` vs `Soft`/`Hard`): the two
spellings are not a short / long pair of one model, which is why the check states each spelling on its own -/
theorem ulimit_single_ne_pair (n : Int) (hn : n ≠ 0) :
    decodeUlimit (.int n) ≠ decodeUlimit (.map [("soft", .int n), ("hard", .int n)]) := by
  rw [ulimit_single, ulimit_soft_hard _ n n rfl rfl]
  intro h
  simp only [Option.some.injEq, Val.map.injEq, List.cons.injEq, Prod.mk.injEq, Val.int.injEq, true_and] at h
  exact hn h.1

/-! ## `ShellCommand` (list form), `Options` -/

/-- a list of strings is the command itself — the same value `StringList` gives -/
theorem shellCommand_list_id (l : List String) :
    decodeShellCommandList (.seq (l.map Val.str)) = some (.seq (l.map Val.str))
    ∧ decodeShellCommandList (.seq (l.map Val.str)) = decodeStringList (.seq (l.map Val.str)) := by
  simp [decodeShellCommandList, decodeStringList, allStrs_map_str]

/-- a non-string item anywhere in the list is an error (after the round-2 repair), not a partial command -/
theorem shellCommand_reject (a b : List String) (v : Val) (hv : ∀ s, v ≠ .str s) :
    decodeShellCommandList (.seq (a.map Val.str ++ v :: b.map Val.str)) = none := by
  have h : allStrs (a.map Val.str ++ v :: b.map Val.str) = none := by
    induction a with
    | nil => cases v <;> simp_all [allStrs]
    | cons s r ih => simp [allStrs, ih]
  simp [decodeShellCommandList, h]

/-- `Options` has one spelling only: a mapping, decoded like `Mapping`'s mapping form; a list is rejected -/
theorem options_mapping_only (m : Val.KVs) (l : List Val) :
    decodeOptions (.map m) = decodeMapping (.map m) ∧ decodeOptions (.seq l) = none := ⟨rfl, rfl⟩

end CV.Short
