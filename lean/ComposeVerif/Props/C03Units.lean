import ComposeVerif.Lemmas.ShortUnits
/-!
# C03 — alternative spellings of durations and byte sizes denote the same typed value

Stated over C09's models of `Duration.DecodeMapstructure` (`time.ParseDuration`) and `UnitBytes.DecodeMapstructure`
(`units.RAMInBytes`), which C09 ties to the real decoders by its own correspondence; C03's metamorphic oracle loads the
pairs `duration`, `bytes:*` through the real loader.
-/
namespace CV.Short.Units
open CV CV.Marshal

/-- a duration written as integer segments (`1m30s`, `90s`, `1h0m5s`, `1500ms` …) decodes to its number of nanoseconds -/
theorem duration_short_eq_long (d : DurSpec) (hne : d ≠ []) (hb : totalNanos d < two63) :
    decode_Duration (.str (String.ofList (renderDur d))) = .ok (.int (totalNanos d)) := by
  show parseDuration (sprint (.str (String.ofList (renderDur d)))) = _
  exact parseDuration_render d hne hb

/-- two spellings of the same duration load to the same typed value -/
theorem duration_spellings_eq (d1 d2 : DurSpec) (h1 : d1 ≠ []) (h2 : d2 ≠ []) (heq : totalNanos d1 = totalNanos d2)
    (hb : totalNanos d1 < two63) :
    decode_Duration (.str (String.ofList (renderDur d1))) = decode_Duration (.str (String.ofList (renderDur d2))) := by
  rw [duration_short_eq_long d1 h1 hb, duration_short_eq_long d2 h2 (heq ▸ hb), heq]

/-- non-vacuity: `1m30s` and `90s` -/
example : totalNanos [(1, .m), (30, .s)] = totalNanos [(90, .s)] ∧ totalNanos [(90, .s)] < two63 := by decide

/-- and the canonical text (`Duration.String`, what a marshalled project shows) is one more spelling of the same value -/
theorem duration_canonical_spelling (d : DurSpec) (hne : d ≠ []) (hb : totalNanos d < two63) :
    decode_Duration (.str (durString (totalNanos d))) = decode_Duration (.str (String.ofList (renderDur d))) := by
  rw [duration_short_eq_long d hne hb]
  have h63 : -(two63 : Int) ≤ 0 := by decide
  have h0 : (0 : Int) ≤ (totalNanos d : Int) := Int.natCast_nonneg _
  have h := parseDuration_durString (totalNanos d : Int) ⟨by omega, by exact_mod_cast hb⟩
  show parseDuration (sprint (.str (durString (totalNanos d : Int)))) = _
  exact h

/-- a size with a unit (`2m`, `512kb`, `1GiB`) decodes to the same typed value as the integer number of bytes -/
theorem size_short_eq_long (a : SizeSpec) (hb : a.bytes < two53) :
    decode_UnitBytes (.str (String.ofList a.render)) = decode_UnitBytes (.int a.bytes) := by
  have hr := ramInBytes_render a hb
  obtain ⟨c, t, hn, hc⟩ := natDigits_head a.n
  have hnone : parseInt64? (String.ofList a.render).toList = none := by
    have hcm : c ≠ '-' := by intro he; subst he; revert hc; decide
    have hcp : c ≠ '+' := by intro he; subst he; revert hc; decide
    have hu : isDigit (if a.upper then a.unit.char.toUpper else a.unit.char) = false := by
      cases a.unit <;> cases a.upper <;> decide
    have hp : parseNat? (natDigits a.n ++ (if a.upper then a.unit.char.toUpper else a.unit.char) :: a.sfx.chars) = none :=
      parseNat_none _ _ _ hu
    rw [hn] at hp
    simp only [List.cons_append] at hp
    have hpi : parseInt? (c :: (t ++ (if a.upper then a.unit.char.toUpper else a.unit.char) :: a.sfx.chars)) = none := by
      unfold parseInt?
      split
      · rename_i heq; injection heq with h1 _; exact absurd h1 hcm
      · rename_i heq; injection heq with h1 _; exact absurd h1 hcp
      · simp [hp]
    simp only [String.toList_ofList, SizeSpec.render, parseInt64?, hn, List.cons_append, hpi]
  simp only [String.toList_ofList] at hnone
  simp [decode_UnitBytes, hnone, hr]

/-- non-vacuity: `2m` is 2097152 bytes, `1GiB` is 1073741824 -/
example : (SizeSpec.mk 2 .m false .bare).bytes = 2097152 ∧ (SizeSpec.mk 1 .g true .ib).bytes = 1073741824
    ∧ (SizeSpec.mk 2 .m false .bare).bytes < two53 := by decide

end CV.Short.Units
