import ComposeVerif.Lemmas.ShortVolume
import ComposeVerif.Lemmas.ShortDecode
import ComposeVerif.Lemmas.ShortPort
import ComposeVerif.Lemmas.ShortTransform
import ComposeVerif.Neg.C03
import ComposeVerif.Model.ShortTransform
import ComposeVerif.Model.ShortDecode
/-!
# C03 — short and long syntaxes of an attribute denote the same model

Property theorems only.  Models: `Model/ShortParse.lean` (format.ParseVolume, types.ParsePortConfig),
`Model/ShortTransform.lean` (transform.Canonical), `Model/ShortDecode.lean` (DecodeMapstructure of the
mapping / list types).  Specification: `Spec/Short.lean` (one AST per grammar with `render` and `long`).
-/
namespace CV.Short
open CV CV.Short.Spec

/-! ## volumes -/

/-- every well-formed short volume spec parses to exactly its long form -/
theorem volume_short_eq_long (a : VolSpec) (h : a.wf = true) : parseVolume a.render = some a.long := by
  obtain ⟨src, tgt, fl⟩ := a
  simp only [VolSpec.wf, Bool.and_eq_true] at h
  obtain ⟨⟨⟨ht, hs⟩, hfl⟩, hne⟩ := h
  have htne := Seg.render_ne_nil tgt ht
  cases src with
  | none =>
    simp only [decide_eq_true_eq] at hs
    subst hs
    simp only [VolSpec.render, VolSpec.long, List.foldl_nil, parseVolume, isPath]
    have hlen : byteLen tgt.render ≠ 0 := by
      have := byteLen_ge_length tgt.render
      have : tgt.render.length ≠ 0 := by simpa using htne
      omega
    simp only [hlen, if_false]
    by_cases h2 : byteLen tgt.render ≤ 2
    · simp [h2]
    · simp only [h2, if_false, true_and]
      rw [scan_seg_end tgt ht {} (Or.inl rfl), populate_target_only tgt ht]
      simp [populateType, isFilePath]
  | some s =>
    have hsne := Seg.render_ne_nil s hs
    have hlen : ¬ byteLen (VolSpec.render ⟨some s, tgt, fl⟩) ≤ 2 := by
      have h1 : 1 ≤ s.render.length := by cases hr : s.render with | nil => exact absurd hr hsne | cons _ _ => simp
      have h2 : 1 ≤ tgt.render.length := by cases hr : tgt.render with | nil => exact absurd hr htne | cons _ _ => simp
      have := byteLen_ge_length (VolSpec.render ⟨some s, tgt, fl⟩)
      simp only [VolSpec.render, List.length_append, List.length_cons] at this
      simp only [VolSpec.render]
      omega
    have hlen0 : byteLen (VolSpec.render ⟨some s, tgt, fl⟩) ≠ 0 := by omega
    simp only [parseVolume, hlen0, hlen, if_false]
    by_cases hfe : fl = []
    · subst hfe
      simp only [VolSpec.render, if_true, List.append_nil, List.cons_append, List.append_assoc]
      rw [scan_seg_colon s hs _ {} (Or.inl rfl), populate_source s hs]
      simp only []
      rw [scan_seg_end tgt ht { source := s.render } (Or.inr rfl), populate_target true _ hsne tgt ht]
      simp only [Option.map_some, VolSpec.long, List.foldl_nil, populateType, isFilePath_render s hs]
      simp
    · have hfl' : ∀ f ∈ fl, f.wf = true := by simpa [List.all_eq_true] using hfl
      have hrne : renderFlags fl ≠ [] := by simpa [hfe] using hne
      simp only [VolSpec.render, hfe, if_false, List.append_assoc, List.cons_append]
      rw [scan_seg_colon s hs _ {} (Or.inl rfl), populate_source s hs]
      simp only []
      rw [scan_seg_colon tgt ht _ { source := s.render } (Or.inr rfl), populate_target false _ hsne tgt ht]
      simp only []
      rw [scan_plain _ _ _ _ (renderFlags_clean fl hfl')]
      have hnd : isWindowsDrive ([] ++ renderFlags fl) NUL = false := isWindowsDrive_of_ne _ _ NUL_ne_colon
      simp only [scan, hnd]
      rw [if_neg (by simp), if_pos (by decide)]
      have hpop : populate (decide True) ([] ++ renderFlags fl) { source := s.render, target := tgt.render }
          = some (fl.foldl applyFlag { source := s.render, target := tgt.render }) := by
        simp only [populate, List.nil_append, hrne, hsne, htne, decide_true]
        simp [splitOn_renderFlags fl hfe hfl', foldl_applyOption fl hfl']
      rw [hpop]
      simp only [Option.map_some, VolSpec.long, populateType]
      have hsrc := foldl_applyFlag_source fl { source := s.render, target := tgt.render }
      rw [hsrc.1]
      simp [isFilePath_render s hs]

/-- non-vacuity: `./data:/var/lib/../x:ro,z` is a well-formed spec, a bind mount, read-only, relabelled -/
example : (VolSpec.mk (some (.plain ['.', '/', 'd'])) (.plain ['/', 'v']) [.ro, .z]).wf = true
    ∧ (VolSpec.mk (some (.plain ['.', '/', 'd'])) (.plain ['/', 'v']) [.ro, .z]).long.type = ['b', 'i', 'n', 'd'] := by decide

/-- a short spec is a bind mount iff its source is a host path (starts with `.`, `/`, `~`, `\\\\`, or is a drive path) -/
theorem volume_bind_iff (a : VolSpec) : a.long.type = ['b', 'i', 'n', 'd'] ↔ isPath a.source = true := by
  unfold VolSpec.long
  by_cases h1 : a.source = none ∧ byteLen a.target.render ≤ 2
  · simp only [h1, and_self, if_true]
    simp [h1.1, isPath]
  · simp only [h1, if_false]
    by_cases h2 : isPath a.source = true
    · simp [h2]
    · simp [h2]

/-- the same fact on the model of `format.ParseVolume`, for every input string -/
theorem parseVolume_bind_iff (s : Str) (v : Vol) (h : parseVolume s = some v) :
    v.type = ['b', 'i', 'n', 'd'] ↔ isFilePath v.source = true := by
  unfold parseVolume at h
  split at h
  · cases h
  · split at h
    · cases h; simp [isFilePath]
    · cases hs : scan (s ++ [NUL]) [] {} with
      | none => simp [hs] at h
      | some v' =>
        simp only [hs, Option.map_some, Option.some.injEq] at h
        subst h
        unfold populateType
        by_cases hp : isFilePath v'.source = true
        · simp [hp]
        · simp [hp]

/-- an empty spec is rejected -/
theorem volume_reject_empty : parseVolume [] = none := by decide

/-- an empty section between colons is rejected (`SRC::…`) -/
theorem volume_reject_empty_section (g : Seg) (hg : g.wf = true) (rest : Str) :
    parseVolume (g.render ++ ':' :: ':' :: rest) = none := by
  have hne := Seg.render_ne_nil g hg
  have hlen : ¬ byteLen (g.render ++ ':' :: ':' :: rest) ≤ 2 := by
    have := byteLen_ge_length (g.render ++ ':' :: ':' :: rest)
    have h1 : 1 ≤ g.render.length := by cases hr : g.render with | nil => exact absurd hr hne | cons _ _ => simp
    simp only [List.length_append, List.length_cons] at this
    omega
  have hlen0 : byteLen (g.render ++ ':' :: ':' :: rest) ≠ 0 := by omega
  simp only [parseVolume, hlen0, hlen, if_false, List.append_assoc, List.cons_append]
  rw [scan_seg_colon g hg _ {} (Or.inl rfl), populate_source g hg]
  simp only []
  rw [scan_empty_section ':' (Or.inl rfl)]
  rfl

/-- a trailing colon is rejected (`SRC:TGT:`) -/
theorem volume_reject_trailing_colon (s t : Seg) (hs : s.wf = true) (ht : t.wf = true) :
    parseVolume (s.render ++ ':' :: t.render ++ [':']) = none := by
  have hsne := Seg.render_ne_nil s hs
  have hlen : ¬ byteLen (s.render ++ ':' :: t.render ++ [':']) ≤ 2 := by
    have := byteLen_ge_length (s.render ++ ':' :: t.render ++ [':'])
    have h1 : 1 ≤ s.render.length := by cases hr : s.render with | nil => exact absurd hr hsne | cons _ _ => simp
    simp only [List.length_append, List.length_cons, List.length_nil] at this
    omega
  have hlen0 : byteLen (s.render ++ ':' :: t.render ++ [':']) ≠ 0 := by omega
  unfold parseVolume
  rw [if_neg hlen0, if_neg hlen]
  simp only [List.append_assoc, List.cons_append, List.nil_append]
  rw [scan_seg_colon s hs _ {} (Or.inl rfl), populate_source s hs]
  simp only []
  rw [scan_seg_colon t ht _ { source := s.render } (Or.inr rfl), populate_target false _ hsne t ht]
  simp only []
  rw [scan_empty_section NUL (Or.inr rfl)]
  rfl

/-- more than three sections are rejected (`SRC:TGT:X:…`) for every non-empty colon-free `X` — a single letter
included, since the repair of the drive-letter rule — whatever follows -/
theorem volume_reject_too_many_colons (s t : Seg) (hs : s.wf = true) (ht : t.wf = true)
    (x : Str) (hxne : x ≠ []) (hx : clean x = true) (rest : Str) :
    parseVolume (s.render ++ ':' :: t.render ++ ':' :: x ++ ':' :: rest) = none := by
  have hsne := Seg.render_ne_nil s hs
  have htne := Seg.render_ne_nil t ht
  have hlen : ¬ byteLen (s.render ++ ':' :: t.render ++ ':' :: x ++ ':' :: rest) ≤ 2 := by
    have := byteLen_ge_length (s.render ++ ':' :: t.render ++ ':' :: x ++ ':' :: rest)
    have h1 : 1 ≤ s.render.length := by cases hr : s.render with | nil => exact absurd hr hsne | cons _ _ => simp
    simp only [List.length_append, List.length_cons] at this
    omega
  have hlen0 : byteLen (s.render ++ ':' :: t.render ++ ':' :: x ++ ':' :: rest) ≠ 0 := by omega
  unfold parseVolume
  rw [if_neg hlen0, if_neg hlen]
  simp only [List.append_assoc, List.cons_append]
  rw [scan_seg_colon s hs _ {} (Or.inl rfl), populate_source s hs]
  simp only []
  rw [scan_seg_colon t ht _ { source := s.render } (Or.inr rfl), populate_target false _ hsne t ht]
  simp only []
  rw [scan_plain x _ [] _ ((clean_iff x).1 hx)]
  have hne : ¬ ((':' : Char) = NUL) := by decide
  simp [scan, populate, hxne, hsne, htne, hne]

/-- the spec that used to slip through (`vol:/b:z:ro`, finding nearmiss-accepted:volumes:letter-section, now fixed) is rejected -/
theorem volume_letter_section_rejected : parseVolume "vol:/b:z:ro".toList = none := by decide

/-- non-vacuity of the rejection theorems -/
example : parseVolume "vol::/b".toList = none ∧ parseVolume "vol:/b:".toList = none ∧ parseVolume "vol:/b:ro:rw".toList = none := by decide


/-! ## ports -/

/-- every well-formed short port spec parses to its long form: one entry per container port, host ports paired
index-wise (a host range for a single container port kept as a range); the order of the entries (the code sorts
by the string "port/proto") is not part of the property -/
theorem port_short_eq_long (a : PortSpec) (h : a.wf = true) :
    ∃ l, parsePort a.render = some l ∧ l.Perm a.long := by
  have hsyn := protoSyn_of_wf a h
  have hip : ∀ i, a.ip = some i → i.wf = true := by
    intro i hi
    simp only [PortSpec.wf, Bool.and_eq_true] at h
    have := h.1.2
    simpa [hi] using this
  have hparse : parsePort a.render = some ((sortByKey ((List.range a.cont.size).map
        (mkMapping (ipAddr a) (protoOf a.proto) a.cont.lo.val
          (match a.host with | none => 0 | some r => r.lo.val) (match a.host with | none => 0 | some r => r.last)
          (a.host.isSome) (a.cont.lo.val = a.cont.last)))).map (·.cfg)) := by
    simp only [parsePort, parsePortSpec_render a hsyn hip, portCore_wf a h, Option.map_some]
    try rfl
  refine ⟨_, hparse, ?_⟩
  refine ((sortByKey_perm _).map _).trans ?_
  rw [List.map_map]
  have : List.map ((fun x => x.cfg) ∘ mkMapping (ipAddr a) (protoOf a.proto) a.cont.lo.val
          (match a.host with | none => 0 | some r => r.lo.val) (match a.host with | none => 0 | some r => r.last)
          (a.host.isSome) (a.cont.lo.val = a.cont.last)) (List.range a.cont.size) = a.long := by
    unfold PortSpec.long
    apply List.map_congr_left
    intro i hi
    exact cfg_mkMapping a h i (List.mem_range.1 hi)
  rw [this]

/-- a container port range expands to one entry per port -/
theorem port_len (a : PortSpec) (h : a.wf = true) :
    ∃ l, parsePort a.render = some l ∧ l.length = a.cont.size := by
  obtain ⟨l, hl, hp⟩ := port_short_eq_long a h
  exact ⟨l, hl, by rw [hp.length_eq]; simp [PortSpec.long]⟩

/-- host ports are paired one to one with container ports when the two ranges have equal length (> 1) -/
theorem port_pairing (a : PortSpec) (r : Range) (hr : a.host = some r) (hsz : a.cont.size ≠ 1) (i : Nat) (hi : i < a.cont.size) :
    a.long[i]? = some { hostIP := (match a.ip with | none => [] | some i => i.addr), target := a.cont.lo.val + i,
                        published := natToDec (r.lo.val + i), protocol := protoOf a.proto } := by
  simp only [PortSpec.long, List.getElem?_map, List.getElem?_range hi, Option.map_some, published, hr, hsz, false_and, if_false]
  cases a.ip <;> rfl



/-- non-vacuity: `127.0.0.1:8000-8001:9-10/udp` is well-formed, has two entries, and its long form pairs 8000↦9, 8001↦10 -/
example :
    let a : PortSpec := ⟨some ⟨false, "127.0.0.1".toList⟩, some ⟨⟨0, 8000⟩, some ⟨0, 8001⟩⟩, ⟨⟨0, 9⟩, some ⟨0, 10⟩⟩, some "udp".toList⟩
    a.wf = true ∧ a.cont.size = 2 := by decide

/-- non-vacuity: a host range for a single container port is well-formed (`[::1]:1-3:5`) -/
example : (PortSpec.mk (some ⟨true, "::1".toList⟩) (some ⟨⟨0, 1⟩, some ⟨0, 3⟩⟩) ⟨⟨0, 5⟩, none⟩ none).wf = true := by decide

/-- an empty container section (`…:`) is rejected, whatever precedes it -/
theorem port_nearmiss_empty_container (s : Str) : parsePort (s ++ [':']) = none := by
  have h1 : splitOn ':' (s ++ [':']) = splitOn ':' s ++ [[]] := by
    rw [splitOn_append_sep]; rfl
  have h2 := splitParts_snoc_nil (splitOn ':' s) (splitOn_ne_nil _ _)
  simp only [parsePort, parsePortSpec, h1, h2]
  have h3 : splitProtoPort [] = ([], []) := by decide
  simp only [h3, portCore_nil_cont]
  cases splitHostColon (splitParts (splitOn ':' s ++ [[]])).1 <;> rfl

/-- a container range that is reversed or exceeds 65535 is rejected -/
theorem port_nearmiss_bad_container_range (a : PortSpec) (hsyn : protoSyn a = true)
    (hip : ∀ i, a.ip = some i → i.wf = true) (hbad : a.cont.wf = false) : parsePort a.render = none := by
  have : parsePortRange a.cont.render = none := by
    rw [parsePortRange_render]
    simp only [Range.wf, Bool.and_eq_false_iff, decide_eq_false_iff_not] at hbad
    have : ¬ (a.cont.lo.val ≤ 65535 ∧ a.cont.last ≤ 65535 ∧ a.cont.lo.val ≤ a.cont.last) := by omega
    simp [this]
  simp [parsePort, parsePortSpec_render a hsyn hip, portCore_bad_cont _ _ _ _ this]

/-- a host range that is reversed or exceeds 65535 is rejected -/
theorem port_nearmiss_bad_host_range (a : PortSpec) (hsyn : protoSyn a = true)
    (hip : ∀ i, a.ip = some i → i.wf = true) (r : Range) (hr : a.host = some r) (hbad : r.wf = false) :
    parsePort a.render = none := by
  have : parsePortRange r.render = none := by
    rw [parsePortRange_render]
    simp only [Range.wf, Bool.and_eq_false_iff, decide_eq_false_iff_not] at hbad
    have : ¬ (r.lo.val ≤ 65535 ∧ r.last ≤ 65535 ∧ r.lo.val ≤ r.last) := by omega
    simp [this]
  have hh : hostSection a = r.render := by simp [hostSection, hr]
  simp [parsePort, parsePortSpec_render a hsyn hip, hh, portCore_bad_host _ _ _ _ (Range.render_ne_nil r) this]

/-- a protocol other than tcp / udp / sctp (any letter case) is rejected -/
theorem port_nearmiss_bad_proto (a : PortSpec) (hsyn : protoSyn a = true)
    (hip : ∀ i, a.ip = some i → i.wf = true) (hbad : validProto (protoOf a.proto) = false) : parsePort a.render = none := by
  have : validProto (lower (protoRaw a)) = false := by rw [lower_protoRaw]; exact hbad
  simp [parsePort, parsePortSpec_render a hsyn hip, portCore_bad_proto _ _ _ _ this]

/-- host and container ranges of different lengths are rejected (unless the container side is a single port) -/
theorem port_nearmiss_unequal_ranges (a : PortSpec) (hsyn : protoSyn a = true)
    (hip : ∀ i, a.ip = some i → i.wf = true) (hc : a.cont.wf = true) (r : Range) (hr : a.host = some r) (hrw : r.wf = true)
    (h1 : r.size ≠ a.cont.size) (h2 : a.cont.size ≠ 1) : parsePort a.render = none := by
  simp only [Range.wf, Bool.and_eq_true, decide_eq_true_eq] at hc hrw
  have hcc : a.cont.lo.val ≤ 65535 ∧ a.cont.last ≤ 65535 ∧ a.cont.lo.val ≤ a.cont.last := ⟨by omega, hc.2, hc.1⟩
  have hrr : r.lo.val ≤ 65535 ∧ r.last ≤ 65535 ∧ r.lo.val ≤ r.last := ⟨by omega, hrw.2, hrw.1⟩
  have hh : hostSection a = r.render := by simp [hostSection, hr]
  simp only [Range.size] at h1 h2
  have e1 : ¬ (a.cont.last - a.cont.lo.val = r.last - r.lo.val) := by omega
  have e2 : ¬ (a.cont.last = a.cont.lo.val) := by omega
  simp only [parsePort, parsePortSpec_render a hsyn hip, hh, portCore, Range.render_ne_nil, parsePortRange_render, hcc, hrr,
    and_self, if_true, if_false]
  simp [e1, e2, Range.render_ne_nil]


/-- non-vacuity of the near-miss hypotheses: `8000-8002:80-81`, `90-80`, `65536`, `80/http` -/
example : (Range.mk ⟨0, 8000⟩ (some ⟨0, 8002⟩)).size ≠ (Range.mk ⟨0, 80⟩ (some ⟨0, 81⟩)).size
    ∧ (Range.mk ⟨0, 90⟩ (some ⟨0, 80⟩)).wf = false ∧ (Range.mk ⟨0, 65536⟩ none).wf = false
    ∧ validProto (protoOf (some "http".toList)) = false := by decide

/-- the ports transformer on a well-formed short spec: the long-form entries (up to order), each encoded as a mapping -/
theorem transformPorts_short_eq_long (ign : Bool) (a : PortSpec) (h : a.wf = true) :
    ∃ l : List PortCfg, l.Perm a.long ∧ transformPorts ign (.seq [.str (String.ofList a.render)]) = .ok (.seq (l.map encodePort)) := by
  obtain ⟨l, hl, hp⟩ := port_short_eq_long a h
  exact ⟨l, hp, by simp [transformPorts, portEntries, hl]⟩

/-- long-form entries are left unchanged -/
theorem transformPorts_long_id (ign : Bool) (ms : List Val.KVs) :
    transformPorts ign (.seq (ms.map Val.map)) = .ok (.seq (ms.map Val.map)) := by
  simp [transformPorts, portEntries_maps]

/-- a port string that does not parse is an error (the whole list is rejected, nothing is loaded partially) -/
theorem transformPorts_reject (s : String) (pre : List Val.KVs) (post : List Val) (h : parsePort s.toList = none) :
    transformPorts false (.seq (pre.map Val.map ++ .str s :: post)) = .err "parse" := by
  have : ∀ acc, portEntries false (pre.map Val.map ++ .str s :: post) acc = some (.err "parse") := by
    induction pre with
    | nil => intro acc; simp [portEntries, h]
    | cons m r ih => intro acc; simp [portEntries, ih]
  simp [transformPorts, this]

/-! ## KEY[=VALUE] list vs mapping -/

/-- `MappingWithEquals` (environment, build args): the list form and the mapping form decode to the same value;
a bare `KEY` is the mapping entry `KEY: null` -/
theorem kv_list_eq_map_MappingWithEquals (m : List (Str × Val))
    (hk : ∀ p ∈ m, ∀ x ∈ p.1, x ≠ '=') (hnd : (m.map Prod.fst).Nodup) :
    decodeMWE (.seq (m.map listEntry)) = decodeMWE (.map (m.map mapEntry)) := by
  simp only [decodeMWE, mweOfList, kvOfList_entries .null m [] hk hnd (by simp), List.nil_append, List.map_map]
  congr 2
  apply List.map_congr_left
  intro p _
  obtain ⟨k, e⟩ := p
  cases e <;> simp [mapEntry, entryValue, mappingValue, sprint_str]

/-- `Mapping` (sysctls, annotations, …): a bare `KEY` and `KEY: null` both give the empty string -/
theorem kv_list_eq_map_Mapping (m : List (Str × Val))
    (hk : ∀ p ∈ m, ∀ x ∈ p.1, x ≠ '=') (hnd : (m.map Prod.fst).Nodup) :
    decodeMapping (.seq (m.map listEntry)) = decodeMapping (.map (m.map mapEntry)) := by
  simp only [decodeMapping, mappingOfList, mappingOfMap, kvOfList_entries (.str "") m [] hk hnd (by simp), List.nil_append, List.map_map]
  congr 2

/-- `Labels` -/
theorem kv_list_eq_map_Labels (m : List (Str × Val))
    (hk : ∀ p ∈ m, ∀ x ∈ p.1, x ≠ '=') (hnd : (m.map Prod.fst).Nodup) :
    decodeLabels (.seq (m.map listEntry)) = decodeLabels (.map (m.map mapEntry)) := by
  simp only [decodeLabels, mappingOfList, kvOfList_entries (.str "") m [] hk hnd (by simp), List.nil_append, List.map_map]
  congr 2
  apply List.map_congr_left
  intro p _
  obtain ⟨k, e⟩ := p
  cases e <;> simp [mapEntry, entryValue, labelValue, sprint_str]

/-- `extra_hosts`: the list form `["host=ip1,ip2", …]` and the mapping form `{host: [ip1, ip2], …}` decode to the same
`HostsList` (or are rejected alike), for distinct `=`-free host names and comma-free addresses -/
theorem kv_list_eq_map_HostsList (es : List (Str × List Str))
    (hk : ∀ e ∈ es, ∀ x ∈ e.1, x ≠ '=')
    (hips : ∀ e ∈ es, e.2 ≠ [] ∧ ∀ ip ∈ e.2, ∀ ch ∈ ip, ch ≠ ',')
    (hnd : (es.map Prod.fst).Nodup) :
    decodeHosts (.seq (es.map hostEntry)) = decodeHosts (.map (es.map hostMapEntry)) := by
  simp [decodeHosts, hostsOfList_entries es [] hk hips hnd (by simp), hostsOfMap_entries]


/-- `extra_hosts` with either separator: a list whose entries are `host=ip,…` or the legacy `host:ip,…` (IPv6 addresses
included: only the first colon separates) decodes to the same `HostsList` as the mapping `{host: [ip, …]}` -/
theorem kv_list_eq_map_HostsList_legacy (es : List (Bool × Str × List Str))
    (hok : ∀ e ∈ es, HostEntryOK e) (hnd : (es.map fun e => e.2.1).Nodup) :
    decodeHosts (.seq (es.map hostEntrySep)) = decodeHosts (.map (es.map fun e => hostMapEntry e.2)) := by
  have h2 : hostsOfMap (es.map fun e => hostMapEntry e.2) = some (es.map fun e => (String.ofList e.2.1, e.2.2)) := by
    simpa [List.map_map, Function.comp_def] using hostsOfMap_entries (es.map fun e => e.2)
  simp [decodeHosts, hostsOfList_entriesSep es [] hok hnd (by simp), h2]

/-- non-vacuity: `["a:1.2.3.4", "b:::1", "c=10.0.0.1"]` -/
example : decodeHosts (.seq [hostEntrySep (true, "a".toList, ["1.2.3.4".toList]), hostEntrySep (true, "b".toList, ["::1".toList]),
      hostEntrySep (false, "c".toList, ["10.0.0.1".toList])])
    = some (.map [("a", .seq [.str "1.2.3.4"]), ("b", .seq [.str "::1"]), ("c", .seq [.str "10.0.0.1"])]) := by rfl


/-- `extra_hosts`, list syntax ≡ mapping syntax **whatever the bracket spelling of each address on either side**: the list
`["host=a1,a2", …]` in which every address is written bare or as `[a]` (flags `.1`) and the mapping `{host: [a1, a2], …}`
in which every address is again written bare or as `[a]` (flags `.2.1`, chosen independently) decode to the same
`HostsList` — the one with the bare addresses — or are rejected alike (bad host name). -/
theorem hostsList_list_eq_mapping (es : List (Str × List (Bool × Bool × Str)))
    (hk : ∀ e ∈ es, ∀ x ∈ e.1, x ≠ '=')
    (hips : ∀ e ∈ es, e.2 ≠ [] ∧ ∀ a ∈ e.2, BareAddr a.2.2)
    (hnd : (es.map Prod.fst).Nodup) :
    decodeHosts (.seq (es.map fun e => hostEntry (e.1, e.2.map fun a => addrSpelling a.1 a.2.2))) =
      decodeHosts (.map (es.map fun e => hostMapEntry (e.1, e.2.map fun a => addrSpelling a.2.1 a.2.2))) ∧
    decodeHosts (.map (es.map fun e => hostMapEntry (e.1, e.2.map fun a => addrSpelling a.2.1 a.2.2))) =
      hostsCleanup (es.map fun e => (String.ofList e.1, e.2.map fun a => a.2.2)) := by
  have key : ∀ (f : Bool × Bool × Str → Bool),
      decodeHosts (.map (es.map fun e => hostMapEntry (e.1, e.2.map fun a => addrSpelling (f a) a.2.2))) =
        hostsCleanup (es.map fun e => (String.ofList e.1, e.2.map fun a => a.2.2)) := by
    intro f
    have h2 := hostsOfMap_entries (es.map fun e => (e.1, e.2.map fun a => addrSpelling (f a) a.2.2))
    simp only [List.map_map, Function.comp_def] at h2
    simp only [decodeHosts, h2, Option.bind_some, hostsCleanup, List.any_map, Function.comp_def, List.map_map]
    congr 2
    apply congrArg
    apply List.map_congr_left
    intro e he
    congr 2
    apply List.map_congr_left
    intro a ha
    obtain ⟨hne, hb, _⟩ := (hips e he).2 a ha
    rw [stripBrackets_spelling _ _ hne hb, hb]
  refine ⟨?_, key (fun a => a.2.1)⟩
  have hl := kv_list_eq_map_HostsList (es.map fun e => (e.1, e.2.map fun a => addrSpelling a.1 a.2.2))
    (by
      intro e he
      obtain ⟨e0, he0, rfl⟩ := List.mem_map.1 he
      exact hk e0 he0)
    (by
      intro e he
      obtain ⟨e0, he0, rfl⟩ := List.mem_map.1 he
      refine ⟨by simpa using (hips e0 he0).1, ?_⟩
      intro ip hip
      obtain ⟨a, ha, rfl⟩ := List.mem_map.1 hip
      exact bracketed_comma_free _ _ ((hips e0 he0).2 a ha).2.2)
    (by simpa [List.map_map, Function.comp_def] using hnd)
  simp only [List.map_map, Function.comp_def] at hl
  rw [hl, key (fun a => a.1), key (fun a => a.2.1)]

/-- non-vacuity: `["h=[::1],fe80::1"]` and `{h: ["::1", "[fe80::1]"]}` are the same `HostsList` `h ↦ [::1, fe80::1]` -/
example : decodeHosts (.seq [hostEntry ("h".toList, ["[::1]".toList, "fe80::1".toList])])
    = decodeHosts (.map [hostMapEntry ("h".toList, ["::1".toList, "[fe80::1]".toList])]) := by rfl

example : BareAddr "::1".toList := by refine ⟨by decide, by decide, by decide⟩


/-- non-vacuity: `["h=1.2.3.4,[::1]"]` and `{h: ["1.2.3.4", "[::1]"]}` both decode to `h ↦ [1.2.3.4, ::1]` -/
example : decodeHosts (.seq [hostEntry ("h".toList, ["1.2.3.4".toList, "[::1]".toList])])
    = some (.map [("h", .seq [.str "1.2.3.4", .str "::1"])]) := by rfl

/-- non-vacuity: `["A=1", "B", "C="]` and `{A: 1, B: null, C: ""}` -/
example : decodeMWE (.seq ([("A".toList, Val.int 1), ("B".toList, .null), ("C".toList, .str "")].map listEntry))
    = some (.map [("A", .str "1"), ("B", .null), ("C", .str "")]) := by rfl

/-! ## string vs list -/

theorem string_eq_singleton_StringList (s : String) : decodeStringList (.str s) = decodeStringList (.seq [.str s]) := rfl
theorem string_eq_singleton_StringOrNumberList (s : String) :
    decodeStringOrNumberList (.str s) = decodeStringOrNumberList (.seq [.str s]) := by
  simp [decodeStringOrNumberList, sprint_str]
/-- `dns: x` ≡ `dns: [x]` -/
theorem transformStringOrList_short_eq_long (s : String) : transformStringOrList (.str s) = .ok (.seq [.str s]) := rfl
theorem transformStringOrList_long_id (l : List Val) : transformStringOrList (.seq l) = .ok (.seq l) := rfl
/-- `env_file: x` ≡ `env_file: [x]` ≡ `env_file: [{path: x, required: true}]` -/
theorem transformEnvFile_short_eq_long (s : String) :
    transformEnvFile (.str s) = .ok (.seq [.map [("path", .str s), ("required", .bool true)]])
    ∧ transformEnvFile (.seq [.str s]) = transformEnvFile (.str s)
    ∧ transformEnvFile (.seq [.map [("path", .str s), ("required", .bool true)]]) = transformEnvFile (.str s) := by
  refine ⟨rfl, rfl, ?_⟩
  simp [transformEnvFile, envFileValue, hasKey, Val.lookup]
/-- healthcheck `test: cmd` ≡ `test: ["CMD-SHELL", cmd]` -/
theorem healthcheck_test_short_eq_long (s : String) :
    decodeHealthTest (.str s) = decodeHealthTest (.seq [.str "CMD-SHELL", .str s]) := rfl

/-! ## the transformers: short form ↦ long form, long form unchanged -/

theorem transformFileMount_short_eq_long (s : String) : transformFileMount (.str s) = .ok (.map [("source", .str s)]) := rfl
theorem transformFileMount_long_id (m : Val.KVs) : transformFileMount (.map m) = .ok (.map m) := rfl
theorem transformInclude_short_eq_long (s : String) : transformInclude (.str s) = .ok (.map [("path", .str s)]) := rfl
theorem transformInclude_long_id (m : Val.KVs) : transformInclude (.map m) = .ok (.map m) := rfl
theorem transformUlimits_id (m : Val.KVs) (i : Int) :
    transformUlimits (.map m) = .ok (.map m) ∧ transformUlimits (.int i) = .ok (.int i) := ⟨rfl, rfl⟩
theorem transformVolumeMount_long_id (ign : Bool) (m : Val.KVs) : transformVolumeMount ign (.map m) = .ok (.map m) := rfl
theorem transformDeviceMapping_long_id (ign : Bool) (m : Val.KVs) : transformDeviceMapping ign (.map m) = .ok (.map m) := rfl
theorem transformSSH_long_id (m : Val.KVs) : transformSSH (.map m) = .ok (.map m) := rfl
theorem transformKeyValue_long_id (ign : Bool) (m : Val.KVs) : transformKeyValue ign (.map m) = .ok (.map m) := rfl
theorem transformServiceNetworks_long_id (m : Val.KVs) : transformServiceNetworks (.map m) = .ok (.map m) := rfl

/-- the volume transformer on a well-formed short spec: the long form with a cleaned target, encoded with `omitempty` -/
theorem transformVolumeMount_short_eq_long (ign : Bool) (a : VolSpec) (h : a.wf = true) :
    transformVolumeMount ign (.str (String.ofList a.render))
      = .ok (encodeVol { a.long with target := cleanTarget a.long.target }) := by
  simp [transformVolumeMount, volume_short_eq_long a h]

/-- and a spec that does not parse is an error, never a partial value -/
theorem transformVolumeMount_reject (s : String) (h : parseVolume s.toList = none) :
    transformVolumeMount false (.str s) = .err "parse" := by
  simp [transformVolumeMount, h]

/-- devices `SRC[:DST[:PERM]]` -/
theorem transformDeviceMapping_short_eq_long (ign : Bool) (a : DevSpec) (h : a.wf = true) :
    transformDeviceMapping ign (.str (String.ofList a.render))
      = .ok (.map [("source", sv a.long.1), ("target", sv a.long.2.1), ("permissions", sv a.long.2.2)]) := by
  obtain ⟨src, dst, perm⟩ := a
  cases dst with
  | none =>
    simp only [DevSpec.wf, Bool.and_eq_true, Bool.not_eq_true'] at h
    have c1 := (contains_false_iff _ _).1 h.1.1
    simp [transformDeviceMapping, DevSpec.render, DevSpec.long, splitOn_clean _ _ c1]
  | some d =>
    cases perm with
    | none =>
      simp only [DevSpec.wf, Bool.and_eq_true, Bool.not_eq_true'] at h
      have c1 := (contains_false_iff _ _).1 h.1.1
      have c2 := (contains_false_iff _ _).1 h.1.2
      simp [transformDeviceMapping, DevSpec.render, DevSpec.long, splitOn_append _ _ _ c1, splitOn_clean _ _ c2]
    | some p =>
      simp only [DevSpec.wf, Bool.and_eq_true, Bool.not_eq_true'] at h
      have c1 := (contains_false_iff _ _).1 h.1.1
      have c2 := (contains_false_iff _ _).1 h.1.2
      have c3 := (contains_false_iff _ _).1 h.2
      simp [transformDeviceMapping, DevSpec.render, DevSpec.long, splitOn_append _ _ _ c1, splitOn_append _ _ _ c2, splitOn_clean _ _ c3]

/-- a device spec with four or more sections is rejected -/
theorem transformDeviceMapping_reject (a b c d : Str) (rest : Str)
    (ha : ∀ x ∈ a, x ≠ ':') (hb : ∀ x ∈ b, x ≠ ':') (hc : ∀ x ∈ c, x ≠ ':') :
    transformDeviceMapping false (.str (String.ofList (a ++ ':' :: b ++ ':' :: c ++ ':' :: rest))) = .err "parse" := by
  have h4 : ∃ x y, splitOn ':' rest = x :: y := by
    cases hr : splitOn ':' rest with
    | nil => exact absurd hr (splitOn_ne_nil _ _)
    | cons x y => exact ⟨x, y, rfl⟩
  obtain ⟨x, y, hxy⟩ := h4
  simp [transformDeviceMapping, List.append_assoc, splitOn_append _ _ _ ha, splitOn_append _ _ _ hb, splitOn_append _ _ _ hc, hxy]

/-- service `networks`: a list of distinct names ≡ the mapping of each name to null -/
theorem transformServiceNetworks_short_eq_long (names : List String) (hnd : names.Nodup) :
    transformServiceNetworks (.seq (names.map Val.str)) = .ok (.map (names.map (fun n => (n, Val.null)))) := by
  simp [transformServiceNetworks, networksList_distinct names [] hnd (by simp)]

/-- `depends_on`: a list of distinct names ≡ the mapping of each name to `{condition: service_started, required: true}`,
and that mapping is left unchanged -/
theorem transformDependsOn_short_eq_long (names : List String) (hnd : names.Nodup) :
    transformDependsOn (.seq (names.map Val.str)) = .ok (.map (names.map (fun n => (n, startedRequired))))
    ∧ transformDependsOn (.map (names.map (fun n => (n, startedRequired)))) = .ok (.map (names.map (fun n => (n, startedRequired)))) := by
  constructor
  · simp [transformDependsOn, dependsList_distinct names [] hnd (by simp)]
  · simp [transformDependsOn, dependsMap_started]

/-- non-vacuity -/
example : transformDependsOn (.seq [.str "db", .str "cache"])
    = .ok (.map [("db", startedRequired), ("cache", startedRequired)]) :=
  (transformDependsOn_short_eq_long ["db", "cache"] (by decide)).1

/-- build ssh: `["default", "id=path"]` ≡ `{default: null, id: path}` -/
theorem transformSSH_short_eq_long (id path : Str) (hid : ∀ x ∈ id, x ≠ '=') (hd : String.ofList id ≠ "default") :
    transformSSH (.seq [.str "default", .str (String.ofList (id ++ '=' :: path))])
      = .ok (.map [("default", .null), (String.ofList id, sv path)]) := by
  have h1 : cutAt '=' ['d', 'e', 'f', 'a', 'u', 'l', 't'] = none := by decide
  simp [transformSSH, sshList, h1, cutAt_append _ _ _ hid, Val.insert, hd]

/-- a key without `=` other than `default` is rejected -/
theorem transformSSH_reject (k : Str) (hk : ∀ x ∈ k, x ≠ '=') (hd : String.ofList k ≠ "default") :
    transformSSH (.seq [.str (String.ofList k)]) = .err "parse" := by
  simp [transformSSH, sshList, cutAt_clean _ _ hk, hd]

/-- `KEY=VALUE` list ≡ mapping (build additional_contexts) -/
theorem transformKeyValue_short_eq_long (k v : Str) (hk : ∀ x ∈ k, x ≠ '=') (ign : Bool) :
    transformKeyValue ign (.seq [.str (String.ofList (k ++ '=' :: v))]) = .ok (.map [(String.ofList k, sv v)]) := by
  simp [transformKeyValue, kvList, cutAt_append _ _ _ hk, Val.insert]

theorem transformKeyValue_reject (k : Str) (hk : ∀ x ∈ k, x ≠ '=') :
    transformKeyValue false (.seq [.str (String.ofList k)]) = .err "parse" := by
  simp [transformKeyValue, kvList, cutAt_clean _ _ hk]

/-- external: `external: {name: N}` ≡ `external: true, name: N` -/
theorem transformMaybeExternal_short_eq_long (n : Val) :
    externalFix [("external", .map [("name", n)])] = .ok [("external", .bool true), ("name", n)]
    ∧ externalFix [("external", .bool true), ("name", n)] = .ok [("external", .bool true), ("name", n)] := by
  simp [externalFix, Val.lookup, Val.insert]


/-! ## idempotence of the non-recursive transformers (`canonical_idem` leaf-wise): the result of a transformer is a fixed point -/

theorem transformFileMount_idem (v w : Val) (h : transformFileMount v = .ok w) : transformFileMount w = .ok w := by
  cases v <;> simp [transformFileMount] at h <;> subst h <;> rfl
theorem transformInclude_idem (v w : Val) (h : transformInclude v = .ok w) : transformInclude w = .ok w := by
  cases v <;> simp [transformInclude] at h <;> subst h <;> rfl
theorem transformUlimits_idem (v w : Val) (h : transformUlimits v = .ok w) : transformUlimits w = .ok w := by
  cases v <;> simp [transformUlimits] at h <;> subst h <;> rfl
theorem transformStringOrList_idem (v w : Val) (h : transformStringOrList v = .ok w) : transformStringOrList w = .ok w := by
  cases v <;> simp [transformStringOrList] at h <;> subst h <;> rfl
theorem transformVolumeMount_idem (ign : Bool) (v w : Val) (h : transformVolumeMount false v = .ok w) : transformVolumeMount ign w = .ok w := by
  cases v with
  | str s =>
    simp only [transformVolumeMount] at h
    split at h
    · simp at h
    · simp only [Out.ok.injEq] at h; subst h; rfl
  | map m => simp [transformVolumeMount] at h; subst h; rfl
  | _ => simp [transformVolumeMount] at h
theorem transformDeviceMapping_idem (ign : Bool) (v w : Val) (h : transformDeviceMapping false v = .ok w) : transformDeviceMapping ign w = .ok w := by
  cases v with
  | str s =>
    simp only [transformDeviceMapping] at h
    split at h <;> first | (simp only [Out.ok.injEq] at h; subst h; rfl) | simp at h
  | map m => simp [transformDeviceMapping] at h; subst h; rfl
  | _ => simp [transformDeviceMapping] at h
theorem transformSSH_idem (v w : Val) (h : transformSSH v = .ok w) : transformSSH w = .ok w := by
  cases v with
  | seq l =>
    simp only [transformSSH] at h
    split at h <;> first | (simp only [Out.ok.injEq] at h; subst h; rfl) | simp at h
  | map m => simp [transformSSH] at h; subst h; rfl
  | _ => simp [transformSSH] at h
theorem transformServiceNetworks_idem (v w : Val) (h : transformServiceNetworks v = .ok w) : transformServiceNetworks w = .ok w := by
  cases v with
  | seq l =>
    simp only [transformServiceNetworks] at h
    split at h <;> first | (simp only [Out.ok.injEq] at h; subst h; rfl) | simp at h
  | _ => simp [transformServiceNetworks] at h <;> subst h <;> rfl
theorem transformKeyValue_idem (v w : Val) (h : transformKeyValue false v = .ok w) : transformKeyValue false w = .ok w := by
  cases v with
  | seq l =>
    simp only [transformKeyValue] at h
    split at h
    · rename_i heq; exact absurd heq (kvList_false_ne_none _ _)
    all_goals first | (simp only [Out.ok.injEq] at h; subst h; rfl) | simp at h
  | map m => simp [transformKeyValue] at h; subst h; rfl
  | _ => simp [transformKeyValue] at h

theorem transformEnvFile_idem (v w : Val) (h : transformEnvFile v = .ok w) : transformEnvFile w = .ok w := by
  cases v with
  | str s => simp [transformEnvFile] at h; subst h; simp [transformEnvFile, envFileValue_idem]
  | seq l => simp [transformEnvFile] at h; subst h; simp [transformEnvFile, envFileValue_idem]
  | _ => simp [transformEnvFile] at h
/-- the ports transformer is idempotent: its result is a list of mappings, which it leaves unchanged -/
theorem transformPorts_idem (ign ign' : Bool) (v w : Val) (h : transformPorts ign v = .ok w) (hw : w ≠ v) :
    transformPorts ign' w = .ok w := by
  cases v with
  | seq l =>
    simp only [transformPorts] at h
    split at h
    · simp only [Out.ok.injEq] at h; exact absurd h.symm hw
    · rename_i r heq
      simp only [Out.ok.injEq] at h
      subst h
      obtain ⟨ms, hms⟩ := allMaps_exists r (portEntries_allMaps ign l [] r (by intro x hx; simp at hx) heq)
      rw [hms]
      exact transformPorts_long_id ign' ms
    · simp at h
    · simp at h
  | _ => simp [transformPorts] at h

/-- `depends_on`: whatever the transformer returns is a fixed point of the transformer -/
theorem transformDependsOn_idem (v w : Val) (h : transformDependsOn v = .ok w) : transformDependsOn w = .ok w := by
  cases v with
  | map m =>
    simp only [transformDependsOn] at h
    cases hm : dependsMap m with
    | ok r =>
      simp only [hm, Out.ok.injEq] at h
      subst h
      simp [transformDependsOn, dependsMap_of_DepOK r (DepOK_of_dependsMap m r hm)]
    | err x => simp [hm] at h
    | panic x => simp [hm] at h
  | seq l =>
    simp only [transformDependsOn] at h
    cases hm : dependsList l [] with
    | ok r =>
      simp only [hm, Out.ok.injEq] at h
      subst h
      simp [transformDependsOn, dependsMap_of_DepOK r (DepOK_of_dependsList l [] r (by intro p hp; simp at hp) hm)]
    | err x => simp [hm] at h
    | panic x => simp [hm] at h
  | _ => simp [transformDependsOn] at h

/-! ## the table: which transformer runs where -/

theorem transformers_exclusive : TPath.PairwiseExclusive CV.Gen.transformers := by decide

theorem dispatch (n i : String) :
    TPath.firstMatch CV.Gen.transformers ["services", n, "ports"] = some "transformPorts"
    ∧ TPath.firstMatch CV.Gen.transformers ["services", n, "volumes", i] = some "transformVolumeMount"
    ∧ TPath.firstMatch CV.Gen.transformers ["services", n, "devices", i] = some "transformDeviceMapping"
    ∧ TPath.firstMatch CV.Gen.transformers ["services", n, "secrets", i] = some "transformFileMount"
    ∧ TPath.firstMatch CV.Gen.transformers ["services", n, "configs", i] = some "transformFileMount"
    ∧ TPath.firstMatch CV.Gen.transformers ["services", n, "build", "secrets", i] = some "transformFileMount"
    ∧ TPath.firstMatch CV.Gen.transformers ["services", n, "build"] = some "transformBuild"
    ∧ TPath.firstMatch CV.Gen.transformers ["services", n, "build", "ssh"] = some "transformSSH"
    ∧ TPath.firstMatch CV.Gen.transformers ["services", n, "build", "additional_contexts"] = some "transformKeyValue"
    ∧ TPath.firstMatch CV.Gen.transformers ["services", n, "env_file"] = some "transformEnvFile"
    ∧ TPath.firstMatch CV.Gen.transformers ["services", n, "depends_on"] = some "transformDependsOn"
    ∧ TPath.firstMatch CV.Gen.transformers ["services", n, "networks"] = some "transformServiceNetworks"
    ∧ TPath.firstMatch CV.Gen.transformers ["services", n, "extends"] = some "transformExtends"
    ∧ TPath.firstMatch CV.Gen.transformers ["services", n, "dns"] = some "transformStringOrList"
    ∧ TPath.firstMatch CV.Gen.transformers ["services", n, "ulimits", i] = some "transformUlimits"
    ∧ TPath.firstMatch CV.Gen.transformers ["volumes", n] = some "transformMaybeExternal"
    ∧ TPath.firstMatch CV.Gen.transformers ["networks", n] = some "transformMaybeExternal"
    ∧ TPath.firstMatch CV.Gen.transformers ["secrets", n] = some "transformMaybeExternal"
    ∧ TPath.firstMatch CV.Gen.transformers ["configs", n] = some "transformMaybeExternal" := by
  simp [TPath.firstMatch, CV.Gen.transformers, TPath.pmatch]

/-- build: `build: ctx` ≡ `build: {context: ctx}` at its position in the tree -/
theorem transformBuild_short_eq_long (ign : Bool) (n s : String) :
    transform ign ["services", n, "build"] (.str s) = .ok (.map [("context", .str s)]) := by
  have h := (dispatch n "").2.2.2.2.2.2.1
  simp [transform, h, leaf]

/-- extends: `extends: svc` ≡ `extends: {service: svc}` -/
theorem transformExtends_short_eq_long (ign : Bool) (n s : String) :
    transform ign ["services", n, "extends"] (.str s) = .ok (.map [("service", .str s)]) := by
  have h := (dispatch n "").2.2.2.2.2.2.2.2.2.2.2.2.1
  simp [transform, h, leaf]

/-- the volume transformer is the one that runs on every element of a service's `volumes` list -/
theorem transform_volume_entry (ign : Bool) (n i s : String) :
    transform ign ["services", n, "volumes", i] (.str s) = transformVolumeMount ign (.str s) := by
  simp [transform, (dispatch n i).2.1, leaf]

theorem transform_ports (ign : Bool) (n : String) (l : List Val) :
    transform ign ["services", n, "ports"] (.seq l) = transformPorts ign (.seq l) := by
  simp [transform, (dispatch n "").1, leaf]

end CV.Short
