import ComposeVerif.Lemmas.ShortVolume
import ComposeVerif.Model.ShortTransform
import ComposeVerif.Model.ShortDecode
/-!
# C03 — short and long syntaxes of an attribute denote the same model

Property theorems only.  Models: `Model/ShortParse.lean` (format.ParseVolume, types.ParsePortConfig),
`Model/ShortTransform.lean` (transform.Canonical), `Model/ShortDecode.lean` (DecodeMapstructure of the
mapping / list types).  Specification: `Spec/Short.lean` (one AST per grammar with `render` and `long`).
-/
namespace CV.Short
open CV CV.Short.Spec

/-! ## volumes -/

/-- every well-formed short volume spec parses to exactly its long form -/
theorem volume_short_eq_long (a : VolSpec) (h : a.wf = true) : parseVolume a.render = some a.long := by
  obtain ⟨src, tgt, fl⟩ := a
  simp only [VolSpec.wf, Bool.and_eq_true] at h
  obtain ⟨⟨⟨ht, hs⟩, hfl⟩, hne⟩ := h
  have htne := Seg.render_ne_nil tgt ht
  cases src with
  | none =>
    simp only [decide_eq_true_eq] at hs
    subst hs
    simp only [VolSpec.render, VolSpec.long, List.foldl_nil, parseVolume, isPath]
    have hlen : byteLen tgt.render ≠ 0 := by
      have := byteLen_ge_length tgt.render
      have : tgt.render.length ≠ 0 := by simpa using htne
      omega
    simp only [hlen, if_false]
    by_cases h2 : byteLen tgt.render ≤ 2
    · simp [h2]
    · simp only [h2, if_false, true_and]
      rw [scan_seg_end tgt ht, populate_target_only tgt ht]
      simp [populateType, isFilePath]
  | some s =>
    have hsne := Seg.render_ne_nil s hs
    have hlen : ¬ byteLen (VolSpec.render ⟨some s, tgt, fl⟩) ≤ 2 := by
      have h1 : 1 ≤ s.render.length := by cases hr : s.render with | nil => exact absurd hr hsne | cons _ _ => simp
      have h2 : 1 ≤ tgt.render.length := by cases hr : tgt.render with | nil => exact absurd hr htne | cons _ _ => simp
      have := byteLen_ge_length (VolSpec.render ⟨some s, tgt, fl⟩)
      simp only [VolSpec.render, List.length_append, List.length_cons] at this
      simp only [VolSpec.render]
      omega
    have hlen0 : byteLen (VolSpec.render ⟨some s, tgt, fl⟩) ≠ 0 := by omega
    simp only [parseVolume, hlen0, hlen, if_false]
    by_cases hfe : fl = []
    · subst hfe
      simp only [VolSpec.render, if_true, List.append_nil, List.cons_append, List.append_assoc]
      rw [scan_seg_colon s hs, populate_source s hs]
      simp only []
      rw [scan_seg_end tgt ht, populate_target true _ hsne tgt ht]
      simp only [Option.map_some, VolSpec.long, List.foldl_nil, populateType, isFilePath_render s hs]
      simp
    · have hfl' : ∀ f ∈ fl, f.wf = true := by simpa [List.all_eq_true] using hfl
      have hrne : renderFlags fl ≠ [] := by simpa [hfe] using hne
      simp only [VolSpec.render, hfe, if_false, List.append_assoc, List.cons_append]
      rw [scan_seg_colon s hs, populate_source s hs]
      simp only []
      rw [scan_seg_colon tgt ht, populate_target false _ hsne tgt ht]
      simp only []
      rw [scan_plain _ _ _ _ (renderFlags_clean fl hfl')]
      have hnd : isWindowsDrive ([] ++ renderFlags fl) NUL = false := isWindowsDrive_of_ne _ _ NUL_ne_colon
      simp only [scan, hnd]
      rw [if_neg (by simp), if_pos (by decide)]
      have hpop : populate (decide True) ([] ++ renderFlags fl) { source := s.render, target := tgt.render }
          = some (fl.foldl applyFlag { source := s.render, target := tgt.render }) := by
        simp only [populate, List.nil_append, hrne, hsne, htne, decide_true]
        simp [splitOn_renderFlags fl hfe hfl', foldl_applyOption fl hfl']
      rw [hpop]
      simp only [Option.map_some, VolSpec.long, populateType]
      have hsrc := foldl_applyFlag_source fl { source := s.render, target := tgt.render }
      rw [hsrc.1]
      simp [isFilePath_render s hs]

end CV.Short
