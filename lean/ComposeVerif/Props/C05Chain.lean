import ComposeVerif.Props.C05
import ComposeVerif.Lemmas.ExtendsChain
/-!
# C05 — chains of arbitrary length

"…equals the base service's fully resolved definition with the extending service's own attributes applied on top …;
chains are followed transitively": for a chain of *any* length, through any mixture of same-file and cross-file links,
the result of `ApplyExtends` is the **base-first fold** of the merge step along the chain (`foldChain`): start from
the last base, apply each extending service's own attributes on top, innermost first, dropping `extends` each time.
This is the closed form the hand-flattening oracle `c05.flat` computes with the real `override.ExtendService`.
-/
namespace CV.Extends
open CV CV.Val

/-- **`Flat` is the base-first fold along the chain** — for every chain length -/
theorem flat_iff_chain_fold (E : Env) (cf : String) (S : KVs) (n : String) (v : Val) :
    Flat E S n v ↔
      ∃ links leaf m, Chain E cf S n links leaf ∧ foldChain E leaf.2.2 links = .ok m ∧ v = .map m :=
  ⟨fun h => h.chain cf, fun ⟨_, _, m, hc, hf, hv⟩ => hv ▸ hc.flat m hf⟩

/-- **extends = base-first fold, any chain length, any visit order.**  Whenever `ApplyExtends` succeeds, every service
`n` has a finite chain `n = l₀ → l₁ → … → l_k → leaf` (k arbitrary) and its resolved value is
`erase extends (extend (… erase extends (extend leaf l_k) …) l₀)`. -/
theorem extends_eq_chain_fold {E : Env} {order : List String} {dict out S : KVs}
    (hS : lookup "services" dict = some (.map S)) (hnn : NoNull S) (hfs : NoNullFS E)
    (hord : Visits order S) (h : applyExtendsOrd E order dict = .ok out) :
    ∃ R, lookup "services" out = some (.map R) ∧
      ∀ n, lookup n S ≠ none → ∃ links leaf m, Chain E E.mainFile S n links leaf ∧
        foldChain E leaf.2.2 links = .ok m ∧ lookup n R = some (.map m) := by
  obtain ⟨R, hR, hall⟩ := extends_eq_flatten hS hnn hfs hord h
  refine ⟨R, hR, fun n hn => ?_⟩
  obtain ⟨v, hv, hf⟩ := (hall n).2 hn
  obtain ⟨links, leaf, m, hc, hfold, hvm⟩ := hf.chain E.mainFile
  exact ⟨links, leaf, m, hc, hfold, hvm ▸ hv⟩

/-- **every chain whose fold succeeds is accepted**, whatever its length and the visit order, with the fold as the
value of the service (`hmain` as in `acyclic_ok`) -/
theorem chain_fold_accepted {E : Env} {order : List String} {dict S : KVs}
    (hS : lookup "services" dict = some (.map S)) (hnn : NoNull S) (hfs : NoNullFS E) (hord : Visits order S)
    (hmain : fileServices E.fs E.mainFile = none)
    (hch : ∀ n, lookup n S ≠ none → ∃ links leaf m, Chain E E.mainFile S n links leaf ∧
      foldChain E leaf.2.2 links = .ok m) :
    ∃ out R, applyExtendsOrd E order dict = .ok out ∧ lookup "services" out = some (.map R) ∧
      ∀ n links leaf m, Chain E E.mainFile S n links leaf → foldChain E leaf.2.2 links = .ok m →
        lookup n R = some (.map m) := by
  have hflat : ∀ n, lookup n S ≠ none → ∃ v, Flat E S n v := fun n hn => by
    obtain ⟨links, leaf, m, hc, hf⟩ := hch n hn
    exact ⟨_, hc.flat m hf⟩
  obtain ⟨out, hout⟩ := acyclic_ok hS hord hmain hflat
  obtain ⟨R, hR, hall⟩ := extends_eq_flatten hS hnn hfs hord hout
  refine ⟨out, R, hout, hR, fun n links leaf m hc hf => ?_⟩
  have hfl := hc.flat m hf
  obtain ⟨svc, hs⟩ := hfl.has_key
  obtain ⟨v, hv, hf'⟩ := (hall n).2 (by rw [hs]; simp)
  rw [hv, hf'.functional hfl]

/-- the chain a service has is unique: which bases are folded, and in which order, is determined by the document -/
theorem chain_unique {E : Env} {cf : String} {S : KVs} {n : String} {l l' : List ChainElt} {f f' : ChainElt}
    (h : Chain E cf S n l f) (h' : Chain E cf S n l' f') : l = l' ∧ f = f' := h.functional h'

/-- the number of links of the chain is the number of keys the cycle tracker records for it, and the keys are the
`(file, name)` pairs of the extending services, outermost first -/
theorem chain_keys {E : Env} {cf : String} {S : KVs} {n : String} {ks : List Key} {v : Val}
    (h : FlatK E cf S n ks v) : ∃ links leaf, Chain E cf S n links leaf ∧
      links.map (fun x => (x.1, x.2.1)) = ks := by
  obtain ⟨links, leaf, hc, _, hm⟩ := h.chain_length
  exact ⟨links, leaf, hc, hm⟩

/-- every element of a chain is a service of the mapping the chain started in, or of the file-system entry of the file
it is attributed to (the document *as loaded from that file*, i.e. resolved against that file's directory) -/
theorem chain_elements_located {E : Env} {cf : String} {S : KVs} {n : String} {links : List ChainElt} {leaf : ChainElt}
    (h : Chain E cf S n links leaf) :
    ∀ x ∈ links ++ [leaf], (x.1 = cf ∧ lookup x.2.1 S = some (.map x.2.2)) ∨
      (∃ S', fileServices E.fs x.1 = some S' ∧ lookup x.2.1 S' = some (.map x.2.2)) := h.elt_source

/-! ### non-vacuity: a chain of three links through two files, folded with a merge that appends -/

def exEnv : Env :=
  { mainFile := "main.yaml"
    fs := [("o.yaml", .ok [("services", .map [("b", .map [("extends", .str "d"), ("cap_add", .str "B")]),
                                               ("d", .map [("image", .str "id")])])] false)]
    extend := fun b s => .ok (s ++ b) }

def exMain : KVs :=
  [("t", .map [("extends", .str "u"), ("x", .str "T")]),
   ("u", .map [("extends", .map [("service", .str "b"), ("file", .str "o.yaml")]), ("y", .str "U")])]

example : ∃ links leaf m, Chain exEnv "main.yaml" exMain "t" links leaf ∧ links.length = 3 ∧
    foldChain exEnv leaf.2.2 links = .ok m ∧
    m = [("x", .str "T"), ("y", .str "U"), ("cap_add", .str "B"), ("image", .str "id")] := by
  refine ⟨_, _, _, Chain.step (file := none) (ref := "u") (e := .str "u") (by simp [exMain, Val.lookup]; rfl)
    (by simp [Val.lookup]) rfl (by simp [baseMap, exMain, Val.lookup]; rfl)
    (Chain.step (file := some "o.yaml") (ref := "b") (e := .map [("service", .str "b"), ("file", .str "o.yaml")])
      (by simp [Val.lookup]; rfl) (by simp [Val.lookup]) rfl
      (by simp [baseMap, fileServices, fsLookup, exEnv, Val.lookup]; rfl)
      (Chain.step (file := none) (ref := "d") (e := .str "d") (by simp [Val.lookup]; rfl) (by simp [Val.lookup]) rfl
        (by simp [baseMap, Val.lookup]; rfl)
        (Chain.leaf (by simp [Val.lookup]; rfl) (by simp [Val.lookup])))), rfl, ?_, rfl⟩
  simp [foldChain, exEnv, Val.erase]

end CV.Extends
