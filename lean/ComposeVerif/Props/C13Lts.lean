import ComposeVerif.Lemmas.TravLts
import ComposeVerif.Lemmas.TravInvM
import ComposeVerif.Props.C13
/-!
# C13, round 6 — more theorems about the transition system `Trav.step?` (the model of `graph.walk`)

* the concurrency bound as an **inductive invariant** (`bound_invariant`);
* **error propagation**: what happens after an error / a cancellation (`no_new_worker_after_cancel_partial`; the
  full-strength "no visitor starts after an error" is false, `Neg/C13.lean error_stops_new_visits_false`);
* **termination** as a well-founded measure (`step_wellFounded`, `no_infinite_schedule`) and **every fair schedule
  ends** (`fair_schedule_ends`);
* **visit order ⊇ dependency order**, transitively, in both directions (`visit_order_extends_prerequisite_order`:
  `pre` = dependencies in a forward walk, dependents in a reverse walk).
-/
namespace CV.Trav

/-! ### the bound is an inductive invariant -/

/-- **`WithMaxConcurrency(n)` as an invariant**: `Inv g (some n)` (the conjunction the other theorems rest on, with the
semaphore clauses `InvS`) holds initially, is preserved by *every* enabled step from *any* state satisfying it —
reachable or not —, and implies the bound: at most `n` visitors in progress and at most `n + 1` errgroup slots taken
(workers + coordinator).  `bounded` is the corollary for reachable states. -/
theorem bound_invariant {g : Graph} {n : Nat} (hg : GraphOK g) :
    Inv g (some n) (init g) ∧
    (∀ s l s', Inv g (some n) s → step? g (some n) s l = some s' → Inv g (some n) s') ∧
    (∀ s, Inv g (some n) s → running s ≤ n ∧ sem s ≤ n + 1) := by
  refine ⟨init_inv g hg (some n), fun s l s' hI hs => inv_step hg (step?_sound hs) hI, fun s hI => ⟨?_, hI.s.semLe n rfl⟩⟩
  have h2 := List.length_filter_le (fun (p : V × WPc) => p.2 == WPc.running) s.workers
  cases ha : s.cAlive with
  | true =>
    have := hI.s.semLe n rfl
    simp only [sem, ha, if_true] at this
    unfold running; omega
  | false =>
    rcases hI.s.cDeadBound ha with hall | ⟨_, hlen⟩
    · have : s.workers.filter (fun p => p.2 == WPc.running) = [] := by
        rw [List.filter_eq_nil_iff]
        rintro ⟨v, pc⟩ hm
        obtain ⟨e, rfl⟩ := hI.a.handedPc v pc (.inr (hall v (hI.b.wkVerts v pc hm))) hm
        simp
      unfold running; rw [this]; exact Nat.zero_le _
    · have := hlen n rfl
      unfold running; omega

/-- the invariant is not vacuous: under limit 1 a state with one visitor in progress is reachable (and satisfies it) -/
example : (runL three (some 1) (init three) [.schedNext .M 0, .ready .M, .enter .M, .spawn .M, .wBegin 0]).map
    (fun s => (running s, sem s)) = some (1, 2) := by decide

/-! ### error propagation -/

/-- **after the coordinator has seen the cancellation** (it has returned although some vertex was never handed to it —
which, by the invariant, happens only when the context is cancelled, i.e. after a visitor error or the caller's own
cancellation, and only once the caller has left its loop): no goroutine is created any more.  Every further step is a
step of a worker that already exists or the environment's `extCancel`; the set of workers only shrinks; a visitor is
entered only by a worker that had been spawned before; and the situation is stable (it holds again after the step).
`_partial`: the full-strength statement `ErrorStopsNewVisits` — nothing starts from the moment the error is recorded — is
false for the code, see `Neg/C13.lean`. -/
theorem no_new_worker_after_cancel_partial {g : Graph} {lim : Option Nat} (hg : GraphOK g) {s : St} (h : Reach g lim s)
    (hc : s.cAlive = false) (hleft : ∃ v ∈ g.verts, v ∉ s.received) :
    s.cancelled = true ∧ s.m = none ∧
    ∀ l s', step? g lim s l = some s' →
      internal l = true → (∃ v, l = .wBegin v ∨ l = .wDone v ∨ l = .wSend v ∨ l = .wExit v) := by
  have hI := reach_inv hg h
  obtain ⟨v0, hv0, hn0⟩ := hleft
  have hcan : s.cancelled = true := by
    rcases hI.s.cDeadWhy hc with h1 | h1
    · exact h1
    · exact absurd (h1 v0 hv0) hn0
  have hm : s.m = none := by
    rcases hI.s.cDeadBound hc with h1 | h1
    · exact absurd (h1 v0 hv0) hn0
    · exact h1.1
  refine ⟨hcan, hm, ?_⟩
  intro l s' hs hi
  cases l with
  | schedNext w v => cases w <;> simp [step?, getSched, hm, hc] at hs
  | schedEnd w => cases w <;> simp [step?, getSched, hm, hc] at hs
  | ready w => cases w <;> simp [step?, getSched, hm, hc] at hs
  | enter w => cases w <;> simp [step?, getSched, hm, hc] at hs
  | spawn w => cases w <;> simp [step?, getSched, hm, hc] at hs
  | cRecv => simp [step?, hc] at hs
  | cCtxDone => simp [step?, hc] at hs
  | extCancel => simp [internal] at hi
  | wReturn v e => simp [internal] at hi
  | wBegin v => exact ⟨v, .inl rfl⟩
  | wDone v => exact ⟨v, .inr (.inl rfl)⟩
  | wSend v => exact ⟨v, .inr (.inr (.inl rfl))⟩
  | wExit v => exact ⟨v, .inr (.inr (.inr rfl))⟩

/-- … in terms of what the property observes: from such a state on, along **any continuation**, the coordinator stays
away, the worker set only shrinks and every visitor entered later belongs to a worker goroutine that already existed -/
theorem no_new_visits_after_cancel_partial {g : Graph} {lim : Option Nat} (hg : GraphOK g) {s : St} (h : Reach g lim s)
    (hc : s.cAlive = false) (hleft : ∃ v ∈ g.verts, v ∉ s.received) (ls : List Label) (s' : St)
    (hr : runL g lim s ls = some s') :
    s'.cAlive = false ∧ s'.m = none ∧
    (∀ v, v ∈ s'.workers.map (·.1) → v ∈ s.workers.map (·.1)) ∧
    (∀ v, v ∈ starts s'.log → v ∈ starts s.log ∨ v ∈ s.workers.map (·.1)) := by
  have hm : s.m = none := (no_new_worker_after_cancel_partial hg h hc hleft).2.1
  obtain ⟨h1, h2, _, h4, h5⟩ := quiet_run ls s s' hc hm hr
  exact ⟨h1, h2, h4, h5⟩

/-- non-vacuity: on the diamond, 0 fails, the coordinator takes `ctx.Done()`: the hypotheses hold (1, 2, 3 never handed
over) with worker 0 still there -/
example : (runL diamond none (init diamond)
    [.schedNext .M 0, .ready .M, .enter .M, .spawn .M, .schedEnd .M,
     .wBegin 0, .wReturn 0 true, .wDone 0, .wSend 0, .wExit 0, .cCtxDone]).map
    (fun s => (s.cAlive, s.received, s.cancelled, s.firstErr)) = some (false, [], true, some 0) := by decide

/-! ### termination: a well-founded measure; every fair schedule ends -/

/-- **the step relation is well-founded** on reachable states (`mu` strictly decreases): there is no infinite
descending chain `s₀ → s₁ → …`, whatever the scheduler, the visitors' results and the Go map orders do. -/
theorem step_wellFounded {g : Graph} {lim : Option Nat} (hg : GraphOK g) :
    WellFounded (fun s' s : St => Reach g lim s ∧ ∃ l, step? g lim s l = some s') := by
  apply Subrelation.wf (r := InvImage (· < ·) (mu g)) _ (InvImage.wf (mu g) Nat.lt_wfRel.wf)
  intro s' s ⟨hr, l, hs⟩
  exact mu_step_lt hg hr hs

/-- **no infinite schedule**: no sequence of states starting anywhere reachable in which each is a step of the previous -/
theorem no_infinite_schedule {g : Graph} {lim : Option Nat} (hg : GraphOK g) (f : Nat → St) (h0 : Reach g lim (f 0)) :
    ¬ ∀ i, ∃ l, step? g lim (f i) l = some (f (i + 1)) := by
  intro hall
  have key : ∀ i, Reach g lim (f i) ∧ i + mu g (f i) ≤ mu g (f 0) := by
    intro i
    induction i with
    | zero => exact ⟨h0, by omega⟩
    | succ i ih =>
      obtain ⟨l, hs⟩ := hall i
      have := mu_step_lt hg ih.1 hs
      exact ⟨.step ih.1 hs, by omega⟩
  have := (key (mu g (f 0) + 1)).2
  omega

/-- **every fair schedule ends**: take any infinite sequence of states from `init g` in which each state is a step of
the previous one, or — stuttering — equal to it, where stuttering is allowed only when `walk` itself cannot move (no
internal step enabled: the scheduler is fair to walk's goroutines) and no visitor is in progress (visitors return).
Then `walk` has returned at some point of the sequence. -/
theorem fair_schedule_ends {g : Graph} {lim : Option Nat} (hg : GraphOK g) (hl : ∀ n, lim = some n → 1 ≤ n)
    (f : Nat → St) (h0 : f 0 = init g)
    (hstep : ∀ i, (∃ l, step? g lim (f i) l = some (f (i + 1))) ∨
      (f (i + 1) = f i ∧ (∀ l, internal l = true → step? g lim (f i) l = none) ∧
        ∀ v, wpc (f i).workers v ≠ some .running)) :
    ∃ i, terminal (f i) := by
  have hreach : ∀ i, Reach g lim (f i) := by
    intro i
    induction i with
    | zero => rw [h0]; exact .init
    | succ i ih =>
      rcases hstep i with ⟨l, hs⟩ | ⟨he, _⟩
      · exact .step ih hs
      · rw [he]; exact ih
  by_cases hall : ∀ i, ∃ l, step? g lim (f i) l = some (f (i + 1))
  · exact absurd hall (no_infinite_schedule hg f (hreach 0))
  · have ⟨i, hi⟩ : ∃ i, ¬ ∃ l, step? g lim (f i) l = some (f (i + 1)) := Classical.not_forall.mp hall
    rcases hstep i with hs | ⟨_, hint, hvis⟩
    · exact absurd hs hi
    · exact ⟨i, fair_maximal_run_is_terminal hg hl (hreach i) hint hvis⟩

/-! ### visit order ⊇ prerequisite order, transitively, in both directions -/

/-- **the visit order extends the (transitive) prerequisite order**: when `v`'s visitor is entered, the visitor of every
transitive prerequisite `d` of `v` has already returned — `d`'s return lies further down the log.  `Graph.pre` is the
dependency relation in a forward walk and its converse in a reverse walk (`collect_walk_graph`), so this is
"dependencies (transitively) before" and "dependents (transitively) before" at once. -/
theorem visit_order_extends_prerequisite_order {g : Graph} {lim : Option Nat} (hg : GraphOK g) {s : St}
    (h : Reach g lim s) {d v : V} (hc : PreChain g d v) (hd : g.skip d = false) :
    ∀ (l1 l2 : List Ev), s.log = l1 ++ Ev.start v :: l2 → d ∈ finishes l2 := by
  induction hc with
  | one hp => intro l1 l2 hlog; exact after_deps hg h l1 l2 _ hlog _ hp hd
  | @cons u v _ hku hpu ih =>
    intro l1 l2 hlog
    have hu : u ∈ finishes l2 := after_deps hg h l1 l2 _ hlog _ hpu hku
    have hfs : LogFS l2 := by
      have := reach_logFS hg h
      rw [hlog] at this
      exact logFS_suffix (l1 ++ [Ev.start v]) l2 (by simpa using this)
    obtain ⟨a, b, e⟩ := finish_has_start l2 u hfs hu
    have := ih (l1 ++ Ev.start v :: a) b (by rw [hlog, e]; simp)
    rw [e, finishes_append]
    exact List.mem_append_right _ (by simpa using this)

/-- … and as an order on the finished log: entry of `d` before return of `d` before entry of `v` (so the *entries* are
ordered too) -/
theorem prerequisite_entered_first {g : Graph} {lim : Option Nat} (hg : GraphOK g) {s : St}
    (h : Reach g lim s) {d v : V} (hc : PreChain g d v) (hd : g.skip d = false)
    (l1 l2 : List Ev) (hlog : s.log = l1 ++ Ev.start v :: l2) : d ∈ starts l2 ∧ d ≠ v := by
  have hf := visit_order_extends_prerequisite_order hg h hc hd l1 l2 hlog
  have hfs : LogFS l2 := by
    have := reach_logFS hg h
    rw [hlog] at this
    exact logFS_suffix (l1 ++ [Ev.start v]) l2 (by simpa using this)
  obtain ⟨a, b, e⟩ := finish_has_start l2 d hfs hf
  have hmem : d ∈ starts l2 := by rw [e]; simp [starts]
  refine ⟨hmem, ?_⟩
  rintro rfl
  have hnd := (once hg h).1
  rw [hlog] at hnd
  have : starts (l1 ++ Ev.start d :: l2) = starts l1 ++ d :: starts l2 := by simp [starts, List.filterMap_append]
  rw [this] at hnd
  have := (List.nodup_append.mp hnd).2.1
  exact (List.nodup_cons.mp this).1 hmem

/-- non-vacuity: on the diamond 0 is a transitive prerequisite of 3 -/
example : PreChain diamond 0 3 := .cons (.one (by decide)) (by decide) (by decide : 1 ∈ diamond.pre 3)

/-! ### the two branches of `step?` that no schedule reaches -/

/-- **the caller is never refused**: the caller of `walk` only tries vertices without prerequisite and the coordinator
only vertices with one (`post` ⊆ converse of `pre`), so in every reachable state the caller's readiness test succeeds and
its claim wins: the `else` branches of `step?` at `.ready .M` and `.enter .M` are dead.  This is what the label coverage
printed by the harness (`lts-label-*`: every rule and branch of `step?` taken by accepted real schedules) leaves out. -/
theorem caller_never_refused {g : Graph} {lim : Option Nat} (hg : GraphOK g) (hpp : ∀ v u, u ∈ g.post v → v ∈ g.pre u)
    {s : St} (h : Reach g lim s) (todo : List V) (v : V) :
    (s.m = some ⟨todo, .ready v⟩ → step? g lim s (.ready .M) = some (putSched s .M (some ⟨todo, .enter v⟩))) ∧
    (s.m = some ⟨todo, .enter v⟩ → step? g lim s (.enter .M) =
      some (putSched { s with status := setStatus s.status v .entered } .M (some ⟨todo, .spawn v⟩))) := by
  have hI := reach_invM hg hpp h
  constructor
  · intro hm
    have hpre : g.pre v = [] := hI.mExt v (by simp [hm, schedVs])
    simp [step?, getSched, hm, hpre]
  · intro hm
    have habs : s.status v = .absent := hI.mAbsent v (by simp [hm, pendVs])
    simp [step?, getSched, hm, habs]

/-- non-vacuity: the diamond's `post` is inside the converse of its `pre` -/
example : ∀ v ∈ diamond.verts, ∀ u ∈ diamond.post v, v ∈ diamond.pre u := by decide

/-! ### root selection and implementations of `vertex.descendents` -/

/-- **root selection depends on the *set* of descendants only**: whatever list `D` an implementation of
`vertex.descendents` returns for `v` — duplicates or not, in any order — as long as it has the same members as the
model's `descendents`, `t.skip` decides the same.  (A correct deduplicating rewrite keeps the model valid; the truncating
one of seed C13-7 changes the set and is caught by `plan:root-selection`.) -/
theorem skip_depends_on_descendant_set (deps : V → List V) (fuel : Nat) (after : List V) (v : V) (D : List V)
    (h : ∀ r, r ∈ D ↔ r ∈ descendents deps fuel v) :
    skipOf deps fuel after v =
      (if after.isEmpty then false else if after.contains v then false else !(after.any (fun r => D.contains r))) := by
  have hc : (fun r => decide (r ∈ descendents deps fuel v)) = (fun r => decide (r ∈ D)) := by
    funext r
    simp [h r]
  simp [skipOf, hc]

/-- the shape of seed C13-7 (3 → {0, 2}, 2 → {0, 1}, root 1): the model keeps 3 (it reaches the root through 2, behind
the shared dependency 0) and skips only 0 -/
example : (List.range 4).map (skipOf (fun v => if v = 3 then [0, 2] else if v = 2 then [0, 1] else []) 4 [1])
    = [true, false, false, false] := by decide

end CV.Trav
