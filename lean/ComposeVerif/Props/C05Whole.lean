import ComposeVerif.Props.C05Cycle
import ComposeVerif.Model.Pipeline
/-!
# C05 — the property's clause about the **composed pipeline**  (round 6)

`Model/Pipeline.lean` (the integrator's composition of the stage models in the order of `loader/loader.go`, run against
`loader.LoadModelWithContext` by the `pipeline.load` stream) calls `ApplyExtends` per document, after interpolation and
before the merge, when `SkipExtends` is off (`extendsStage`: C05's model with the real merge step; in the composed model
no other file is reachable, so every `file:` reference is a missing file).  The stage theorems of `Props/C05*.lean`
are lifted to the whole function here:

* `load_with_extends_eq_merge_of_flattened`: **`Pipeline.load` with extends = the merge pipeline over the flattened
  documents**: if every document interpolates and its extends stage accepts, `load c docs` is `finishLoad ∘ finishModel`
  of the fold of `mergeStages` over documents in which *every service is its `Flat` form* — the resolved base with the
  service's own attributes applied on top by the override rules — and *no service carries `extends`*: no stage after
  `ApplyExtends` (merge with earlier files, unicity, schema, canonical form, defaults, validation, path resolution,
  normalisation) ever sees an `extends` attribute or an unresolved service;
* `load_acyclic_extends_stage_accepts`: the hypothesis "its extends stage accepts" is discharged for documents whose
  services all have finite chains (acyclic ⇒ accepted, list order = any order);
* `load_cyclic_is_extends_error`, `load_missing_base_is_extends_error`, `load_file_reference_is_extends_error`: a cyclic
  chain / a missing base / a `file:` reference in the first document that reaches the stage makes the **whole load** fail,
  at the stage `extends` — whatever the later documents and the option flags are;
* `extendsStage_any_order`: the stage of the composed model (list order) agrees with every other visit order of Go's map.
-/
namespace CV.Extends.Whole
open CV CV.Val CV.Extends CV.Pipeline

/-- the environment of the composed model: real merge step, no other file reachable -/
abbrev pipeEnv (c : Cfg) : Env := realEnv c.mainFile []

theorem visits_keys (S : KVs) : Visits (keys S) S := by
  intro n
  constructor
  · intro h
    induction S with
    | nil => simp [keys] at h
    | cons p r ih =>
      obtain ⟨k, v⟩ := p
      simp only [lookup]
      by_cases hk : n = k
      · simp [hk]
      · simp only [hk, ↓reduceIte]
        simp only [keys, List.map_cons, List.mem_cons] at h
        rcases h with h | h
        · exact absurd h hk
        · exact ih (by simpa [keys] using h)
  · exact lookup_mem_keys

theorem pipeEnv_fs (c : Cfg) (f : String) : fileServices (pipeEnv c).fs f = none := rfl

theorem pipeEnv_noNullFS (c : Cfg) : NoNullFS (pipeEnv c) := by
  intro f S h
  simp [pipeEnv_fs] at h

theorem pipeEnv_panicFree (c : Cfg) : PanicFree (pipeEnv c) :=
  realEnv_panicFree c.mainFile [] (fun f s ⟨r, h, _⟩ => by simp [fsLookup] at h)

/-- `ApplyExtends` in list order on a document with a services mapping -/
theorem applyExtends_eq_ord {E : Env} {dict S : KVs} (hS : lookup "services" dict = some (.map S)) :
    applyExtends E dict = applyExtendsOrd E (keys S) dict := by
  simp [applyExtends, hS]

/-- the extends stage when `SkipExtends` is off -/
theorem extendsStage_on {c : Cfg} (hx : c.opts.skipExtends = false) (cfg : KVs) :
    extendsStage c cfg = ofExtends (applyExtends (pipeEnv c) cfg) := by
  simp [extendsStage, hx]

/-- a document is *flattened*: `flat` is `cfg` with its services mapping replaced by one in which every service is its
`Flat` form (resolved base, own attributes on top, `extends` removed), nothing added, nothing `extends`-bearing left -/
def Flattened (E : Env) (cfg flat : KVs) : Prop :=
  (lookup "services" cfg = none ∧ flat = cfg) ∨
  ∃ S R, lookup "services" cfg = some (.map S) ∧ flat = insert "services" (.map R) cfg ∧
    (∀ n, lookup n S = none → lookup n R = none) ∧
    (∀ n, lookup n S ≠ none → ∃ v, lookup n R = some v ∧ Flat E S n v) ∧
    (∀ n v, lookup n R = some v → ∃ m, v = .map m ∧ lookup "extends" m = none)

/-- **what the extends stage hands to the merge**: a flattened document -/
theorem extendsStage_ok_flattened {c : Cfg} (hx : c.opts.skipExtends = false) {cfg out : KVs}
    (hnn : ∀ S, lookup "services" cfg = some (.map S) → NoNull S)
    (h : extendsStage c cfg = .ok out) : Flattened (pipeEnv c) cfg out := by
  rw [extendsStage_on hx] at h
  cases hs : lookup "services" cfg with
  | none =>
    simp [applyExtends, hs, applyExtendsOrd, ofExtends] at h
    exact Or.inl ⟨hs, h.symm⟩
  | some sv =>
    cases sv with
    | map S =>
      rw [applyExtends_eq_ord hs] at h
      cases hr : applyExtendsOrd (pipeEnv c) (keys S) cfg with
      | err e => rw [hr] at h; cases h
      | panic s => rw [hr] at h; cases h
      | ok o =>
        rw [hr] at h
        simp only [ofExtends, Pipeline.Out.ok.injEq] at h
        subst h
        obtain ⟨R, hR, hall⟩ := extends_eq_flatten hs (hnn S hs) (pipeEnv_noNullFS c) (visits_keys S) hr
        obtain ⟨R', hR', hne⟩ := no_extends_left hs (hnn S hs) (pipeEnv_noNullFS c) (visits_keys S) hr
        rw [hR] at hR'
        simp only [Option.some.injEq, Val.map.injEq] at hR'
        subst hR'
        have hform : o = insert "services" (.map R) cfg := by
          simp only [applyExtendsOrd, hs] at hr
          split at hr <;> try cases hr
          rename_i R₀ hR₀
          have : lookup "services" (insert "services" (Val.map R₀) cfg) = some (.map R₀) := lookup_insert_self _ _ _
          rw [this] at hR
          simp only [Option.some.injEq, Val.map.injEq] at hR
          subst hR
          rfl
        exact Or.inr ⟨S, R, hs, hform, fun n => (hall n).1, fun n => (hall n).2, hne⟩
    | null => simp [applyExtends, hs, applyExtendsOrd, ofExtends] at h
    | bool _ => simp [applyExtends, hs, applyExtendsOrd, ofExtends] at h
    | int _ => simp [applyExtends, hs, applyExtendsOrd, ofExtends] at h
    | float _ => simp [applyExtends, hs, applyExtendsOrd, ofExtends] at h
    | str _ => simp [applyExtends, hs, applyExtendsOrd, ofExtends] at h
    | seq _ => simp [applyExtends, hs, applyExtendsOrd, ofExtends] at h

/-- the merge pipeline over already flattened documents: the fold of `mergeStages` (merge into the model so far,
unicity, schema, canonical form, omitEmpty, unicity) — `processDocs` without interpolation and without extends -/
def mergeDocs (c : Cfg) : Val → List KVs → Pipeline.Out Val
  | dict, [] => .ok dict
  | dict, d :: r =>
    match mergeStages c dict d with
    | .ok dict' => mergeDocs c dict' r
    | .err e => .err e
    | .panic s => .panic s

/-- two lists related elementwise (core Lean has no `Forall₂`) -/
inductive All₂ {α β : Type} (R : α → β → Prop) : List α → List β → Prop where
  | nil : All₂ R [] []
  | cons {a b as bs} : R a b → All₂ R as bs → All₂ R (a :: as) (b :: bs)

/-- document `d` interpolates and its extends stage accepts, with result `flat` -/
def StageOk (c : Cfg) (d flat : KVs) : Prop :=
  ∃ d', interpStage c d = .ok d' ∧ extendsStage c d' = .ok flat

theorem processDoc_of_stageOk {c : Cfg} {dict : Val} {d flat : KVs} (h : StageOk c d flat) :
    processDoc c dict d = mergeStages c dict flat := by
  obtain ⟨d', h1, h2⟩ := h
  simp [processDoc, h1, h2, Pipeline.Out.bind]

theorem processDocs_of_stageOk {c : Cfg} : ∀ {docs flats : List KVs} (dict : Val),
    All₂ (StageOk c) docs flats → processDocs c dict docs = mergeDocs c dict flats
  | [], [], _, _ => rfl
  | d :: ds, f :: fs, dict, .cons h hs => by
    simp only [processDocs, mergeDocs, processDoc_of_stageOk h]
    cases mergeStages c dict f with
    | ok dict' => exact processDocs_of_stageOk dict' hs
    | err e => rfl
    | panic s => rfl

/-- **`Pipeline.load` with extends = the merge pipeline over the flattened documents.**  For every configuration with
`SkipExtends` off and every list of documents that interpolate and pass their extends stage: each document reaches the
merge *flattened* (every service = resolved base with its own attributes applied on top by the override rules, `extends`
removed, nothing else changed), and the whole load is the rest of the pipeline run over those flattened documents -/
theorem load_with_extends_eq_merge_of_flattened {c : Cfg} (hx : c.opts.skipExtends = false)
    {docs flats : List KVs} (hne : docs ≠ [])
    (hst : All₂ (StageOk c) docs flats)
    (hnn : ∀ d d' S, d ∈ docs → interpStage c d = .ok d' → lookup "services" d' = some (.map S) → NoNull S) :
    load c docs = ((mergeDocs c (.map []) flats).bind (finishModel c)).bind (finishLoad c) ∧
    All₂ (fun d flat => ∃ d', interpStage c d = .ok d' ∧ Flattened (pipeEnv c) d' flat) docs flats := by
  constructor
  · have he : docs.isEmpty = false := by
      cases docs with
      | nil => exact absurd rfl hne
      | cons _ _ => rfl
    simp [load, he, loadYamlModel, processDocs_of_stageOk _ hst]
  · clear hne
    induction hst with
    | nil => exact .nil
    | @cons d flat ds fs h _ ih =>
      refine .cons ?_ (ih (fun d₁ d' S hm => hnn d₁ d' S (List.mem_cons_of_mem _ hm)))
      obtain ⟨d', h1, h2⟩ := h
      exact ⟨d', h1, extendsStage_ok_flattened hx (fun S hS => hnn d d' S (List.mem_cons_self ..) h1 hS) h2⟩

/-- the hypothesis "its extends stage accepts" holds for every document whose services all have finite chains with
existing bases and succeeding merges: **acyclic ⇒ the stage accepts** (list order is one of the visit orders) -/
theorem load_acyclic_extends_stage_accepts {c : Cfg} (hx : c.opts.skipExtends = false) {d d' S : KVs}
    (hi : interpStage c d = .ok d') (hS : lookup "services" d' = some (.map S))
    (hflat : ∀ n, lookup n S ≠ none → ∃ v, Flat (pipeEnv c) S n v) :
    ∃ flat, StageOk c d flat := by
  obtain ⟨out, h⟩ := acyclic_ok (E := pipeEnv c) hS (visits_keys S) rfl hflat
  exact ⟨out, d', hi, by rw [extendsStage_on hx, applyExtends_eq_ord hS, h]; rfl⟩

theorem processDocs_append_err {c : Cfg} {e : String} : ∀ (pre : List KVs) {dict dict' : Val} {d : KVs} {rest : List KVs},
    processDocs c dict pre = .ok dict' → processDoc c dict' d = .err e →
    processDocs c dict (pre ++ d :: rest) = .err e
  | [], dict, dict', d, rest, h, hd => by
    simp only [processDocs, Pipeline.Out.ok.injEq] at h
    subst h
    simp [processDocs, hd]
  | p :: ps, dict, dict', d, rest, h, hd => by
    simp only [processDocs, List.cons_append] at h ⊢
    cases hp : processDoc c dict p with
    | ok dict₁ => rw [hp] at h; simp only at h ⊢; exact processDocs_append_err ps h hd
    | err e' => rw [hp] at h; cases h
    | panic s => rw [hp] at h; cases h

/-- a document whose extends stage rejects makes the **whole load** fail at the stage `extends`, wherever it stands in
the list of files (the earlier ones having loaded), whatever follows it and whatever the other option flags are -/
theorem load_extends_error_is_load_error {c : Cfg} (hx : c.opts.skipExtends = false)
    {pre rest : List KVs} {d d' : KVs} {dict' : Val} {cls : String}
    (hpre : processDocs c (.map []) pre = .ok dict') (hi : interpStage c d = .ok d')
    (he : applyExtends (pipeEnv c) d' = .err cls) :
    load c (pre ++ d :: rest) = .err "extends" := by
  have hd : processDoc c dict' d = .err "extends" := by
    simp [processDoc, hi, extendsStage_on hx, he, ofExtends, Pipeline.Out.bind]
  have he' : (pre ++ d :: rest).isEmpty = false := by cases pre <;> rfl
  simp [load, he', loadYamlModel, processDocs_append_err pre hpre hd, Pipeline.Out.bind]

/-- **a cyclic chain is an error of the whole load**: a document in which every service flattens or runs into a cycle,
one of them cyclic — the load fails at `extends` (the class inside the stage is `circular`: `cycle_is_circular`) -/
theorem load_cyclic_is_extends_error {c : Cfg} (hx : c.opts.skipExtends = false)
    {pre rest : List KVs} {d d' S : KVs} {dict' : Val}
    (hpre : processDocs c (.map []) pre = .ok dict') (hi : interpStage c d = .ok d')
    (hS : lookup "services" d' = some (.map S))
    (hall : ∀ n, lookup n S ≠ none → (∃ v, Flat (pipeEnv c) S n v) ∨ Cyclic (pipeEnv c) (S, n))
    (hc : ∃ n, lookup n S ≠ none ∧ Cyclic (pipeEnv c) (S, n)) :
    load c (pre ++ d :: rest) = .err "extends" := by
  have h := cycle_is_circular (E := pipeEnv c) (pipeEnv_panicFree c).fuelFree hS rfl (visits_keys S) hall hc
  exact load_extends_error_is_load_error hx hpre hi (by rw [applyExtends_eq_ord hS]; exact h)

/-- … also when the document has other defects: any cyclic chain ⇒ the load fails at `extends` -/
theorem load_any_cycle_is_extends_error {c : Cfg} (hx : c.opts.skipExtends = false)
    {pre rest : List KVs} {d d' S : KVs} {dict' : Val} {n : String}
    (hpre : processDocs c (.map []) pre = .ok dict') (hi : interpStage c d = .ok d')
    (hS : lookup "services" d' = some (.map S)) (hnn : NoNull S)
    (hn : lookup n S ≠ none) (hc : Cyclic (pipeEnv c) (S, n)) :
    load c (pre ++ d :: rest) = .err "extends" := by
  obtain ⟨cls, h⟩ := cycle_is_error (pipeEnv_panicFree c) hS hnn (pipeEnv_noNullFS c) (visits_keys S) hn hc
  exact load_extends_error_is_load_error hx hpre hi (by rw [applyExtends_eq_ord hS]; exact h)

/-- **a missing base is an error of the whole load** -/
theorem load_missing_base_is_extends_error {c : Cfg} (hx : c.opts.skipExtends = false)
    {pre rest : List KVs} {d d' S svc : KVs} {dict' : Val} {n ref : String} {e : Val}
    (hpre : processDocs c (.map []) pre = .ok dict') (hi : interpStage c d = .ok d')
    (hS : lookup "services" d' = some (.map S)) (hnn : NoNull S)
    (h1 : lookup n S = some (.map svc)) (h2 : lookup "extends" svc = some e)
    (h3 : parseExtends e = .ok (ref, none)) (h4 : lookup ref S = none) :
    load c (pre ++ d :: rest) = .err "extends" := by
  obtain ⟨cls, h⟩ := missing_base_is_error (pipeEnv_panicFree c) hS hnn (pipeEnv_noNullFS c) (visits_keys S) h1 h2 h3 h4
  exact load_extends_error_is_load_error hx hpre hi (by rw [applyExtends_eq_ord hS]; exact h)

/-- **a missing file is an error of the whole load**: in the composed model no other file is reachable, so every
`extends: {file: …}` fails the load at `extends` (cross-file chains: `Props/C05Load.lean` over a virtual file system) -/
theorem load_file_reference_is_extends_error {c : Cfg} (hx : c.opts.skipExtends = false)
    {pre rest : List KVs} {d d' S svc : KVs} {dict' : Val} {n ref f : String} {e : Val}
    (hpre : processDocs c (.map []) pre = .ok dict') (hi : interpStage c d = .ok d')
    (hS : lookup "services" d' = some (.map S)) (hnn : NoNull S)
    (h1 : lookup n S = some (.map svc)) (h2 : lookup "extends" svc = some e)
    (h3 : parseExtends e = .ok (ref, some f)) :
    load c (pre ++ d :: rest) = .err "extends" := by
  obtain ⟨cls, h⟩ := missing_file_is_error (pipeEnv_panicFree c) hS hnn (pipeEnv_noNullFS c) (visits_keys S) h1 h2 h3
    (Or.inl rfl)
  exact load_extends_error_is_load_error hx hpre hi (by rw [applyExtends_eq_ord hS]; exact h)

/-- **the extends stage of the composed pipeline does not depend on Go's map order**: the model runs the loop in list
order; had the loop visited the services in any other order, it would have accepted as well, with the same value for
every service (and a rejection is a rejection in every order) -/
theorem extendsStage_any_order {c : Cfg} (hx : c.opts.skipExtends = false) {cfg out S : KVs} {order : List String}
    (hS : lookup "services" cfg = some (.map S)) (hnn : NoNull S) (hord : Visits order S)
    (h : extendsStage c cfg = .ok out) :
    ∃ out' R R', applyExtendsOrd (pipeEnv c) order cfg = .ok out' ∧
      lookup "services" out = some (.map R) ∧ lookup "services" out' = some (.map R') ∧
      ∀ n, lookup n R = lookup n R' := by
  rw [extendsStage_on hx, applyExtends_eq_ord hS] at h
  cases hr : applyExtendsOrd (pipeEnv c) (keys S) cfg with
  | err e => rw [hr] at h; cases h
  | panic s => rw [hr] at h; cases h
  | ok o =>
    rw [hr] at h
    simp only [ofExtends, Pipeline.Out.ok.injEq] at h
    subst h
    obtain ⟨out₂, R₁, R₂, h2, a, b, e⟩ :=
      applyExtends_perm (E := pipeEnv c) hS hnn (pipeEnv_noNullFS c) rfl (visits_keys S) hord hr
    exact ⟨out₂, R₁, R₂, h2, a, b, e⟩

/-- with `SkipExtends` the stage is the identity: `extends` attributes reach the merge untouched -/
theorem extendsStage_off {c : Cfg} (hx : c.opts.skipExtends = true) (cfg : KVs) : extendsStage c cfg = .ok cfg := by
  simp [extendsStage, hx]

/-! ### non-vacuity -/

/-- the hypotheses about the stage are satisfiable: with interpolation skipped, `{services: {a: {image: i}, b: {extends: a}}}`
passes the extends stage (checked by evaluation of the model) -/
def exCfg : Cfg :=
  { opts := { skipInterpolation := true, skipExtends := false },
    interp := { table := [], fp := ⟨fun _ => none, fun _ => none⟩, env := fun _ => none },
    paths := { wd := [], home := none }, env := [], projectName := "p", clean := id, omitPats := [] }

def exDoc : KVs := [("services", .map [("a", .map [("image", .str "i")]), ("b", .map [("extends", .str "a")])])]

example : interpStage exCfg exDoc = .ok exDoc := rfl

example : exCfg.opts.skipExtends = false := rfl

/-- … and the extends stage of the composed model accepts it (evaluation of C05's model with C04's merge model) -/
example : (extendsStage exCfg exDoc).stage = "ok" := by decide

example : lookup "services" exDoc = some (.map [("a", .map [("image", .str "i")]), ("b", .map [("extends", .str "a")])]) := rfl

end CV.Extends.Whole
