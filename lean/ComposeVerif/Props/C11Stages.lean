import ComposeVerif.Lemmas.C11Stages
import ComposeVerif.Props.C11
/-!
# C11 — the defaulting stages of a load, composed: the explicit model is a fixed point of all three

Property theorems only.  Model: `Model/C11Pipeline.lean` (`svcPipeline`, `pipeline` = Canonical ; SetDefaultValues ;
Normalize in loader order).  `Props/C11.lean` proves that each stage is idempotent on its own; the property speaks
about the whole load, where a later stage must not undo what an earlier one made explicit (the oracle observes this as
EXP = IMP on whole loads).  Here: what each stage leaves of the fixed points of the other two, and from that the
statement for the attributes of one service through all three stages — the service with every default written out
loads to itself, hence to what the implicit spelling loads to.

Visible hypothesis `EscFacts`: `tree.Path.Next` escapes dots in a key (`strings.ReplaceAll(part, ".", "👻")`); for the
seven dot-free attribute names the stages touch the escaped key is the key itself.  These are closed facts about
`String.replace` on literals; Lean's kernel cannot evaluate `String.replace` (well-founded recursion), the driver
evaluates them at run time (`c11.pipeline` correspondence: the model walker reaches the same rows as Go's).
-/
namespace CV.C11
open CV CV.Val

/-- the attribute names the stages read or write are their own escaped form -/
def EscFacts : Prop :=
  ∀ k ∈ ["build", "networks", "depends_on", "pull_policy", "environment", "volumes", "env_file"],
    k.replace "." TPath.ghost = k

/-- `Canonical` leaves every attribute of the service alone -/
def SvcCanon (s : KVs) : Prop := ∀ kv ∈ s, AttrCanon kv.1 kv.2

/-- `SetDefaultValues`, started at the path `p` of the service, leaves every attribute alone -/
def SvcDefaulted (tbl : List (List String × String)) (p : TPath) (s : KVs) : Prop :=
  ∀ kv ∈ s, setDefaults tbl (p.next kv.1) kv.2 = .ok kv.2

theorem svcCanon_iff (s : KVs) : canonSvcAttrs s = .ok s ↔ SvcCanon s := canonSvcAttrs_fixed_iff s

theorem svcDefaulted_iff (tbl : List (List String × String)) (p : TPath) (s : KVs) :
    setDefaultsKVs tbl p s = .ok s ↔ SvcDefaulted tbl p s := setDefaultsKVs_fixed_iff tbl p s

/-! ## 1. the walker of `SetDefaultValues` away from its table -/

/-- **the walker changes nothing at or below a path no row can match** (any document, any table) -/
theorem setDefaults_identity_off_table (tbl : List (List String × String)) (q : TPath) (hq : Quiet tbl q) (v : Val) :
    setDefaults tbl q v = .ok v := setDefaults_quiet tbl v q hq

/-- no row of the regenerated table matches at or below these attributes of a service: `SetDefaultValues` cannot touch
what `Canonical` (depends_on, env_file) and `Normalize` (networks, depends_on, pull_policy, environment, volumes) write -/
theorem service_attributes_off_table (x : String) :
    Quiet CV.Gen.defaultValues ["services", x, "networks"] ∧ Quiet CV.Gen.defaultValues ["services", x, "depends_on"] ∧
    Quiet CV.Gen.defaultValues ["services", x, "pull_policy"] ∧ Quiet CV.Gen.defaultValues ["services", x, "environment"] ∧
    Quiet CV.Gen.defaultValues ["services", x, "volumes"] ∧ Quiet CV.Gen.defaultValues ["services", x, "env_file"] := by
  refine ⟨⟨by simp, fun l => ?_⟩, ⟨by simp, fun l => ?_⟩, ⟨by simp, fun l => ?_⟩, ⟨by simp, fun l => ?_⟩,
    ⟨by simp, fun l => ?_⟩, ⟨by simp, fun l => ?_⟩⟩ <;>
  simp [TPath.firstMatch, CV.Gen.defaultValues, TPath.pmatch]

/-- the build section of a service is the first row's -/
theorem service_build_row (x : String) :
    TPath.firstMatch CV.Gen.defaultValues ["services", x, "build"] = some "defaultBuildContext" := by
  simp [TPath.firstMatch, CV.Gen.defaultValues, TPath.pmatch]

example : Quiet CV.Gen.defaultValues ["services", "a", "depends_on", "b"] :=
  ⟨by simp, fun l => by simp [TPath.firstMatch, CV.Gen.defaultValues, TPath.pmatch]⟩

/-! ## 2. what a later stage leaves of an earlier stage's fixed point -/

/-- **Normalize → Canonical (depends_on)**: the implied entries `Normalize` adds to a canonical `depends_on` are canonical -/
theorem normalize_keeps_depends_on_canonical (s : KVs) (h : CanonDeps (mapOf (lookup "depends_on" s))) :
    transformDependsOn (.map (impliedDeps s)) = .ok (.map (impliedDeps s)) :=
  (transformDependsOn_fixed_iff _).mpr (canonDeps_addDeps _ _ (impliedList_vals s) h)

/-- **Normalize → SetDefaultValues (build)**: the handler of the `services.*.build` row finds the context written -/
theorem normalize_keeps_build_defaulted (env : Env) (v : Val) :
    applyHandler "defaultBuildContext" (normBuildV env v) = .ok (normBuildV env v) := by
  simp only [applyHandler, if_true]
  exact defaultBuildContext_normBuildV env v

/-- **Normalize after Canonical**: a service `Canonical` leaves alone is still one after `Normalize` -/
theorem svcCanon_normSvc (clean : String → String) (env : Env) (s : KVs) (h : SvcCanon s) :
    SvcCanon (normSvc clean env s) := by
  intro x hx
  have hsame : ∀ k v, (k = "depends_on" ∨ k = "env_file") → svcAttr clean env k v = v := by
    intro k v hk
    rcases hk with e | e <;> subst e <;> exact svcAttr_other clean env (by decide) (by decide) (by decide) (by decide) v
  have hnn : ∀ kv ∈ nnService s, AttrCanon kv.1 kv.2 := by
    intro kv hkv
    rcases mem_nnService hkv with e | e
    · exact h kv e
    · rw [e]; exact ⟨fun c => absurd c (by decide), fun c => absurd c (by decide)⟩
  rcases mem_normService clean env hx with ⟨kv, hkv, e⟩ | e
  · rw [e]
    have hc := hnn kv hkv
    refine ⟨fun c => ?_, fun c => ?_⟩
    · simp only at c ⊢; rw [hsame _ _ (.inl c)]; exact hc.1 c
    · simp only at c ⊢; rw [hsame _ _ (.inr c)]; exact hc.2 c
  · rw [e]
    refine ⟨fun _ => ?_, fun c => absurd (show "depends_on" = "env_file" from c) (by decide)⟩
    apply normalize_keeps_depends_on_canonical
    rw [lookup_nnService_ne (by decide)]
    cases hl : lookup "depends_on" s with
    | none => intro kv hkv; cases hkv
    | some dv =>
      cases dv with
      | map deps =>
        have := (h _ (mem_of_lookup hl)).1 rfl
        exact (transformDependsOn_fixed_iff deps).mp this
      | _ => intro kv hkv; cases hkv

/-- **SetDefaultValues after Canonical**: the walker cannot reach `depends_on` / `env_file`, so a service `Canonical` leaves
alone is still one after `SetDefaultValues` -/
theorem svcCanon_setDefaults (hesc : EscFacts) (x : String) (c s : KVs) (h : SvcCanon c)
    (hw : setDefaultsKVs CV.Gen.defaultValues ["services", x] c = .ok s) : SvcCanon s := by
  intro b hb
  obtain ⟨a, ha, hk, hv⟩ := mem_of_setDefaultsKVs _ _ c s hw b hb
  have hq := service_attributes_off_table x
  have hsame : (b.1 = "depends_on" ∨ b.1 = "env_file") → b.2 = a.2 := by
    intro hc
    rw [next_of_long (by simp)] at hv
    rcases hc with e | e
    · rw [hk, e, hesc "depends_on" (by simp)] at hv
      rw [show ["services", x] ++ ["depends_on"] = ["services", x, "depends_on"] from rfl,
        setDefaults_quiet _ _ _ hq.2.1] at hv
      exact (Out.ok.inj hv).symm
    · rw [hk, e, hesc "env_file" (by simp)] at hv
      rw [show ["services", x] ++ ["env_file"] = ["services", x, "env_file"] from rfl,
        setDefaults_quiet _ _ _ hq.2.2.2.2.2] at hv
      exact (Out.ok.inj hv).symm
  have hc := h a ha
  rw [hk] at hc
  refine ⟨fun c => ?_, fun c => ?_⟩
  · rw [hsame (.inl c)]; exact hc.1 c
  · rw [hsame (.inr c)]; exact hc.2 c

/-- **Normalize after SetDefaultValues**: a service whose defaults are all written is still one after `Normalize` — the
attributes `Normalize` rewrites are off the table, except `build`, whose `context` `Normalize` writes itself -/
theorem svcDefaulted_normSvc (hesc : EscFacts) (x : String) (clean : String → String) (env : Env) (s : KVs)
    (h : SvcDefaulted CV.Gen.defaultValues ["services", x] s) :
    SvcDefaulted CV.Gen.defaultValues ["services", x] (normSvc clean env s) := by
  have hq := service_attributes_off_table x
  have hn : ∀ k ∈ ["build", "networks", "depends_on", "pull_policy", "environment", "volumes", "env_file"],
      TPath.next ["services", x] k = ["services", x, k] := by
    intro k hk
    rw [next_of_long (by simp), hesc k hk]; rfl
  have hnn : ∀ kv ∈ nnService s, setDefaults CV.Gen.defaultValues (TPath.next ["services", x] kv.1) kv.2 = .ok kv.2 := by
    intro kv hkv
    rcases mem_nnService hkv with e | e
    · exact h kv e
    · rw [e]; simp only; rw [hn "networks" (by simp)]; exact setDefaults_quiet _ _ _ hq.1
  intro y hy
  rcases mem_normService clean env hy with ⟨kv, hkv, e⟩ | e
  · rw [e]; simp only
    by_cases h1 : kv.1 = "pull_policy"
    · rw [h1, hn "pull_policy" (by simp)]; exact setDefaults_quiet _ _ _ hq.2.2.1
    · by_cases h2 : kv.1 = "build"
      · rw [h2, hn "build" (by simp)]
        unfold setDefaults
        simp only [service_build_row, svcAttr, show ¬ ("build" = "pull_policy") by decide, if_false, if_true]
        exact normalize_keeps_build_defaulted env kv.2
      · by_cases h3 : kv.1 = "environment"
        · rw [h3, hn "environment" (by simp)]; exact setDefaults_quiet _ _ _ hq.2.2.2.1
        · by_cases h4 : kv.1 = "volumes"
          · rw [h4, hn "volumes" (by simp)]; exact setDefaults_quiet _ _ _ hq.2.2.2.2.1
          · rw [svcAttr_other clean env h1 h2 h3 h4]; exact hnn kv hkv
  · rw [e]; simp only; rw [hn "depends_on" (by simp)]; exact setDefaults_quiet _ _ _ hq.2.1

/-- `Normalize` on one service is idempotent (networks included) -/
theorem normSvc_idempotent (clean : String → String) (hclean : ∀ s, clean (clean s) = clean s)
    (env : Env) (henv : envLookup env "" = none) (s : KVs) :
    normSvc clean env (normSvc clean env s) = normSvc clean env s := by
  unfold normSvc
  rw [nnService_of_settled (netSettled_normService clean env (netSettled_nnService s))]
  exact normService_idem clean hclean env henv _

/-! non-vacuity of the hypotheses used above -/

example : CanonDeps [("b", depEntry true), ("c", .map [("condition", .str "service_healthy"), ("required", .bool false)])] := by
  intro kv hkv
  simp only [List.mem_cons, List.mem_nil_iff, or_false] at hkv
  rcases hkv with e | e <;> subst e
  · exact depEntry_canon true
  · exact ⟨_, rfl, by simp [depDefaults, setIfAbsent, lookup]⟩

example : SvcCanon [("image", .str "i"), ("depends_on", .map [("b", depEntry true)]),
    ("env_file", .seq [.map [("path", .str "e.env"), ("required", .bool true)]])] := by
  intro kv hkv
  simp only [List.mem_cons, List.mem_nil_iff, or_false] at hkv
  rcases hkv with e | e | e <;> subst e
  · exact ⟨fun c => absurd c (by decide), fun c => absurd c (by decide)⟩
  · refine ⟨fun _ => ?_, fun c => absurd c (by decide)⟩
    exact (transformDependsOn_fixed_iff _).mpr (fun kv hkv => by
      simp only [List.mem_cons, List.mem_nil_iff, or_false] at hkv; subst hkv; exact depEntry_canon true)
  · refine ⟨fun c => absurd c (by decide), fun _ => ?_⟩
    simp [transformEnvFile, envFileValue, setIfAbsent, lookup]

/-- the hypotheses of `service_pipeline_fixed_point` other than `EscFacts` are satisfiable: Go's `path.Clean` model, empty environment -/
example : (∀ s, pathClean (pathClean s) = pathClean s) ∧ envLookup [] "" = none := ⟨pathClean_idempotent, rfl⟩
/-! ## 3. all three stages -/

/-- **the service with every default written out is a fixed point of the whole pipeline**: if Canonical ;
SetDefaultValues ; Normalize accept the attributes `s` of service `x` and return `e`, they accept `e` and return `e` -/
theorem service_pipeline_fixed_point (hesc : EscFacts) (x : String) (clean : String → String)
    (hclean : ∀ s, clean (clean s) = clean s) (env : Env) (henv : envLookup env "" = none) (s e : KVs)
    (h : svcPipeline CV.Gen.defaultValues ["services", x] clean env s = .ok e) :
    svcPipeline CV.Gen.defaultValues ["services", x] clean env e = .ok e := by
  unfold svcPipeline at h
  cases hc : canonSvcAttrs s with
  | ok c =>
    simp only [hc] at h
    cases hd : setDefaultsKVs CV.Gen.defaultValues ["services", x] c with
    | ok d =>
      simp only [hd, Out.ok.injEq] at h
      have c1 : SvcCanon c := (svcCanon_iff c).mp (canonSvcAttrs_idem s c hc)
      have c2 : SvcCanon d := svcCanon_setDefaults hesc x c d c1 hd
      have c3 : SvcCanon e := by rw [← h]; exact svcCanon_normSvc clean env d c2
      have d2 : SvcDefaulted CV.Gen.defaultValues ["services", x] d :=
        (svcDefaulted_iff _ _ d).mp (setDefaultsKVs_idem _ _ c d hd)
      have d3 : SvcDefaulted CV.Gen.defaultValues ["services", x] e := by
        rw [← h]; exact svcDefaulted_normSvc hesc x clean env d d2
      unfold svcPipeline
      rw [(svcCanon_iff e).mpr c3]
      simp only
      rw [(svcDefaulted_iff _ _ e).mpr d3]
      simp only [Out.ok.injEq]
      rw [← h]
      exact normSvc_idempotent clean hclean env henv d
    | err er => simp [hd] at h
    | panic pn => simp [hd] at h
  | err er => simp [hc] at h
  | panic pn => simp [hc] at h

/-- **implicit ≡ explicit through all three stages** (one service): the explicit spelling `e` of `s` loads to what `s` loads to -/
theorem service_implicit_eq_explicit (hesc : EscFacts) (x : String) (clean : String → String)
    (hclean : ∀ s, clean (clean s) = clean s) (env : Env) (henv : envLookup env "" = none) (s e : KVs)
    (h : svcPipeline CV.Gen.defaultValues ["services", x] clean env s = .ok e) :
    svcPipeline CV.Gen.defaultValues ["services", x] clean env e = svcPipeline CV.Gen.defaultValues ["services", x] clean env s := by
  rw [h]; exact service_pipeline_fixed_point hesc x clean hclean env henv s e h

/-- the stages of the whole-model pipeline, one after the other (what `pipeline` is made of) -/
theorem pipeline_stages (tbl : List (List String × String)) (clean : String → String) (env : Env) (d e : KVs)
    (h : pipeline tbl clean env d = .ok e) :
    ∃ c s, canonicalLite d = .ok (.map c) ∧ setDefaultValues tbl c = .ok (.map s) ∧ normalize clean env s = .ok e := by
  unfold pipeline at h
  cases hc : canonicalLite d with
  | ok cv =>
    cases cv with
    | map c =>
      simp only [hc] at h
      cases hs : setDefaultValues tbl c with
      | ok sv =>
        cases sv with
        | map s => simp only [hs] at h; exact ⟨c, s, rfl, hs, h⟩
        | _ => simp [hs] at h
      | err er => simp [hs] at h
      | panic pn => simp [hs] at h
    | _ => simp [hc] at h
  | err er => simp [hc] at h
  | panic pn => simp [hc] at h

/-- whole model: every stage's own output is a fixed point of that stage, and the result of the load is a fixed point of
`Normalize`, outcome included.  (That the result is also a fixed point of `Canonical` and `SetDefaultValues` is proved per
service above and, since round 6, for the whole model in `Props/C11Lift.lean`: `pipeline_fixed_point`.) -/
theorem pipeline_stage_fixed_points (clean : String → String) (hclean : ∀ s, clean (clean s) = clean s)
    (env : Env) (henv : envLookup env "" = none) (d e : KVs)
    (h : pipeline CV.Gen.defaultValues clean env d = .ok e) :
    ∃ c s, canonicalLite c = .ok (.map c) ∧ setDefaultValues CV.Gen.defaultValues s = .ok (.map s) ∧
      normalize clean env e = .ok e ∧ normalize clean env s = .ok e := by
  obtain ⟨c, s, h1, h2, h3⟩ := pipeline_stages _ clean env d e h
  obtain ⟨c', hc', hcc⟩ := canonicalLite_idem d _ h1
  cases hc'
  exact ⟨c, s, hcc, setDefaultValues_idempotent c s h2, normalize_fixed_point clean hclean env henv s e h3, h3⟩

end CV.C11
