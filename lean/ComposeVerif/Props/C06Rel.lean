import ComposeVerif.Lemmas.IncludeRel
import ComposeVerif.Lemmas.PathsOrigin
/-!
# C06 — `Join(L, Rel(L, X)) = Clean(X)`

`ApplyInclude` hands the sub-load a working directory *relative* to the local loader's directory
(`loader.Dir` = `filepath.Rel(L, dir)`); the included model's paths are resolved against it and later, with the parent,
against the parent's directory.  That this relative directory, joined back onto `L`, is the included project's
directory is what makes `imported_paths_two_stage` (`Props/C06Stages.lean`) say "resolved against the included
project's own directory".  Proved for the ported `Rel` (`relC`) and C12's `Join`/`Clean`, absolute `L` and `X`.
-/
namespace CV.Include
open CV CV.Paths

/-- **`Join(L, Rel(L, X)) = Clean(X)`** for absolute `L`, `X`: the working directory the plan hands to the sub-load, joined
back onto the local loader's directory, is the included project's directory -/
theorem join_relC_abs (L X r : Str) (hL : Paths.isAbs L = true) (hX : Paths.isAbs X = true) (h : relC L X = some r) :
    Paths.join L r = Paths.clean X := by
  have hLne : L ≠ [] := by intro e; subst e; simp [Paths.isAbs] at hL
  rw [join_of_ne L r hLne]
  have habs : Paths.isAbs (L ++ '/' :: r) = true := by rw [isAbs_append L _ hLne]; exact hL
  rw [clean_of_stack_abs _ habs, clean_of_stack_abs X hX, cleanStack_append_abs L r hL]
  congr 1; congr 1
  -- the stacks
  have hvL : Valid true (cleanStack L) := by have := cleanStack_valid L; rwa [hL] at this
  have hvX : Valid true (cleanStack X) := by have := cleanStack_valid X; rwa [hX] at this
  have hnL := valid_rooted_norm hvL
  have hnX := valid_rooted_norm hvX
  unfold relC at h
  simp only at h
  split at h
  · -- equal clean forms
    rename_i heq
    cases h
    have hs : cleanStack L = cleanStack X := by
      have := congrArg cleanStack heq
      rwa [cleanStack_clean, cleanStack_clean] at this
    simp [splitSlash, dot, hs, step]
  · rename_i hne
    split at h
    · cases h
    · rw [relSegs_clean_abs L hL] at h
      have htd : Paths.clean X ≠ dot := by
        intro e
        have := isAbs_clean X
        rw [e, hX] at this
        revert this; decide
      simp only [htd, if_false] at h
      rw [relSegs_clean_abs X hX] at h
      obtain ⟨c, h1, h2⟩ := stripCommon_spec (cleanStack L).reverse (cleanStack X).reverse
      generalize (stripCommon (cleanStack L).reverse (cleanStack X).reverse) = st at h h1 h2
      obtain ⟨br, tr⟩ := st
      simp only at h h1 h2
      split at h
      · cases h
      · have hL' : cleanStack L = br.reverse ++ c.reverse := by
          have := congrArg List.reverse h1; simpa using this
        have hX' : cleanStack X = tr.reverse ++ c.reverse := by
          have := congrArg List.reverse h2; simpa using this
        have hbrN : ∀ x ∈ br.reverse, Norm x := fun x hx => hnL x (by rw [hL']; simp [List.mem_reverse.mp hx] )
        have htrN : ∀ x ∈ tr, Norm x := fun x hx => hnX x (by rw [hX']; simp [hx])
        have hmap : br.map (fun _ => dotdot) = List.replicate br.reverse.length dotdot := by
          simp [List.map_const']
        cases hout : (br.map (fun _ => dotdot) ++ tr).isEmpty with
        | true =>
          simp only [hout, if_true, Option.some.injEq] at h
          subst h
          have hb : br = [] := by
            cases br with
            | nil => rfl
            | cons a b => simp at hout
          have ht : tr = [] := by
            cases tr with
            | nil => rfl
            | cons a b => simp [hb] at hout
          subst hb; subst ht
          rw [hL', hX']
          simp [splitSlash, dot, step]
        | false =>
          simp only [hout, Bool.false_eq_true, if_false, Option.some.injEq] at h
          subst h
          have hne' : br.map (fun _ => dotdot) ++ tr ≠ [] := by
            intro e; rw [e] at hout; simp at hout
          have hns : ∀ x ∈ br.map (fun _ => dotdot) ++ tr, '/' ∉ x := by
            intro x hx
            rcases List.mem_append.mp hx with hx | hx
            · obtain ⟨_, _, rfl⟩ := List.mem_map.mp hx; exact norm_noSlash_dotdot
            · exact cleanStack_noSlash X x (by rw [hX']; simp [hx])
          rw [splitSlash_joinSlash _ hne' hns, List.foldl_append, hmap, hL',
            foldl_dotdots_pop br.reverse c.reverse hbrN, foldl_step_norms true tr _ htrN, hX']


/-- the same on the `String` wrappers the model uses -/
theorem join_rel_abs (L X r : String) (hL : Include.isAbs L = true) (hX : Include.isAbs X = true)
    (h : Include.rel L X = some r) : Include.join L r = Include.clean X := by
  simp only [Include.rel, Option.map_eq_some_iff] at h
  obtain ⟨r', hr, rfl⟩ := h
  simp only [Include.join, Include.clean, String.toList_ofList]
  rw [join_relC_abs L.toList X.toList r' hL hX hr]

/-- non-vacuity: `/r/proj` and `/r/shared/x` -/
example : Include.rel "/r/proj" "/r/shared/x" = some "../shared/x" ∧
    Include.join "/r/proj" "../shared/x" = "/r/shared/x" := by decide +kernel

/-- **`filepath.Rel` between absolute paths never fails and answers a non-empty relative path** (the ported `relC`) -/
theorem relC_abs_total (L X : Str) (hL : Paths.isAbs L = true) (hX : Paths.isAbs X = true) :
    ∃ r, relC L X = some r ∧ r ≠ [] ∧ Paths.isAbs r = false := by
  have hvL : Valid true (cleanStack L) := by have := cleanStack_valid L; rwa [hL] at this
  have hvX : Valid true (cleanStack X) := by have := cleanStack_valid X; rwa [hX] at this
  have hnL := valid_rooted_norm hvL
  have hnX := valid_rooted_norm hvX
  have hsX := cleanStack_noSlash X
  have hdot : dot ≠ [] ∧ Paths.isAbs dot = false := by decide
  unfold relC
  simp only
  split
  · exact ⟨dot, rfl, hdot.1, hdot.2⟩
  · have hab : ¬ (Paths.isAbs (Paths.clean L) ≠ Paths.isAbs (Paths.clean X)) := by
      rw [isAbs_clean, isAbs_clean, hL, hX]; simp
    simp only [hab, if_false]
    rw [relSegs_clean_abs L hL]
    have htd : Paths.clean X ≠ dot := by
      intro e
      have := isAbs_clean X
      rw [e, hX] at this
      revert this; decide
    simp only [htd, if_false]
    rw [relSegs_clean_abs X hX]
    obtain ⟨c, h1, h2⟩ := stripCommon_spec (cleanStack L).reverse (cleanStack X).reverse
    generalize (stripCommon (cleanStack L).reverse (cleanStack X).reverse) = st at h1 h2
    obtain ⟨br, tr⟩ := st
    simp only at h1 h2 ⊢
    have hbrN : ∀ x ∈ br, Norm x := fun x hx =>
      hnL x (List.mem_reverse.mp (by rw [h1]; simp [hx]))
    have htrN : ∀ x ∈ tr, Norm x := fun x hx =>
      hnX x (List.mem_reverse.mp (by rw [h2]; simp [hx]))
    have htrS : ∀ x ∈ tr, '/' ∉ x := fun x hx =>
      hsX x (List.mem_reverse.mp (by rw [h2]; simp [hx]))
    have hhead : ¬ br.head? = some dotdot := by
      intro e
      cases br with
      | nil => simp at e
      | cons a b =>
        simp only [List.head?_cons, Option.some.injEq] at e
        exact (hbrN a (by simp)).2.2 e
    simp only [hhead, if_false]
    cases hout : (br.map (fun _ => dotdot) ++ tr).isEmpty with
    | true => exact ⟨dot, by simp, hdot.1, hdot.2⟩
    | false =>
      have hne' : br.map (fun _ => dotdot) ++ tr ≠ [] := by
        intro e; rw [e] at hout; simp at hout
      have hp : ∀ x ∈ br.map (fun _ => dotdot) ++ tr, x ≠ [] := by
        intro x hx
        rcases List.mem_append.mp hx with hx | hx
        · obtain ⟨_, _, rfl⟩ := List.mem_map.mp hx; decide
        · exact (htrN x hx).1
      have hs : ∀ x ∈ br.map (fun _ => dotdot) ++ tr, '/' ∉ x := by
        intro x hx
        rcases List.mem_append.mp hx with hx | hx
        · obtain ⟨_, _, rfl⟩ := List.mem_map.mp hx; exact norm_noSlash_dotdot
        · exact htrS x hx
      obtain ⟨g1, g2⟩ := joinSlash_rel_head _ hne' hp hs
      exact ⟨_, by simp, g1, g2⟩

/-- the same on the `String` wrappers -/
theorem rel_abs_total (L X : String) (hL : Include.isAbs L = true) (hX : Include.isAbs X = true) :
    ∃ r, Include.rel L X = some r ∧ r ≠ "" ∧ Include.isAbs r = false := by
  obtain ⟨r, h, hne, hr⟩ := relC_abs_total L.toList X.toList hL hX
  refine ⟨String.ofList r, by simp [Include.rel, h], ?_, by simpa [Include.isAbs] using hr⟩
  intro e
  apply hne
  have := congrArg String.toList e
  simpa using this

end CV.Include
