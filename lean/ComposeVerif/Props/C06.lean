import ComposeVerif.Model.Include
import ComposeVerif.Spec.Include
import ComposeVerif.Lemmas.Include
import ComposeVerif.Lemmas.AuditCmd  -- so that `lake build Props.C06` also builds the audit command used by ./check
/-!
# C06 — include is equivalent to pasting the included, fully resolved model

Property theorems about `Include.applyInclude` (the model of `loader.ApplyInclude`, tied to the real
function by the `c06.*` correspondence streams).  They hold for every world: any file system, any
`dotenv.GetEnvFromFile`, any sub-load.
-/
namespace CV.Include
open CV CV.Val

variable {s : Val → Val → Bool} {S : String → Val → Val → Bool}

/-! ## conflict detection (`importResource`; `s` / `S` is the sameness test: `reflect.DeepEqual` or `sameResource`) -/

/-- the loop never panics and its only error is the conflict -/
theorem importEntries_outcome (frm to : KVs) :
    (∃ r, importEntries s frm to = .ok r) ∨ importEntries s frm to = .err "conflict" := by
  induction frm generalizing to with
  | nil => exact .inl ⟨to, rfl⟩
  | cons p rest ih =>
    obtain ⟨name, a⟩ := p
    simp only [importEntries]
    split
    · split
      · exact ih to
      · exact .inr rfl
    · exact ih _

/-- **import_conflict_iff** (one section): importing is a conflict error exactly when some imported name is
already defined with a non-equal value -/
theorem importEntries_conflict_iff (frm to : KVs) (hnd : (frm.map Prod.fst).Nodup) :
    importEntries s frm to = .err "conflict" ↔ ∃ n a c, (n, a) ∈ frm ∧ lookup n to = some c ∧ s a c = false := by
  induction frm generalizing to with
  | nil => simp [importEntries]
  | cons p rest ih =>
    obtain ⟨name, a⟩ := p
    simp only [List.map_cons, List.nodup_cons] at hnd
    have hne : ∀ n a', (n, a') ∈ rest → n ≠ name := by
      intro n a' hm e; subst e
      exact hnd.1 (List.mem_map.mpr ⟨(n, a'), hm, rfl⟩)
    simp only [importEntries]
    cases hl : lookup name to with
    | some c =>
      simp only
      cases hv : s a c with
      | true =>
        simp only [if_true]
        rw [ih to hnd.2]
        constructor
        · rintro ⟨n, a', c', hm, hl', hne'⟩
          exact ⟨n, a', c', List.mem_cons_of_mem _ hm, hl', hne'⟩
        · rintro ⟨n, a', c', hm, hl', hne'⟩
          rcases List.mem_cons.mp hm with h1 | h2
          · cases h1
            rw [hl] at hl'; cases hl'
            rw [hv] at hne'; cases hne'
          · exact ⟨n, a', c', h2, hl', hne'⟩
      | false =>
        simp only [Bool.false_eq_true, if_false, true_iff]
        exact ⟨name, a, c, List.mem_cons_self, hl, hv⟩
    | none =>
      simp only
      rw [ih _ hnd.2]
      constructor
      · rintro ⟨n, a', c', hm, hl', hne'⟩
        rw [lookup_append_single_ne to (hne n a' hm)] at hl'
        exact ⟨n, a', c', List.mem_cons_of_mem _ hm, hl', hne'⟩
      · rintro ⟨n, a', c', hm, hl', hne'⟩
        rcases List.mem_cons.mp hm with h1 | h2
        · cases h1
          rw [hl] at hl'; cases hl'
        · refine ⟨n, a', c', h2, ?_, hne'⟩
          rw [lookup_append_single_ne to (hne n a' h2)]; exact hl'

/-- a successful import is the union: names of the including model keep their value, new names get the
imported value -/
theorem importEntries_lookup (frm to r : KVs) (h : importEntries s frm to = .ok r) (k : String) :
    lookup k r = match lookup k to with
      | some c => some c
      | none => lookup k frm := by
  induction frm generalizing to with
  | nil =>
    simp only [importEntries] at h; cases h
    cases hk : lookup k r <;> simp [lookup]
  | cons p rest ih =>
    obtain ⟨name, a⟩ := p
    simp only [importEntries] at h
    cases hl : lookup name to with
    | some c =>
      simp only [hl] at h
      split at h
      · rw [ih to h]
        cases hk : lookup k to with
        | some c' => rfl
        | none =>
          have : k ≠ name := by intro e; subst e; rw [hl] at hk; cases hk
          simp [lookup, this]
      · cases h
    | none =>
      simp only [hl] at h
      rw [ih _ h]
      by_cases hk : k = name
      · subst hk
        rw [lookup_append_single_self to hl, hl]
        simp [lookup]
      · rw [lookup_append_single_ne to hk]
        cases lookup k to with
        | some c' => rfl
        | none => simp [lookup, hk]

/-- **import_identical_ok**: resources that are already there with the same value (`s a c`) are accepted and change nothing -/
theorem importEntries_identical_ok (frm to : KVs)
    (h : ∀ n a, (n, a) ∈ frm → ∃ c, lookup n to = some c ∧ s a c = true) :
    importEntries s frm to = .ok to := by
  induction frm with
  | nil => rfl
  | cons p rest ih =>
    obtain ⟨name, a⟩ := p
    simp only [importEntries]
    obtain ⟨c, hc, hs⟩ := h name a List.mem_cons_self
    rw [hc]
    simp only [hs, if_true]
    exact ih (fun n a' hm => h n a' (List.mem_cons_of_mem _ hm))

/-- the same resources arriving a second time (through another include route) are accepted and change nothing -/
theorem importEntries_twice (frm to r : KVs) (hrefl : ∀ a, s a a = true) (hnd : (frm.map Prod.fst).Nodup)
    (h : importEntries s frm to = .ok r) : importEntries s frm r = .ok r := by
  apply importEntries_identical_ok
  intro n a hm
  rw [importEntries_lookup frm to r h n]
  cases hl : lookup n to with
  | some c =>
    refine ⟨c, rfl, ?_⟩
    have hnc : ¬ (importEntries s frm to = .err "conflict") := by rw [h]; intro e; cases e
    rw [importEntries_conflict_iff frm to hnd] at hnc
    cases hs : s a c with
    | true => rfl
    | false => exact absurd ⟨n, a, c, hm, hl, hs⟩ hnc
  | none => exact ⟨a, lookup_of_mem_nodup frm hnd hm, hrefl a⟩

end CV.Include

namespace CV.Include
open CV CV.Val

variable {s : Val → Val → Bool} {S : String → Val → Val → Bool}

/-! ## the five sections: `importResources` -/

theorem targetSection_congr {k : String} {t t' : KVs} (h : lookup k t' = lookup k t) :
    targetSection k t' = targetSection k t := by
  simp only [targetSection, h]

theorem importResource_frame {src tgt tgt' : KVs} {k k' : String} (h : importResource S src tgt k = .ok tgt')
    (hk : k' ≠ k) : lookup k' tgt' = lookup k' tgt := by
  simp only [importResource] at h
  split at h
  · cases h; rfl
  · cases h; rfl
  · split at h
    · cases h
    · split at h
      · obtain ⟨to', _, h2⟩ := bind_eq_ok h
        cases h2
        exact lookup_insert_ne _ hk _
      · cases h

theorem importResource_conflict_iff {src tgt : KVs} {k : String}
    (hs : lookup k src = none ∨ lookup k src = some .null ∨ ∃ f, lookup k src = some (.map f) ∧ (f.map Prod.fst).Nodup)
    (ht : ∃ to, targetSection k tgt = some to) :
    importResource S src tgt k = .err "conflict" ↔ ConflictAt S src tgt k := by
  obtain ⟨to, ht⟩ := ht
  rcases hs with hs | hs | ⟨f, hs, hnd⟩
  · simp only [importResource, hs, ConflictAt]
    constructor
    · intro h; cases h
    · rintro ⟨f, _, _, _, _, h, _⟩; cases h
  · simp only [importResource, hs, ConflictAt]
    constructor
    · intro h; cases h
    · rintro ⟨f, _, _, _, _, h, _⟩; cases h
  · simp only [importResource, hs, ht, ConflictAt]
    constructor
    · intro h
      have hc : importEntries (S k) f to = .err "conflict" := by
        rcases importEntries_outcome f to with ⟨r, hr⟩ | hr
        · rw [hr] at h; cases h
        · exact hr
      obtain ⟨n, a, c, hm, hl, hne⟩ := (importEntries_conflict_iff f to hnd).mp hc
      exact ⟨f, to, n, a, c, rfl, rfl, hm, hl, hne⟩
    · rintro ⟨f', to', n, a, c, hf, hto, hm, hl, hne⟩
      cases hf; cases hto
      rw [(importEntries_conflict_iff f to hnd).mpr ⟨n, a, c, hm, hl, hne⟩]
      rfl

theorem importResource_outcome {src tgt : KVs} {k : String}
    (hs : lookup k src = none ∨ lookup k src = some .null ∨ ∃ f, lookup k src = some (.map f) ∧ (f.map Prod.fst).Nodup)
    (ht : ∃ to, targetSection k tgt = some to) :
    (∃ r, importResource S src tgt k = .ok r) ∨ importResource S src tgt k = .err "conflict" := by
  obtain ⟨to, ht⟩ := ht
  rcases hs with hs | hs | ⟨f, hs, _⟩
  · exact .inl ⟨tgt, by simp only [importResource, hs]⟩
  · exact .inl ⟨tgt, by simp only [importResource, hs]⟩
  · simp only [importResource, hs, ht]
    rcases importEntries_outcome f to with ⟨r, hr⟩ | hr
    · rw [hr]; exact .inl ⟨_, rfl⟩
    · rw [hr]; exact .inr rfl

theorem conflictAt_congr {src t t' : KVs} {k : String} (h : lookup k t' = lookup k t) :
    ConflictAt S src t' k ↔ ConflictAt S src t k := by
  simp only [ConflictAt, targetSection_congr h]

theorem importKinds_conflict_iff (src : KVs) (hs : WfSource src) :
    ∀ (ks : List String) (tgt : KVs), ks.Nodup → (∀ k, k ∈ ks → k ∈ resourceKinds) →
      (∀ k, k ∈ ks → ∃ to, targetSection k tgt = some to) →
      (importKinds S src ks tgt = .err "conflict" ↔ ∃ k, k ∈ ks ∧ ConflictAt S src tgt k)
  | [], tgt, _, _, _ => by simp [importKinds]
  | k :: ks, tgt, hnd, hsub, ht => by
    simp only [List.nodup_cons] at hnd
    have hsk := hs k (hsub k List.mem_cons_self)
    have htk := ht k List.mem_cons_self
    simp only [importKinds]
    rcases importResource_outcome hsk htk with ⟨r, hr⟩ | hr
    · rw [hr, bind_ok]
      have hframe : ∀ k', k' ∈ ks → lookup k' r = lookup k' tgt := by
        intro k' hk'
        exact importResource_frame hr (by intro e; subst e; exact hnd.1 hk')
      have ht' : ∀ k', k' ∈ ks → ∃ to, targetSection k' r = some to := by
        intro k' hk'
        rw [targetSection_congr (hframe k' hk')]
        exact ht k' (List.mem_cons_of_mem _ hk')
      rw [importKinds_conflict_iff src hs ks r hnd.2 (fun k' hk' => hsub k' (List.mem_cons_of_mem _ hk')) ht']
      have hnok : ¬ ConflictAt S src tgt k := by
        rw [← importResource_conflict_iff hsk htk, hr]; intro e; cases e
      constructor
      · rintro ⟨k', hk', hc⟩
        exact ⟨k', List.mem_cons_of_mem _ hk', (conflictAt_congr (hframe k' hk')).mp hc⟩
      · rintro ⟨k', hk', hc⟩
        rcases List.mem_cons.mp hk' with h1 | h2
        · subst h1; exact absurd hc hnok
        · exact ⟨k', h2, (conflictAt_congr (hframe k' h2)).mpr hc⟩
    · rw [hr, bind_err]
      simp only [true_iff]
      exact ⟨k, List.mem_cons_self, (importResource_conflict_iff hsk htk).mp hr⟩

/-- **import_conflict_iff**: importing a validated model into a document is a conflict error exactly when one of
the five sections defines some name on both sides with non-equal values -/
theorem import_conflict_iff (src tgt : KVs) (hs : WfSource src) (ht : WfTarget tgt) :
    importResources S src tgt = .err "conflict" ↔ ∃ k, k ∈ resourceKinds ∧ ConflictAt S src tgt k :=
  importKinds_conflict_iff src hs resourceKinds tgt (by decide) (fun _ h => h) ht

end CV.Include

namespace CV.Include
open CV CV.Val

variable {s : Val → Val → Bool} {S : String → Val → Val → Bool}

/-! ## environment layering -/

theorem env_get_append (a b : Env) (k : String) :
    Env.get (a ++ b) k = match Env.get a k with
      | some v => some v
      | none => Env.get b k := by
  induction a with
  | nil => simp only [List.nil_append, Env.get]
  | cons p r ih =>
    obtain ⟨k', v'⟩ := p
    simp only [List.cons_append, Env.get]
    split
    · rfl
    · exact ih

theorem env_get_filter_unset (env o : Env) (k : String) (h : Env.get env k = none) :
    Env.get (o.filter (fun kv => (Env.get env kv.1).isNone)) k = Env.get o k := by
  induction o with
  | nil => rfl
  | cons p r ih =>
    obtain ⟨k', v'⟩ := p
    simp only [List.filter]
    by_cases hk : k = k'
    · subst hk
      simp only [h, Option.isNone_none, Env.get, if_true]
    · cases hp : (Env.get env k').isNone with
      | true => simp only [Env.get, hk, if_false]; exact ih
      | false => simp only [Env.get, hk, if_false]; exact ih

/-- `environment.Clone().Merge(envFromFile)`: a variable of the parent environment keeps its value; only
variables the parent does not define come from the file -/
theorem envMerge_get (env o : Env) (k : String) :
    Env.get (envMerge env o) k = match Env.get env k with
      | some v => some v
      | none => Env.get o k := by
  simp only [envMerge, env_get_append]
  cases h : Env.get env k with
  | some v => rfl
  | none => exact env_get_filter_unset env o k h

/-- **include_env_precedence**: the included project is interpolated with the parent environment plus, for
variables it does not define, what `GetEnvFromFile` reads from the declared `env_file`s — or, when none is
declared, from `<project directory>/.env` if that file exists -/
theorem include_env_precedence (W : World) (wd pd : String) (env env' : Env) (ef : List String)
    (h : includeEnv W wd pd env ef = .ok env') :
    ∃ efs fromFile, envFiles W wd pd ef = .ok efs ∧ W.envFromFile env efs = .ok fromFile ∧
      (∀ k v, Env.get env k = some v → Env.get env' k = some v) ∧
      (∀ k, Env.get env k = none → Env.get env' k = Env.get fromFile k) := by
  simp only [includeEnv] at h
  obtain ⟨efs, h1, h⟩ := bind_eq_ok h
  obtain ⟨ff, h2, h⟩ := bind_eq_ok h
  cases h
  refine ⟨efs, ff, h1, h2, ?_, ?_⟩
  · intro k v hk; rw [envMerge_get, hk]
  · intro k hk; rw [envMerge_get, hk]

/-- without a declared `env_file` the only candidate is `.env` in the included project directory -/
theorem include_env_default_dotenv (W : World) (wd pd : String) :
    envFiles W wd pd [] = .ok (if statFile W (join pd ".env") then [join pd ".env"] else []) := rfl

/-! ## cycles -/

theorem plan_cycle (W : World) (wd L : String) (chain : List String) (r : IncCfg)
    (h : ∃ p, p ∈ r.path ∧ localAbs L p ∈ chain) : plan W wd L chain r = .err "cycle" := by
  obtain ⟨p, hp, hc⟩ := h
  simp only [plan]
  cases hr : r.path with
  | nil => rw [hr] at hp; cases hp
  | cons p0 rest =>
    simp only
    have : (localAbs L p0 :: rest.map (localAbs L)).any (fun q => chain.contains q) = true := by
      rw [List.any_eq_true]
      refine ⟨localAbs L p, ?_, by simpa using hc⟩
      rw [hr] at hp
      rcases List.mem_cons.mp hp with h1 | h2
      · subst h1; exact List.mem_cons_self
      · exact List.mem_cons_of_mem _ (List.mem_map.mpr ⟨p, h2, rfl⟩)
    simp only [this, if_true]

/-- a successful plan loads only files that are not being included already -/
theorem plan_ok_fresh (W : World) (wd L : String) (chain : List String) (r : IncCfg) (pl : Plan)
    (h : plan W wd L chain r = .ok pl) : ∀ p, p ∈ pl.paths → p ∉ chain := by
  simp only [plan] at h
  split at h
  · cases h; intro p hp; cases hp
  · split at h
    · cases h
    · rename_i hany
      cases h
      intro p hp hc
      apply hany
      rw [List.any_eq_true]
      exact ⟨p, hp, by simpa using hc⟩

/-- **include_cycle_err** (one entry): if any file of an include entry — the included file or one of its
overrides — is already in the chain of files being included, the entry is an error -/
theorem includeOne_cycle_err (W : World) (wd L : String) (env : Env) (chain : List String) (model : KVs) (r : IncCfg)
    (h : ∃ p, p ∈ r.path ∧ localAbs L p ∈ chain) : includeOne W wd L env chain model r = .err "cycle" := by
  simp only [includeOne, plan_cycle W (baseDir wd L) L chain r h, bind_err]

/-- **include_cycle_err**: a document whose first include entry closes a cycle is rejected, whatever the file
system, the environment files and the other entries are -/
theorem include_cycle_err (W : World) (wd L : String) (env : Env) (chain : List String) (model : KVs)
    (r : IncCfg) (rs : List IncCfg) (hcfg : loadIncludeConfig (lookup "include" model) = .ok (r :: rs))
    (h : ∃ p, p ∈ r.path ∧ localAbs L p ∈ chain) : applyInclude W wd L env chain model = .err "cycle" := by
  simp only [applyInclude, hcfg, bind_ok, includeAll, includeOne_cycle_err W wd L env chain model r h, bind_err]

/-- a file that includes itself (cycle of length 1), short syntax, absolute path -/
example (W : World) : applyInclude W "/p" "/p" [] ["/p/compose.yaml"]
    [("include", .seq [.str "/p/compose.yaml"]), ("services", .map [])] = .err "cycle" := by
  apply include_cycle_err W "/p" "/p" [] ["/p/compose.yaml"] _ { path := ["/p/compose.yaml"] } []
  · rfl
  · exact ⟨"/p/compose.yaml", List.mem_cons_self, by decide⟩

/-! ## which directory the included project is anchored in -/

/-- **include_paths_anchor**: the working directory handed to the sub-load (`relwd`, against which the included
model's relative paths are resolved first) and the included project directory (`projDir`: local loader of nested
includes, place of the default `.env`) -/
theorem include_paths_anchor (W : World) (wd L : String) (chain : List String) (r : IncCfg) (pl : Plan)
    (p0 : String) (rest : List String) (hp : r.path = p0 :: rest) (h : plan W wd L chain r = .ok pl) :
    pl.paths = (p0 :: rest).map (localAbs L) ∧
    (r.projectDirectory = "" → pl.projDir = dir (localAbs L p0) ∧ pl.relwd = localDir W L (localAbs L p0)) ∧
    (r.projectDirectory ≠ "" → isAbs r.projectDirectory = true →
        pl.projDir = r.projectDirectory ∧ pl.relwd = r.projectDirectory) ∧
    (r.projectDirectory ≠ "" → isAbs r.projectDirectory = false →
        pl.projDir = join wd r.projectDirectory ∧ pl.relwd = localDir W L r.projectDirectory) := by
  simp only [plan, hp] at h
  split at h
  · cases h
  · cases h
    refine ⟨rfl, ?_, ?_, ?_⟩
    · intro hpd; simp [resolveFirst, hpd]
    · intro hpd habs; simp [resolveFirst, hpd, habs]
    · intro hpd habs; simp [resolveFirst, hpd, habs]

end CV.Include

namespace CV.Include
open CV CV.Val

variable {s : Val → Val → Bool} {S : String → Val → Val → Bool}

/-! ## include = paste -/

theorem resourceOf_congr {m m' : KVs} {k : String} (h : lookup k m' = lookup k m) (n : String) :
    resourceOf m' k n = resourceOf m k n := by
  simp only [resourceOf, h]

theorem targetSection_lookup {tgt to : KVs} {k : String} (h : targetSection k tgt = some to) (n : String) :
    lookup n to = resourceOf tgt k n := by
  simp only [targetSection] at h
  simp only [resourceOf]
  split at h
  · cases h; rename_i hl; simp [hl, lookup]
  · cases h; rename_i hl; simp [hl, lookup]
  · cases h; rename_i hl; simp [hl]
  · cases h

/-- one section after a successful import: own definition first, else the imported one -/
theorem importResource_resource {src tgt r : KVs} {k : String} (h : importResource S src tgt k = .ok r) (n : String) :
    resourceOf r k n = match resourceOf tgt k n with
      | some v => some v
      | none => resourceOf src k n := by
  simp only [importResource] at h
  split at h
  · rename_i hs; cases h
    have hsn : resourceOf src k n = none := by simp only [resourceOf, hs]
    rw [hsn]; cases resourceOf tgt k n <;> rfl
  · rename_i hs; cases h
    have hsn : resourceOf src k n = none := by simp only [resourceOf, hs]
    rw [hsn]; cases resourceOf tgt k n <;> rfl
  · rename_i hs1 hs2
    split at h
    · cases h
    · rename_i to hto
      split at h
      · rename_i f
        obtain ⟨to', h1, h2⟩ := bind_eq_ok h
        cases h2
        have hr : resourceOf (Val.insert k (.map to') tgt) k n = lookup n to' := by
          simp only [resourceOf, lookup_insert_self]
        have hsrc : resourceOf src k n = lookup n f := by
          simp only [resourceOf, hs2]
        rw [hr, importEntries_lookup f to to' h1 n, targetSection_lookup hto n, hsrc]
      · cases h

end CV.Include

namespace CV.Include
open CV CV.Val

variable {s : Val → Val → Bool} {S : String → Val → Val → Bool}

theorem importKinds_paste (src : KVs) :
    ∀ (ks : List String) (tgt r : KVs), ks.Nodup → importKinds S src ks tgt = .ok r →
      (∀ k, k ∈ ks → ∀ n, resourceOf r k n = match resourceOf tgt k n with
          | some v => some v
          | none => resourceOf src k n) ∧
      (∀ k, k ∉ ks → lookup k r = lookup k tgt)
  | [], tgt, r, _, h => by
    simp only [importKinds] at h; cases h
    exact ⟨fun k hk => absurd hk (List.not_mem_nil), fun _ _ => rfl⟩
  | k0 :: ks, tgt, r, hnd, h => by
    simp only [List.nodup_cons] at hnd
    simp only [importKinds] at h
    obtain ⟨r0, h0, h1⟩ := bind_eq_ok h
    obtain ⟨ih1, ih2⟩ := importKinds_paste src ks r0 r hnd.2 h1
    constructor
    · intro k hk n
      rcases List.mem_cons.mp hk with e | hk'
      · subst e
        rw [resourceOf_congr (ih2 k hnd.1) n]
        exact importResource_resource h0 n
      · have hne : k ≠ k0 := by intro e; subst e; exact hnd.1 hk'
        rw [ih1 k hk' n, resourceOf_congr (importResource_frame h0 hne) n]
    · intro k hk
      have hne : k ≠ k0 := by intro e; subst e; exact hk List.mem_cons_self
      have hk' : k ∉ ks := fun hm => hk (List.mem_cons_of_mem _ hm)
      rw [ih2 k hk', importResource_frame h0 hne]

/-- a successful `importResources` is the section-wise union (own definitions first); nothing else moves -/
theorem importResources_paste (src tgt r : KVs) (h : importResources S src tgt = .ok r) :
    (∀ k, k ∈ resourceKinds → ∀ n, resourceOf r k n = match resourceOf tgt k n with
        | some v => some v
        | none => resourceOf src k n) ∧
    (∀ k, k ∉ resourceKinds → lookup k r = lookup k tgt) :=
  importKinds_paste src resourceKinds tgt r (by decide) h

/-- importing the included models one after the other -/
def importAll (S : String → Val → Val → Bool) : List KVs → KVs → Out KVs
  | [], model => .ok model
  | im :: ims, model => (importResources S im model).bind (importAll S ims)

theorem importAll_paste : ∀ (ims : List KVs) (model r : KVs), importAll S ims model = .ok r →
    (∀ k, k ∈ resourceKinds → ∀ n, resourceOf r k n = pastedResource model ims k n) ∧
    (∀ k, k ∉ resourceKinds → lookup k r = lookup k model)
  | [], model, r, h => by
    simp only [importAll] at h; cases h
    refine ⟨fun k _ n => ?_, fun _ _ => rfl⟩
    simp only [pastedResource, firstDef]
    cases hh : resourceOf model k n <;> rfl
  | im :: ims, model, r, h => by
    simp only [importAll] at h
    obtain ⟨m1, h0, h1⟩ := bind_eq_ok h
    obtain ⟨p1, p2⟩ := importResources_paste im model m1 h0
    obtain ⟨q1, q2⟩ := importAll_paste ims m1 r h1
    constructor
    · intro k hk n
      rw [q1 k hk n]
      simp only [pastedResource, firstDef, p1 k hk n]
      cases resourceOf model k n with
      | some v => rfl
      | none => rfl
    · intro k hk; rw [q2 k hk, p2 k hk]

/-- `includeAll` = load every entry on its own, then import the results in order (on success) -/
theorem includeAll_split (W : World) (wd L : String) (env : Env) (chain : List String) :
    ∀ (cfgs : List IncCfg) (model r : KVs), includeAll W wd L env chain cfgs model = .ok r →
      ∃ ims, subLoads W wd L env chain cfgs = .ok ims ∧ importAll (sameResource W (baseDir wd L)) ims model = .ok r
  | [], model, r, h => by
    simp only [includeAll] at h; cases h
    exact ⟨[], rfl, rfl⟩
  | c :: cs, model, r, h => by
    simp only [includeAll, includeOne] at h
    obtain ⟨m1, h0, h1⟩ := bind_eq_ok h
    obtain ⟨pl, hp, h0⟩ := bind_eq_ok h0
    obtain ⟨env', he, h0⟩ := bind_eq_ok h0
    obtain ⟨im, hl, h0⟩ := bind_eq_ok h0
    obtain ⟨ims, hs, hi⟩ := includeAll_split W wd L env chain cs m1 r h1
    refine ⟨im :: ims, ?_, ?_⟩
    · simp only [subLoads, hp, he, hl, hs, bind_ok]
    · simp only [importAll, h0, bind_ok, hi]

/-- **include_eq_paste**: whenever `ApplyInclude` succeeds, the resulting document is the paste of the included
projects as loaded on their own (`subLoads`: own working directory, own layered environment, same pipeline):
for each of the five sections and each name, the including file's own definition if it has one, otherwise the
definition from the first included model that has one; every other top-level key is the including file's, and
`include` is gone.  (With `import_conflict_iff`: a name defined on both sides has equal values.) -/
theorem include_eq_paste (W : World) (wd L : String) (env : Env) (chain : List String) (model r : KVs)
    (h : applyInclude W wd L env chain model = .ok r) :
    ∃ cfgs ims, loadIncludeConfig (lookup "include" model) = .ok cfgs ∧
      subLoads W wd L env chain cfgs = .ok ims ∧
      (∀ k, k ∈ resourceKinds → ∀ n, resourceOf r k n = pastedResource model ims k n) ∧
      (∀ k, k ∉ resourceKinds → k ≠ "include" → lookup k r = lookup k model) ∧
      lookup "include" r = none := by
  simp only [applyInclude] at h
  obtain ⟨cfgs, hc, h⟩ := bind_eq_ok h
  obtain ⟨m, hm, h⟩ := bind_eq_ok h
  cases h
  obtain ⟨ims, hs, hi⟩ := includeAll_split W wd L env chain cfgs model m hm
  obtain ⟨p1, p2⟩ := importAll_paste ims model m hi
  refine ⟨cfgs, ims, hc, hs, ?_, ?_, lookup_erase_self "include" m⟩
  · intro k hk n
    have hne : k ≠ "include" := by intro e; subst e; revert hk; decide
    rw [resourceOf_congr (lookup_erase_ne hne m) n]
    exact p1 k hk n
  · intro k hk hne
    rw [lookup_erase_ne hne m, p2 k hk]

end CV.Include

namespace CV.Include
open CV CV.Val

variable {s : Val → Val → Bool} {S : String → Val → Val → Bool}

/-! ## where a relative `env_file` is looked up (the quirk behind finding `nested-relative-env_file`) -/

/-- a relative path handed to the operating system is resolved against the process working directory -/
theorem osAbs_relative (W : World) (p : String) (h : isAbs p = false) : osAbs W p = join W.cwd p := by
  simp only [osAbs, h, Bool.false_eq_true, if_false]

/-- a relative `env_file` `f` is the file `join wd f`.  `wd` is the `workingDir` argument of `ApplyInclude`: absolute
for the top-level project, but *relative* when the including file is itself included — then (`osAbs_relative`) the
file is searched under the process working directory, not under the including project's directory -/
theorem env_file_relative_lookup (W : World) (wd f : String) (hf : isAbs f = false) :
    envFilesExplicit W wd [f] =
      if statDir W (join wd f) then .err "notFile"
      else if statFile W (join wd f) then .ok [join wd f]
      else .err "statNotFound" := by
  simp only [envFilesExplicit, hf, Bool.false_eq_true, if_false]
  split
  · rfl
  · split <;> rfl

/-- an absolute `env_file` is taken as it is (its existence is `GetEnvFromFile`'s business) -/
theorem env_file_absolute (W : World) (wd f : String) (hf : isAbs f = true) :
    envFilesExplicit W wd [f] = .ok [f] := by
  simp only [envFilesExplicit, hf, if_true, bind_ok]

end CV.Include

namespace CV.Include
open CV CV.Val

variable {s : Val → Val → Bool} {S : String → Val → Val → Bool}

/-! ## nested includes: the result depends on the sub-load only through its answers -/

/-- `W` with another sub-load -/
def World.withLoad (W : World) (lm : String → String → List String → Env → List String → Out KVs) : World :=
  { W with loadModel := lm }

theorem envFilesExplicit_withLoad (W : World) (lm : String → String → List String → Env → List String → Out KVs)
    (wd : String) : ∀ ef, envFilesExplicit (W.withLoad lm) wd ef = envFilesExplicit W wd ef
  | [] => rfl
  | f :: rest => by
    have hd : ∀ p, statDir (W.withLoad lm) p = statDir W p := fun _ => rfl
    have hf : ∀ p, statFile (W.withLoad lm) p = statFile W p := fun _ => rfl
    simp only [envFilesExplicit, hd, hf, envFilesExplicit_withLoad W lm wd rest]

theorem includeEnv_withLoad (W : World) (lm : String → String → List String → Env → List String → Out KVs)
    (wd pd : String) (env : Env) (ef : List String) :
    includeEnv (W.withLoad lm) wd pd env ef = includeEnv W wd pd env ef := by
  have hf : ∀ p, statFile (W.withLoad lm) p = statFile W p := fun _ => rfl
  have he : (W.withLoad lm).envFromFile = W.envFromFile := rfl
  cases ef with
  | nil => simp only [includeEnv, envFiles, hf, he]
  | cons f rest => simp only [includeEnv, envFiles, envFilesExplicit_withLoad, he]

theorem includeAll_mono (W : World) (lm : String → String → List String → Env → List String → Out KVs)
    (hle : ∀ a b c d e r, W.loadModel a b c d e = .ok r → lm a b c d e = .ok r)
    (wd L : String) (env : Env) (chain : List String) :
    ∀ (cfgs : List IncCfg) (model r : KVs), includeAll W wd L env chain cfgs model = .ok r →
      includeAll (W.withLoad lm) wd L env chain cfgs model = .ok r
  | [], model, r, h => h
  | c :: cs, model, r, h => by
    simp only [includeAll, includeOne] at h ⊢
    obtain ⟨m1, h0, h1⟩ := bind_eq_ok h
    obtain ⟨pl, hp, h0⟩ := bind_eq_ok h0
    obtain ⟨env', he, h0⟩ := bind_eq_ok h0
    obtain ⟨im, hl, h0⟩ := bind_eq_ok h0
    have hp' : plan (W.withLoad lm) (baseDir wd L) L chain c = .ok pl := hp
    have he' : includeEnv (W.withLoad lm) (baseDir wd L) pl.projDir env c.envFile = .ok env' := by
      rw [includeEnv_withLoad]; exact he
    have hl' : (W.withLoad lm).loadModel pl.relwd pl.projDir pl.paths env' chain = .ok im := hle _ _ _ _ _ _ hl
    have hs : sameResource (W.withLoad lm) (baseDir wd L) = sameResource W (baseDir wd L) := rfl
    simp only [hp', he', hl', hs, h0, bind_ok]
    exact includeAll_mono W lm hle wd L env chain cs m1 r h1

/-- **include_nested_mono**: if `ApplyInclude` succeeds with some sub-load, it succeeds with the same result with any
sub-load that answers at least as much (e.g. one that allows deeper nesting): nested includes compose level by level -/
theorem include_nested_mono (W : World) (lm : String → String → List String → Env → List String → Out KVs)
    (hle : ∀ a b c d e r, W.loadModel a b c d e = .ok r → lm a b c d e = .ok r)
    (wd L : String) (env : Env) (chain : List String) (model r : KVs)
    (h : applyInclude W wd L env chain model = .ok r) :
    applyInclude (W.withLoad lm) wd L env chain model = .ok r := by
  simp only [applyInclude] at h ⊢
  obtain ⟨cfgs, hc, h⟩ := bind_eq_ok h
  obtain ⟨m, hm, h⟩ := bind_eq_ok h
  simp only [hc, bind_ok, includeAll_mono W lm hle wd L env chain cfgs model m hm]
  exact h

end CV.Include

namespace CV.Include
open CV CV.Val

/-! ## `sameResource` (the test used inside `ApplyInclude` since fix 38d282a) -/

/-- a definition is the same as itself -/
theorem sameResource_refl (W : World) (base k : String) (a : Val) : sameResource W base k a a = true := by
  simp [sameResource, veq_refl]

/-- deeply equal definitions are the same -/
theorem sameResource_of_eq (W : World) (base k : String) (a c : Val) (h : a = c) : sameResource W base k a c = true := by
  subst h; exact sameResource_refl W base k a

/-- **identical after resolution ⇒ accepted**: two definitions whose relative paths resolve, against the including
project's directory, to the same resource are the same — the case of one file reached through two include routes -/
theorem sameResource_of_resolved (W : World) (base k : String) (a c x : Val)
    (ha : W.resolveRes base k a = some x) (hc : W.resolveRes base k c = some x) : sameResource W base k a c = true := by
  simp [sameResource, ha, hc, veq_refl]

/-- … and only those: if the definitions are the same, they are equal or their resolved forms are -/
theorem sameResource_iff (W : World) (base k : String) (a c : Val) :
    sameResource W base k a c = true ↔
      a = c ∨ ∃ x, W.resolveRes base k a = some x ∧ W.resolveRes base k c = some x := by
  simp only [sameResource, Bool.or_eq_true, veq_iff]
  constructor
  · rintro (h | h)
    · exact .inl h
    · cases ha : W.resolveRes base k a with
      | none => simp [ha] at h
      | some x =>
        cases hc : W.resolveRes base k c with
        | none => simp [ha, hc] at h
        | some y =>
          simp only [ha, hc, veq_iff] at h
          exact .inr ⟨x, rfl, by rw [h]⟩
  · rintro (h | ⟨x, ha, hc⟩)
    · exact .inl h
    · right; simp [ha, hc, veq_refl]

/-- the same included model imported a second time inside one `ApplyInclude` (two routes) is accepted and changes nothing -/
theorem import_twice_sameResource (W : World) (base k : String) (frm to r : KVs) (hnd : (frm.map Prod.fst).Nodup)
    (h : importEntries (sameResource W base k) frm to = .ok r) : importEntries (sameResource W base k) frm r = .ok r :=
  importEntries_twice frm to r (sameResource_refl W base k) hnd h

end CV.Include

namespace CV.Include
open CV CV.Val

variable {s : Val → Val → Bool} {S : String → Val → Val → Bool}

/-! ## `include.go` has no panic of its own (after fixes 03de7c5 and 53f12a7) -/

/-- the outcome is not a panic -/
def NoPanic {α} (x : Out α) : Prop := ∀ site, x ≠ .panic site

theorem noPanic_ok {α} (a : α) : NoPanic (Out.ok a) := fun _ h => by cases h
theorem noPanic_err {α} (e : String) : NoPanic (Out.err e : Out α) := fun _ h => by cases h

theorem noPanic_bind {α β} {x : Out α} {f : α → Out β} (hx : NoPanic x) (hf : ∀ a, NoPanic (f a)) :
    NoPanic (x.bind f) := by
  cases x with
  | ok a => exact hf a
  | err e => exact noPanic_err e
  | panic site => exact absurd rfl (hx site)

theorem strList_noPanic (v : Option Val) : NoPanic (strList v) := by
  unfold strList
  split
  · exact noPanic_ok _
  · exact noPanic_ok _
  · exact noPanic_ok _
  · split
    · exact noPanic_ok _
    · exact noPanic_err _
  · exact noPanic_err _

theorem cfgOf_noPanic (v : Val) : NoPanic (cfgOf v) := by
  unfold cfgOf
  split
  · exact noPanic_ok _
  · exact noPanic_ok _
  · rename_i kvs
    have hp := strList_noPanic (lookup "path" kvs)
    split
    · split
      · exact noPanic_bind (strList_noPanic _) (fun _ => noPanic_ok _)
      · exact noPanic_bind (strList_noPanic _) (fun _ => noPanic_ok _)
      · exact noPanic_bind (strList_noPanic _) (fun _ => noPanic_ok _)
      · exact noPanic_err _
    · exact noPanic_err _
    · rename_i site h; exact absurd h (hp site)
  · exact noPanic_err _

theorem cfgsOf_noPanic : ∀ l, NoPanic (cfgsOf l)
  | [] => noPanic_ok _
  | v :: r => by
    simp only [cfgsOf]
    exact noPanic_bind (cfgOf_noPanic v) (fun _ => noPanic_bind (cfgsOf_noPanic r) (fun _ => noPanic_ok _))

theorem loadIncludeConfig_noPanic (v : Option Val) : NoPanic (loadIncludeConfig v) := by
  unfold loadIncludeConfig
  split
  · exact noPanic_ok _
  · exact noPanic_ok _
  · exact cfgsOf_noPanic _
  · exact noPanic_err _

theorem importEntries_noPanic (frm to : KVs) : NoPanic (importEntries s frm to) := by
  rcases importEntries_outcome (s := s) frm to with ⟨r, hr⟩ | hr
  · rw [hr]; exact noPanic_ok _
  · rw [hr]; exact noPanic_err _

theorem importResource_noPanic (src tgt : KVs) (k : String) : NoPanic (importResource S src tgt k) := by
  unfold importResource
  split
  · exact noPanic_ok _
  · exact noPanic_ok _
  · split
    · exact noPanic_err _
    · split
      · exact noPanic_bind (importEntries_noPanic _ _) (fun _ => noPanic_ok _)
      · exact noPanic_err _

theorem importKinds_noPanic (src : KVs) : ∀ ks tgt, NoPanic (importKinds S src ks tgt)
  | [], _ => noPanic_ok _
  | k :: ks, tgt => by
    simp only [importKinds]
    exact noPanic_bind (importResource_noPanic src tgt k) (fun t => importKinds_noPanic src ks t)

theorem plan_noPanic (W : World) (wd L : String) (chain : List String) (r : IncCfg) : NoPanic (plan W wd L chain r) := by
  unfold plan
  split
  · exact noPanic_ok _
  · simp only
    split
    · exact noPanic_err _
    · exact noPanic_ok _

theorem envFilesExplicit_noPanic (W : World) (wd : String) : ∀ ef, NoPanic (envFilesExplicit W wd ef)
  | [] => noPanic_ok _
  | f :: rest => by
    simp only [envFilesExplicit]
    split
    · exact noPanic_bind (envFilesExplicit_noPanic W wd rest) (fun _ => noPanic_ok _)
    · split
      · exact noPanic_err _
      · split
        · exact noPanic_bind (envFilesExplicit_noPanic W wd rest) (fun _ => noPanic_ok _)
        · exact noPanic_err _

theorem envFiles_noPanic (W : World) (wd pd : String) (ef : List String) : NoPanic (envFiles W wd pd ef) := by
  unfold envFiles
  split
  · exact noPanic_ok _
  · exact envFilesExplicit_noPanic W wd _

/-- **include_never_panics**: whatever the document, the file system and the chain are, `ApplyInclude` does not
panic unless `GetEnvFromFile` or the sub-load does: malformed `include` sections, non-mapping sections on either
side of the import, missing files and cycles are all errors -/
theorem include_never_panics (W : World)
    (henv : ∀ e fs, NoPanic (W.envFromFile e fs)) (hload : ∀ a b c d e, NoPanic (W.loadModel a b c d e))
    (wd L : String) (env : Env) (chain : List String) (model : KVs) :
    NoPanic (applyInclude W wd L env chain model) := by
  have hone : ∀ m r, NoPanic (includeOne W wd L env chain m r) := by
    intro m r
    simp only [includeOne]
    refine noPanic_bind (plan_noPanic _ _ _ _ _) (fun pl => ?_)
    refine noPanic_bind ?_ (fun env' => ?_)
    · simp only [includeEnv]
      exact noPanic_bind (envFiles_noPanic _ _ _ _) (fun efs => noPanic_bind (henv _ _) (fun _ => noPanic_ok _))
    · exact noPanic_bind (hload _ _ _ _ _) (fun im => importKinds_noPanic im _ _)
  have hall : ∀ cfgs m, NoPanic (includeAll W wd L env chain cfgs m) := by
    intro cfgs
    induction cfgs with
    | nil => intro m; exact noPanic_ok _
    | cons r rs ih => intro m; simp only [includeAll]; exact noPanic_bind (hone m r) ih
  simp only [applyInclude]
  exact noPanic_bind (loadIncludeConfig_noPanic _) (fun cfgs => noPanic_bind (hall cfgs model) (fun _ => noPanic_ok _))

end CV.Include
