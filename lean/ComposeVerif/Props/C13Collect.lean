import ComposeVerif.Props.C13
import ComposeVerif.Lemmas.TravProj
import ComposeVerif.Lemmas.AuditCmd
/-!
# C13 — the whole of `CollectInDependencyOrder`: project → `newGraph` → `checkCycle` → options → `walk`

`TravProj.plan p inverse maxc after` (`Model/TravProj.lean`) is what `graph.CollectInDependencyOrder(ctx, project, fn,
options…)` does with a project: refuse it (`newGraph` error / cycle: no visit), return at once (no enabled service), or
run the transition system `Trav.step? g lim` on the graph `graphOf` with the direction (`InReverseOrder`), the root
selection (`WithRootNodesAndDown`) and the limit (`WithMaxConcurrency`) folded in.

The theorems below compose the stage theorems of `Props/C13.lean` into statements **about the project's `depends_on`
relation** (`depAdj p`: each service's dependencies that are enabled services) — for every project whose service names
are distinct (they are the keys of a Go map), every option combination, every schedule.
-/
namespace CV.TravProj
open CV.DepGraph CV.Trav

/-- **what is done with a project**: exactly one of — refused with the class `newGraph`/`checkCycle` report (never
"ok"); nothing to do; `walk` on `graphOf` of the adjacency `newGraph` built, under the limit `limitOf maxc`. -/
theorem collect_plan (p : Proj) (inverse : Bool) (maxc : Int) (after : List Name) :
    (∃ cls, plan p inverse maxc after = .refused cls ∧ (run p).cls = cls ∧ cls ≠ "ok") ∨
    (plan p inverse maxc after = .empty ∧ (run p).cls = "ok" ∧ p.services = []) ∨
    (plan p inverse maxc after = .walk (graphOf (names p) (adjP p) inverse after) (limitOf maxc) ∧
      (run p).cls = "ok" ∧ names p ≠ [] ∧ checkCycle (names p) (depAdj p) = false) :=
  plan_cases p inverse maxc after

/-- **a cyclic project is refused before any visit**, whatever the options: the plan is `refused` — no transition system
is started, no visitor can be entered. -/
theorem collect_refuses_cycle (p : Proj) (v : Name) (hv : v ∈ names p) (n : Nat) (h : Reaches (depAdj p) n v v)
    (inverse : Bool) (maxc : Int) (after : List Name) : ∃ cls, plan p inverse maxc after = .refused cls := by
  have hno := cyclic_project_refused_lemma p v hv n h
  rcases plan_cases p inverse maxc after with ⟨cls, hp, _, _⟩ | ⟨_, hok, _⟩ | ⟨_, hok, _⟩
  · exact ⟨cls, hp⟩
  · exact absurd hok hno
  · exact absurd hok hno

/-- **the graph handed to `walk` is the project's dependency graph and satisfies the hypothesis of all traversal
theorems**: vertices = the enabled services; prerequisites = dependencies (forward) / dependents (reverse), in both
directions of the equivalence; the visitor is wanted exactly for the roots and whatever transitively depends on one; a
positive `maxc` is the limit and it is ≥ 1. -/
theorem collect_walk_graph (p : Proj) (hnd : (names p).Nodup) (inverse : Bool) (maxc : Int) (after : List Name)
    {g : Graph} {lim : Option Nat} (h : plan p inverse maxc after = .walk g lim) :
    GraphOK g ∧ g.verts = names p ∧
    (∀ v d, d ∈ g.pre v ↔ if inverse then v ∈ depAdj p d else d ∈ depAdj p v) ∧
    (∀ v d, d ∈ g.post v ↔ if inverse then d ∈ depAdj p v else v ∈ depAdj p d) ∧
    (∀ v ∈ names p, g.skip v = false ↔ after = [] ∨ v ∈ after ∨ ∃ r ∈ after, ∃ n, Reaches (depAdj p) n v r) ∧
    lim = limitOf maxc ∧ (∀ n, lim = some n → 1 ≤ n ∧ (n : Int) = maxc) := by
  rcases plan_cases p inverse maxc after with ⟨cls, hp, _, _⟩ | ⟨hp, _, _⟩ | ⟨hp, _, hne, hc⟩
  · rw [hp] at h; cases h
  · rw [hp] at h; cases h
  · rw [hp] at h
    injection h with hg hl
    subst hg; subst hl
    refine ⟨graphOf_ok p hnd hne hc inverse after, rfl, ?_, ?_, ?_, rfl, ?_⟩
    · intro v d
      cases inverse with
      | false => simp [graphOf, children_adjP]
      | true => simp only [graphOf, if_true]; exact mem_parents_iff p hnd v d
    · intro v d
      cases inverse with
      | false => simp only [graphOf, Bool.false_eq_true, if_false]; exact mem_parents_iff p hnd v d
      | true => simp [graphOf, children_adjP]
    · intro v hv
      have hacyc : ∀ u ∈ names p, ∀ n, ¬ Reaches (depAdj p) n u u := by
        intro u hu n hn
        have := checkCycle_complete (depAdj p) (names p) (depAdj_closed p) u hu n hn
        rw [hc] at this; cases this
      simp only [graphOf, children_adjP]
      exact roots_select_dependents (depAdj p) (names p) after v (depAdj_closed p) hacyc hv
    · intro n hn
      unfold limitOf at hn
      split at hn
      · injection hn with hn
        subst hn
        omega
      · cases hn

/-- **forward walk: after dependencies.**  Whenever the visitor of service `v` is entered, the visitor of every service
`d` that `v` depends on (and that is visited at all) has already returned. -/
theorem collect_forward_after_dependencies (p : Proj) (hnd : (names p).Nodup) (maxc : Int) (after : List Name)
    {g : Graph} {lim : Option Nat} (h : plan p false maxc after = .walk g lim) {s : St} (hr : Reach g lim s)
    (l1 l2 : List Ev) (v : V) (hlog : s.log = l1 ++ Ev.start v :: l2) :
    ∀ d ∈ depAdj p v, g.skip d = false → d ∈ finishes l2 := by
  have ⟨hg, _, hpre, _⟩ := collect_walk_graph p hnd false maxc after h
  intro d hd
  exact after_deps hg hr l1 l2 v hlog d ((hpre v d).mpr (by simpa using hd))

/-- **reverse walk: after dependents.**  Whenever the visitor of service `v` is entered in reverse mode, the visitor of
every service `d` that depends on `v` (and that is visited at all) has already returned. -/
theorem collect_reverse_after_dependents (p : Proj) (hnd : (names p).Nodup) (maxc : Int) (after : List Name)
    {g : Graph} {lim : Option Nat} (h : plan p true maxc after = .walk g lim) {s : St} (hr : Reach g lim s)
    (l1 l2 : List Ev) (v : V) (hlog : s.log = l1 ++ Ev.start v :: l2) :
    ∀ d, v ∈ depAdj p d → g.skip d = false → d ∈ finishes l2 := by
  have ⟨hg, _, hpre, _⟩ := collect_walk_graph p hnd true maxc after h
  intro d hd
  exact after_deps hg hr l1 l2 v hlog d ((hpre v d).mpr (by simpa using hd))

/-- **once each, on success**: when the walk of the project has returned nil (caller did not cancel), the visitor was
entered exactly once for each enabled service when no roots were given, otherwise exactly once for each root and each
service that transitively depends on one — and for no other service. -/
theorem collect_success_visits_selected (p : Proj) (hnd : (names p).Nodup) (inverse : Bool) (maxc : Int)
    (after : List Name) {g : Graph} {lim : Option Nat} (h : plan p inverse maxc after = .walk g lim) {s : St}
    (hr : Reach g lim s) (ht : terminal s) (hok : s.firstErr = none) (hext : s.extCancelled = false) :
    ∀ v ∈ names p,
      ((after = [] ∨ v ∈ after ∨ ∃ r ∈ after, ∃ n, Reaches (depAdj p) n v r) → (starts s.log).count v = 1) ∧
      (¬ (after = [] ∨ v ∈ after ∨ ∃ r ∈ after, ∃ n, Reaches (depAdj p) n v r) → (starts s.log).count v = 0) := by
  have ⟨hg, hverts, _, _, hskip, _⟩ := collect_walk_graph p hnd inverse maxc after h
  intro v hv
  have hc := (exact_counts_on_success hg hr ht hok hext v (hverts ▸ hv)).1
  have hiff := hskip v hv
  constructor
  · intro hx
    rw [hc, hiff.mpr hx]; rfl
  · intro hx
    cases hk : g.skip v with
    | true => rw [hc, hk]; rfl
    | false => exact absurd (hiff.mp hk) hx

/-- **bounded**: under `WithMaxConcurrency(maxc)`, `maxc > 0`, never more than `maxc` visitors run at once. -/
theorem collect_bounded (p : Proj) (hnd : (names p).Nodup) (inverse : Bool) (maxc : Int) (hpos : maxc > 0)
    (after : List Name) {g : Graph} {lim : Option Nat} (h : plan p inverse maxc after = .walk g lim) {s : St}
    (hr : Reach g lim s) : (running s : Int) ≤ maxc := by
  have ⟨hg, _, _, _, _, hlim, _⟩ := collect_walk_graph p hnd inverse maxc after h
  have hl : lim = some maxc.toNat := by rw [hlim]; simp [limitOf, hpos]
  subst hl
  have := bounded hg hr
  omega

/-- **live**: the walk of an accepted project never waits for anything but a visitor, every schedule is finite, and
from every reachable state it can be completed — for every option combination (the side condition "limit ≥ 1" of the
LTS theorems is discharged by `limitOf`). -/
theorem collect_live (p : Proj) (hnd : (names p).Nodup) (inverse : Bool) (maxc : Int) (after : List Name)
    {g : Graph} {lim : Option Nat} (h : plan p inverse maxc after = .walk g lim) {s : St} (hr : Reach g lim s) :
    (terminal s ∨ (∃ l s', internal l = true ∧ step? g lim s l = some s') ∨
      (∃ v, wpc s.workers v = some .running ∧ ∀ e, ∃ s', step? g lim s (.wReturn v e) = some s')) ∧
    (∀ ls s', runL g lim s ls = some s' → ls.length + mu g s' ≤ mu g s) ∧
    (∃ ls s', runL g lim s ls = some s' ∧ terminal s' ∧ ls.length ≤ mu g s ∧ ls.all calm = true) := by
  have ⟨hg, _, _, _, _, _, hl⟩ := collect_walk_graph p hnd inverse maxc after h
  have hl' : ∀ n, lim = some n → 1 ≤ n := fun n hn => (hl n hn).1
  exact ⟨progress_internal hg hl' hr, fun ls s' hrun => terminates hg hr ls hrun, every_state_can_finish hg hl' hr⟩

/-- **result**: when the walk of the project has returned, every entered visitor has returned, and the result is nil
iff no visitor failed (otherwise the first failing visit handed to the errgroup). -/
theorem collect_result (p : Proj) (hnd : (names p).Nodup) (inverse : Bool) (maxc : Int) (after : List Name)
    {g : Graph} {lim : Option Nat} (h : plan p inverse maxc after = .walk g lim) {s : St} (hr : Reach g lim s)
    (ht : terminal s) :
    (∀ v ∈ starts s.log, v ∈ finishes s.log) ∧ (s.firstErr = none ↔ ∀ v, Ev.finish v true ∉ s.log) ∧
    s.firstErr = s.errExits.getLast? := by
  have ⟨hg, _⟩ := collect_walk_graph p hnd inverse maxc after h
  exact ⟨returns_after_all_visits hg hr ht, (outcome_on_return hg hr ht).2, (result_first_error hg hr).1⟩

/-- **acceptance, without reference to any iteration order**: a project is accepted (`newGraph` and `checkCycle` return
nil, `walk` is reached) iff every *required* dependency names an enabled service and the dependency graph has no closed
walk.  Both sides of the right-hand statement are about membership only, so every iteration order of `project.Services`
and of each `depends_on` map gives the same answer. -/
theorem project_accepted_iff (p : Proj) :
    (run p).cls = "ok" ↔
      (∀ s ∈ p.services, ∀ d ∈ s.deps, d.required = true → d.name ∈ names p) ∧
      (∀ v ∈ names p, ∀ n, ¬ Reaches (depAdj p) n v v) :=
  accepted_iff_lemma p

/-- **the dependency graph, without reference to any iteration order**: `c` is a dependency of `v` in the graph handed
to `walk` iff some service named `v` lists `c` in its `depends_on` and `c` is an enabled service (required or not). -/
theorem dependency_graph_order_free (p : Proj) (hnd : (names p).Nodup) (v c : Name) :
    c ∈ depAdj p v ↔ ∃ s ∈ p.services, s.name = v ∧ (∃ d ∈ s.deps, d.name = c) ∧ c ∈ names p :=
  mem_depAdj_iff p hnd v c

/-- **every iteration order of the Go maps gives the same verdict and the same graph**: two renderings of the same
project (`SameMaps`: same services by name, same `depends_on` entries, any order) are accepted or refused together, and
`c` is a dependency of `v` in the one graph iff it is in the other.  With `collect_walk_graph` (which describes `pre`,
`post`, `skip` through `depAdj` only) the whole traversal plan is independent of map iteration order. -/
theorem collect_order_independent (p q : Proj) (hp : (names p).Nodup) (hq : (names q).Nodup) (h : SameMaps p q) :
    ((run p).cls = "ok" ↔ (run q).cls = "ok") ∧ (∀ v c, c ∈ depAdj p v ↔ c ∈ depAdj q v) :=
  ⟨⟨accepted_sub hp hq h, accepted_sub hq hp h.symm⟩,
   fun v c => ⟨h.depAdj_sub hp hq v c, h.symm.depAdj_sub hq hp v c⟩⟩

/-- non-vacuity: the chain written in another order (services reversed, a `depends_on` permuted) is the same project -/
example : SameMaps ⟨[⟨0, []⟩, ⟨1, [⟨0, true⟩, ⟨9, false⟩]⟩], []⟩ ⟨[⟨1, [⟨9, false⟩, ⟨0, true⟩]⟩, ⟨0, []⟩], []⟩ := by
  refine ⟨?_, ?_⟩ <;> simp <;> (intro d; exact Or.comm)

/-! ### non-vacuity -/

/-- web(2) → api(1) → db(0), plus an optional dependency of db on a service that is not enabled -/
def chain3 : Proj := ⟨[⟨0, [⟨9, false⟩]⟩, ⟨1, [⟨0, true⟩]⟩, ⟨2, [⟨1, true⟩]⟩], []⟩

/-- the hypotheses are satisfiable: distinct names, plan = walk, in both directions, with roots and a limit -/
example : (names chain3).Nodup ∧
    (match plan chain3 false 2 [1] with
     | .walk g lim => (g.verts, g.verts.map g.pre, g.verts.map g.post, g.verts.map g.skip, extremities g, lim)
         == ([0, 1, 2], [[], [0], [1]], [[1], [2], []], [true, false, false], [0], some 2)
     | _ => false) = true ∧
    (match plan chain3 true (-3) [] with
     | .walk g lim => (g.verts.map g.pre, g.verts.map g.post, g.verts.map g.skip, extremities g, lim)
         == ([[1], [2], []], [[], [0], [1]], [false, false, false], [2], none)
     | _ => false) = true := by decide

/-- refused / empty plans exist as well: a cycle behind a service that sorts first, a required dependency on a disabled
service, an unknown one, a project without services -/
example : (match plan ⟨[⟨0, [⟨1, true⟩]⟩, ⟨1, [⟨2, true⟩]⟩, ⟨2, [⟨1, true⟩]⟩], []⟩ false 0 [] with
           | .refused c => c | _ => "") = "cycle" ∧
          (match plan ⟨[⟨0, [⟨7, true⟩]⟩], [7]⟩ true 1 [] with | .refused c => c | _ => "") = "disabled" ∧
          (match plan ⟨[⟨0, [⟨7, true⟩]⟩], []⟩ true 1 [0] with | .refused c => c | _ => "") = "unknown" ∧
          (match plan ⟨[], [3]⟩ false 1 [5] with | .empty => true | _ => false) = true := by decide

end CV.TravProj
