import ComposeVerif.Lemmas.SecretsOrder
/-!
# C20 — Go's iteration order over the keys of one resource object (round 5)

The section level is `load_section_order_independent` (`Props/C20.lean`).  Here: the raw-tree stages on one object.
Property theorems only; lemmas in `Lemmas/SecretsOrder.lean`.
-/
namespace CV.Secrets
open CV CV.Val

/-- **the resolution does not depend on the order of the keys of a resource object**: two objects with the same
(distinct) keys and values in a different order are resolved to objects that are permutations of one another
(and the result again has distinct keys, so the statement composes with the next stage) -/
theorem resolve_object_order_independent (c : String) (env : Env) {a b : KVs} (h : a.Perm b) (hn : KeysNodup a) :
    ∃ a' b', resolveObj c env (.map a) = .map a' ∧ resolveObj c env (.map b) = .map b' ∧ a'.Perm b' ∧ KeysNodup a' := by
  rw [resolveObj_map_eq c env a, resolveObj_map_eq c env b, ← lookup_perm (k := "environment") h hn]
  cases he : Val.lookup "environment" a with
  | none => exact ⟨a, b, rfl, rfl, h, hn⟩
  | some x =>
    cases x with
    | str e =>
      simp only
      by_cases hee : e = ""
      · simp only [if_pos hee]; exact ⟨a, b, rfl, rfl, h, hn⟩
      · simp only [if_neg hee]
        cases hv : env.lookup e with
        | none => exact ⟨a, b, rfl, rfl, h, hn⟩
        | some found => exact ⟨_, _, rfl, rfl, insert_perm c _ h hn, KeysNodup_insert c _ hn⟩
    | _ => exact ⟨a, b, rfl, rfl, h, hn⟩
/-- `setNameFromKey` on one resource does not depend on the order of its keys either -/
theorem setName_object_order_independent (pname key : String) {a b : KVs} (h : a.Perm b) (hn : KeysNodup a) :
    (setNameKVs pname key a).Perm (setNameKVs pname key b) ∧ KeysNodup (setNameKVs pname key a) := by
  have hnil : nameIsNil a = nameIsNil b := by simp only [nameIsNil, lookup_perm (k := "name") h hn]
  have hext : isExternal a = isExternal b := by simp only [isExternal, lookup_perm (k := "external") h hn]
  unfold setNameKVs
  rw [← hnil, ← hext]
  split
  · exact ⟨insert_perm _ _ h hn, KeysNodup_insert _ _ hn⟩
  · exact ⟨h, hn⟩

/-- **order independence inside one resource object, the raw-tree stages (partial)**: resolution then naming of one
resource give permuted objects with distinct keys for permuted inputs.  The full statement — the *typed* object is the
same up to a permutation of `labels`, `driver_opts` and `extensions` — also needs `processExtensions`, the hook and the
struct decode (they read look-ups only, except `keysInDomain` and the extension / label mappings whose order is
inherited); not proved, see design/C20.md -/
theorem resource_object_order_independent_partial (c : String) (env : Env) (pname key : String) {a b : KVs} (h : a.Perm b) (hn : KeysNodup a) :
    ∃ a' b', resolveObj c env (.map a) = .map a' ∧ resolveObj c env (.map b) = .map b' ∧
      (setNameKVs pname key a').Perm (setNameKVs pname key b') ∧ KeysNodup (setNameKVs pname key a') := by
  obtain ⟨a', b', ha, hb, hp, hn'⟩ := resolve_object_order_independent c env h hn
  exact ⟨a', b', ha, hb, setName_object_order_independent pname key hp hn'⟩

/-- **the typed secret / config does not depend on the order of the keys of the raw object handed to the decode**:
`secretConfigDecoderHook` maps permuted objects (distinct keys) to permuted objects, and the struct decode reads look-ups
only (plus a test over all keys) -/
theorem decode_object_order_independent {a b : KVs} (h : a.Perm b) (hn : KeysNodup a) :
    decodeSecret (.map a) = decodeSecret (.map b) ∧ decodeConfig (.map a) = decodeConfig (.map b) :=
  ⟨decodeSecret_perm h hn, decodeConfig_perm h hn⟩

/-- non-vacuity: two orders of the same object -/
example : KeysNodup [("environment", Val.str "E"), ("x-a", .int 1), ("labels", .map [])] ∧
    [("environment", Val.str "E"), ("x-a", .int 1), ("labels", .map [])].Perm [("labels", .map []), ("environment", .str "E"), ("x-a", .int 1)] := by
  refine ⟨by simp [KeysNodup], ?_⟩
  exact ((List.Perm.swap _ _ _).trans (List.Perm.cons _ (List.Perm.swap _ _ _))).symm

end CV.Secrets
