import ComposeVerif.Lemmas.PathsSymlink
import ComposeVerif.Lemmas.AuditCmd
/-!
# C12 — develop.watch paths through symbolic links: the repaired `ResolveSymbolicLink` is a projection

`Model/PathsSymlink.lean`: a path is its list of components, the file system a link table (`Lstat` says link +
what `EvalSymlinks` answers).  The model is tied to `utils.ResolveSymbolicLink` on real link trees by the check
`c12.symlink` (the table is read off the temp directory).  `Physical fs` is the one fact about the OS the theorems use:
`EvalSymlinks` returns a path none of whose prefixes is a symbolic link.
-/
namespace CV.Paths.Sym

/-- the result of the repaired loop contains no symbolic link any more (every component was looked at: the bound
"once per component of the original path" is enough) -/
theorem resolve_symlinks_linkfree (fs : FS) (hph : Physical fs) (p r : P) (h : resolveSym fs p = .ok r) :
    LinkFree fs r :=
  loop_linkFree fs hph p.length [] p r (by intro k h1 h2; simp at h2; omega) (Nat.le_refl _) (by simpa [resolveSym] using h)

/-- **`resolve_symlinks_idem`**: resolving a resolved path changes nothing — the hypothesis `IdemOK.sym` of
`resolve_idem` (Props/C12.lean) holds for the repaired function -/
theorem resolve_symlinks_idem (fs : FS) (hph : Physical fs) (p r : P) (h : resolveSym fs p = .ok r) :
    resolveSym fs r = .ok r :=
  loop_of_linkFree fs r (resolve_symlinks_linkfree fs hph p r h) r.length

/-- a path without symbolic links is left alone -/
theorem resolve_symlinks_frame (fs : FS) (p : P) (h : LinkFree fs p) : resolveSym fs p = .ok p :=
  loop_of_linkFree fs p h p.length

/-- non-vacuity and the nested case of the round-1 finding: `a → b`, `b/c → d`; `a/c/x` becomes `d/x` in one call -/
example : resolveSym (ofTable [([['a']], some [['b']]), ([['b'], ['c']], some [['d']])]) [['a'], ['c'], ['x']]
    = .ok [['d'], ['x']] := by decide

/-- a link whose evaluation fails is an error, not a path -/
example : resolveSym (ofTable [([['l']], none)]) [['l'], ['x']] = .err := by decide

end CV.Paths.Sym
