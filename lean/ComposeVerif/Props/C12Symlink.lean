import ComposeVerif.Lemmas.PathsSymlink
import ComposeVerif.Lemmas.PathsSymStr
import ComposeVerif.Lemmas.AuditCmd
/-!
# C12 — develop.watch paths through symbolic links: the repaired `ResolveSymbolicLink` is a projection

`Model/PathsSymlink.lean`: a path is its list of components, the file system a link table (`Lstat` says link +
what `EvalSymlinks` answers).  The model is tied to `utils.ResolveSymbolicLink` on real link trees by the check
`c12.symlink` (the table is read off the temp directory).  `Physical fs` is the one fact about the OS the theorems use:
`EvalSymlinks` returns a path none of whose prefixes is a symbolic link.
-/
namespace CV.Paths.Sym

/-- the result of the repaired loop contains no symbolic link any more (every component was looked at: the bound
"once per component of the original path" is enough) -/
theorem resolve_symlinks_linkfree (fs : FS) (hph : Physical fs) (p r : P) (h : resolveSym fs p = .ok r) :
    LinkFree fs r :=
  loop_linkFree fs hph p.length [] p r (by intro k h1 h2; simp at h2; omega) (Nat.le_refl _) (by simpa [resolveSym] using h)

/-- **`resolve_symlinks_idem`**: resolving a resolved path changes nothing — the hypothesis `IdemOK.sym` of
`resolve_idem` (Props/C12.lean) holds for the repaired function -/
theorem resolve_symlinks_idem (fs : FS) (hph : Physical fs) (p r : P) (h : resolveSym fs p = .ok r) :
    resolveSym fs r = .ok r :=
  loop_of_linkFree fs r (resolve_symlinks_linkfree fs hph p r h) r.length

/-- a path without symbolic links is left alone -/
theorem resolve_symlinks_frame (fs : FS) (p : P) (h : LinkFree fs p) : resolveSym fs p = .ok p :=
  loop_of_linkFree fs p h p.length

/-- non-vacuity and the nested case of the round-1 finding: `a → b`, `b/c → d`; `a/c/x` becomes `d/x` in one call -/
example : resolveSym (ofTable [([['a']], some [['b']]), ([['b'], ['c']], some [['d']])]) [['a'], ['c'], ['x']]
    = .ok [['d'], ['x']] := by decide

/-- a link whose evaluation fails is an error, not a path -/
example : resolveSym (ofTable [([['l']], none)]) [['l'], ['x']] = .err := by decide

/-! ## round 5: the link-table model *inside* the resolver model — trees with symbolic links

`Sym.resolveStr fs` is `utils.ResolveSymbolicLink` on strings: a relative path is returned as it is (repair of round 5:
before it `getSymbolinkLink` looked the components of a relative first-stage result up from the working directory of
the process — `Neg.compose_failed_cwd_symlink`), an absolute path is resolved on its components by the repaired loop.
`cfgOf fs W home` is the resolver configuration with `sym := resolveStr fs`. -/

/-- a relative path — what the first resolution stage of an included / extended file produces — is not looked up -/
theorem symlink_relative_untouched (fs : FS) (s : Str) (h : isAbs s = false) : resolveStr fs s = some s := by
  simp [resolveStr, h]

/-- on an absolute path the answer is absolute and a fixpoint (string level; `Physical`: `EvalSymlinks` answers physical
paths, `ProperFS`: its answers consist of proper components) -/
theorem symlink_abs_fixpoint (fs : FS) (hph : Physical fs) (hp : ProperFS fs) (s r : Str) (ha : isAbs s = true)
    (h : resolveStr fs s = some r) : isAbs r = true ∧ resolveStr fs r = some r :=
  (resolveStr_symOK fs hph hp).abs s r ha h

/-- **two-stage = one-stage for every tree, with symbolic links**, for any resolution `sym` that leaves relative paths
alone and sends an absolute path to an absolute fixpoint: resolving against the relative directory `R` and then against
`W` is resolving against `Join(W, R)` — same tree, same error (`resolve_compose_tree` is the case `sym = some`) -/
theorem resolve_compose_tree_sym (home : Option Str) (sym : Str → Option Str) (hs : SymOK sym) (W R : Str)
    (hW : W ≠ []) (hR : R ≠ []) (hRr : isAbs R = false) (hhome : ∀ h, home = some h → h ≠ []) (v v1 : Val)
    (h : resolve ⟨R, home, fun _ => false, sym⟩ v = .ok v1) :
    resolve ⟨W, home, fun _ => false, sym⟩ v1 = resolve ⟨join W R, home, fun _ => false, sym⟩ v :=
  walk_compose _ _ _ _ _ v v1
    ((rowsOK_of_forall _ (composeAt_all_sym home (fun _ => false) sym W R hW hR hRr hs hhome (fun _ => rfl)) _).1 _ v) h

/-- … in particular for the link-table model of the repaired `ResolveSymbolicLink`, any link table -/
theorem resolve_compose_tree_symlinks (fs : FS) (hph : Physical fs) (hp : ProperFS fs) (home : Option Str) (W R : Str)
    (hW : W ≠ []) (hR : R ≠ []) (hRr : isAbs R = false) (hhome : ∀ h, home = some h → h ≠ []) (v v1 : Val)
    (h : resolve (cfgOf fs R home) v = .ok v1) :
    resolve (cfgOf fs W home) v1 = resolve (cfgOf fs (join W R) home) v :=
  resolve_compose_tree_sym home (resolveStr fs) (resolveStr_symOK fs hph hp) W R hW hR hRr hhome v v1 h

/-- the hypothesis `IdemOK` of `resolve_idem` holds for the link-table model: no assumption about `sym` is left -/
theorem idemOK_linktable (fs : FS) (hph : Physical fs) (hp : ProperFS fs) (W : Str) (home : Option Str)
    (hW : isAbs W = true) : IdemOK (cfgOf fs W home) where
  wd := hW
  sym := fun s r h => by
    cases ha : isAbs s with
    | true =>
      obtain ⟨h1, h2⟩ := (resolveStr_symOK fs hph hp).abs s r ha h
      exact ⟨h2, fun _ => h1, fun e => by subst e; simp [isAbs] at ha⟩
    | false =>
      have e := (resolveStr_symOK fs hph hp).rel s ha
      have : r = s := by
        have h' : resolveStr fs s = some r := h
        rw [e] at h'; exact (Option.some.inj h').symm
      subst this
      exact ⟨e, fun hh => by simp at hh, fun e => e⟩

/-- **resolving an already resolved model changes nothing — symbolic links included** (absolute base, any link table) -/
theorem resolve_idem_symlinks (fs : FS) (hph : Physical fs) (hp : ProperFS fs) (W : Str) (home : Option Str)
    (hW : isAbs W = true) (v v' : Val) (h : resolve (cfgOf fs W home) v = .ok v') :
    resolve (cfgOf fs W home) v' = .ok v' :=
  walk_idem _ _ (idemOK_linktable fs hph hp W home hW) _ v v' h

/-- non-vacuity: the one-link table `/l → /t` (`oneLink`) is physical and proper -/
example : Physical oneLink ∧ ProperFS oneLink := by
  refine ⟨fun p t h => ?_, fun p t h c hc => ?_⟩
  · obtain ⟨_, rfl⟩ := oneLink_cases p t h
    intro k h1 h2
    have : k = 1 := by simp at h2; omega
    subst this
    decide
  · obtain ⟨_, rfl⟩ := oneLink_cases p t h
    simp only [List.mem_singleton] at hc
    subst hc
    exact ⟨⟨by decide, by decide, by decide⟩, by decide⟩

/-- `/l/x` is `/t/x`; the relative `l/x` (a first-stage result) is not touched -/
example : resolveStr oneLink ['/', 'l', '/', 'x'] = some ['/', 't', '/', 'x'] ∧
    resolveStr oneLink ['l', '/', 'x'] = some ['l', '/', 'x'] := by decide

end CV.Paths.Sym
