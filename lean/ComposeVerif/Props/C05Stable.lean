import ComposeVerif.Props.C05
import ComposeVerif.Lemmas.ExtendsComplete
/-!
# C05 — the result is stable: nothing but `services` changes, resolving again changes nothing, declaration order is irrelevant

"…and carries no `extends` attribute afterwards": the output of `ApplyExtends` is a fixed point of `ApplyExtends`
(every service is then a chain of length 0), in every visit order, and all other sections of the document are
returned as they were.
-/
namespace CV.Extends
open CV CV.Val

/-- **frame**: `ApplyExtends` rewrites the `services` entry only — every other top-level section is unchanged -/
theorem applyExtends_other_sections_untouched {E : Env} {order : List String} {dict out : KVs}
    (h : applyExtendsOrd E order dict = .ok out) (k : String) (hk : k ≠ "services") :
    lookup k out = lookup k dict := by
  unfold applyExtendsOrd at h
  split at h
  · simp only [Out.ok.injEq] at h; subst h; rfl
  · split at h <;> try cases h
    exact lookup_insert_ne _ _ hk
  · cases h

/-- a document without a `services` section is returned as it is -/
theorem applyExtends_no_services {E : Env} {order : List String} {dict : KVs}
    (h : lookup "services" dict = none) : applyExtendsOrd E order dict = .ok dict := by
  simp [applyExtendsOrd, h]

/-- **fixed point**: running `ApplyExtends` on its own result succeeds — for every visit order, in every environment,
no side condition on the files — and leaves every service as it is -/
theorem applyExtends_idempotent {E : Env} {order order' : List String} {dict out S : KVs}
    (hS : lookup "services" dict = some (.map S)) (hnn : NoNull S) (hfs : NoNullFS E)
    (hord : Visits order S) (h : applyExtendsOrd E order dict = .ok out) :
    ∃ R, lookup "services" out = some (.map R) ∧
      ∀ (_ : Visits order' R), ∃ out' R', applyExtendsOrd E order' out = .ok out' ∧
        lookup "services" out' = some (.map R') ∧ ∀ n, lookup n R' = lookup n R := by
  obtain ⟨R, hR, hshape⟩ := no_extends_left hS hnn hfs hord h
  refine ⟨R, hR, fun hord' => ?_⟩
  have hnnR : NoNull R := by
    intro n hn
    obtain ⟨m, hm, _⟩ := hshape n _ hn
    cases hm
  have hleaf : ∀ n, lookup n R ≠ none → ∃ m, lookup n R = some (.map m) ∧ Flat E R n (.map m) := by
    intro n hn
    cases hv : lookup n R with
    | none => exact absurd hv hn
    | some v =>
      obtain ⟨m, hm, hne⟩ := hshape n v hv
      subst hm
      exact ⟨m, rfl, Flat.leaf hv hne⟩
  have hch : ∀ n, lookup n R ≠ none → ∃ ks v, FlatK E E.mainFile R n ks v ∧ ks.Nodup := by
    intro n hn
    obtain ⟨m, hm, _⟩ := hleaf n hn
    obtain ⟨_, _, hne⟩ := hshape n _ hm
    exact ⟨[], _, FlatK.leaf hm (by
      obtain ⟨m', hm', hne'⟩ := hshape n _ hm
      simp only [Val.map.injEq] at hm'
      subst hm'; exact hne'), List.nodup_nil⟩
  obtain ⟨out', hout'⟩ := acyclic_ok_partial hR hord' hch
  obtain ⟨R', hR', hall⟩ := extends_eq_flatten hR hnnR hfs hord' hout'
  refine ⟨out', R', hout', hR', fun n => ?_⟩
  by_cases hn : lookup n R = none
  · rw [(hall n).1 hn, hn]
  · obtain ⟨v, hv, hf⟩ := (hall n).2 hn
    obtain ⟨m, hm, hfm⟩ := hleaf n hn
    rw [hv, hm, hf.functional hfm]

/-! ## declaration order

The services mapping is an association list; two documents that declare the same services in a different order have
lookup-equal mappings.  Nothing in the result depends on more than that. -/

/-- the flattened form of a service depends on the mapping only through `lookup` -/
theorem Flat.congr {E : Env} {S : KVs} {n : String} {v : Val} (h : Flat E S n v) :
    ∀ T, (∀ k, lookup k T = lookup k S) → Flat E T n v := by
  induction h with
  | leaf h1 h2 => intro T hT; exact Flat.leaf (by rw [hT]; exact h1) h2
  | step h1 h2 h3 h4 h5 h6 ih =>
    rename_i S n svc e ref file S' b m
    intro T hT
    cases file with
    | none =>
      obtain ⟨_, href, hS', _⟩ := baseMap_resolveBase (cf := "") (n := n) h4
      have hS'' := hS' rfl
      subst hS''
      have hb : baseMap E T ref none = some T := by
        cases hl : lookup ref T with
        | none => rw [hT] at hl; exact absurd hl href
        | some x => simp [baseMap, hl]
      exact Flat.step (by rw [hT]; exact h1) h2 h3 hb (ih T hT) h6
    | some f =>
      have hb : baseMap E T ref (some f) = some S' := by simpa [baseMap] using h4
      exact Flat.step (by rw [hT]; exact h1) h2 h3 hb (ih S' (fun _ => rfl)) h6

/-- **declaration order independence**: two documents whose services mappings hold the same services (in any
declaration order), each resolved in any visit order — if the first is accepted so is the second, and every service
resolves to the same value -/
theorem applyExtends_declaration_order {E : Env} {order₁ order₂ : List String} {dict₁ dict₂ out₁ S₁ S₂ : KVs}
    (hS₁ : lookup "services" dict₁ = some (.map S₁)) (hS₂ : lookup "services" dict₂ = some (.map S₂))
    (heq : ∀ k, lookup k S₂ = lookup k S₁)
    (hnn : NoNull S₁) (hfs : NoNullFS E) (hmain : fileServices E.fs E.mainFile = none)
    (h₁ : Visits order₁ S₁) (h₂ : Visits order₂ S₂)
    (r₁ : applyExtendsOrd E order₁ dict₁ = .ok out₁) :
    ∃ out₂ R₁ R₂, applyExtendsOrd E order₂ dict₂ = .ok out₂ ∧
      lookup "services" out₁ = some (.map R₁) ∧ lookup "services" out₂ = some (.map R₂) ∧
      ∀ n, lookup n R₁ = lookup n R₂ := by
  obtain ⟨R₁, hR₁, a₁⟩ := extends_eq_flatten hS₁ hnn hfs h₁ r₁
  have hnn₂ : NoNull S₂ := fun n => by rw [heq]; exact hnn n
  have hflat : ∀ n, lookup n S₂ ≠ none → ∃ v, Flat E S₂ n v := fun n hn => by
    obtain ⟨v, _, hf⟩ := (a₁ n).2 (by rw [← heq]; exact hn)
    exact ⟨v, hf.congr S₂ heq⟩
  obtain ⟨out₂, r₂⟩ := acyclic_ok hS₂ h₂ hmain hflat
  obtain ⟨R₂, hR₂, a₂⟩ := extends_eq_flatten hS₂ hnn₂ hfs h₂ r₂
  refine ⟨out₂, R₁, R₂, r₂, hR₁, hR₂, fun n => ?_⟩
  by_cases hn : lookup n S₁ = none
  · rw [(a₁ n).1 hn, (a₂ n).1 (by rw [heq]; exact hn)]
  · obtain ⟨v, hv, hf⟩ := (a₁ n).2 hn
    obtain ⟨w, hw, hg⟩ := (a₂ n).2 (by rw [heq]; exact hn)
    rw [hv, hw, (hf.congr S₂ heq).functional hg]

/-- non-vacuity: the same two services declared in either order are lookup-equal -/
example : ∀ k, lookup k [("b", Val.str "y"), ("a", Val.str "x")] = lookup k [("a", Val.str "x"), ("b", Val.str "y")] := by
  intro k
  by_cases ha : k = "a"
  · subst ha; simp [Val.lookup]
  · by_cases hb : k = "b"
    · subst hb; simp [Val.lookup]
    · simp [Val.lookup, ha, hb]

end CV.Extends
