import ComposeVerif.Model.Dotenv
import ComposeVerif.Lemmas.Dotenv
import ComposeVerif.Lemmas.DotenvMore
import ComposeVerif.Neg.C18
/-!
# C18 — "an invalid key is an error": the `_partial` statement completed (round 6)

`Neg/C18.lean` refutes `InvalidKeyIsError` with the empty key.  This module shows that the empty key is the ONLY
counterexample: the same statement with `k ≠ []` added is a theorem, with the error class and the (empty) partial map
spelled out.  So `invalid_key_err_partial` is partial exactly by the recorded finding `invalid-key:empty-accepted`.
-/
namespace CV.Dotenv
open CV CV.Template

/-- a word that is not made of key runes only splits at its first character that is not a key rune -/
theorem split_first_nonKey : ∀ k : Str, k.all isKeyRune = false →
    ∃ pre c suf, k = pre ++ c :: suf ∧ pre.all isKeyRune = true ∧ isKeyRune c = false
  | [], h => by simp at h
  | d :: r, h => by
    by_cases hd : isKeyRune d = true
    · have hr : r.all isKeyRune = false := by
        simp only [List.all_cons, hd, Bool.true_and] at h; exact h
      obtain ⟨pre, c, suf, he, hp, hc⟩ := split_first_nonKey r hr
      exact ⟨d :: pre, c, suf, by rw [he]; rfl, by simp only [List.all_cons, hd, hp, Bool.and_self], hc⟩
    · exact ⟨[], d, r, rfl, rfl, by simpa using hd⟩

/-- **`InvalidKeyIsError` for every non-empty key text** (the hypotheses are those of `Neg/C18.lean:InvalidKeyIsError`
    plus `k ≠ []`): a one-word key text — no delimiter, line feed, `#` or white space inside — that contains a
    character outside the key alphabet is the error "unexpected character", whatever follows the `=` and whatever
    the lookup; nothing has been defined. -/
theorem invalid_key_is_error_nonempty (k rest : Str) (lookup : Env) (hne : k ≠ [])
    (hinv : (!k.isEmpty && k.all isKeyRune) = false)
    (hword : k.all (fun c => c != '=' && c != ':' && c != '\n' && c != '#' && !isSpaceU c) = true) :
    parse (k ++ '=' :: rest) lookup = .err .unexpectedChar [] := by
  have hall : k.all isKeyRune = false := by
    cases k with
    | nil => exact absurd rfl hne
    | cons d r => simpa using hinv
  obtain ⟨pre, c, suf, he, hpre, hc⟩ := split_first_nonKey k hall
  subst he
  rw [List.all_eq_true] at hword
  have hw : ∀ x ∈ pre ++ c :: suf, x ≠ '=' ∧ x ≠ ':' ∧ x ≠ '\n' ∧ x ≠ '#' ∧ isSpaceU x = false := by
    intro x hx
    have := hword x hx
    simp only [Bool.and_eq_true, bne_iff_ne, ne_eq, Bool.not_eq_true'] at this
    exact ⟨this.1.1.1.1, this.1.1.1.2, this.1.1.2, this.1.2, this.2⟩
  have nbOf : ∀ x, isSpaceU x = false → isSpaceNB x = false := by
    intro x hx
    cases hnb : isSpaceNB x with
    | false => rfl
    | true => rw [isSpaceNB_isSpaceU hnb] at hx; cases hx
  have hcw := hw c (by simp)
  have hbad : badChar c = true := by
    simp only [badChar, hc, nbOf c hcw.2.2.2.2, Bool.not_false, Bool.true_and, Bool.and_eq_true, bne_iff_ne, ne_eq]
    exact ⟨⟨hcw.1, hcw.2.1⟩, hcw.2.2.1⟩
  have hok : pre.all okChar = true := by
    rw [List.all_eq_true] at hpre ⊢
    intro x hx
    simp only [okChar, hpre x hx, Bool.true_or]
  have hlead : pre.dropWhile isSpaceNB = pre := by
    cases pre with
    | nil => rfl
    | cons d r =>
      have := nbOf d (hw d (by simp)).2.2.2.2
      rw [List.dropWhile_cons_of_neg (by simp [this])]
  have h := parseLoop_badkey_any ((pre ++ c :: suf ++ '=' :: rest).length + 1) [] none pre c (suf ++ '=' :: rest) [] lookup
    rfl rfl hok hlead hbad (Or.inr hcw.2.2.2.1)
  simp only [renderExp, List.nil_append] at h
  unfold parse
  simpa [List.append_assoc] using h

/-- the refuted statement and the proved one side by side: the empty key is the only counterexample -/
theorem invalid_key_only_empty_accepted :
    ¬ InvalidKeyIsError ∧
    ∀ (k rest : Str) (lookup : Env), k ≠ [] →
      (!k.isEmpty && k.all isKeyRune) = false →
      k.all (fun c => c != '=' && c != ':' && c != '\n' && c != '#' && !isSpaceU c) = true →
      ∃ e m, parse (k ++ '=' :: rest) lookup = .err e m :=
  ⟨invalid_key_is_error_false, fun k rest lookup hne hinv hword =>
    ⟨_, _, invalid_key_is_error_nonempty k rest lookup hne hinv hword⟩⟩

/-- non-vacuity: a quote, a dollar sign, a generic code point inside or in front of a key -/
example : parse ['A', '$', 'B', '=', '"'] (fun _ => none) = .err .unexpectedChar [] :=
  invalid_key_is_error_nonempty ['A', '$', 'B'] ['"'] _ (by decide) (by decide) (by decide)
example : parse ['\'', '=', 'x'] (fun _ => none) = .err .unexpectedChar [] :=
  invalid_key_is_error_nonempty ['\''] ['x'] _ (by decide) (by decide) (by decide)
example : parse ['€', '=', 'x'] (fun _ => none) = .err .unexpectedChar [] :=
  invalid_key_is_error_nonempty ['€'] ['x'] _ (by decide) (by decide) (by decide)

end CV.Dotenv
