import ComposeVerif.Props.C20
import ComposeVerif.Lemmas.SecretsContent
/-!
# C20 — rendering with secret content requested: where the value may appear (round 5)

`render_with_content_exact` (`Props/C20.lean`) says the value *is* under `content`; this says it is *nowhere else*.
Property theorems only; lemmas in `Lemmas/SecretsContent.lean`.
-/
namespace CV.Secrets
open CV CV.Val

/-- **rendering with secret content requested (full strength)**: for every model and environment, in both renderers,
the taint of the rendering is confined to the string under the `content` key of a secret — every other key and string of
the `secrets` section and the whole `configs` section are untainted (the oracle's `leak:secret:<r>:elsewhere` and
`leak:config:*` with content requested) -/
theorem render_with_content_confined {P : String → Prop} (hv : VocabOk P)
    {env : Env} {pname : String} {dict : KVs} (hd : AllStrKV P dict)
    (hgs : GenNamesOk P pname "secrets" dict) (hgc : GenNamesOk P pname "configs" dict)
    {p : Proj} (h : load env pname dict = .ok p) (r : Renderer) :
    ∃ secs cfgs, render r true p = .map (sectionKV "secrets" secs ++ sectionKV "configs" cfgs) ∧
      (∀ e ∈ secs, P e.1 ∧ ValOkF P "content" e.2) ∧ AllStrKV P cfgs := by
  unfold load at h
  obtain ⟨ss, hss, h'⟩ := Out.bind_eq_ok.1 h
  obtain ⟨cs, hcs, hp⟩ := Out.bind_eq_ok.1 h'
  cases hp
  have hS := taint_confined_secrets (hv.carriers _ (by decide)) (hv.carriers _ (by decide)) (hv.carriers _ (by decide))
    (hv.vocab _ (by decide)) (hv.vocab _ (by decide)) hv.cut hd hgs hss
  have hC := taint_confined_configs (hv.carriers _ (by decide)) (hv.carriers _ (by decide)) (hv.carriers _ (by decide))
    (hv.vocab _ (by decide)) (hv.vocab _ (by decide)) hv.cut hd hgc hcs
  refine ⟨_, _, rfl, ?_, ?_⟩
  · intro e he
    simp only [applyOpts, if_true, withContent, mapVals, List.map_map, List.mem_map] at he
    obtain ⟨kv, hkv, rfl⟩ := he
    exact ⟨(hS kv hkv).1, ValOkF_renderSecret_flagged hv.vocab (hS kv hkv).2.1 r⟩
  · simp only [applyOpts, if_true, withContent]
    exact AllStrKV_mapVals fun e he => ⟨(hC e he).1, AllStr_renderConfig hv.vocab (hC e he).2.1 (hC e he).2.2 r⟩

/-- non-vacuity on the example model of `Props/C20.lean`: with content requested the canary *is* in both renderings
(so the exemption is used), and the model satisfies the hypotheses (`Props/C20.lean`, `namespace Example`) -/
example : ¬ Clean Example.canary (render .json true Example.proj) ∧ ¬ Clean Example.canary (render .yaml true Example.proj) := by
  decide

end CV.Secrets
