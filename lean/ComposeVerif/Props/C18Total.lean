import ComposeVerif.Model.Dotenv
import ComposeVerif.Model.DotenvSites
import ComposeVerif.Lemmas.Dotenv
import ComposeVerif.Lemmas.DotenvMore
import ComposeVerif.Gen.Dotenv
/-!
# C18 — totality at full strength: every index / slice expression of `dotenv/parser.go` is accounted for (round 6)

`Gen.dotenv_indexSites` is regenerated from the syntax tree of `dotenv/parser.go` on every run.  The theorems
below pin that list to `siteTable` (an added, removed or rewritten index expression is a broken obligation),
show that the table reaches every panic site the model has, and show each site guarded — not only on the path
of `parse`, but for EVERY argument of the stage function that contains it.
-/
namespace CV.Dotenv
open CV CV.Template

/-- the index / slice expressions in the source now are exactly the ones of the table, in source order -/
theorem index_sites_are_modelled : CV.Gen.dotenv_indexSites = siteTable.map Prod.fst := by decide

/-- explicit `panic(…)` calls, single-valued type assertions, divisions and shifts: the source has none -/
theorem no_other_panic_sources : CV.Gen.dotenv_otherPanicSources = [] := by decide

/-- the table is onto the model's own panic sites: every `Site` other than the fuel artefact and a panic of
    `template.Substitute` stands for an expression of the source -/
theorem every_model_site_is_a_source_expression (s : Site) :
    s = .fuel ∨ (∃ p, s = .tmpl p) ∨ Guard.site s ∈ siteTable.map Prod.snd := by
  cases s <;> simp [siteTable]

/-- `getStatementStart`, for EVERY string: none of `src[pos:]`, `src[0]`, `src[pos:]` is out of range and the
    recursion ends within `len(src)+1` calls -/
theorem stmtStart_sites_guarded (src : Str) (s : Site) : stmtStart (src.length + 1) src ≠ .error s := by
  rw [stmtStart_eq _ _ (Nat.lt_succ_self _)]
  intro h; cases h

/-- `locateKeyName`, for EVERY string: `src[0:i]`, `strings.Split(src, "\n")[0]`, `src[offset:]` are in range -/
theorem locateKey_sites_guarded (src : Str) (s : Site) : locateKey src ≠ .error s := by
  rcases locateKey_total src with ⟨e, h⟩ | ⟨k, l, i, h, _⟩ <;> rw [h] <;> intro h' <;> cases h'

/-- `extractVarValue`, for EVERY string, map and lookup: `src[i]`, `src[i+1:]`, `src[:valEndIndex]` are in
    range; the only panic it could pass on is one of `template.Substitute` -/
theorem extractValue_sites_guarded (src : Str) (m : Map) (lk : Env) (s : Site) (h : extractValue src m lk = .error s) :
    ∃ p, s = .tmpl p := by
  rcases extractValue_total src m lk with ⟨p, hx, _⟩ | ⟨e, hx⟩ | ⟨v, l, hx, _⟩ <;> rw [hx] at h <;> cases h
  exact ⟨p, rfl⟩

/-- the quoted-value loop, for EVERY start state with `i + n = len(src)` (the Go loop invariant): `src[i]` is
    in range, and a closing quote is found at an index `k < len(src)`, so that `src[k+1:]` is in range -/
theorem quotedLoop_sites_guarded (q : Char) (src : Str) (n i : Nat) (esc : Bool) (acc : Str) (h : i + n = src.length) :
    quotedLoop q src n i esc acc ≠ .oob ∧
    ∀ chars k, quotedLoop q src n i esc acc = .closed chars k → sliceFrom src (k + 1) ≠ none := by
  obtain ⟨h1, h2⟩ := quotedLoop_inv q src n i esc acc h
  refine ⟨h1, fun chars k hk => ?_⟩
  have := h2 chars k hk
  simp only [sliceFrom]
  rw [if_pos (by omega)]
  intro h'; cases h'

/-- `hasQuotePrefix`, for EVERY string: `src[0]` behind the emptiness test is in range, and the index-style
    function is the pattern-matching `quotePrefix` the model uses -/
theorem quotePrefix_site_guarded (src : Str) : quotePrefixIdx src = some (quotePrefix src) := by
  cases src with
  | nil => rfl
  | cons c r =>
    simp only [quotePrefixIdx, quotePrefix, List.isEmpty_cons, Bool.false_eq_true, if_false,
      List.getElem?_cons_zero]
    split <;> rfl

/-- **Totality, whole parser**: for EVERY string and lookup the outcome is a map or an error with the map so
    far; and for every row of the regenerated table, the site it stands for is not the outcome -/
theorem parse_total (src : Str) (lookup : Env) :
    ((∃ m, parse src lookup = .ok m) ∨ (∃ e m, parse src lookup = .err e m)) ∧
    ∀ row ∈ siteTable, ∀ s, row.2 = Guard.site s → parse src lookup ≠ .panic s := by
  constructor
  · cases h : parse src lookup with
    | ok m => exact Or.inl ⟨m, rfl⟩
    | err e m => exact Or.inr ⟨e, m, rfl⟩
    | panic s => exact absurd h (parse_ne_panic src lookup s)
  · intro _ _ s _
    exact parse_ne_panic src lookup s

example : quotePrefixIdx [] = some none ∧ quotePrefixIdx ['"'] = some (some '"') ∧ quotePrefixIdx ['a'] = some none := by decide
example : (siteTable.filter fun r => r.2 != .mapIndex && r.2 != .quoteHead).length = 9 := by decide

end CV.Dotenv
