import ComposeVerif.Lemmas.ExtendsClone
import ComposeVerif.Neg.C05Clone
import ComposeVerif.Gen.C05Facts
/-!
# C05 — `deepClone` gives the merge a private copy of the base

"…equals the base service's fully resolved definition with the extending service's own attributes applied on top":
the merge step writes in place, so this holds for *every* service extending a base — siblings, later links of a chain
that re-read the memoised base, the base itself — only if the working copy shares no container with the base.
Proved here over the heap model `Model/ExtendsClone.lean` for trees of any size and depth; the corresponding statement
about the real heap is decided by the `c05.clone` stream (real `deepClone`: pointer identity of every map header and
backing array, then a write through every container of the clone) and by `result-shares-structure` on whole results.
-/
namespace CV.Extends.Clone
open CV

/-- the clone has the value of the base -/
theorem clone_same_value (v : HVal) (n : Nat) : erase (clone n v).1 = erase v := clone_erase v n

/-- every container of the clone is freshly allocated (address in `[n, n')`), and no two containers of the clone are
the same object: the clone is a tree -/
theorem clone_all_fresh (v : HVal) (n : Nat) :
    (∀ a ∈ addrs (clone n v).1, n ≤ a ∧ a < (clone n v).2) ∧ (addrs (clone n v).1).Nodup :=
  ⟨(clone_fresh v n).2.1, (clone_fresh v n).2.2⟩

/-- **independence**: the clone shares no container with the base (nor with anything allocated before the call) -/
theorem clone_independent (v : HVal) (n : Nat) (hv : ∀ a ∈ addrs v, a < n) :
    ∀ a ∈ addrs (clone n v).1, a ∉ addrs v := by
  intro a ha hm
  have h1 := (clone_fresh v n).2.1 a ha
  have h2 := hv a hm
  omega

/-- **the in-place merge cannot reach the base**: whatever is written into any container of the clone, the base —
which stays in the services map and is extended again by other services — is unchanged -/
theorem clone_isolates_base (v : HVal) (n : Nat) (hv : ∀ a ∈ addrs v, a < n) (a : Nat) (ha : a ∈ addrs (clone n v).1)
    (c : HVal) : write a c v = v :=
  write_not_mem v a c (clone_independent v n hv a ha)

/-- **siblings are independent of one another**: two services extending the same base work on disjoint copies (the
second clone is taken after the first, from an unchanged base) -/
theorem sibling_clones_disjoint (v : HVal) (n m : Nat) (hm : (clone n v).2 ≤ m) :
    ∀ a ∈ addrs (clone n v).1, a ∉ addrs (clone m v).1 := by
  intro a ha hb
  have h1 := (clone_fresh v n).2.1 a ha
  have h2 := (clone_fresh v m).2.1 a hb
  omega

/-- … so a write through one sibling's copy leaves the other sibling's copy unchanged -/
theorem sibling_write_invisible (v : HVal) (n m : Nat) (hm : (clone n v).2 ≤ m) (a : Nat)
    (ha : a ∈ addrs (clone n v).1) (c : HVal) : write a c (clone m v).1 = (clone m v).1 :=
  write_not_mem _ a c (sibling_clones_disjoint v n m hm a ha)

/-- `deepClone` allocates exactly one new container per container of its argument (the quantity the `c05.clone`
stream compares with the number of distinct new objects on the real heap) -/
theorem clone_allocates_one_per_container (v : HVal) (n : Nat) : (clone n v).2 = n + (addrs v).length :=
  clone_count v n

/-- the statements above are **not** true of the seeded variants, although both preserve the value: they are about
the heap, not about values (`Neg/C05Clone.lean`) -/
theorem independence_excludes_seeded_slips :
    (erase (cloneShallowMap 2 Neg.base).1 = erase Neg.base ∧ ¬ ∀ a ∈ addrs (cloneShallowMap 2 Neg.base).1, a ∉ addrs Neg.base) ∧
    (erase (cloneInPlaceSeq 2 Neg.baseL).1 = erase Neg.baseL ∧ ¬ ∀ a ∈ addrs (cloneInPlaceSeq 2 Neg.baseL).1, a ∉ addrs Neg.baseL) :=
  ⟨⟨rfl, fun h => h 1 Neg.shallow_shares.1 Neg.shallow_shares.2⟩,
   ⟨rfl, fun h => h 1 Neg.inplace_shares.1 Neg.inplace_shares.2⟩⟩

/-- the clone function modelled here is the one in the tree: statement skeleton of `deepClone`, regenerated -/
theorem deepClone_source_is_modelled :
    CV.Gen.c05_deepClone = [
  "typeswitch v := value.(type)",
  "case []any",
  "range v",
  "cp[i] = deepClone(…)",
  "deepClone(e)",
  "return cp",
  "case map[string]any",
  "range v",
  "cp[k] = deepClone(…)",
  "deepClone(e)",
  "return cp",
  "default",
  "return value"] := rfl

/-! ### non-vacuity -/

/-- a base laid out below the allocator satisfies the hypothesis of `clone_independent`; its clone lives at 2, 3 -/
example : (∀ a ∈ addrs Neg.base, a < 2) ∧ addrs (clone 2 Neg.base).1 = [2, 3] := by decide

end CV.Extends.Clone
