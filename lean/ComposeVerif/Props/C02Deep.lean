import ComposeVerif.Lemmas.C02Deep11
/-!
# C02 — `override.mergeYaml` is independent of map iteration order **at every nesting level at once**

Stated about C04's model `CV.Merge.mergeYaml` itself (the model tied to `override.Merge` / `ExtendService` by the C04
correspondence).  `Eqv` = the same tree up to the order of the entries of every mapping, at any depth (sequences stay
ordered); `WF` = every mapping has distinct keys (what a decoded YAML document satisfies).  Outcomes are compared with
`OutEqv`: both merges succeed with `Eqv` results, or both fail (which of several failures is reported may depend on
the order: error texts are never part of the observation).

Scope: **every rule of `mergeSpecials`, `mergeIPAMConfig` included, every path, every fuel** (`mergeYaml_full`), hence
`override.Merge` and `override.ExtendService` as wholes (`merge_…`, `extendService_…`, with the fuel each of them
computes from its own override — `fuelFor` is itself invariant).  The first theorems below are the earlier, narrower
statements (paths outside `networks`), kept because their proofs do not need well-formedness preservation.
-/
namespace CV.Deep.Props
open CV CV.Merge CV.Deep
open CV.Val (lookup insert keys KVs)

/-- **`mergeYaml` at all levels at once**: equivalent bases and equivalent overrides — the entries of any mapping, at any
depth, in any order — merge to equivalent trees, or both merges fail.  Any fuel, any path outside `networks`. -/
theorem mergeYaml_deep_order_independent (n : Nat) (p : TPath) (hp : Below p) {e e' o o' : Val}
    (he : Eqv e e') (ho : Eqv o o') (we : WF e) (we' : WF e') (wo : WF o) (wo' : WF o') :
    OutEqv Eqv (mergeYaml n e o p) (mergeYaml n e' o' p) :=
  mergeYaml_congr n p hp e e' o o' he ho we we' wo wo'

/-- the same for `mergeMappings` (the loop that ranges over the override mapping) -/
theorem mergeMappings_deep_order_independent (n : Nat) (p : TPath) (hp : Below p) {a a' b b' : KVs}
    (ha : MEqv a a') (hb : MEqv b b') (wa : MWF a) (wa' : MWF a') (wb : MWF b) (wb' : MWF b') :
    OutEqv MEqv (mergeKVs n a b p) (mergeKVs n a' b' p) :=
  mergeKVsWith_congr (mergeYaml n) p (fun k => mergeYaml_congr n (next p k) (hp.next k)) a a' b b' ha hb wa wa' wb wb'

/-- `override.ExtendService` (rooted at `services.x`) with any common fuel -/
theorem extendService_deep_order_independent (n : Nat) {base base' over over' : Val}
    (hb : Eqv base base') (ho : Eqv over over') (wb : WF base) (wb' : WF base') (wo : WF over) (wo' : WF over') :
    OutEqv Eqv (mergeYaml n base over ["services", "x"]) (mergeYaml n base' over' ["services", "x"]) :=
  mergeYaml_congr n ["services", "x"] ⟨by simp, by decide, by decide⟩ base base' over over' hb ho wb wb' wo wo'

/-- success is order independent (corollary in plain terms) -/
theorem mergeYaml_deep_isOk (n : Nat) (p : TPath) (hp : Below p) {e e' o o' : Val}
    (he : Eqv e e') (ho : Eqv o o') (we : WF e) (we' : WF e') (wo : WF o) (wo' : WF o') :
    (mergeYaml n e o p).isOk = (mergeYaml n e' o' p).isOk := by
  have h := mergeYaml_congr n p hp e e' o o' he ho we we' wo wo'
  cases h1 : mergeYaml n e o p <;> cases h2 : mergeYaml n e' o' p <;> simp only [h1, h2, OutEqv] at h <;>
    first | rfl | exact h.elim

/-- **every rule, every path, every fuel**: `mergeYaml` respects the equivalence … -/
theorem mergeYaml_all_levels_all_rules (n : Nat) (p : TPath) {e e' o o' : Val}
    (he : Eqv e e') (ho : Eqv o o') (we : WF e) (we' : WF e') (wo : WF o) (wo' : WF o') :
    OutEqv Eqv (mergeYaml n e o p) (mergeYaml n e' o' p) :=
  (mergeYaml_full n p).1 e e' o o' he ho we we' wo wo'

/-- … and returns trees whose mappings have distinct keys when its arguments do (so stages can be chained) -/
theorem mergeYaml_preserves_wf (n : Nat) (p : TPath) {e o z : Val} (we : WF e) (wo : WF o)
    (h : mergeYaml n e o p = .ok z) : WF z := (mergeYaml_full n p).2 e o z we wo h

/-- **`override.Merge` as a whole** (its own fuel): two spellings of the base and of the override that differ only
in the order of mapping entries, at any depth, merge to two spellings of the same model — or both merges fail -/
theorem merge_deep_order_independent {base base' over over' : Val}
    (hb : Eqv base base') (ho : Eqv over over') (wb : WF base) (wb' : WF base') (wo : WF over) (wo' : WF over') :
    OutEqv Eqv (merge base over) (merge base' over') := by
  cases hb with
  | map b1 b2 =>
    cases ho with
    | map o1 o2 =>
      simp only [merge]
      rw [fuelFor_eqv (.map o1 o2) wo wo']
      exact (mergeYaml_full _ TPath.root).1 _ _ _ _ (.map b1 b2) (.map o1 o2) wb wb' wo wo'
    | null => simp [merge, OutEqv]
    | bool b => simp [merge, OutEqv]
    | int i => simp [merge, OutEqv]
    | float s => simp [merge, OutEqv]
    | str s => simp [merge, OutEqv]
    | seqNil => simp [merge, OutEqv]
    | seqCons _ _ => simp [merge, OutEqv]
  | null => simp [merge, OutEqv]
  | bool b => simp [merge, OutEqv]
  | int i => simp [merge, OutEqv]
  | float s => simp [merge, OutEqv]
  | str s => simp [merge, OutEqv]
  | seqNil => simp [merge, OutEqv]
  | seqCons _ _ => simp [merge, OutEqv]

/-- **`override.ExtendService` as a whole** (its own fuel) -/
theorem extendService_whole_order_independent {base base' over over' : Val}
    (hb : Eqv base base') (ho : Eqv over over') (wb : WF base) (wb' : WF base') (wo : WF over) (wo' : WF over') :
    OutEqv Eqv (extendService base over) (extendService base' over') := by
  cases hb with
  | map b1 b2 =>
    cases ho with
    | map o1 o2 =>
      simp only [extendService]
      rw [fuelFor_eqv (.map o1 o2) wo wo']
      exact (mergeYaml_full _ ["services", "x"]).1 _ _ _ _ (.map b1 b2) (.map o1 o2) wb wb' wo wo'
    | null => simp [extendService, OutEqv]
    | bool b => simp [extendService, OutEqv]
    | int i => simp [extendService, OutEqv]
    | float s => simp [extendService, OutEqv]
    | str s => simp [extendService, OutEqv]
    | seqNil => simp [extendService, OutEqv]
    | seqCons _ _ => simp [extendService, OutEqv]
  | null => simp [extendService, OutEqv]
  | bool b => simp [extendService, OutEqv]
  | int i => simp [extendService, OutEqv]
  | float s => simp [extendService, OutEqv]
  | str s => simp [extendService, OutEqv]
  | seqNil => simp [extendService, OutEqv]
  | seqCons _ _ => simp [extendService, OutEqv]

/-- the nesting depth (from which `Merge` computes its fuel) does not see the order either -/
theorem fuelFor_order_independent {v w : Val} (h : Eqv v w) (wv : WF v) (ww : WF w) : fuelFor v = fuelFor w :=
  fuelFor_eqv h wv ww

/-- `fmt.Sprintf("%v")` (used by `convertIntoSequence`) prints equivalent trees identically -/
theorem fmtV_order_independent {v w : Val} (h : Eqv v w) (wv : WF v) (ww : WF w) : Merge.fmtV v = Merge.fmtV w :=
  fmtV_eqv h wv ww

/-- the equivalence is generated by reordering the entries of mappings: a permutation of a well-formed mapping is
equivalent to it, it is symmetric and transitive, and it is a congruence for mapping entries and sequence elements -/
theorem eqv_of_perm {a a' : KVs} (hp : a'.Perm a) (wa : MWF a) : Eqv (.map a') (.map a) := Eqv.of_perm hp wa
theorem eqv_symm {v w : Val} (h : Eqv v w) : Eqv w v := h.symm
theorem eqv_trans {u v w : Val} (h1 : Eqv u v) (h2 : Eqv v w) : Eqv u w := h1.trans h2
theorem eqv_refl (v : Val) (h : WF v) : Eqv v v := Eqv.refl v h

/-- where the excluded rule lives: `mergeIPAMConfig` only applies below the top-level `networks` section -/
theorem ipam_only_below_networks {p : TPath} (h : ruleAt p = some .ipam) : p.head? = some "networks" := ruleAt_ipam h

/-! non-vacuity: two spellings of one service that differ in the order of entries at two levels -/

def svcA : Val := .map [("image", .str "i"), ("labels", .map [("a", .str "1"), ("b", .null)])]
def svcB : Val := .map [("labels", .map [("b", .null), ("a", .str "1")]), ("image", .str "i")]

theorem wf_labels : MWF [("a", Val.str "1"), ("b", Val.null)] := by
  refine ⟨by decide, ?_⟩
  intro k x hx
  simp only [lookup] at hx
  split at hx
  · cases hx; exact .str _
  · split at hx
    · cases hx; exact .null
    · cases hx

example : Eqv svcA svcB := by
  have inner : Eqv (.map [("a", Val.str "1"), ("b", Val.null)]) (.map [("b", Val.null), ("a", Val.str "1")]) :=
    (Eqv.of_perm (List.Perm.swap _ _ _) wf_labels).symm
  have step1 : Eqv svcA (.map [("image", .str "i"), ("labels", .map [("b", .null), ("a", .str "1")])]) :=
    Eqv.map_cons (.str "i") (Eqv.map_cons inner (Eqv.map_iff.mpr MEqv.nil))
  refine step1.trans ?_
  refine (Eqv.of_perm (List.Perm.swap _ _ _) ?_).symm
  refine ⟨by decide, ?_⟩
  intro k x hx
  simp only [lookup] at hx
  split at hx
  · cases hx; exact .str _
  · split at hx
    · cases hx; exact WF.of_perm (List.Perm.swap _ _ _) wf_labels
    · cases hx

/-- the two spellings do merge to the same thing (here computed), as the theorem says they must -/
example : mergeYaml 4 svcA (.map [("labels", .map [("c", .str "3")])]) ["services", "x"] =
          .ok (.map [("image", .str "i"), ("labels", .seq [.str "a=1", .str "b", .str "c=3"])]) := by rfl
example : mergeYaml 4 svcB (.map [("labels", .map [("c", .str "3")])]) ["services", "x"] =
          .ok (.map [("labels", .seq [.str "a=1", .str "b", .str "c=3"]), ("image", .str "i")]) := by rfl

end CV.Deep.Props
