import ComposeVerif.Props.C09Leaves
/-!
# C09 — top-level secrets and configs; per-type instances of the generic round trip  (round 6)

Property theorems only.  `SecretConfig` / `ConfigObjConfig` were outside every theorem: their marshallers pre-process the
value (clear `Content`) and render it as a `FileObjectConfig`, and the decoder reads them as named types over
`FileObjectConfig` — one unit of fuel apart, so they do not fit `RT` (one fuel for both directions).  Here they get their
own theorems with explicit fuels, derived from the `FileObjectConfig` instance of `generic_roundtrip_all_leaves`.
Then instances of the generic theorem for the model types the "spelled twice" inputs of the oracle are decoded into.
-/
namespace CV.C09
open CV CV.TypeDesc CV.Marshal CV.Encode CV.Decode CV.Generic CV.GenericF

/-- `SecretConfig.MarshalYAML/JSON` (flag off, as on every loaded project): the tag-driven rendering of the
`FileObjectConfig` with `Content` cleared — same fuel on both sides -/
theorem encode_SecretConfig (fmt : Fmt) (f : Nat) (fs : List (String × Val)) :
    encode genEnv fmt (f + 1) (.named "SecretConfig") (.map fs) =
      encode genEnv fmt (f + 1) (.named "FileObjectConfig") (.map (setField "Content" (.str "") fs)) := by
  have hfs : findStruct genEnv.structs "FileObjectConfig" = some Gen.struct_FileObjectConfig := by decide
  cases fmt <;> simp [encode, custom, hfs]

theorem decode_SecretConfig (f : Nat) (t : Val) :
    decode genEnv (f + 1) (.named "SecretConfig") t = decode genEnv f (.named "FileObjectConfig") t := by
  have h1 : customDecode "SecretConfig" = none := by decide
  have h2 : hasMethod genEnv "SecretConfig" "DecodeMapstructure" = false := by decide
  have h3 : findStruct genEnv.structs "SecretConfig" = none := by decide
  have h4 : findNamed genEnv.named "SecretConfig" = some (.named "FileObjectConfig") := by decide
  simp [decode, h1, h2, h3, h4]


theorem encode_ConfigObjConfig (fmt : Fmt) (f : Nat) (fs : List (String × Val)) :
    encode genEnv fmt (f + 1) (.named "ConfigObjConfig") (.map fs) =
      encode genEnv fmt (f + 1) (.named "FileObjectConfig")
        (.map (if getStr fs "Environment" = "" then fs else setField "Content" (.str "") fs)) := by
  have hfs : findStruct genEnv.structs "FileObjectConfig" = some Gen.struct_FileObjectConfig := by decide
  cases fmt <;> simp [encode, custom, hfs]

theorem decode_ConfigObjConfig (f : Nat) (t : Val) :
    decode genEnv (f + 1) (.named "ConfigObjConfig") t = decode genEnv f (.named "FileObjectConfig") t := by
  have h1 : customDecode "ConfigObjConfig" = none := by decide
  have h2 : hasMethod genEnv "ConfigObjConfig" "DecodeMapstructure" = false := by decide
  have h3 : findStruct genEnv.structs "ConfigObjConfig" = none := by decide
  have h4 : findNamed genEnv.named "ConfigObjConfig" = some (.named "FileObjectConfig") := by decide
  simp [decode, h1, h2, h3, h4]

theorem plain_FileObjectConfig (fmt : Fmt) : GenericF.plainB genEnv fmt allLeaves.names 14 (.named "FileObjectConfig") = true := by
  cases fmt <;> decide

/-- **a top-level secret** reloads, through either rendering and `Transform`, to itself with `Content` cleared (the
marshaller never writes the content of a secret; the reload stage `ResolveEnvironment` fills it in again from the
`environment` variable — decided on the real code by the oracle).  The decoder needs one unit of fuel more than the
encoder: `SecretConfig` is a named type over `FileObjectConfig` for the decoder, a marshaller for the encoder. -/
theorem roundtrip_SecretConfig_partial (fmt : Fmt) (fs : List (String × Val))
    (hs : GenericF.Stable genEnv fmt allLeaves 14 (.named "FileObjectConfig") (.map (setField "Content" (.str "") fs))) :
    ∃ t, encode genEnv fmt 14 (.named "SecretConfig") (.map fs) = .ok t ∧
      decode genEnv 15 (.named "SecretConfig") t = .ok (.map (setField "Content" (.str "") fs)) := by
  obtain ⟨t, he, hd⟩ := generic_roundtrip_all_leaves genEnv leafEnv_gen fmt 14 _ _ (plain_FileObjectConfig fmt) hs
  exact ⟨t, by rw [encode_SecretConfig]; exact he, by rw [decode_SecretConfig]; exact hd⟩

/-- **a top-level config** written inline (`content:`, no `environment`) reloads to itself -/
theorem roundtrip_ConfigObjConfig_inline (fmt : Fmt) (fs : List (String × Val)) (he : getStr fs "Environment" = "")
    (hs : GenericF.Stable genEnv fmt allLeaves 14 (.named "FileObjectConfig") (.map fs)) :
    ∃ t, encode genEnv fmt 14 (.named "ConfigObjConfig") (.map fs) = .ok t ∧
      decode genEnv 15 (.named "ConfigObjConfig") t = .ok (.map fs) := by
  obtain ⟨t, hen, hd⟩ := generic_roundtrip_all_leaves genEnv leafEnv_gen fmt 14 _ _ (plain_FileObjectConfig fmt) hs
  refine ⟨t, ?_, by rw [decode_ConfigObjConfig]; exact hd⟩
  rw [encode_ConfigObjConfig, if_pos he]; exact hen

/-- a config taken from the environment reloads to itself with `Content` cleared (refilled by `ResolveEnvironment`) -/
theorem roundtrip_ConfigObjConfig_environment_partial (fmt : Fmt) (fs : List (String × Val)) (he : getStr fs "Environment" ≠ "")
    (hs : GenericF.Stable genEnv fmt allLeaves 14 (.named "FileObjectConfig") (.map (setField "Content" (.str "") fs))) :
    ∃ t, encode genEnv fmt 14 (.named "ConfigObjConfig") (.map fs) = .ok t ∧
      decode genEnv 15 (.named "ConfigObjConfig") t = .ok (.map (setField "Content" (.str "") fs)) := by
  obtain ⟨t, hen, hd⟩ := generic_roundtrip_all_leaves genEnv leafEnv_gen fmt 14 _ _ (plain_FileObjectConfig fmt) hs
  refine ⟨t, ?_, by rw [decode_ConfigObjConfig]; exact hd⟩
  rw [encode_ConfigObjConfig, if_neg he]; exact hen

/-! ## the generic theorem per type descriptor -/

/-- **per type descriptor, all at once**: every one of the 55 covered model types of the current source (the list is
re-decided over the regenerated descriptors by `plain_model_types_all_leaves`, and `covered_uncovered_partition` shows
that it and the 12 uncovered types are all model types) round-trips in both renderings, for every stable value -/
theorem roundtrip_every_covered_type (n : String) (hn : n ∈ coveredModelTypes) (fmt : Fmt) (v : Val)
    (hs : GenericF.Stable genEnv fmt allLeaves 14 (.named n) v) :
    ∃ t, encode genEnv fmt 14 (.named n) v = .ok t ∧ decode genEnv 14 (.named n) t = .ok v := by
  have h := plain_model_types_all_leaves
  rw [List.all_eq_true] at h
  have hn' := h n hn
  simp only [Bool.and_eq_true] at hn'
  have hnames : allLeaves.names = allLeafNames := by decide
  have hp : GenericF.plainB genEnv fmt allLeaves.names 14 (.named n) = true := by
    rw [hnames]; cases fmt
    · exact hn'.1
    · exact hn'.2
  exact generic_roundtrip_all_leaves genEnv leafEnv_gen fmt 14 _ v hp hs

/-! ## named instances: the types the "spelled twice" inputs are decoded into -/

theorem roundtrip_ServicePortConfig (fmt : Fmt) (v : Val) (hs : GenericF.Stable genEnv fmt allLeaves 14 (.named "ServicePortConfig") v) :
    ∃ t, encode genEnv fmt 14 (.named "ServicePortConfig") v = .ok t ∧ decode genEnv 14 (.named "ServicePortConfig") t = .ok v :=
  generic_roundtrip_all_leaves genEnv leafEnv_gen fmt 14 _ v (by cases fmt <;> decide) hs

theorem roundtrip_ServiceVolumeConfig (fmt : Fmt) (v : Val) (hs : GenericF.Stable genEnv fmt allLeaves 14 (.named "ServiceVolumeConfig") v) :
    ∃ t, encode genEnv fmt 14 (.named "ServiceVolumeConfig") v = .ok t ∧ decode genEnv 14 (.named "ServiceVolumeConfig") t = .ok v :=
  generic_roundtrip_all_leaves genEnv leafEnv_gen fmt 14 _ v (by cases fmt <;> decide) hs

theorem roundtrip_ServiceSecretConfig (fmt : Fmt) (v : Val) (hs : GenericF.Stable genEnv fmt allLeaves 14 (.named "ServiceSecretConfig") v) :
    ∃ t, encode genEnv fmt 14 (.named "ServiceSecretConfig") v = .ok t ∧ decode genEnv 14 (.named "ServiceSecretConfig") t = .ok v :=
  generic_roundtrip_all_leaves genEnv leafEnv_gen fmt 14 _ v (by cases fmt <;> decide) hs

theorem roundtrip_ServiceConfigObjConfig (fmt : Fmt) (v : Val) (hs : GenericF.Stable genEnv fmt allLeaves 14 (.named "ServiceConfigObjConfig") v) :
    ∃ t, encode genEnv fmt 14 (.named "ServiceConfigObjConfig") v = .ok t ∧ decode genEnv 14 (.named "ServiceConfigObjConfig") t = .ok v :=
  generic_roundtrip_all_leaves genEnv leafEnv_gen fmt 14 _ v (by cases fmt <;> decide) hs

theorem roundtrip_HealthCheckConfig (fmt : Fmt) (v : Val) (hs : GenericF.Stable genEnv fmt allLeaves 14 (.named "HealthCheckConfig") v) :
    ∃ t, encode genEnv fmt 14 (.named "HealthCheckConfig") v = .ok t ∧ decode genEnv 14 (.named "HealthCheckConfig") t = .ok v :=
  generic_roundtrip_all_leaves genEnv leafEnv_gen fmt 14 _ v (by cases fmt <;> decide) hs

theorem roundtrip_NetworkConfig (fmt : Fmt) (v : Val) (hs : GenericF.Stable genEnv fmt allLeaves 14 (.named "NetworkConfig") v) :
    ∃ t, encode genEnv fmt 14 (.named "NetworkConfig") v = .ok t ∧ decode genEnv 14 (.named "NetworkConfig") t = .ok v :=
  generic_roundtrip_all_leaves genEnv leafEnv_gen fmt 14 _ v (by cases fmt <;> decide) hs

theorem roundtrip_VolumeConfig (fmt : Fmt) (v : Val) (hs : GenericF.Stable genEnv fmt allLeaves 14 (.named "VolumeConfig") v) :
    ∃ t, encode genEnv fmt 14 (.named "VolumeConfig") v = .ok t ∧ decode genEnv 14 (.named "VolumeConfig") t = .ok v :=
  generic_roundtrip_all_leaves genEnv leafEnv_gen fmt 14 _ v (by cases fmt <;> decide) hs

theorem roundtrip_ServiceNetworkConfig (fmt : Fmt) (v : Val) (hs : GenericF.Stable genEnv fmt allLeaves 14 (.named "ServiceNetworkConfig") v) :
    ∃ t, encode genEnv fmt 14 (.named "ServiceNetworkConfig") v = .ok t ∧ decode genEnv 14 (.named "ServiceNetworkConfig") t = .ok v :=
  generic_roundtrip_all_leaves genEnv leafEnv_gen fmt 14 _ v (by cases fmt <;> decide) hs

theorem roundtrip_DependsOnConfig (fmt : Fmt) (v : Val) (hs : GenericF.Stable genEnv fmt allLeaves 14 (.named "DependsOnConfig") v) :
    ∃ t, encode genEnv fmt 14 (.named "DependsOnConfig") v = .ok t ∧ decode genEnv 14 (.named "DependsOnConfig") t = .ok v :=
  generic_roundtrip_all_leaves genEnv leafEnv_gen fmt 14 _ v (by cases fmt <;> decide) hs

theorem roundtrip_DeviceMapping (fmt : Fmt) (v : Val) (hs : GenericF.Stable genEnv fmt allLeaves 14 (.named "DeviceMapping") v) :
    ∃ t, encode genEnv fmt 14 (.named "DeviceMapping") v = .ok t ∧ decode genEnv 14 (.named "DeviceMapping") t = .ok v :=
  generic_roundtrip_all_leaves genEnv leafEnv_gen fmt 14 _ v (by cases fmt <;> decide) hs

theorem roundtrip_LoggingConfig (fmt : Fmt) (v : Val) (hs : GenericF.Stable genEnv fmt allLeaves 14 (.named "LoggingConfig") v) :
    ∃ t, encode genEnv fmt 14 (.named "LoggingConfig") v = .ok t ∧ decode genEnv 14 (.named "LoggingConfig") t = .ok v :=
  generic_roundtrip_all_leaves genEnv leafEnv_gen fmt 14 _ v (by cases fmt <;> decide) hs

end CV.C09
