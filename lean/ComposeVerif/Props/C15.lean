import ComposeVerif.Lemmas.Select
import ComposeVerif.Lemmas.SelectCalls
import ComposeVerif.Neg.C15
import ComposeVerif.Lemmas.AuditCmd  -- makes sure the audit command is built with this module
/-!
# C15 — profile and service selection keep a sound partition of the services

Property theorems about the model `Model/Select.lean` of `types/project.go`, stated against the
set-algebra spec `Spec/Select.lean`, for ALL projects and ALL histories (no bound on the number of
services, the shape of the dependency graph, or the length of the history).

`Good p` is the domain: the enabled and disabled maps are disjoint maps (true of every project a load
returns) and every `depends_on` is a map (true of every Go map).
-/
namespace CV.Sel

/-- the receiver is a well-formed project: a partition, and every `depends_on` has distinct keys -/
def Good (p : Proj) : Prop := Partition p ∧ SvcWF p ∧ NamesOK p

/-! ## profiles -/

/-- `WithProfiles P` enables exactly the services with no profile, a listed profile, or all when `*` is listed,
disables the rest, records `P`, and keeps every service's content -/
theorem profiles_exact {p : Proj} (h : Partition p) (P : List String) :
    ProfilesSpec p P (withProfiles p P) :=
  withProfiles_spec h P

/-- the enabled set after `WithProfiles P`, spelled out -/
theorem profiles_enabled_iff {p : Proj} (h : Partition p) (P : List String) (k : String) :
    k ∈ keys (withProfiles p P).services ↔ ∃ s, find p k = some s ∧ Active s P := by
  rw [← lookup_isSome, lookup_withProfiles_services h]
  cases hs : find p k with
  | none => simp
  | some s =>
    by_cases a : hasProfile s P = true
    · simp [Option.filter, a, (hasProfile_iff s P).1 a]
    · have : ¬Active s P := fun c => a ((hasProfile_iff s P).2 c)
      simp [Option.filter, a, this]

/-- enabling: the profile list grows by the profiles of the named disabled services, the services are
repartitioned accordingly, and (on a project whose enabled services are active) every named known service
ends up enabled with its profiles activated -/
theorem enable_activates_profiles {p : Proj} (h : Partition p) (names : List String) :
    EnableSpec p names (withServicesEnabled p names) :=
  withServicesEnabled_spec h names

/-! ## disabling -/

/-- `WithServicesDisabled names`: the enabled set loses exactly the named services, the remaining services lose
exactly their dependencies on them, previously disabled services are untouched -/
theorem disable_exact {p : Proj} (h : Partition p) (names : List String) :
    DisableSpec p names (withServicesDisabled p names) :=
  withServicesDisabled_spec h names

/-- the disabled half of `WithServicesDisabled names`: a moved service is the old service minus its dependencies on
the names listed **up to and including itself** (`upTo`).  So the result is a function of the receiver and of the
argument *list*; the order of the arguments matters in exactly this way and in no other (`disable_exact` is
symmetric in the names), and the iteration order of the maps does not matter at all (`disable_perm`). -/
theorem disable_moved_exact {p : Proj} (h : Partition p) (names : List String) :
    DisableMovedSpec p names (withServicesDisabled p names) :=
  withServicesDisabled_movedSpec h names

/-- after disabling, no remaining service depends on a removed one -/
theorem no_dangling_after_disable {p : Proj} (h : Partition p) (names : List String) :
    NoDepOn (withServicesDisabled p names) names :=
  (withServicesDisabled_spec h names).2.1

/-! ## selecting -/

/-- the walk of `ForEachService` never exhausts the model's fuel: the fuel is a modelling device, not behaviour -/
theorem select_never_out_of_fuel {p : Proj} (h : Partition p) (nk : NamesOK p) (names : List String) (pol : Policy) :
    withSelectedServices p names pol ≠ .fuel := by
  unfold withSelectedServices
  split
  · simp
  · have := forEachService_fuel h.1 nk.services names pol
    cases hw : forEachService p names pol <;> simp_all

/-- `WithSelectedServices names policy` keeps exactly the named services plus their transitive dependencies
(or dependents, or nothing more), i.e. the least set containing the names and closed under the policy's edges -/
theorem selected_eq_closure {p : Proj} (h : Partition p) (nk : NamesOK p) {names : List String} (hn : names ≠ []) {pol : Policy}
    {q : Proj} (hq : withSelectedServices p names pol = .ok q) (x : String) :
    x ∈ keys q.services ↔ Reach p.services pol names x := by
  cases hw : forEachService p names pol with
  | ok set =>
    rw [withSelectedServices_ok h.1 hn hw] at hq
    cases hq
    have hsub := forEachService_subset h.1 nk.services hn hw
    rw [← forEachService_reach h.1 nk.services hn hw]
    show x ∈ keys (selectedPruned set p.services) ↔ _
    rw [mem_keys_selectedPruned]
    exact ⟨fun a => a.2, fun a => ⟨hsub x a, a⟩⟩
  | noSuchService =>
    have : names.isEmpty = false := by cases names <;> simp_all
    simp [withSelectedServices, hw, this] at hq
  | outOfFuel => exact absurd hw (forEachService_fuel h.1 nk.services names pol)

/-- the executable successor list of the spec is the edge relation -/
theorem mem_succ_iff {svcs : AL Svc} (nd : (keys svcs).Nodup) (pol : Policy) (x y : String) :
    y ∈ succ svcs pol x ↔ Edge svcs pol x y := by
  cases pol with
  | deps =>
    unfold succ Edge
    cases hs : lookup x svcs with
    | none => simp [hs]
    | some s => simp [hs, List.mem_filter]
  | dependents =>
    unfold succ Edge
    by_cases hx : x ∈ keys svcs
    · simp only [hx, if_true, true_and, mem_keys_filter, decide_eq_true_eq]
      exact ⟨fun ⟨v, hm, hd⟩ => ⟨v, lookup_of_mem nd hm, hd⟩, fun ⟨v, hl, hd⟩ => ⟨v, mem_of_lookup hl, hd⟩⟩
    · simp [hx]
  | ignore => simp [succ, Edge]

/-- the oracle's way of computing the closure (iterated saturation) never leaves `Reach` … -/
theorem closure_sound {svcs : AL Svc} (nd : (keys svcs).Nodup) (pol : Policy) (roots : List String) :
    ∀ x ∈ closure svcs pol roots, Reach svcs pol roots x := by
  unfold closure
  have step : ∀ n S, (∀ x ∈ S, Reach svcs pol roots x) → ∀ x ∈ closureN svcs pol n S, Reach svcs pol roots x := by
    intro n
    induction n with
    | zero => intro S h; exact h
    | succ n ih =>
      intro S h
      apply ih
      intro x hx
      unfold expand at hx
      rw [List.mem_eraseDups, List.mem_append, List.mem_flatMap] at hx
      rcases hx with hx | ⟨a, ha, hxa⟩
      · exact h x hx
      · exact .step (h a ha) ((mem_succ_iff nd pol a x).1 hxa)
  apply step
  intro x hx
  rw [List.mem_eraseDups, List.mem_filter] at hx
  exact .root hx.1 (by simpa using hx.2)

/-- … and once the run-time check `Closed` (oracle clause `closure-saturated`) passes, it *is* `Reach` -/
theorem closure_complete {svcs : AL Svc} (nd : (keys svcs).Nodup) (pol : Policy) (roots S : List String)
    (hc : Closed svcs pol roots S) (x : String) (hx : Reach svcs pol roots x) : x ∈ S := by
  induction hx with
  | root hr hk => exact hc.1 _ hr hk
  | step _ e ih => exact hc.2 _ ih _ ((mem_succ_iff nd pol _ _).2 e)

/-- the saturation always completes within `len(services)` rounds (pigeonhole), so the oracle's run-time check
`Closed` (clause `closure-saturated`, kept as a guard) can never fail -/
theorem closure_saturates (svcs : AL Svc) (pol : Policy) (roots : List String) :
    Closed svcs pol roots (closure svcs pol roots) :=
  closure_closed svcs pol roots

/-- hence the executable closure of the spec *is* the inductive closure -/
theorem closure_eq_reach {svcs : AL Svc} (nd : (keys svcs).Nodup) (pol : Policy) (roots : List String) (x : String) :
    x ∈ closure svcs pol roots ↔ Reach svcs pol roots x :=
  ⟨closure_sound nd pol roots x, closure_complete nd pol roots _ (closure_closed svcs pol roots) x⟩

/-- the full description of a successful selection: for the closure `S` of the names, the result satisfies
`SelectSpec` (enabled set = `S`, each selected service keeps exactly its dependencies inside `S`, nothing dangling,
previously disabled services untouched), every service is conserved, resources are untouched -/
theorem select_exact {p : Proj} (g : Good p) {names : List String} (hn : names ≠ []) {pol : Policy}
    {q : Proj} (hq : withSelectedServices p names pol = .ok q) :
    ∃ S, (∀ x, x ∈ S ↔ Reach p.services pol names x) ∧ SelectSpec p S q ∧ Conserved p q ∧ sameResources p q := by
  obtain ⟨h, w, nk⟩ := g
  cases hw : forEachService p names pol with
  | ok set =>
    rw [withSelectedServices_ok h.1 hn hw] at hq
    cases hq
    have hsub := forEachService_subset h.1 nk.services hn hw
    exact ⟨set, forEachService_reach h.1 nk.services hn hw, selectResult_spec h hsub,
      conserved_of_carried (selectResult_partition h hsub) (selectResult_carried h hsub w),
      withServicesDisabled_resources p _⟩
  | noSuchService =>
    have : names.isEmpty = false := by cases names <;> simp_all
    simp [withSelectedServices, hw, this] at hq
  | outOfFuel => exact absurd hw (forEachService_fuel h.1 nk.services names pol)

/-- `WithSelectedServices` fails ("no such service") exactly when a requested name is not an enabled service or a
service of the closure has a required dependency that is not an enabled service (only `IncludeDependencies` looks) -/
theorem select_error_iff {p : Proj} (g : Good p) {names : List String} (hn : names ≠ []) (pol : Policy) :
    withSelectedServices p names pol = .err ↔
      (∃ n ∈ names, n ∉ keys p.services) ∨
      ∃ x, Reach p.services pol names x ∧ MissingRequired p.services pol x := by
  obtain ⟨h, w, nk⟩ := g
  have ne : names.isEmpty = false := by cases names <;> simp_all
  have wf : ∀ kv ∈ p.services, (keys kv.2.deps).Nodup := fun kv hkv => w kv (List.mem_append_left _ hkv)
  cases hw : forEachService p names pol with
  | ok set =>
    have hq := withSelectedServices_ok h.1 hn hw
    have C := walk_ok_clean wf pol _ _ _ _ _ hw
    simp only [ne, Bool.false_eq_true, if_false] at C
    rw [hq]
    constructor
    · intro c; cases c
    · rintro (⟨n, hnm, hnk⟩ | ⟨x, hx, hm⟩)
      · exact absurd (List.any_eq_true.2 ⟨n, hnm, (missingFatal_top _ n).2 hnk⟩) C.1
      · rcases C.2 x ((forEachService_reach h.1 nk.services hn hw x).2 hx) with a | a
        · cases a
        · exact absurd hm a
  | noSuchService =>
    have E := walk_err h.1 nk.services pol _ _ _ _ hw
    simp only [ne, Bool.false_eq_true, if_false] at E
    constructor
    · intro _
      rcases E with a | a
      · obtain ⟨n, hnm, hf⟩ := List.any_eq_true.1 a
        exact .inl ⟨n, hnm, (missingFatal_top _ n).1 hf⟩
      · exact .inr a
    · intro _
      simp [withSelectedServices, hw, ne]
  | outOfFuel => exact absurd hw (forEachService_fuel h.1 nk.services names pol)

/-- the outcome the oracle expects (`selectWanted`) is the outcome of the model: rejected by one iff rejected by the other -/
theorem selectWanted_none_iff {p : Proj} (g : Good p) {names : List String} (hn : names ≠ []) (pol : Policy) :
    selectWanted p names pol = none ↔ withSelectedServices p names pol = .err := by
  rw [select_error_iff g hn]
  unfold selectWanted
  by_cases h1 : names.any (fun n => decide (n ∉ keys p.services)) = true
  · rw [if_pos h1]
    obtain ⟨n, hn1, hn2⟩ := List.any_eq_true.1 h1
    exact ⟨fun _ => .inl ⟨n, hn1, by simpa using hn2⟩, fun _ => rfl⟩
  · rw [if_neg h1]
    simp only []
    have all : ∀ n ∈ names, n ∈ keys p.services := by
      intro n hn1
      apply Classical.byContradiction
      intro c
      exact h1 (List.any_eq_true.2 ⟨n, hn1, by simpa using c⟩)
    by_cases h2 : (closure p.services pol names).any (fun x => decide (MissingRequired p.services pol x)) = true
    · rw [if_pos h2]
      obtain ⟨x, hx1, hx2⟩ := List.any_eq_true.1 h2
      exact ⟨fun _ => .inr ⟨x, (closure_eq_reach g.1.1 pol names x).1 hx1, by simpa using hx2⟩, fun _ => rfl⟩
    · rw [if_neg h2]
      constructor
      · intro c; cases c
      · rintro (⟨n, a, b⟩ | ⟨x, a, b⟩)
        · exact absurd (all n a) b
        · exact absurd (List.any_eq_true.2 ⟨x, (closure_eq_reach g.1.1 pol names x).2 a, by simpa using b⟩) h2

/-- the disabled half of a successful selection (after the `fix:` commit): a non-selected service is the old service
minus its dependencies on the non-selected services whose name is not greater than its own -/
theorem select_moved_exact {p : Proj} (h : Partition p) (nk : NamesOK p) {names : List String} (hn : names ≠ []) {pol : Policy}
    {q : Proj} (hq : withSelectedServices p names pol = .ok q) (S : List String)
    (hS : ∀ x, x ∈ S ↔ Reach p.services pol names x) : SelectMovedSpec p S q := by
  cases hw : forEachService p names pol with
  | ok set =>
    rw [withSelectedServices_ok h.1 hn hw] at hq
    cases hq
    have same : ∀ x, x ∈ set ↔ x ∈ S := fun x => by rw [forEachService_reach h.1 nk.services hn hw, hS]
    intro kv hkv hx
    have := selectResult_movedSpec h set kv hkv hx
    cases hs : lookup kv.1 p.services with
    | none => simp [hs, sat] at this
    | some s =>
      simp only [hs, sat] at this ⊢
      rw [this]
      congr 1
      apply List.filter_congr
      intro d _
      simp only [same]
  | noSuchService =>
    have : names.isEmpty = false := by cases names <;> simp_all
    simp [withSelectedServices, hw, this] at hq
  | outOfFuel => exact absurd hw (forEachService_fuel h.1 nk.services names pol)

/-- after selecting, every dependency of a remaining service is a remaining service -/
theorem no_dangling_after_select {p : Proj} (g : Good p) {names : List String} (hn : names ≠ []) {pol : Policy}
    {q : Proj} (hq : withSelectedServices p names pol = .ok q) : NoDangling q := by
  obtain ⟨S, _, hs, _⟩ := select_exact g hn hq
  exact hs.2.1

/-- selecting no name keeps the project as it is -/
theorem select_nothing (p : Proj) (pol : Policy) : withSelectedServices p [] pol = .ok p := rfl

/-! ## pruning -/

/-- `WithoutUnnecessaryResources` keeps exactly the networks, volumes, secrets (service- and build-level) and
configs that enabled services reference, with their values, and touches nothing else -/
theorem prune_exact (p : Proj) : PruneSpec p (withoutUnnecessaryResources p) :=
  withoutUnnecessaryResources_spec p

/-! ## the partition invariant, for every operation hence for every history -/

/-- one step: a successful operation on a good project returns a good project in which every known service is
still known exactly once (enabled or disabled), with its content carried over and only `depends_on` possibly smaller -/
theorem partition_step {p q : Proj} (g : Good p) (o : Op) (hq : applyOp p o = .ok q) :
    Good q ∧ Carried p q := by
  obtain ⟨h, w, nk⟩ := g
  suffices H : (Partition q ∧ SvcWF q) ∧ Carried p q from
    ⟨⟨H.1.1, H.1.2, namesOK_of_carried nk H.1.1 H.2⟩, H.2⟩
  cases o with
  | profiles P =>
    cases hq
    have hp := withProfiles_partition h P
    exact ⟨⟨hp, svcWF_of_find_eq w (fun k s e => by rw [← find_withProfiles h P k]; exact e) hp⟩,
      carried_of_find_eq w (find_withProfiles h P)⟩
  | enable ns =>
    cases hq
    rcases withServicesEnabled_eq p ns with e | e
    · rw [e]; exact ⟨⟨h, w⟩, Carried.refl w⟩
    · rw [e]
      have hp := withProfiles_partition h (enableProfiles p ns)
      have w0 : SvcWF (withProfiles p (enableProfiles p ns)) :=
        svcWF_of_find_eq w (fun k s e => by rw [← find_withProfiles h _ k]; exact e) hp
      exact ⟨⟨resolveEnabled_partition hp, svcWF_resolveEnabled w0⟩,
        (carried_of_find_eq w (find_withProfiles h _)).trans (carried_resolveEnabled w0)⟩
  | disable ns =>
    cases hq
    have := withServicesDisabled_inv h w ns
    exact ⟨⟨this.1, this.2.1⟩, this.2.2⟩
  | select ns pol =>
    by_cases hn : ns = []
    · subst hn; cases hq; exact ⟨⟨h, w⟩, Carried.refl w⟩
    · cases hw : forEachService p ns pol with
      | ok set =>
        have e := withSelectedServices_ok h.1 hn hw
        simp only [applyOp] at hq
        rw [e] at hq; cases hq
        have hsub := forEachService_subset h.1 nk.services hn hw
        exact ⟨⟨selectResult_partition h hsub, selectResult_svcWF h w set⟩, selectResult_carried h hsub w⟩
      | noSuchService =>
        have : ns.isEmpty = false := by cases ns <;> simp_all
        simp [applyOp, withSelectedServices, hw, this] at hq
      | outOfFuel => exact absurd hw (forEachService_fuel h.1 nk.services ns pol)
  | prune =>
    cases hq
    exact ⟨⟨h, w⟩, Carried.refl w⟩

/-- **the partition invariant over histories**: whatever sequence of operations is applied (failed ones leave the
project unchanged), the enabled and disabled sets stay disjoint sets and every service is conserved -/
theorem partition_inv {p : Proj} (g : Good p) (ops : List Op) :
    Good (run p ops) ∧ Carried p (run p ops) := by
  induction ops generalizing p with
  | nil => exact ⟨g, Carried.refl g.2.1⟩
  | cons o os ih =>
    rw [run_cons]
    cases ho : applyOp p o with
    | ok q =>
      have s := partition_step g o ho
      have r := ih s.1
      exact ⟨r.1, s.2.trans r.2⟩
    | err => exact ih g
    | fuel => exact ih g

/-- no service is ever lost, duplicated or invented by a history, and contents are carried over -/
theorem history_conserved {p : Proj} (g : Good p) (ops : List Op) : Conserved p (run p ops) :=
  conserved_of_carried (partition_inv g ops).1.1 (partition_inv g ops).2

/-- "enabled services are active under the recorded profiles" (what a load establishes) is kept by every operation -/
theorem profilesOK_step {p q : Proj} (h : Partition p) (nk : NamesOK p) (ok : ProfilesOK p) (o : Op) (hq : applyOp p o = .ok q) :
    ProfilesOK q := by
  cases o with
  | profiles P => cases hq; exact withProfiles_profilesOK h P
  | enable ns =>
    cases hq
    rcases withServicesEnabled_eq p ns with e | e
    · rw [e]; exact ok
    · rw [e]; exact profilesOK_resolveEnabled (withProfiles_profilesOK h _)
  | disable ns =>
    cases hq
    intro kv hkv
    have hl := lookup_of_mem (withServicesDisabled_partition h ns).1 (show (kv.1, kv.2) ∈ _ from hkv)
    rw [lookup_withServicesDisabled_services] at hl
    split at hl
    · cases hl
    · cases hs : lookup kv.1 p.services with
      | none => simp [hs] at hl
      | some s =>
        simp only [hs, Option.map_some, Option.some.injEq] at hl
        have := ok (kv.1, s) (mem_of_lookup hs)
        show Active kv.2 (withServicesDisabled p ns).profiles
        rw [withServicesDisabled_profiles, ← hl]
        exact this
  | select ns pol =>
    by_cases hn : ns = []
    · subst hn; cases hq; exact ok
    · cases hw : forEachService p ns pol with
      | ok set =>
        simp only [applyOp] at hq
        rw [withSelectedServices_ok h.1 hn hw] at hq; cases hq
        intro kv hkv
        obtain ⟨s, hm, _, e⟩ := mem_selectedPruned (show kv ∈ selectedPruned set p.services from hkv)
        show Active kv.2 (withServicesDisabled p _).profiles
        rw [withServicesDisabled_profiles, e]
        exact ok (kv.1, s) hm
      | noSuchService =>
        have : ns.isEmpty = false := by cases ns <;> simp_all
        simp [applyOp, withSelectedServices, hw, this] at hq
      | outOfFuel => exact absurd hw (forEachService_fuel h.1 nk.services ns pol)
  | prune => cases hq; exact ok

/-- hence by every history -/
theorem profilesOK_inv {p : Proj} (g : Good p) (ok : ProfilesOK p) (ops : List Op) : ProfilesOK (run p ops) := by
  induction ops generalizing p with
  | nil => exact ok
  | cons o os ih =>
    rw [run_cons]
    cases ho : applyOp p o with
    | ok q => exact ih (partition_step g o ho).1 (profilesOK_step g.1 g.2.2 ok o ho)
    | err => exact ih g ok
    | fuel => exact ih g ok

/-! ## function of receiver and arguments: independence of Go's map iteration order -/

/-- `WithProfiles` is a function of the project and the profile list, whatever the iteration order -/
theorem profiles_perm {p p' : Proj} (h : Partition p) (e : SameProj p p') (P : List String) :
    LookEq (withProfiles p P).services (withProfiles p' P).services ∧
    LookEq (withProfiles p P).disabled (withProfiles p' P).disabled ∧
    (withProfiles p P).profiles = (withProfiles p' P).profiles := by
  have h' := partition_perm h e
  refine ⟨fun k => ?_, fun k => ?_, rfl⟩
  · rw [lookup_withProfiles_services h, lookup_withProfiles_services h', find_perm h e]
  · rw [lookup_withProfiles_disabled h, lookup_withProfiles_disabled h', find_perm h e]

/-- `WithServicesEnabled` is a function of the project and the (ordered) list of names -/
theorem enable_perm {p p' : Proj} (h : Partition p) (e : SameProj p p') (names : List String) :
    LookEq (withServicesEnabled p names).services (withServicesEnabled p' names).services ∧
    LookEq (withServicesEnabled p names).disabled (withServicesEnabled p' names).disabled ∧
    (withServicesEnabled p names).profiles = (withServicesEnabled p' names).profiles := by
  have es := lookEq_of_perm e.1 h.1
  have ed := lookEq_of_perm e.2.1 h.2.1
  have ep : enableProfiles p names = enableProfiles p' names := by
    unfold enableProfiles
    rw [e.2.2.1]
    congr 1
    funext acc n
    have : has n p.services = has n p'.services := by unfold has; rw [es n]
    rw [this, ed n]
  unfold withServicesEnabled
  split
  · exact ⟨es, ed, e.2.2.1⟩
  · rw [ep]
    have P := profiles_perm h e (enableProfiles p' names)
    refine ⟨fun k => ?_, P.2.1, P.2.2⟩
    rw [lookup_resolveEnabled_services, lookup_resolveEnabled_services, P.1 k]
    show Option.map (resolveEnvSvc p.environment) _ = Option.map (resolveEnvSvc p'.environment) _
    rw [e.2.2.2.2.2.2.2]

/-- `WithServicesDisabled` is a function of the project and the (ordered) list of names -/
theorem disable_perm {p p' : Proj} (h : Partition p) (e : SameProj p p') (names : List String) :
    LookEq (withServicesDisabled p names).services (withServicesDisabled p' names).services ∧
    LookEq (withServicesDisabled p names).disabled (withServicesDisabled p' names).disabled := by
  have es := lookEq_of_perm e.1 h.1
  have ed := lookEq_of_perm e.2.1 h.2.1
  clear h e
  unfold withServicesDisabled
  induction names generalizing p p' with
  | nil => exact ⟨es, ed⟩
  | cons n ns ih =>
    have := disableOne_lookEq es ed n
    exact ih this.1 this.2

/-- `WithoutUnnecessaryResources` is a function of the project -/
theorem prune_perm {p p' : Proj} (e : SameProj p p') :
    LookEq (withoutUnnecessaryResources p).networks (withoutUnnecessaryResources p').networks ∧
    LookEq (withoutUnnecessaryResources p).volumes (withoutUnnecessaryResources p').volumes ∧
    LookEq (withoutUnnecessaryResources p).secrets (withoutUnnecessaryResources p').secrets ∧
    LookEq (withoutUnnecessaryResources p).configs (withoutUnnecessaryResources p').configs := by
  have mem : ∀ (f : Svc → List String) (k : String),
      k ∈ p.services.flatMap (fun kv => f kv.2) ↔ k ∈ p'.services.flatMap (fun kv => f kv.2) := by
    intro f k
    simp only [List.mem_flatMap]
    exact ⟨fun ⟨a, ha, hk⟩ => ⟨a, e.1.mem_iff.1 ha, hk⟩, fun ⟨a, ha, hk⟩ => ⟨a, e.1.mem_iff.2 ha, hk⟩⟩
  obtain ⟨_, _, _, e1, e2, e3, e4, _⟩ := e
  refine ⟨fun k => ?_, fun k => ?_, fun k => ?_, fun k => ?_⟩ <;>
    simp only [withoutUnnecessaryResources, lookup_pick, mem, e1, e2, e3, e4]

/-- the *keys* of the map built by `dependentsForService` (the `Name`s of the services depending on `s.Name`) do not
depend on the iteration order, for any project — even one with colliding `Name`s, where the value kept under a
colliding name does (`Neg.walk_not_perm_invariant_with_colliding_names`) -/
theorem dependents_keys_perm {svcs svcs' : AL Svc} (e : svcs.Perm svcs') (s : Svc) (y : String) :
    y ∈ keys (dependents svcs s) ↔ y ∈ keys (dependents svcs' s) := by
  rw [mem_keys_dependents_names, mem_keys_dependents_names]
  exact ⟨fun ⟨kv, hm, h⟩ => ⟨kv, e.mem_iff.1 hm, h⟩, fun ⟨kv, hm, h⟩ => ⟨kv, e.mem_iff.2 hm, h⟩⟩

/-- without `NamesOK` the walk itself is order dependent (witness in `Neg/C15.lean`): the hypothesis is needed -/
theorem walk_perm_needs_names : ¬Neg.WalkPermInvariant := Neg.walk_not_perm_invariant_with_colliding_names

/-- `WithSelectedServices` (after the `fix:` commit) is a function of the project, the names and the policy:
whatever the iteration order of the service map, both halves of the result are the same maps.
(Before the fix only the enabled half was: `Neg/C15.lean`.) -/
theorem select_perm {p p' : Proj} (h : Partition p) (nk : NamesOK p) (e : SameProj p p') {names : List String} {pol : Policy}
    {q q' : Proj} (hq : withSelectedServices p names pol = .ok q) (hq' : withSelectedServices p' names pol = .ok q') :
    LookEq q.services q'.services ∧ LookEq q.disabled q'.disabled ∧ q.profiles = q'.profiles := by
  have h' := partition_perm h e
  have nk' := namesOK_perm nk e.1 e.2.1
  have es := lookEq_of_perm e.1 h.1
  have ed := lookEq_of_perm e.2.1 h.2.1
  by_cases hn : names = []
  · subst hn; cases hq; cases hq'; exact ⟨es, ed, e.2.2.1⟩
  · have ne : names.isEmpty = false := by cases names <;> simp_all
    cases hw : forEachService p names pol with
    | ok set =>
      cases hw' : forEachService p' names pol with
      | ok set' =>
        rw [withSelectedServices_ok h.1 hn hw] at hq
        rw [withSelectedServices_ok h'.1 hn hw'] at hq'
        cases hq; cases hq'
        have same : ∀ x, x ∈ set ↔ x ∈ set' := fun x => by
          rw [forEachService_reach h.1 nk.services hn hw, forEachService_reach h'.1 nk'.services hn hw']
          exact ⟨reach_lookEq es, reach_lookEq (fun k => (es k).symm)⟩
        have un : unselected set p.services = unselected set' p'.services := by
          unfold unselected
          apply sortNames_eq_of_perm
          unfold nonSelected
          have : (fun kv : String × Svc => decide (kv.1 ∉ set)) = (fun kv => decide (kv.1 ∉ set')) := by
            funext kv
            by_cases a : kv.1 ∈ set
            · simp [a, (same _).1 a]
            · have : kv.1 ∉ set' := fun c => a ((same _).2 c)
              simp [a, this]
          rw [this]
          exact (e.1.filter _).map _
        refine ⟨fun k => ?_, ?_, ?_⟩
        · show lookup k (selectedPruned set p.services) = lookup k (selectedPruned set' p'.services)
          rw [lookup_selectedPruned h.1, lookup_selectedPruned h'.1, es k]
          have pe : pruneDeps set = pruneDeps set' := by
            funext s; unfold pruneDeps; congr 1
            apply List.filter_congr; intro d _
            by_cases a : d.1 ∈ set
            · simp [a, (same _).1 a]
            · have : d.1 ∉ set' := fun c => a ((same _).2 c)
              simp [a, this]
          by_cases a : k ∈ set
          · simp [a, (same k).1 a, pe]
          · have : k ∉ set' := fun c => a ((same k).2 c)
            simp [a, this]
        · show LookEq (withServicesDisabled p (unselected set p.services)).disabled
            (withServicesDisabled p' (unselected set' p'.services)).disabled
          rw [un]
          exact (disable_perm h e _).2
        · show (withServicesDisabled p _).profiles = (withServicesDisabled p' _).profiles
          rw [withServicesDisabled_profiles, withServicesDisabled_profiles]; exact e.2.2.1
      | noSuchService => simp [withSelectedServices, hw', ne] at hq'
      | outOfFuel => exact absurd hw' (forEachService_fuel h'.1 nk'.services names pol)
    | noSuchService => simp [withSelectedServices, hw, ne] at hq
    | outOfFuel => exact absurd hw (forEachService_fuel h.1 nk.services names pol)

/-- success or failure of `WithSelectedServices` does not depend on the iteration order either -/
theorem select_perm_outcome {p p' : Proj} (g : Good p) (e : SameProj p p') {names : List String} (hn : names ≠ [])
    (pol : Policy) : withSelectedServices p names pol = .err ↔ withSelectedServices p' names pol = .err := by
  have es := lookEq_of_perm e.1 g.1.1
  have g' : Good p' := ⟨partition_perm g.1 e, fun kv hkv => g.2.1 kv (by
    rcases List.mem_append.1 hkv with a | a
    · exact List.mem_append_left _ (e.1.mem_iff.2 a)
    · exact List.mem_append_right _ (e.2.1.mem_iff.2 a)), namesOK_perm g.2.2 e.1 e.2.1⟩
  have mr : ∀ x, MissingRequired p.services pol x ↔ MissingRequired p'.services pol x := by
    intro x
    unfold MissingRequired
    rw [es x]
    cases lookup x p'.services with
    | none => simp [sat]
    | some s => simp only [sat, mem_keys_lookEq es]
  rw [select_error_iff g hn, select_error_iff g' hn]
  constructor
  · rintro (⟨n, a, b⟩ | ⟨x, a, b⟩)
    · exact .inl ⟨n, a, fun c => b ((mem_keys_lookEq es n).2 c)⟩
    · exact .inr ⟨x, reach_lookEq es a, (mr x).1 b⟩
  · rintro (⟨n, a, b⟩ | ⟨x, a, b⟩)
    · exact .inl ⟨n, a, fun c => b ((mem_keys_lookEq es n).1 c)⟩
    · exact .inr ⟨x, reach_lookEq (fun k => (es k).symm) a, (mr x).2 b⟩

/-- before the `fix:` commit the full-strength statement failed (witness in `Neg/C15.lean`, on the old loop) -/
theorem select_perm_failed_before_fix : ¬Neg.SelectPermInvariant := Neg.select_not_perm_invariant

/-! ## round 5: `ForEachService` itself — option handling, the callback sequence -/

/-- no option = `IncludeDependencies` (the "backward compatibility" branch of `ForEachService` and the initial value
of `withServicesOptions` agree) -/
theorem policy_default : policyOf [] = .deps := rfl

/-- of several `DependencyOption`s the last one decides -/
theorem policy_last_wins (opts : List Policy) (o : Policy) : policyOf (opts ++ [o]) = o := by
  simp [policyOf, List.foldl_append]

/-- recording the calls of `fn` does not change the walk: `forEachCalls` refines `forEachService` (so every theorem
about the set recorded by `WithSelectedServices` is a theorem about `ForEachService`) -/
theorem forEach_refines (p : Proj) (names : List String) (opts : List Policy) :
    (forEachCalls p names opts).forget = forEachService p names (policyOf opts) :=
  walkC_forget _ _ _ _ _ _ _

/-- an empty `names` is "all enabled services" -/
theorem forEach_all (p : Proj) (pol : Policy) :
    forEachService p [] pol = forEachService p (keys p.services) pol := by
  unfold forEachService
  simp only [walk]
  cases hk : keys p.services <;> simp

theorem forEach_never_out_of_fuel {p : Proj} (h : Partition p) (nk : NamesOK p) (names : List String) (opts : List Policy) :
    forEachCalls p names opts ≠ .outOfFuel := by
  intro c
  have := forEach_refines p names opts
  rw [c] at this
  exact forEachService_fuel h.1 nk.services names (policyOf opts) this.symm

/-- **the callback sequence of `ForEachService`**: `fn` is called exactly once with every service of the closure of
the names (all enabled services when no name is given), and a service pulled in by `x` — a dependency of `x`, or a
dependent of `x` under `IncludeDependents` — is called before `x`, unless it lies on a dependency cycle through `x`.
Holds for every iteration order of the maps (the model ranges in list order; the statement does not mention it). -/
theorem forEach_calls_exact {p : Proj} (h : Partition p) (nk : NamesOK p) (names : List String) (opts : List Policy)
    {seen calls : List String} (hq : forEachCalls p names opts = .ok seen calls) :
    ForEachSpec p names (policyOf opts) calls := by
  have nd := h.1
  have P := walkC_post nd nk.services (policyOf opts) hq
  have hperm := (walkC_perm p.services (policyOf opts) _ _ _ [] _ _ _ _ hq (by simp) (by simp))
  simp only [List.nil_append] at hperm
  have cnd : calls.Nodup := hperm.1.nodup_iff.2 hperm.2
  obtain ⟨new, e, _, _, t⟩ := walkC_topo nd nk.services (policyOf opts) _ _ _ _ _ _ _ hq
  simp only [List.nil_append] at e
  subst e
  have roots : (if names.isEmpty then keys p.services else names) = rootsOf p names := rfl
  rw [roots] at P
  have mem : ∀ x, x ∈ calls ↔ Reach p.services (policyOf opts) (rootsOf p names) x := by
    intro x
    rw [hperm.1.mem_iff]
    constructor
    · intro hx
      rcases P.sound x hx with h1 | ⟨r, hr, hk, hs⟩
      · cases h1
      · exact reach_of_star hr hk hs
    · intro hx
      induction hx with
      | root hr hk => exact P.roots _ hr hk
      | step _ e ih => exact P.closed _ ih (by simp) _ e
  refine ⟨cnd, ⟨fun x hx => (closure_eq_reach nd _ _ x).2 ((mem x).1 hx),
    fun x hx => (mem x).2 ((closure_eq_reach nd _ _ x).1 hx)⟩, ?_⟩
  intro x hx y hy
  have hxy := (mem_succ_iff nd _ x y).1 hy
  rcases t x hx y hxy with q | q | q
  · cases q
  · exact .inl (before_of_Before cnd q)
  · exact .inr ((closure_eq_reach nd _ _ x).2 (reach_of_star (by simp) (edge_target_mem hxy) q))

/-- in particular on an acyclic dependency graph every dependency is started before the service that needs it -/
theorem forEach_dependencies_first {p : Proj} (h : Partition p) (nk : NamesOK p) (names : List String) (opts : List Policy)
    {seen calls : List String} (hq : forEachCalls p names opts = .ok seen calls)
    (acyclic : ∀ x y, Edge p.services (policyOf opts) x y → ¬ Reach p.services (policyOf opts) [y] x)
    {x y : String} (hx : x ∈ calls) (hxy : Edge p.services (policyOf opts) x y) : before calls y x = true := by
  rcases (forEach_calls_exact h nk names opts hq).2.2 x hx y ((mem_succ_iff h.1 _ x y).2 hxy) with q | q
  · exact q
  · exact absurd ((closure_eq_reach h.1 _ _ x).1 q) (acyclic x y hxy)

/-- `ForEachService` fails ("no such service") exactly when the property's reference outcome is a rejection: a requested
name is not an enabled service, or a service of the closure has a required dependency that is not enabled -/
theorem forEach_error_iff {p : Proj} (g : Good p) (names : List String) (opts : List Policy) :
    forEachCalls p names opts = .noSuchService ↔ eachWanted p names (policyOf opts) = none := by
  have ref := forEach_refines p names opts
  have step1 : forEachCalls p names opts = .noSuchService ↔ forEachService p names (policyOf opts) = .noSuchService := by
    cases hc : forEachCalls p names opts <;> rw [hc] at ref <;> simp only [WalkC.forget] at ref <;> rw [← ref] <;> simp
  have step2 : forEachService p names (policyOf opts) = forEachService p (rootsOf p names) (policyOf opts) := by
    unfold rootsOf
    by_cases hn : names.isEmpty = true
    · rw [if_pos hn]
      have : names = [] := by cases names <;> simp_all
      subst this
      exact forEach_all p _
    · rw [if_neg hn]
  rw [step1, step2]
  unfold eachWanted
  by_cases hr : rootsOf p names = []
  · -- no name and no enabled service: nothing to visit, nothing to reject
    have hk : p.services = [] := by
      unfold rootsOf at hr
      by_cases hn : names.isEmpty = true
      · rw [if_pos hn] at hr
        cases hs : p.services with
        | nil => rfl
        | cons a b => rw [hs] at hr; simp [keys] at hr
      · rw [if_neg hn] at hr; subst hr; simp at hn
    rw [hr]
    simp [forEachService, walk, walkLoop, selectWanted, closure, closureN, hk, keys]
  · rw [selectWanted_none_iff g hr]
    have ne : (rootsOf p names).isEmpty = false := by cases h : rootsOf p names <;> simp_all
    cases hw : forEachService p (rootsOf p names) (policyOf opts) <;> simp [withSelectedServices, hw, ne]

/-- without the acyclicity hypothesis `forEach_dependencies_first` is false (witness in `Neg/C15.lean`); the
full-strength statement is `forEach_calls_exact`, which excuses exactly the edges on a cycle -/
theorem forEach_dependencies_first_needs_acyclic : ¬Neg.DepsFirst := Neg.deps_first_fails_on_a_cycle

/-! ### `ForEachService` is a function of the project, the names and the options (as a set of calls) -/

/-- the calls of `fn` are a function of the project, the names and the options **as a set** (their order among
siblings is Go's map order): two iteration orders of the same maps give the same set of calls -/
theorem forEach_calls_perm {p p' : Proj} (h : Partition p) (nk : NamesOK p) (e : SameProj p p') (names : List String)
    (opts : List Policy) {seen calls seen' calls' : List String}
    (hq : forEachCalls p names opts = .ok seen calls) (hq' : forEachCalls p' names opts = .ok seen' calls') :
    calls.Perm calls' := by
  have h' := partition_perm h e
  have nk' := namesOK_perm nk e.1 e.2.1
  have es := lookEq_of_perm e.1 h.1
  have S := forEach_calls_exact h nk names opts hq
  have S' := forEach_calls_exact h' nk' names opts hq'
  rw [List.perm_ext_iff_of_nodup S.1 S'.1]
  intro x
  have roots : ∀ r, r ∈ rootsOf p names ↔ r ∈ rootsOf p' names := by
    intro r
    unfold rootsOf
    by_cases hn : names.isEmpty = true
    · simp only [hn, if_true]; exact mem_keys_lookEq es r
    · simp only [hn]; exact Iff.rfl
  constructor
  · intro hx
    apply S'.2.1.2
    rw [closure_eq_reach h'.1]
    have := (closure_eq_reach h.1 _ _ x).1 (S.2.1.1 x hx)
    exact Reach.mono (fun r hr => (roots r).1 hr) (reach_lookEq es this)
  · intro hx
    apply S.2.1.2
    rw [closure_eq_reach h.1]
    have := (closure_eq_reach h'.1 _ _ x).1 (S'.2.1.1 x hx)
    exact Reach.mono (fun r hr => (roots r).2 hr) (reach_lookEq (fun k => (es k).symm) this)



theorem reach_nil {svcs : AL Svc} {pol : Policy} {x : String} : ¬Reach svcs pol [] x := by
  intro h
  induction h with
  | root hr _ => cases hr
  | step _ _ ih => exact ih

/-- the rejection condition of `ForEachService`, spelled out -/
theorem forEach_error_iff' {p : Proj} (g : Good p) (names : List String) (opts : List Policy) :
    forEachCalls p names opts = .noSuchService ↔
      (∃ n ∈ rootsOf p names, n ∉ keys p.services) ∨
      ∃ x, Reach p.services (policyOf opts) (rootsOf p names) x ∧ MissingRequired p.services (policyOf opts) x := by
  rw [forEach_error_iff g]
  unfold eachWanted
  by_cases hr : rootsOf p names = []
  · rw [hr]
    have hc : closure p.services (policyOf opts) [] = [] := by
      unfold closure
      have : ∀ n, closureN p.services (policyOf opts) n [] = [] := by
        intro n; induction n with
        | zero => rfl
        | succ n ih => simp [closureN, expand, ih]
      simpa using this _
    have : selectWanted p [] (policyOf opts) ≠ none := by simp [selectWanted, hc]
    constructor
    · intro c; exact absurd c this
    · rintro (⟨n, hn, _⟩ | ⟨x, hx, _⟩)
      · cases hn
      · exact absurd hx reach_nil
  · rw [selectWanted_none_iff g hr, select_error_iff g hr]

/-- success or failure of `ForEachService` does not depend on the iteration order of the maps -/
theorem forEach_outcome_perm {p p' : Proj} (g : Good p) (e : SameProj p p') (names : List String) (opts : List Policy) :
    forEachCalls p names opts = .noSuchService ↔ forEachCalls p' names opts = .noSuchService := by
  have es := lookEq_of_perm e.1 g.1.1
  have g' : Good p' := ⟨partition_perm g.1 e, fun kv hkv => g.2.1 kv (by
    rcases List.mem_append.1 hkv with a | a
    · exact List.mem_append_left _ (e.1.mem_iff.2 a)
    · exact List.mem_append_right _ (e.2.1.mem_iff.2 a)), namesOK_perm g.2.2 e.1 e.2.1⟩
  have roots : ∀ r, r ∈ rootsOf p names ↔ r ∈ rootsOf p' names := by
    intro r
    unfold rootsOf
    by_cases hn : names.isEmpty = true
    · simp only [hn, if_true]; exact mem_keys_lookEq es r
    · simp only [hn]; exact Iff.rfl
  have mr : ∀ x, MissingRequired p.services (policyOf opts) x ↔ MissingRequired p'.services (policyOf opts) x := by
    intro x
    unfold MissingRequired
    rw [es x]
    cases lookup x p'.services with
    | none => simp [sat]
    | some s => simp only [sat, mem_keys_lookEq es]
  rw [forEach_error_iff' g, forEach_error_iff' g']
  constructor
  · rintro (⟨n, a, b⟩ | ⟨x, a, b⟩)
    · exact .inl ⟨n, (roots n).1 a, fun c => b ((mem_keys_lookEq es n).2 c)⟩
    · exact .inr ⟨x, Reach.mono (fun r hr => (roots r).1 hr) (reach_lookEq es a), (mr x).1 b⟩
  · rintro (⟨n, a, b⟩ | ⟨x, a, b⟩)
    · exact .inl ⟨n, (roots n).2 a, fun c => b ((mem_keys_lookEq es n).1 c)⟩
    · exact .inr ⟨x, Reach.mono (fun r hr => (roots r).2 hr) (reach_lookEq (fun k => (es k).symm) a), (mr x).2 b⟩

/-! ## round 5: accessors -/

/-- `ServiceNames()` is the sorted list of the enabled keys … -/
theorem serviceNames_exact (p : Proj) :
    (serviceNames p).Perm (keys p.services) ∧ (serviceNames p).Pairwise (· ≤ ·) :=
  ⟨sortNames_perm _, sortNames_sorted _⟩

/-- … hence a function of the map, not of its iteration order (same for `DisabledServiceNames`) -/
theorem serviceNames_perm {p p' : Proj} (e : SameProj p p') :
    serviceNames p = serviceNames p' ∧ disabledServiceNames p = disabledServiceNames p' :=
  ⟨sortNames_eq_of_perm (e.1.map _), sortNames_eq_of_perm (e.2.1.map _)⟩

/-- `GetService` reads the partition: a service value iff the name is enabled, `ErrDisabled` iff it is (only)
disabled, `ErrNotFound` iff the project does not know it -/
theorem getService_reads_partition (p : Proj) (n : String) :
    (∀ s, getService p n = .ok s ↔ lookup n p.services = some s) ∧
    (getService p n = .disabled ↔ n ∉ keys p.services ∧ n ∈ keys p.disabled) ∧
    (getService p n = .notFound ↔ n ∉ known p) := by
  unfold getService has
  cases hs : lookup n p.services with
  | some s =>
    have hk := keys_of_lookup hs
    refine ⟨fun t => by simp, by simp [hk], by simp [mem_known, hk]⟩
  | none =>
    have hk := lookup_eq_none.1 hs
    by_cases hd : n ∈ keys p.disabled
    · have : (lookup n p.disabled).isSome = true := lookup_isSome.2 hd
      simp [this, hk, hd, mem_known]
    · have : (lookup n p.disabled).isSome = false := by
        cases h : (lookup n p.disabled).isSome
        · rfl
        · exact absurd (lookup_isSome.1 h) hd
      simp [this, hk, hd, mem_known]

theorem getServicesLoop_ok (p : Proj) : ∀ (ns : List String) (acc m : AL Svc), getServicesLoop p ns acc = .ok m →
    (∀ n ∈ ns, n ∈ keys p.services) ∧ ∀ k, lookup k m = if k ∈ ns then lookup k p.services else lookup k acc := by
  intro ns
  induction ns with
  | nil => intro acc m h; simp only [getServicesLoop, GetMany.ok.injEq] at h; subst h; simp
  | cons n ns ih =>
    intro acc m h
    unfold getServicesLoop at h
    cases hg : getService p n with
    | ok s =>
      simp only [hg] at h
      have hl := ((getService_reads_partition p n).1 s).1 hg
      obtain ⟨a, b⟩ := ih _ _ h
      refine ⟨fun x hx => ?_, fun k => ?_⟩
      · rcases List.mem_cons.1 hx with e | e
        · exact e ▸ keys_of_lookup hl
        · exact a x e
      · rw [b k]
        by_cases hk : k ∈ ns
        · simp [hk]
        · by_cases hkn : k = n
          · subst hkn; simp [hk, lookup_insert, hl]
          · simp [hk, hkn, lookup_insert]
    | disabled => simp [hg] at h
    | notFound => simp [hg] at h

/-- `GetServices(names…)`: succeeds only if every name is enabled and then returns exactly the named enabled
services; without a name it returns the service map -/
theorem getServices_exact (p : Proj) (names : List String) (m : AL Svc) (h : getServices p names = .ok m) :
    (∀ n ∈ names, n ∈ keys p.services) ∧
    ∀ k, lookup k m = if names = [] ∨ k ∈ names then lookup k p.services else none := by
  unfold getServices at h
  by_cases hn : names.isEmpty = true
  · have : names = [] := by cases names <;> simp_all
    subst this
    simp only [List.isEmpty_nil, if_true, GetMany.ok.injEq] at h
    subst h
    simp
  · rw [if_neg hn] at h
    have hne : names ≠ [] := fun c => hn (by simp [c])
    obtain ⟨a, b⟩ := getServicesLoop_ok p names [] m h
    refine ⟨a, fun k => ?_⟩
    rw [b k]
    simp [hne, lookup]

/-- `GetDependentsForService(s)` of an enabled service filed under its own name: exactly the services the
`IncludeDependents` policy pulls in, sorted -/
theorem getDependents_exact {p : Proj} (nd : (keys p.services).Nodup) (nk : NamesOK p) {x : String} {s : Svc}
    (hs : lookup x p.services = some s) (y : String) :
    y ∈ getDependentsForService p s ↔ Edge p.services .dependents x y := by
  unfold getDependentsForService
  rw [mem_sortNames]
  have hname : s.name = x := nk.services _ (mem_of_lookup hs)
  rw [mem_keys_dependents nk.services hname]
  unfold Edge
  exact ⟨fun ⟨s', hm, hd⟩ => ⟨keys_of_lookup hs, s', lookup_of_mem nd hm, hd⟩,
    fun ⟨_, s', hl, hd⟩ => ⟨s', mem_of_lookup hl, hd⟩⟩

/-! ## round 5: compositions -/

/-- disabling in two calls is disabling the concatenated argument list in one -/
theorem disable_disable (p : Proj) (a b : List String) :
    withServicesDisabled (withServicesDisabled p a) b = withServicesDisabled p (a ++ b) := by
  simp [withServicesDisabled, List.foldl_append]

/-- pruning twice is pruning once -/
theorem prune_idempotent (p : Proj) :
    LookEq (withoutUnnecessaryResources (withoutUnnecessaryResources p)).networks (withoutUnnecessaryResources p).networks ∧
    LookEq (withoutUnnecessaryResources (withoutUnnecessaryResources p)).volumes (withoutUnnecessaryResources p).volumes ∧
    LookEq (withoutUnnecessaryResources (withoutUnnecessaryResources p)).secrets (withoutUnnecessaryResources p).secrets ∧
    LookEq (withoutUnnecessaryResources (withoutUnnecessaryResources p)).configs (withoutUnnecessaryResources p).configs := by
  refine ⟨fun k => ?_, fun k => ?_, fun k => ?_, fun k => ?_⟩ <;>
    simp only [withoutUnnecessaryResources, lookup_pick] <;> split <;> simp_all

/-- `WithProfiles` repartitions **from the union of both sets**: the result depends on the services known to the project
and not on how they are currently split, so applying it after another `WithProfiles` forgets the earlier one -/
theorem profiles_forgets_partition {p : Proj} (h : Partition p) (P Q : List String) :
    LookEq (withProfiles (withProfiles p P) Q).services (withProfiles p Q).services ∧
    LookEq (withProfiles (withProfiles p P) Q).disabled (withProfiles p Q).disabled ∧
    (withProfiles (withProfiles p P) Q).profiles = (withProfiles p Q).profiles := by
  have hp := withProfiles_partition h P
  refine ⟨fun k => ?_, fun k => ?_, rfl⟩
  · rw [lookup_withProfiles_services hp, lookup_withProfiles_services h, find_withProfiles h]
  · rw [lookup_withProfiles_disabled hp, lookup_withProfiles_disabled h, find_withProfiles h]

/-- in particular `WithProfiles P` is idempotent -/
theorem profiles_idempotent {p : Proj} (h : Partition p) (P : List String) :
    LookEq (withProfiles (withProfiles p P) P).services (withProfiles p P).services ∧
    LookEq (withProfiles (withProfiles p P) P).disabled (withProfiles p P).disabled :=
  ⟨(profiles_forgets_partition h P P).1, (profiles_forgets_partition h P P).2.1⟩

/-- every history of `WithProfiles` calls is its last call -/
theorem profiles_history {p : Proj} (h : Partition p) (Ps : List (List String)) (Q : List String) :
    LookEq (run p ((Ps ++ [Q]).map Op.profiles)).services (withProfiles p Q).services ∧
    LookEq (run p ((Ps ++ [Q]).map Op.profiles)).disabled (withProfiles p Q).disabled := by
  induction Ps generalizing p with
  | nil => exact ⟨fun _ => rfl, fun _ => rfl⟩
  | cons P Ps ih =>
    have hp := withProfiles_partition h P
    have := ih hp
    simp only [List.cons_append, List.map_cons, run_cons, applyOp]
    refine ⟨fun k => ?_, fun k => ?_⟩
    · rw [this.1 k]; exact (profiles_forgets_partition h P Q).1 k
    · rw [this.2 k]; exact (profiles_forgets_partition h P Q).2.1 k

/-! ## round 5: `Services.GetProfiles` (an unordered list: compared through its sorted view) -/

/-- (the sorted view of) `GetProfiles` lists exactly the profiles named by a service of the map, each once … -/
theorem getProfiles_exact (svcs : AL Svc) :
    (∀ x, x ∈ getProfiles svcs ↔ ∃ kv ∈ svcs, x ∈ kv.2.profiles) ∧ (getProfiles svcs).Nodup ∧
    (getProfiles svcs).Pairwise (· ≤ ·) := by
  refine ⟨fun x => ?_, ?_, sortNames_sorted _⟩
  · unfold getProfiles getProfilesPre
    rw [mem_sortNames, List.mem_eraseDups, List.mem_flatMap]
  · unfold getProfiles
    exact (sortNames_perm _).nodup_iff.2 (nodup_eraseDups _)

/-- … hence a function of the map and not of its iteration order (the raw slice is not: `Neg/C15.lean`) -/
theorem getProfiles_perm {svcs svcs' : AL Svc} (e : svcs.Perm svcs') : getProfiles svcs = getProfiles svcs' := by
  unfold getProfiles
  apply sortNames_eq_of_perm
  unfold getProfilesPre
  rw [List.perm_ext_iff_of_nodup (nodup_eraseDups _) (nodup_eraseDups _)]
  intro x
  rw [List.mem_eraseDups, List.mem_eraseDups, List.mem_flatMap, List.mem_flatMap]
  exact ⟨fun ⟨a, ha, hx⟩ => ⟨a, e.mem_iff.1 ha, hx⟩, fun ⟨a, ha, hx⟩ => ⟨a, e.mem_iff.2 ha, hx⟩⟩

theorem getProfiles_raw_order_dependent : ¬Neg.GetProfilesPermInvariant :=
  Neg.getProfiles_raw_order_dependent

/-- the profiles `GetProfiles` reports for the disabled services named in a `WithServicesEnabled` call are the
profiles that call activates (`wantedProfiles`), as a set -/
theorem getProfiles_of_named_disabled {p : Proj} (h : Partition p) (names : List String) (x : String) :
    x ∈ wantedProfiles p names ↔
      x ∈ getProfiles (p.disabled.filter fun kv => kv.1 ∈ names ∧ kv.1 ∉ keys p.services) := by
  rw [(getProfiles_exact _).1]
  unfold wantedProfiles
  rw [List.mem_flatMap]
  constructor
  · rintro ⟨n, hn, hx⟩
    by_cases he : n ∈ keys p.services
    · simp [he] at hx
    · simp only [he, if_false] at hx
      cases hl : lookup n p.disabled with
      | none => simp [hl] at hx
      | some s =>
        simp only [hl] at hx
        exact ⟨(n, s), List.mem_filter.2 ⟨mem_of_lookup hl, by simp [hn, he]⟩, hx⟩
  · rintro ⟨kv, hkv, hx⟩
    obtain ⟨hm, hc⟩ := List.mem_filter.1 hkv
    simp only [decide_eq_true_eq] at hc
    refine ⟨kv.1, hc.1, ?_⟩
    simp only [hc.2, if_false]
    rw [lookup_of_mem h.2.1 (show (kv.1, kv.2) ∈ p.disabled from hm)]
    exact hx

/-! ## round 5: option lists of `WithSelectedServices`, enable after disable -/

/-- `WithSelectedServices(names, o₁ … oₙ)` is `WithSelectedServices(names, oₙ)`; without option it is
`WithSelectedServices(names, IncludeDependencies)` -/
theorem select_options (p : Proj) (names : List String) (opts : List Policy) (o : Policy) :
    withSelectedServicesOpts p names (opts ++ [o]) = withSelectedServices p names o ∧
    withSelectedServicesOpts p names [] = withSelectedServices p names .deps := by
  unfold withSelectedServicesOpts
  rw [policy_last_wins]
  exact ⟨rfl, rfl⟩

/-- a service that was enabled, on a project as a load leaves it, comes back when it is disabled and then enabled by
name — whatever its profiles (they are activated).  What does *not* come back are the `depends_on` entries the other
services lost when it was disabled (`history_conserved`: dependencies only shrink). -/
theorem enable_undoes_disable {p : Proj} (g : Good p) (ok : ProfilesOK p) {n : String} (hn : n ∈ keys p.services) :
    n ∈ keys (withServicesEnabled (withServicesDisabled p [n]) [n]).services := by
  have hq := withServicesDisabled_partition g.1 [n]
  have okq : ProfilesOK (withServicesDisabled p [n]) := profilesOK_step g.1 g.2.2 ok (.disable [n]) rfl
  have hk : n ∈ known (withServicesDisabled p [n]) := by
    rw [← (partition_step g (.disable [n]) rfl).2.known]
    exact mem_known.2 (.inl hn)
  have E := enable_activates_profiles hq [n]
  unfold EnableSpec at E
  simp only [List.cons_ne_self, reduceCtorEq, if_false] at E
  exact (E.2.2.2 okq n (by simp) hk).1

/-- the closure of the names inside the result of a selection is the whole result -/
theorem reach_in_selection {p q : Proj} {S names : List String} {pol : Policy}
    (hS : ∀ x, x ∈ S ↔ Reach p.services pol names x) (sp : SelectSpec p S q) (ndq : (keys q.services).Nodup) {x : String}
    (hx : Reach p.services pol names x) : Reach q.services pol names x := by
  have inq : ∀ y, Reach p.services pol names y → y ∈ keys q.services := fun y hy => sp.1.2 y ((hS y).2 hy)
  have look : ∀ y, y ∈ keys q.services → ∃ t s, lookup y q.services = some t ∧ lookup y p.services = some s ∧
      t.deps = s.deps.filter (fun d => d.1 ∈ S) := by
    intro y hy
    obtain ⟨t, ht⟩ := Option.isSome_iff_exists.1 (lookup_isSome.2 hy)
    have := sp.2.2.1 (y, t) (mem_of_lookup ht)
    cases hs : lookup y p.services with
    | none => simp [hs, sat] at this
    | some s => simp only [hs, sat] at this; exact ⟨t, s, ht, rfl, this⟩
  induction hx with
  | root hr hk => exact .root hr (inq _ (.root hr hk))
  | @step x y hx e ih =>
    have hy : Reach p.services pol names y := .step hx e
    refine .step ih ?_
    cases pol with
    | deps =>
      obtain ⟨s, hs, hd, _⟩ := e
      obtain ⟨t, s', ht, hs', hdeps⟩ := look x (inq x hx)
      rw [hs] at hs'; cases hs'
      refine ⟨t, ht, ?_, inq y hy⟩
      rw [hdeps, mem_keys_filter]
      obtain ⟨v, hv⟩ := mem_keys.1 hd
      exact ⟨v, hv, by simpa using (hS y).2 hy⟩
    | dependents =>
      obtain ⟨_, s, hs, hd⟩ := e
      obtain ⟨t, s', ht, hs', hdeps⟩ := look y (inq y hy)
      rw [hs] at hs'; cases hs'
      refine ⟨inq x hx, t, ht, ?_⟩
      rw [hdeps, mem_keys_filter]
      obtain ⟨v, hv⟩ := mem_keys.1 hd
      exact ⟨v, hv, by simpa using (hS x).2 hx⟩
    | ignore => exact e.elim

/-- **selecting is idempotent**: selecting the same names with the same policy in the result of a successful selection
succeeds and changes nothing — the enabled services are the same map, the disabled services and the profiles the same -/
theorem select_idempotent {p : Proj} (g : Good p) {names : List String} (hn : names ≠ []) {pol : Policy}
    {q : Proj} (hq : withSelectedServices p names pol = .ok q) :
    ∃ q', withSelectedServices q names pol = .ok q' ∧ LookEq q'.services q.services ∧ q'.disabled = q.disabled ∧
      q'.profiles = q.profiles := by
  obtain ⟨S, hS, sp, _, _⟩ := select_exact g hn hq
  have gq : Good q := (partition_step g (.select names pol) hq).1
  have ndq := gq.1.1
  have ne : names.isEmpty = false := by cases names <;> simp_all
  -- the names are enabled in p (else the first selection would have failed), hence in q
  have namesIn : ∀ n ∈ names, n ∈ keys p.services := by
    intro n hnm
    apply Classical.byContradiction
    intro c
    have := (select_error_iff g hn pol).2 (.inl ⟨n, hnm, c⟩)
    rw [hq] at this; cases this
  have keysq : ∀ x, x ∈ keys q.services ↔ Reach q.services pol names x := by
    intro x
    constructor
    · intro hx
      exact reach_in_selection hS sp ndq ((hS x).1 (sp.1.1 x hx))
    · intro hx
      induction hx with
      | root _ hk => exact hk
      | step _ e _ => exact edge_target_mem e
  cases hw : forEachService q names pol with
  | outOfFuel => exact absurd hw (forEachService_fuel ndq gq.2.2.services names pol)
  | noSuchService =>
    have herr : withSelectedServices q names pol = .err := by simp [withSelectedServices, hw, ne]
    rcases (select_error_iff gq hn pol).1 herr with ⟨n, hnm, hnk⟩ | ⟨x, hx, hm⟩
    · exact absurd ((keysq n).2 (reach_in_selection hS sp ndq (.root hnm (namesIn n hnm)))) hnk
    · obtain ⟨_, hm⟩ := hm
      cases hl : lookup x q.services with
      | none => simp [hl, sat] at hm
      | some t =>
        simp only [hl, sat] at hm
        obtain ⟨kv, hkv, _, hmiss⟩ := hm
        exact absurd (sp.2.1 (x, t) (mem_of_lookup hl) kv.1 (mem_keys_of_mem hkv)) hmiss
  | ok set' =>
    have hset : ∀ x, x ∈ set' ↔ x ∈ keys q.services := fun x => by
      rw [forEachService_reach ndq gq.2.2.services hn hw, keysq]
    refine ⟨selectResult q set', withSelectedServices_ok ndq hn hw, fun k => ?_, ?_, ?_⟩
    · show lookup k (selectedPruned set' q.services) = lookup k q.services
      rw [lookup_selectedPruned ndq]
      cases hl : lookup k q.services with
      | none => simp
      | some t =>
        have hk : k ∈ set' := (hset k).2 (keys_of_lookup hl)
        simp only [hk, if_true, Option.map_some, Option.some.injEq]
        unfold pruneDeps
        have : t.deps.filter (fun kv => decide (kv.1 ∈ set')) = t.deps := by
          apply List.filter_eq_self.2
          intro d hd
          have := sp.2.1 (k, t) (mem_of_lookup hl) d.1 (mem_keys_of_mem hd)
          simpa using (hset d.1).2 this
        rw [this]
    · have un : unselected set' q.services = [] := by
        unfold unselected nonSelected
        have : q.services.filter (fun kv => decide (kv.1 ∉ set')) = [] := by
          apply List.filter_eq_nil_iff.2
          intro kv hkv
          simpa using (hset kv.1).2 (mem_keys_of_mem hkv)
        rw [this]; rfl
      show (withServicesDisabled q (unselected set' q.services)).disabled = q.disabled
      rw [un]; rfl
    · show (withServicesDisabled q _).profiles = q.profiles
      exact withServicesDisabled_profiles q _

/-! ## non-vacuity -/

def exSvc (name : String) (profiles : List String) (deps : AL Dep) : Svc :=
  { name := name, image := "i", profiles := profiles, deps := deps, nets := ["n"], vols := [("volume", "v")], secrets := [], build := some ["s"], configs := [] }

def exProj : Proj :=
  { services := [("web", exSvc "web" [] [("db", ⟨true, "service_started"⟩), ("cache", ⟨false, "service_started"⟩)]),
                 ("db", exSvc "db" [] []), ("job", exSvc "job" [] [("db", ⟨true, "service_healthy"⟩)])]
    disabled := [("cache", exSvc "cache" ["p"] [])]
    profiles := [], networks := [("n", "N"), ("m", "M")], volumes := [("v", "V")], secrets := [("s", "S"), ("t", "T")], configs := [] }

example : Good exProj := ⟨by decide, by decide, by decide⟩
example : withSelectedServices exProj ["web"] .deps = .ok (selectResult exProj ["db", "web"]) := by decide
example : keys (selectResult exProj ["db", "web"]).services = ["web", "db"] ∧
    keys (selectResult exProj ["db", "web"]).disabled = ["cache", "job"] := by decide
example : Reach exProj.services .deps ["web"] "db" :=
  (forEachService_reach (p := exProj) (by decide) (fun kv hkv => by revert kv; decide) (by decide) (set := ["db", "web"]) (by decide) "db").1 (by decide)
example : keys (withServicesEnabled exProj ["cache"]).services = ["web", "db", "job", "cache"] ∧
    (withServicesEnabled exProj ["cache"]).profiles = ["p"] := by decide
example : keys (withoutUnnecessaryResources exProj).networks = ["n"] ∧
    keys (withoutUnnecessaryResources exProj).secrets = ["s"] := by decide
example : withSelectedServices exProj ["cache"] .deps = .err := by decide

/-! ### round 5 -/

-- `web → db (required), cache (optional, disabled)`, `job → db`: the callbacks of `ForEachService(["web","job"])`
example : forEachCalls exProj ["web", "job"] [] = .ok ["job", "db", "web"] ["db", "web", "job"] := by decide
example : ForEachSpec exProj ["web", "job"] .deps ["db", "web", "job"] := by decide
-- no name: all enabled services; `IncludeDependents` from `db`: the dependents come first
example : forEachCalls exProj [] [.ignore] = .ok ["job", "db", "web"] ["web", "db", "job"] := by decide
example : forEachCalls exProj ["db"] [.deps, .dependents] = .ok ["job", "web", "db"] ["web", "job", "db"] := by decide
example : ForEachSpec exProj ["db"] .dependents ["web", "job", "db"] := by decide
-- the acyclicity hypothesis of `forEach_dependencies_first` is satisfiable (and decided here through the executable closure)
example : ∀ x ∈ keys exProj.services, ∀ y ∈ succ exProj.services .deps x, x ∉ closure exProj.services .deps [y] := by decide
-- a required dependency on a disabled service is a rejection; an optional one is not
example : forEachCalls exProj ["cache"] [] = .noSuchService ∧ eachWanted exProj ["cache"] .deps = none := by decide
example : serviceNames exProj = ["db", "job", "web"] ∧ disabledServiceNames exProj = ["cache"] := by decide
example : getService exProj "cache" = .disabled ∧ getService exProj "zz" = .notFound := by decide
example : getServices exProj ["web", "cache"] = .disabled ∧ getServices exProj ["zz", "cache"] = .notFound := by decide
example : getDependentsForService exProj (exSvc "db" [] []) = ["job", "web"] := by decide
example : (withProfiles (withProfiles exProj ["p"]) []).services = (withProfiles exProj []).services := by decide

end CV.Sel
