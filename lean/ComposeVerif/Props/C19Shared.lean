import ComposeVerif.Lemmas.Interleave
/-!
# C19 (round 7) — loads that SHARE their input values by reference

A caller that prepares its arguments once (`types.ToConfigFiles`, one environment map, one list of option functions) and
loads from several goroutines hands every load the same `[]ConfigFile` backing array, the same map, the same function
list.  In the interleaving model (`Lemmas/Interleave.lean`) those are locations with `owner = none`: every load may read
them, no load may write them.  The theorems here are what the `race` stream's *input-immutability* oracle
(`harness/c19race/main.go: sharedSnap.diff`) decides on the real code after cold, concurrent loads of shared inputs:

* `shared_inputs_immutable_at_every_point` — under `WritesOwn`, after EVERY prefix of EVERY schedule the shared
  locations hold the caller's values (not only at the end: a reader that runs in the middle sees them too);
* `store_into_shared_input_refutes_writes_own` — the hypothesis is necessary: one step of one load that changes a shared
  location refutes `WritesOwn` (this is the shape of `details.ConfigFiles[i].Content = d` in `loader.projectName`);
* `idempotent_shared_store_invisible_in_results` — and comparing the loads' RESULTS cannot see such a store when it is
  idempotent (every load stores the same bytes): in the witness system every load ends with exactly its solo result
  under every schedule, and yet the shared location differs from what the caller handed in after the first step.
  Hence the separate immutability check (and the race detector) in the oracle.
-/
namespace CV.Interleave

variable {Loc Val Tid : Type}

theorem exec_append (S : Sys Loc Val Tid) (a b : List Tid) (m : Loc → Val) :
    exec S (a ++ b) m = exec S b (exec S a m) := by
  induction a generalizing m with
  | nil => rfl
  | cons t r ih => simp only [List.cons_append, exec]; exact ih _

/-- shared locations are never changed by a schedule of loads that write only what they own -/
theorem shared_unchanged (S : Sys Loc Val Tid) (hW : WritesOwn S) (sched : List Tid) (m : Loc → Val) (x : Loc)
    (hx : S.owner x = none) : exec S sched m x = m x := by
  induction sched generalizing m with
  | nil => rfl
  | cons u rest ih =>
    simp only [exec]
    rw [ih (S.step u m)]
    exact hW u m x (by rw [hx]; simp)

/-- **input immutability at every point of every interleaving**: whatever prefix of the schedule has run, a location the
    loads share (the caller's config-file list, environment map, option list) holds the value the caller put there -/
theorem shared_inputs_immutable_at_every_point (S : Sys Loc Val Tid) (hW : WritesOwn S) (sched : List Tid) (k : Nat)
    (m : Loc → Val) (x : Loc) (hx : S.owner x = none) : exec S (sched.take k) m x = m x :=
  shared_unchanged S hW (sched.take k) m x hx

/-- … and the rest of the schedule runs from a state whose shared part is still the caller's -/
theorem shared_inputs_immutable_split (S : Sys Loc Val Tid) (hW : WritesOwn S) (a b : List Tid)
    (m : Loc → Val) (x : Loc) (hx : S.owner x = none) :
    exec S (a ++ b) m x = m x ∧ exec S a m x = m x := by
  refine ⟨shared_unchanged S hW (a ++ b) m x hx, shared_unchanged S hW a m x hx⟩

/-- the hypothesis is necessary: a single store into a shared location refutes `WritesOwn` -/
theorem store_into_shared_input_refutes_writes_own (S : Sys Loc Val Tid) {t : Tid} {m : Loc → Val} {x : Loc}
    (hx : S.owner x = none) (hw : S.step t m x ≠ m x) : ¬ WritesOwn S :=
  fun hW => hw (hW t m x (by rw [hx]; simp))

/-! ## witness: an idempotent store into the shared config-file list

Location `none` is the shared `ConfigFiles[0].Content` (`0` = nil, `d + 1` = the bytes `d` read from the file), location
`some b` is the result of load `b`.  A step of load `b` reads the file when the content is nil, stores what it read into
the SHARED location, and computes its result from the bytes — the same result whether it read the file itself or found
the bytes another load left there. -/

def fileBytes : Nat := 7

def sharedStore : Sys (Option Bool) Nat Bool :=
  { owner := fun x => x,
    step := fun t m x =>
      let content := if m none = 0 then fileBytes + 1 else m none
      match x with
      | none => content
      | some b => if b = t then content * 10 else m (some b) }

/-- the caller's input: content nil, no results yet -/
def callerInput : Option Bool → Nat := fun _ => 0

theorem sharedStore_not_writes_own : ¬ WritesOwn sharedStore :=
  store_into_shared_input_refutes_writes_own sharedStore (t := true) (m := callerInput) (x := none) rfl (by decide)

/-- results cannot tell: under every schedule each load that ran ends with the result it computes alone … -/
theorem idempotent_shared_store_invisible_in_results (sched : List Bool) (b : Bool) (hb : b ∈ sched) :
    exec sharedStore sched callerInput (some b) = exec sharedStore [b] callerInput (some b) := by
  -- invariant: content ∈ {0, 8}; once a load has run its result is 80 and stays
  have key : ∀ (s : List Bool) (m : Option Bool → Nat), (m none = 0 ∨ m none = fileBytes + 1) →
      (∀ c, m (some c) = 0 ∨ m (some c) = (fileBytes + 1) * 10) →
      (b ∈ s ∨ m (some b) = (fileBytes + 1) * 10) → exec sharedStore s m (some b) = (fileBytes + 1) * 10 := by
    intro s
    induction s with
    | nil => intro m _ _ h; cases h with
      | inl h => cases h
      | inr h => exact h
    | cons t r ih =>
      intro m h0 hres h
      simp only [exec]
      apply ih
      · cases h0 with
        | inl h0 => right; simp [sharedStore, h0]
        | inr h0 => right; simp [sharedStore, h0, fileBytes]
      · intro c
        by_cases hc : c = t
        · right; cases h0 with
          | inl h0 => simp [sharedStore, hc, h0]
          | inr h0 => simp [sharedStore, hc, h0, fileBytes]
        · have := hres c; simpa [sharedStore, hc] using this
      · by_cases hbt : b = t
        · right; cases h0 with
          | inl h0 => simp [sharedStore, hbt, h0]
          | inr h0 => simp [sharedStore, hbt, h0, fileBytes]
        · cases h with
          | inl h =>
            left
            cases h with
            | head => exact absurd rfl hbt
            | tail _ h => exact h
          | inr h => right; simpa [sharedStore, hbt] using h
  rw [key sched callerInput (.inl rfl) (fun _ => .inl rfl) (.inl hb)]
  rw [key [b] callerInput (.inl rfl) (fun _ => .inl rfl) (.inl (List.mem_singleton.mpr rfl))]

/-- … and yet the caller's shared input is no longer what it handed in, from the first step on -/
theorem idempotent_shared_store_mutates_input (t : Bool) (rest : List Bool) :
    exec sharedStore (t :: rest) callerInput none ≠ callerInput none := by
  have key : ∀ (s : List Bool) (m : Option Bool → Nat), m none = fileBytes + 1 → exec sharedStore s m none = fileBytes + 1 := by
    intro s
    induction s with
    | nil => intro m h; exact h
    | cons u r ih => intro m h; simp only [exec]; apply ih; simp [sharedStore, h, fileBytes]
  simp only [exec]
  rw [key rest _ (by simp [sharedStore, callerInput])]
  decide

end CV.Interleave
