import ComposeVerif.Lemmas.Extends
import ComposeVerif.Lemmas.ExtendsFuel
import ComposeVerif.Lemmas.ExtendsComplete
import ComposeVerif.Neg.C05
import ComposeVerif.Model.ExtendsMerge
import ComposeVerif.Lemmas.ExtendsReal
import ComposeVerif.Gen.C05Facts
/-!
# C05 — extends yields base-then-local override, order-independent, cycle-safe

Property theorems only (helper lemmas live in `Lemmas/Extends.lean`, the specification `Flat` in
`Spec/Extends.lean`, the model of `loader/extends.go` in `Model/Extends.lean`).

Every theorem is parametric in the environment `E`: the name of the main file, the file system
(what loading each referenced file yields, relative paths already resolved against that file's
directory) and the merge step `E.extend` (= `override.ExtendService`).  `order` is the order in
which the loop of `ApplyExtends` visits the services map (random in Go): the theorems hold for
every order that visits exactly the services of the map.
-/
namespace CV.Extends
open CV CV.Val

/-- `order` visits exactly the services of `S` -/
def Visits (order : List String) (S : KVs) : Prop := ∀ n, n ∈ order ↔ lookup n S ≠ none

/-- the result of `ApplyExtends` on a document whose `services` is the mapping `S` -/
theorem applyExtendsOrd_services {E : Env} {order : List String} {dict out S : KVs}
    (hS : lookup "services" dict = some (.map S)) (h : applyExtendsOrd E order dict = .ok out) :
    ∃ R, applyAll E (fuelFor E S) order S = .ok R ∧ lookup "services" out = some (.map R) := by
  simp only [applyExtendsOrd, hS] at h
  split at h <;> try cases h
  rename_i R hR
  exact ⟨R, hR, lookup_insert_self _ _ _⟩

/-- **extends = flatten.**  Whenever `ApplyExtends` succeeds, every service of the result is the
flattened form of that service: the fully resolved base with the service's own attributes merged on
top, `extends` removed — whatever the visit order, memoisation included; nothing else is added. -/
theorem extends_eq_flatten {E : Env} {order : List String} {dict out S : KVs}
    (hS : lookup "services" dict = some (.map S)) (hnn : NoNull S) (hfs : NoNullFS E)
    (hord : Visits order S) (h : applyExtendsOrd E order dict = .ok out) :
    ∃ R, lookup "services" out = some (.map R) ∧
      ∀ n, (lookup n S = none → lookup n R = none) ∧
           (lookup n S ≠ none → ∃ v, lookup n R = some v ∧ Flat E S n v) := by
  obtain ⟨R, hR, hout⟩ := applyExtendsOrd_services hS h
  refine ⟨R, hout, fun n => ?_⟩
  obtain ⟨q1, _, q3⟩ := applyAll_sound E hfs _ order S S R hnn (Inv.refl E S)
    (fun m hm => (hord m).mp hm) hR
  constructor
  · intro hn
    rcases q1 n with g | ⟨v, _, g2⟩
    · rw [g]; exact hn
    · obtain ⟨svc, hs⟩ := g2.has_key; rw [hn] at hs; cases hs
  · intro hn
    exact q3 n ((hord n).mpr hn)

/-- no service of the result carries an `extends` attribute -/
theorem no_extends_left {E : Env} {order : List String} {dict out S : KVs}
    (hS : lookup "services" dict = some (.map S)) (hnn : NoNull S) (hfs : NoNullFS E)
    (hord : Visits order S) (h : applyExtendsOrd E order dict = .ok out) :
    ∃ R, lookup "services" out = some (.map R) ∧
      ∀ n v, lookup n R = some v → ∃ m, v = .map m ∧ lookup "extends" m = none := by
  obtain ⟨R, hR, hall⟩ := extends_eq_flatten hS hnn hfs hord h
  refine ⟨R, hR, fun n v hv => ?_⟩
  by_cases hn : lookup n S = none
  · rw [(hall n).1 hn] at hv; cases hv
  · obtain ⟨w, hw, hf⟩ := (hall n).2 hn
    rw [hv] at hw; injection hw with hw; subst hw
    exact hf.shape

/-- **order independence (the provable part).**  Two visit orders that both succeed resolve every
service to the same value.  (That one order may fail where another succeeds is `Neg/C05.lean`.) -/
theorem applyExtends_perm_partial {E : Env} {order₁ order₂ : List String} {dict out₁ out₂ S : KVs}
    (hS : lookup "services" dict = some (.map S)) (hnn : NoNull S) (hfs : NoNullFS E)
    (h₁ : Visits order₁ S) (h₂ : Visits order₂ S)
    (r₁ : applyExtendsOrd E order₁ dict = .ok out₁) (r₂ : applyExtendsOrd E order₂ dict = .ok out₂) :
    ∃ R₁ R₂, lookup "services" out₁ = some (.map R₁) ∧ lookup "services" out₂ = some (.map R₂) ∧
      ∀ n, lookup n R₁ = lookup n R₂ := by
  obtain ⟨R₁, hR₁, a₁⟩ := extends_eq_flatten hS hnn hfs h₁ r₁
  obtain ⟨R₂, hR₂, a₂⟩ := extends_eq_flatten hS hnn hfs h₂ r₂
  refine ⟨R₁, R₂, hR₁, hR₂, fun n => ?_⟩
  by_cases hn : lookup n S = none
  · rw [(a₁ n).1 hn, (a₂ n).1 hn]
  · obtain ⟨v, hv, hf⟩ := (a₁ n).2 hn
    obtain ⟨w, hw, hg⟩ := (a₂ n).2 hn
    rw [hv, hw, hf.functional hg]

/-- a service without a flattened form makes `ApplyExtends` fail, in every visit order -/
theorem not_flat_not_ok {E : Env} {order : List String} {dict S : KVs} {n : String}
    (hS : lookup "services" dict = some (.map S)) (hnn : NoNull S) (hfs : NoNullFS E)
    (hord : Visits order S) (hn : lookup n S ≠ none) (hnf : ∀ v, ¬ Flat E S n v) :
    ∀ out, applyExtendsOrd E order dict ≠ .ok out := by
  intro out h
  obtain ⟨R, _, hall⟩ := extends_eq_flatten hS hnn hfs hord h
  obtain ⟨v, _, hf⟩ := (hall n).2 hn
  exact hnf v hf

/-- **cyclic chain ⇒ not accepted**: if the chain of some service runs into a cycle (within a file
or across files), no visit order is accepted. -/
theorem cycle_err {E : Env} {order : List String} {dict S : KVs} {n : String}
    (hS : lookup "services" dict = some (.map S)) (hnn : NoNull S) (hfs : NoNullFS E)
    (hord : Visits order S) (hn : lookup n S ≠ none) (hc : Cyclic E (S, n)) :
    ∀ out, applyExtendsOrd E order dict ≠ .ok out :=
  not_flat_not_ok hS hnn hfs hord hn (fun _ hf => hf.not_cyclic hc)

/-- **missing base ⇒ not accepted** (same file) -/
theorem missing_base_err {E : Env} {order : List String} {dict S svc : KVs} {n ref : String} {e : Val}
    (hS : lookup "services" dict = some (.map S)) (hnn : NoNull S) (hfs : NoNullFS E)
    (hord : Visits order S) (h1 : lookup n S = some (.map svc)) (h2 : lookup "extends" svc = some e)
    (h3 : parseExtends e = .ok (ref, none)) (h4 : lookup ref S = none) :
    ∀ out, applyExtendsOrd E order dict ≠ .ok out := by
  refine not_flat_not_ok hS hnn hfs hord (by rw [h1]; simp) (fun v hf => ?_)
  cases hf with
  | leaf g1 g2 =>
    have e1 := h1.symm.trans g1
    simp only [Option.some.injEq, Val.map.injEq] at e1
    subst e1; rw [h2] at g2; cases g2
  | step g1 g2 g3 g4 g5 g6 =>
    have e1 := h1.symm.trans g1
    simp only [Option.some.injEq, Val.map.injEq] at e1
    subst e1
    have e2 := h2.symm.trans g2
    simp only [Option.some.injEq] at e2
    subst e2
    have e3 := h3.symm.trans g3
    simp only [Out.ok.injEq, Prod.mk.injEq] at e3
    obtain ⟨e3a, e3b⟩ := e3
    subst e3a; subst e3b
    simp [baseMap, h4] at g4

/-- **missing file, unreadable file, file without the base ⇒ not accepted** -/
theorem missing_file_err {E : Env} {order : List String} {dict S svc : KVs} {n ref f : String} {e : Val}
    (hS : lookup "services" dict = some (.map S)) (hnn : NoNull S) (hfs : NoNullFS E)
    (hord : Visits order S) (h1 : lookup n S = some (.map svc)) (h2 : lookup "extends" svc = some e)
    (h3 : parseExtends e = .ok (ref, some f))
    (h4 : fileServices E.fs f = none ∨ ∃ S', fileServices E.fs f = some S' ∧ lookup ref S' = none) :
    ∀ out, applyExtendsOrd E order dict ≠ .ok out := by
  refine not_flat_not_ok hS hnn hfs hord (by rw [h1]; simp) (fun v hf => ?_)
  cases hf with
  | leaf g1 g2 =>
    have e1 := h1.symm.trans g1
    simp only [Option.some.injEq, Val.map.injEq] at e1
    subst e1; rw [h2] at g2; cases g2
  | step g1 g2 g3 g4 g5 g6 =>
    have e1 := h1.symm.trans g1
    simp only [Option.some.injEq, Val.map.injEq] at e1
    subst e1
    have e2 := h2.symm.trans g2
    simp only [Option.some.injEq] at e2
    subst e2
    have e3 := h3.symm.trans g3
    simp only [Out.ok.injEq, Prod.mk.injEq] at e3
    obtain ⟨e3a, e3b⟩ := e3
    subst e3a; subst e3b
    rcases h4 with h4 | ⟨S', h4, h5⟩
    · simp [baseMap, h4] at g4
    · simp [baseMap, h4, h5] at g4

/-- a file that does not exist has no services mapping -/
theorem fileServices_missing {fs : FS} {f : String} (h : fsLookup f fs = none) : fileServices fs f = none := by
  simp [fileServices, h]

/-- **termination.**  With the fuel `fuelFor` (number of distinct `(file, service)` tracker keys + 1)
the recursion of `applyServiceExtends` never runs out of fuel, whatever the visit order and however
the files refer to one another: every chain either ends or is cut by the cycle tracker. -/
theorem extends_terminates {E : Env} (hE : FuelFree E) {order : List String} {dict : KVs}
    (hord : ∀ S, lookup "services" dict = some (.map S) → Visits order S) :
    applyExtendsOrd E order dict ≠ .panic fuelMark := by
  unfold applyExtendsOrd
  split
  · simp
  · rename_i S hS
    have h := applyAll_no_fuel E hE S order S (KeysSub.self E S)
      (fun n hn => KeysSub.self E S n (((hord S hS) n).mp hn))
    split
    · simp
    · simp
    · rename_i s hs
      intro hp
      injection hp with hp
      subst hp
      exact h hs
  · simp

/-- the environment never panics: neither the merge step nor the loading of an extended file
(C01/C04 own those panics; with the C04 merge model the special mergers do panic on shapes the schema
would reject) -/
def PanicFree (E : Env) : Prop :=
  (∀ b svc s, E.extend b svc ≠ .panic s) ∧ (∀ f s, ¬ fsPanics E.fs f s)

theorem PanicFree.fuelFree {E : Env} (h : PanicFree E) : FuelFree E :=
  ⟨fun b s => h.1 b s fuelMark, fun f s hf _ => h.2 f s hf⟩

/-- **accepted or an error, never a crash, never a hang**: in a panic-free environment `ApplyExtends`
returns normally, with a result or with an error — in every visit order, for every document. -/
theorem applyExtends_ok_or_err {E : Env} (hp : PanicFree E) {order : List String} {dict : KVs}
    (hord : ∀ S, lookup "services" dict = some (.map S) → Visits order S) :
    (∃ out, applyExtendsOrd E order dict = .ok out) ∨ ∃ c, applyExtendsOrd E order dict = .err c := by
  cases hr : applyExtendsOrd E order dict with
  | ok out => exact Or.inl ⟨out, rfl⟩
  | err c => exact Or.inr ⟨c, rfl⟩
  | panic s =>
    exfalso
    have hne := extends_terminates hp.fuelFree hord
    unfold applyExtendsOrd at hr
    split at hr
    · cases hr
    · rename_i S hS
      split at hr
      · cases hr
      · cases hr
      · rename_i s' hs
        injection hr with hr
        subst hr
        rcases applyAll_panic_src E _ _ _ _ hs with h | ⟨b, svc, h⟩ | ⟨f, h⟩
        · subst h
          apply hne
          simp [applyExtendsOrd, hS, hs]
        · exact hp.1 b svc _ h
        · exact hp.2 f _ h
    · cases hr

/-- **cyclic chain ⇒ error** (not merely "not accepted") -/
theorem cycle_is_error {E : Env} (hp : PanicFree E) {order : List String} {dict S : KVs} {n : String}
    (hS : lookup "services" dict = some (.map S)) (hnn : NoNull S) (hfs : NoNullFS E)
    (hord : Visits order S) (hn : lookup n S ≠ none) (hc : Cyclic E (S, n)) :
    ∃ c, applyExtendsOrd E order dict = .err c := by
  rcases applyExtends_ok_or_err hp (order := order) (dict := dict)
      (fun S' h' => by rw [hS] at h'; injection h' with h'; injection h' with h'; subst h'; exact hord) with ⟨out, h⟩ | h
  · exact absurd h (cycle_err hS hnn hfs hord hn hc out)
  · exact h

/-- **missing base ⇒ error** -/
theorem missing_base_is_error {E : Env} (hp : PanicFree E) {order : List String} {dict S svc : KVs} {n ref : String} {e : Val}
    (hS : lookup "services" dict = some (.map S)) (hnn : NoNull S) (hfs : NoNullFS E)
    (hord : Visits order S) (h1 : lookup n S = some (.map svc)) (h2 : lookup "extends" svc = some e)
    (h3 : parseExtends e = .ok (ref, none)) (h4 : lookup ref S = none) :
    ∃ c, applyExtendsOrd E order dict = .err c := by
  rcases applyExtends_ok_or_err hp (order := order) (dict := dict)
      (fun S' h' => by rw [hS] at h'; injection h' with h'; injection h' with h'; subst h'; exact hord) with ⟨out, h⟩ | h
  · exact absurd h (missing_base_err hS hnn hfs hord h1 h2 h3 h4 out)
  · exact h

/-- **missing file ⇒ error** -/
theorem missing_file_is_error {E : Env} (hp : PanicFree E) {order : List String} {dict S svc : KVs} {n ref f : String} {e : Val}
    (hS : lookup "services" dict = some (.map S)) (hnn : NoNull S) (hfs : NoNullFS E)
    (hord : Visits order S) (h1 : lookup n S = some (.map svc)) (h2 : lookup "extends" svc = some e)
    (h3 : parseExtends e = .ok (ref, some f))
    (h4 : fileServices E.fs f = none ∨ ∃ S', fileServices E.fs f = some S' ∧ lookup ref S' = none) :
    ∃ c, applyExtendsOrd E order dict = .err c := by
  rcases applyExtends_ok_or_err hp (order := order) (dict := dict)
      (fun S' h' => by rw [hS] at h'; injection h' with h'; injection h' with h'; subst h'; exact hord) with ⟨out, h⟩ | h
  · exact absurd h (missing_file_err hS hnn hfs hord h1 h2 h3 h4 out)
  · exact h

/-- **inherited paths are anchored at the base file.**  The file system hands `ApplyExtends` every
extended file with its relative paths already resolved against *that file's* directory (`resolve f`);
a service extending a plain service `ref` of file `f` is therefore `extend` of the base *as resolved
against `f`* and the service's own attributes (which are resolved later, against the project directory). -/
theorem inherited_paths_anchor {E : Env} {order : List String} {dict out S svc : KVs} {n ref f : String} {e : Val}
    {resolve : String → KVs → KVs} {raw S' b m : KVs}
    (hS : lookup "services" dict = some (.map S)) (hnn : NoNull S) (hfs : NoNullFS E) (hord : Visits order S)
    (h : applyExtendsOrd E order dict = .ok out)
    (h1 : lookup n S = some (.map svc)) (h2 : lookup "extends" svc = some e)
    (h3 : parseExtends e = .ok (ref, some f))
    (hfile : fsLookup f E.fs = some (.ok (resolve f raw) false))
    (hsv : lookup "services" (resolve f raw) = some (.map S'))
    (hb : lookup ref S' = some (.map b)) (hbe : lookup "extends" b = none)
    (hm : E.extend b svc = .ok m) :
    ∃ R, lookup "services" out = some (.map R) ∧ lookup n R = some (.map (Val.erase "extends" m)) := by
  obtain ⟨R, hR, hall⟩ := extends_eq_flatten hS hnn hfs hord h
  obtain ⟨v, hv, hf⟩ := (hall n).2 (by rw [h1]; simp)
  refine ⟨R, hR, ?_⟩
  have hfsv : fileServices E.fs f = some S' := by simp [fileServices, hfile, hsv]
  have hbm : baseMap E S ref (some f) = some S' := by simp [baseMap, hfsv, hb]
  have : Flat E S n (.map (Val.erase "extends" m)) :=
    Flat.step h1 h2 h3 hbm (Flat.leaf hb hbe) hm
  rw [hv, hf.functional this]

/-- acceptance from key-annotated chains: if every service has a finite chain (`FlatK`) whose tracker keys
`(current file, extending service's name)` are pairwise distinct, `ApplyExtends` succeeds in every visit
order.  (`acyclic_ok` discharges the distinctness hypothesis.) -/
theorem acyclic_ok_partial {E : Env} {order : List String} {dict S : KVs}
    (hS : lookup "services" dict = some (.map S)) (hord : Visits order S)
    (hch : ∀ n, lookup n S ≠ none → ∃ ks v, FlatK E E.mainFile S n ks v ∧ ks.Nodup) :
    ∃ out, applyExtendsOrd E order dict = .ok out := by
  have hall : ∀ n ∈ order, ∃ ks v, FlatK E E.mainFile S n ks v ∧ ks.Nodup ∧ ks.length < fuelFor E S := by
    intro n hn
    obtain ⟨ks, v, hk, hnd⟩ := hch n ((hord n).mp hn)
    refine ⟨ks, v, hk, hnd, ?_⟩
    have := nodup_length_le ks _ hnd (hk.keys_sub (by simp [allFiles]) (KeysSub.self E S))
    simp only [fuelFor]; omega
  obtain ⟨R, hR, _⟩ := applyAll_complete E (fuelFor E S) order S S (Inv.refl E S) hall
  exact ⟨Val.insert "services" (.map R) dict, by simp [applyExtendsOrd, hS, hR]⟩

/-- **acyclic ⇒ accepted** (full strength since `fix: the extends cycle tracker records the file the
extending service lives in`).  If every service has a flattened form — its chain is finite, all bases and
files exist, every merge succeeds — `ApplyExtends` succeeds, in every visit order: the cycle tracker never
reports a cycle that is not there.  `hmain`: no `extends.file` reference is spelled exactly like the main
file's own (absolute) name — such a reference re-enters the main file and the tracker treats it as such. -/
theorem acyclic_ok {E : Env} {order : List String} {dict S : KVs}
    (hS : lookup "services" dict = some (.map S)) (hord : Visits order S)
    (hmain : fileServices E.fs E.mainFile = none)
    (hflat : ∀ n, lookup n S ≠ none → ∃ v, Flat E S n v) :
    ∃ out, applyExtendsOrd E order dict = .ok out := by
  refine acyclic_ok_partial hS hord (fun n hn => ?_)
  obtain ⟨v, hv⟩ := hflat n hn
  obtain ⟨ks, hk⟩ := hv.toK E.mainFile
  exact ⟨ks, v, hk, hk.nodup (S0 := S) hmain (Or.inl ⟨rfl, rfl⟩)⟩

/-- **order independence** (full strength): if one visit order of the services map is accepted, every
visit order is accepted, and all of them resolve every service to the same value. -/
theorem applyExtends_perm {E : Env} {order₁ order₂ : List String} {dict out₁ S : KVs}
    (hS : lookup "services" dict = some (.map S)) (hnn : NoNull S) (hfs : NoNullFS E)
    (hmain : fileServices E.fs E.mainFile = none)
    (h₁ : Visits order₁ S) (h₂ : Visits order₂ S)
    (r₁ : applyExtendsOrd E order₁ dict = .ok out₁) :
    ∃ out₂ R₁ R₂, applyExtendsOrd E order₂ dict = .ok out₂ ∧
      lookup "services" out₁ = some (.map R₁) ∧ lookup "services" out₂ = some (.map R₂) ∧
      ∀ n, lookup n R₁ = lookup n R₂ := by
  obtain ⟨R, _, hall⟩ := extends_eq_flatten hS hnn hfs h₁ r₁
  have hflat : ∀ n, lookup n S ≠ none → ∃ v, Flat E S n v := fun n hn => by
    obtain ⟨v, _, hf⟩ := (hall n).2 hn
    exact ⟨v, hf⟩
  obtain ⟨out₂, r₂⟩ := acyclic_ok hS h₂ hmain hflat
  obtain ⟨R₁, R₂, a, b, c⟩ := applyExtends_perm_partial hS hnn hfs h₁ h₂ r₁ r₂
  exact ⟨out₂, R₁, R₂, r₂, a, b, c⟩

/-- … and an order that is rejected is rejected in every order: acceptance itself is order independent -/
theorem applyExtends_reject_perm {E : Env} {order₁ order₂ : List String} {dict S : KVs}
    (hS : lookup "services" dict = some (.map S)) (hnn : NoNull S) (hfs : NoNullFS E)
    (hmain : fileServices E.fs E.mainFile = none)
    (h₁ : Visits order₁ S) (h₂ : Visits order₂ S)
    (r₁ : ∀ out, applyExtendsOrd E order₁ dict ≠ .ok out) :
    ∀ out, applyExtendsOrd E order₂ dict ≠ .ok out := by
  intro out r₂
  obtain ⟨out₁, _, _, h, _⟩ := applyExtends_perm hS hnn hfs hmain h₂ h₁ r₂
  exact r₁ out₁ h

/-! ### the real merge step (`CV.Merge.extendService`, C04's model of `override.ExtendService`) -/

/-- the environment of a real load satisfies the side condition of `extends_terminates` -/
theorem realEnv_fuelFree (mainFile : String) (fs : FS)
    (hfs : ∀ f s, fsPanics fs f s → s ≠ fuelMark) : FuelFree (realEnv mainFile fs) := by
  refine ⟨fun b s h => ?_, hfs⟩
  simp only [realEnv, mergeExtend] at h
  split at h
  · cases h
  · simp only [Out.panic.injEq] at h
    exact absurd h (by decide)
  · cases h
  · rename_i s' _
    by_cases hs : s' = fuelMark
    · simp [hs, fuelMark] at h
    · simp only [hs, ↓reduceIte, Out.panic.injEq] at h

/-- termination with the real merge step: whatever the files contain, `ApplyExtends` comes back -/
theorem extends_terminates_real (mainFile : String) (fs : FS)
    (hfs : ∀ f s, fsPanics fs f s → s ≠ fuelMark) {order : List String} {dict : KVs}
    (hord : ∀ S, lookup "services" dict = some (.map S) → Visits order S) :
    applyExtendsOrd (realEnv mainFile fs) order dict ≠ .panic fuelMark :=
  extends_terminates (realEnv_fuelFree mainFile fs hfs) hord

/-- order independence with the real merge step -/
theorem applyExtends_perm_real (mainFile : String) (fs : FS) {order₁ order₂ : List String} {dict out₁ S : KVs}
    (hS : lookup "services" dict = some (.map S)) (hnn : NoNull S) (hfs : NoNullFS (realEnv mainFile fs))
    (hmain : fileServices fs mainFile = none)
    (h₁ : Visits order₁ S) (h₂ : Visits order₂ S)
    (r₁ : applyExtendsOrd (realEnv mainFile fs) order₁ dict = .ok out₁) :
    ∃ out₂ R₁ R₂, applyExtendsOrd (realEnv mainFile fs) order₂ dict = .ok out₂ ∧
      lookup "services" out₁ = some (.map R₁) ∧ lookup "services" out₂ = some (.map R₂) ∧
      ∀ n, lookup n R₁ = lookup n R₂ :=
  applyExtends_perm hS hnn hfs hmain h₁ h₂ r₁

/-- **the real merge step never panics** (C04's `extendService_never_panics`, since the round-2 repairs of the
special mergers), so the environment of a real load is panic-free as soon as loading the extended files is -/
theorem realEnv_panicFree (mainFile : String) (fs : FS) (hfs : ∀ f s, ¬ fsPanics fs f s) :
    PanicFree (realEnv mainFile fs) :=
  ⟨fun b svc s => mergeExtend_never_panics b svc s, hfs⟩

/-- with the real merge step `ApplyExtends` returns a result or an error, for every document and visit order,
provided loading the extended files does not panic -/
theorem applyExtends_ok_or_err_real (mainFile : String) (fs : FS) (hfs : ∀ f s, ¬ fsPanics fs f s)
    {order : List String} {dict : KVs}
    (hord : ∀ S, lookup "services" dict = some (.map S) → Visits order S) :
    (∃ out, applyExtendsOrd (realEnv mainFile fs) order dict = .ok out) ∨
      ∃ c, applyExtendsOrd (realEnv mainFile fs) order dict = .err c :=
  applyExtends_ok_or_err (realEnv_panicFree mainFile fs hfs) hord

/-- cyclic chain ⇒ error, with the real merge step -/
theorem cycle_is_error_real (mainFile : String) (fs : FS) (hfs : ∀ f s, ¬ fsPanics fs f s)
    {order : List String} {dict S : KVs} {n : String}
    (hS : lookup "services" dict = some (.map S)) (hnn : NoNull S) (hnfs : NoNullFS (realEnv mainFile fs))
    (hord : Visits order S) (hn : lookup n S ≠ none) (hc : Cyclic (realEnv mainFile fs) (S, n)) :
    ∃ c, applyExtendsOrd (realEnv mainFile fs) order dict = .err c :=
  cycle_is_error (realEnv_panicFree mainFile fs hfs) hS hnn hnfs hord hn hc

/-- **the executable flatten specification is the `Flat` relation**: `flattenF` (what the driver computes for the
spec oracle: no tracker, no memoisation, no visit order) succeeds with `v` for some chain-length bound iff `Flat` -/
theorem flattenF_iff_flat (E : Env) (S : KVs) (n : String) (v : Val) :
    (∃ fuel, flattenF E fuel S n = .ok v) ↔ Flat E S n v :=
  ⟨fun ⟨fuel, h⟩ => flattenF_sound E fuel S n v h, flattenF_complete E⟩

/-- whenever `ApplyExtends` succeeds, every service is what `flattenF` computes (the statement the spec oracle
decides on the real code) -/
theorem extends_eq_flattenF {E : Env} {order : List String} {dict out S : KVs}
    (hS : lookup "services" dict = some (.map S)) (hnn : NoNull S) (hfs : NoNullFS E)
    (hord : Visits order S) (h : applyExtendsOrd E order dict = .ok out) :
    ∃ R, lookup "services" out = some (.map R) ∧
      ∀ n, lookup n S ≠ none → ∃ v fuel, lookup n R = some v ∧ flattenF E fuel S n = .ok v := by
  obtain ⟨R, hR, hall⟩ := extends_eq_flatten hS hnn hfs hord h
  refine ⟨R, hR, fun n hn => ?_⟩
  obtain ⟨v, hv, hf⟩ := (hall n).2 hn
  obtain ⟨fuel, hfu⟩ := flattenF_complete E hf
  exact ⟨v, fuel, hv, hfu⟩

/-- **the source is the code that was modelled.**  The decision-relevant statements of `ApplyExtends`,
`applyServiceExtends`, `getExtendsBaseFromFile`, `deepClone` (loader/extends.go) and `cycleTracker.Add`
(loader/loader.go), regenerated from the tree on every run (`Gen/C05Facts.lean`, translator/c05.go), are the ones
`Model/Extends.lean` was written against: the order of the checks, the tracker call on `(filename, name)` after the
base was located and before the recursion, the context switched to the referenced file, the deep clone of the base
before `override.ExtendService(source, service)`, `delete(merged, "extends")`, the memo `services[name] = merged`,
the options of the nested load and `ResolveRelativePaths(source, relworkingdir, …)` after the three checks, the
fresh branch of the tracker. -/
theorem extends_source_is_modelled :
    CV.Gen.c05_ApplyExtends = [
  "if !ok",
  "return nil",
  "if !ok",
  "return <error>",
  "errorf services must be a mapping",
  "range services",
  "merged := applyServiceExtends(…)",
  "applyServiceExtends(ctx, name, services, opts, tracker, post)",
  "if err != nil",
  "return err",
  "services[name] = merged",
  "dict[\"services\"] = services",
  "return nil"] ∧
    CV.Gen.c05_applyServiceExtends = [
  "if s == nil",
  "return nil, nil",
  "if !ok",
  "return nil, <error>",
  "errorf services.%s must be a mapping",
  "if !ok",
  "return s, nil",
  "filename := ctx.Value(consts.ComposeFileKey{}).(string)",
  "typeswitch v := extends.(type)",
  "case map[string]any",
  "ref = v[\"service\"].(string)",
  "if !ok",
  "return nil, <error>",
  "errorf services.%s.extends.service must be a string",
  "file = v[\"file\"]",
  "case string",
  "ref = v",
  "if file != nil",
  "if !ok",
  "return nil, <error>",
  "errorf services.%s.extends.file must be a string",
  "getExtendsBaseFromFile(ctx, name, ref, filename, refFilename, opts, tracker)",
  "post = append(post, processor)",
  "if err != nil",
  "return nil, err",
  "ctx = context.WithValue(…)",
  "context.WithValue(ctx, consts.ComposeFileKey{}, refFilename)",
  "if !ok",
  "return nil, <error>",
  "errorf cannot extend service %q in %s: service %q not found",
  "tracker = tracker.Add(…)",
  "tracker.Add(filename, name)",
  "if err != nil",
  "return nil, err",
  "base = applyServiceExtends(…)",
  "applyServiceExtends(ctx, ref, services, opts, tracker, post)",
  "if err != nil",
  "return nil, err",
  "if base == nil",
  "return service, nil",
  "source := deepClone(base).(map[string]any)",
  "deepClone(base)",
  "range post",
  "processor.Apply(map[string]any{\n\t\"services\": map[string]any{\n\t\tname: source,\n\t},\n})",
  "merged := override.ExtendService(…)",
  "override.ExtendService(source, service)",
  "if err != nil",
  "return nil, err",
  "delete(merged, \"extends\")",
  "services[name] = merged",
  "return merged, nil"] ∧
    CV.Gen.c05_getExtendsBaseFromFile = [
  "range opts.ResourceLoaders",
  "if !loader.Accept(refPath)",
  "loader.Accept(refPath)",
  "loader.Load(ctx, refPath)",
  "if err != nil",
  "return nil, nil, err",
  "filepath.Dir(local)",
  "loader.Dir(refPath)",
  "opts.clone()",
  "extendsOpts.ResourceLoaders = append(opts.RemoteResourceLoaders(), localResourceLoader{\n\tWorkingDir: localdir,\n})",
  "opts.RemoteResourceLoaders()",
  "extendsOpts.ResolvePaths = false",
  "extendsOpts.SkipNormalization = true",
  "extendsOpts.SkipConsistencyCheck = true",
  "extendsOpts.SkipInclude = true",
  "extendsOpts.SkipExtends = true",
  "extendsOpts.SkipValidation = true",
  "extendsOpts.SkipDefaultValues = true",
  "source := loadYamlFile(…)",
  "loadYamlFile(ctx, types.ConfigFile{Filename: local}, extendsOpts, relworkingdir, nil, ct, map[string]any{}, nil)",
  "if err != nil",
  "return nil, nil, err",
  "if !ok",
  "return nil, nil, <error>",
  "errorf cannot extend service %q in %s: no services section",
  "if !ok",
  "return nil, nil, <error>",
  "errorf cannot extend service %q in %s: services must be a mapping",
  "if !ok",
  "return nil, nil, <error>",
  "errorf cannot extend service %q in %s: service %q not found in %s",
  "range opts.RemoteResourceLoaders()",
  "opts.RemoteResourceLoaders()",
  "paths.ResolveRelativePaths(source, relworkingdir, remotes)",
  "if err != nil",
  "return nil, nil, err",
  "return services, processor, nil",
  "return nil, nil, <error>",
  "errorf cannot read %s"] ∧
    CV.Gen.c05_deepClone = [
  "typeswitch v := value.(type)",
  "case []any",
  "range v",
  "cp[i] = deepClone(…)",
  "deepClone(e)",
  "return cp",
  "case map[string]any",
  "range v",
  "cp[k] = deepClone(…)",
  "deepClone(e)",
  "return cp",
  "default",
  "return value"] ∧
    CV.Gen.c05_trackerAdd = [
  "toAdd := serviceRef{filename: filename, service: service}",
  "range ct.loaded",
  "if toAdd == loaded",
  "range append(ct.loaded[1:], toAdd)",
  "return nil, <error>",
  "errors.New(strings.Join(errLines, \"\\n\"))",
  "branch = append(branch, ct.loaded...)",
  "branch = append(branch, toAdd)",
  "return &cycleTracker{\n\tloaded: branch,\n}, nil"] :=
  ⟨rfl, rfl, rfl, rfl, rfl⟩

/-! ## non-vacuity: the hypotheses of the theorems above are satisfiable by a non-trivial input
(the two-file model of `Neg/C05.lean`, visited in the order that succeeds) -/

theorem noNull_of_forall {S : KVs} (h : ∀ p ∈ S, p.2 ≠ .null) : NoNull S := by
  intro n
  induction S with
  | nil => simp [Val.lookup]
  | cons p r ih =>
    obtain ⟨k, v⟩ := p
    simp only [Val.lookup]
    split
    · intro hc; injection hc with hc; exact h (k, v) (List.mem_cons_self ..) hc
    · exact ih (fun q hq => h q (List.mem_cons_of_mem _ hq))

def exS : KVs :=
  [("b", .map [("extends", .str "c"), ("image", .str "ib")]),
   ("c", .map [("extends", .map [("service", .str "b"), ("file", .str "o.yaml")])])]

example : lookup "services" Neg.dict = some (.map exS) := by
  simp [Neg.dict, exS, Val.lookup]

example : NoNull exS := noNull_of_forall (by
  intro p hp
  simp only [exS, List.mem_cons, List.not_mem_nil, or_false] at hp
  rcases hp with rfl | rfl <;> simp)

example : NoNullFS Neg.env := by
  intro f S h
  obtain ⟨doc, hd, hs⟩ := fileServices_inv h
  simp only [Neg.env, fsLookup] at hd
  split at hd
  · injection hd with hd
    injection hd with hd _
    subst hd
    simp only [Neg.oYaml, Val.lookup, ↓reduceIte, Option.some.injEq, Val.map.injEq] at hs
    subst hs
    exact noNull_of_forall (by
      intro p hp
      simp only [List.mem_cons, List.not_mem_nil, or_false] at hp
      rcases hp with rfl | rfl <;> simp)
  · cases hd

example : Visits ["c", "b"] exS := by
  intro n
  simp only [exS, Val.lookup, List.mem_cons, List.not_mem_nil, or_false]
  by_cases hb : n = "b"
  · subst hb; simp
  · by_cases hc : n = "c"
    · subst hc; simp
    · simp [hb, hc]

example : ∃ out, applyExtendsOrd Neg.env ["c", "b"] Neg.dict = .ok out := by
  have h := Neg.order_cb_ok
  cases hx : applyExtendsOrd Neg.env ["c", "b"] Neg.dict with
  | ok out => exact ⟨out, rfl⟩
  | err c => rw [hx] at h; cases h
  | panic s => rw [hx] at h; cases h

example : PanicFree Neg.env := by
  constructor
  · intro b svc s h; cases h
  · intro f s h
    obtain ⟨r, h1, h2⟩ := h
    simp only [Neg.env, fsLookup] at h1
    split at h1
    · injection h1 with h1; subst h1; cases h2
    · cases h1

example : FuelFree Neg.env := by
  constructor
  · intro b s h; cases h
  · intro f s h
    obtain ⟨r, h1, h2⟩ := h
    simp only [Neg.env, fsLookup] at h1
    split at h1
    · injection h1 with h1; subst h1; cases h2
    · cases h1

/-- a cyclic chain exists (a service extending itself), so `cycle_err` is not vacuous -/
example : Cyclic Neg.env ([("a", .map [("extends", .str "a")])], "a") :=
  Or.inl (Reach.one ⟨[("extends", .str "a")], .str "a", none, by simp [Val.lookup], by simp [Val.lookup], rfl,
    by simp [baseMap, Val.lookup]⟩)

/-- the main file's name is not a reference of the file system (hypothesis `hmain`) -/
example : fileServices Neg.env.fs Neg.env.mainFile = none := by
  simp [fileServices, fsLookup, Neg.env]

/-- a two-step cross-file chain with distinct tracker keys (hypothesis of `acyclic_ok_partial`) -/
example : ∃ ks v, FlatK Neg.env Neg.env.mainFile
    [("t", .map [("extends", .map [("service", .str "b"), ("file", .str "o.yaml")])])] "t" ks v ∧ ks.Nodup := by
  have hd : FlatK Neg.env "o.yaml" [("b", .map [("extends", .str "d"), ("cap_add", .str "CAP_BO")]), ("d", .map [("image", .str "id")])]
      "d" [] (.map [("image", .str "id")]) :=
    FlatK.leaf (by simp [Val.lookup]) (by simp [Val.lookup])
  have hb := FlatK.step (E := Neg.env) (cf := "o.yaml") (n := "b") (file := none) (e := .str "d") (ref := "d")
    (S := [("b", .map [("extends", .str "d"), ("cap_add", .str "CAP_BO")]), ("d", .map [("image", .str "id")])])
    (S' := [("b", .map [("extends", .str "d"), ("cap_add", .str "CAP_BO")]), ("d", .map [("image", .str "id")])])
    (svc := [("extends", .str "d"), ("cap_add", .str "CAP_BO")])
    (m := [("extends", .str "d"), ("cap_add", .str "CAP_BO")] ++ [("image", .str "id")])
    (by simp [Val.lookup]) (by simp [Val.lookup]) rfl (by simp [baseMap, Val.lookup]) hd rfl
  have ht := FlatK.step (E := Neg.env) (cf := Neg.env.mainFile) (n := "t") (file := some "o.yaml") (ref := "b")
    (S := [("t", .map [("extends", .map [("service", .str "b"), ("file", .str "o.yaml")])])])
    (e := .map [("service", .str "b"), ("file", .str "o.yaml")])
    (svc := [("extends", .map [("service", .str "b"), ("file", .str "o.yaml")])])
    (m := [("extends", .map [("service", .str "b"), ("file", .str "o.yaml")])] ++ _)
    (by simp [Val.lookup]) (by simp [Val.lookup]) rfl
    (by simp [baseMap, fileServices, fsLookup, Neg.env, Neg.oYaml, Val.lookup]) hb rfl
  exact ⟨_, _, ht, by decide⟩

end CV.Extends
