import ComposeVerif.Lemmas.Extends
/-!
# C05 — extends yields base-then-local override, order-independent, cycle-safe

Property theorems only (helper lemmas live in `Lemmas/Extends.lean`, the specification `Flat` in
`Spec/Extends.lean`, the model of `loader/extends.go` in `Model/Extends.lean`).

Every theorem is parametric in the environment `E`: the name of the main file, the file system
(what loading each referenced file yields, relative paths already resolved against that file's
directory) and the merge step `E.extend` (= `override.ExtendService`).  `order` is the order in
which the loop of `ApplyExtends` visits the services map (random in Go): the theorems hold for
every order that visits exactly the services of the map.
-/
namespace CV.Extends
open CV CV.Val

/-- `order` visits exactly the services of `S` -/
def Visits (order : List String) (S : KVs) : Prop := ∀ n, n ∈ order ↔ lookup n S ≠ none

/-- the result of `ApplyExtends` on a document whose `services` is the mapping `S` -/
theorem applyExtendsOrd_services {E : Env} {order : List String} {dict out S : KVs}
    (hS : lookup "services" dict = some (.map S)) (h : applyExtendsOrd E order dict = .ok out) :
    ∃ R, applyAll E (fuelFor E S) order S = .ok R ∧ lookup "services" out = some (.map R) := by
  simp only [applyExtendsOrd, hS] at h
  split at h <;> try cases h
  rename_i R hR
  exact ⟨R, hR, lookup_insert_self _ _ _⟩

/-- **extends = flatten.**  Whenever `ApplyExtends` succeeds, every service of the result is the
flattened form of that service: the fully resolved base with the service's own attributes merged on
top, `extends` removed — whatever the visit order, memoisation included; nothing else is added. -/
theorem extends_eq_flatten {E : Env} {order : List String} {dict out S : KVs}
    (hS : lookup "services" dict = some (.map S)) (hnn : NoNull S) (hfs : NoNullFS E)
    (hord : Visits order S) (h : applyExtendsOrd E order dict = .ok out) :
    ∃ R, lookup "services" out = some (.map R) ∧
      ∀ n, (lookup n S = none → lookup n R = none) ∧
           (lookup n S ≠ none → ∃ v, lookup n R = some v ∧ Flat E S n v) := by
  obtain ⟨R, hR, hout⟩ := applyExtendsOrd_services hS h
  refine ⟨R, hout, fun n => ?_⟩
  obtain ⟨q1, _, q3⟩ := applyAll_sound E hfs _ order S S R hnn (Inv.refl E S)
    (fun m hm => (hord m).mp hm) hR
  constructor
  · intro hn
    rcases q1 n with g | ⟨v, _, g2⟩
    · rw [g]; exact hn
    · obtain ⟨svc, hs⟩ := g2.has_key; rw [hn] at hs; cases hs
  · intro hn
    exact q3 n ((hord n).mpr hn)

/-- no service of the result carries an `extends` attribute -/
theorem no_extends_left {E : Env} {order : List String} {dict out S : KVs}
    (hS : lookup "services" dict = some (.map S)) (hnn : NoNull S) (hfs : NoNullFS E)
    (hord : Visits order S) (h : applyExtendsOrd E order dict = .ok out) :
    ∃ R, lookup "services" out = some (.map R) ∧
      ∀ n v, lookup n R = some v → ∃ m, v = .map m ∧ lookup "extends" m = none := by
  obtain ⟨R, hR, hall⟩ := extends_eq_flatten hS hnn hfs hord h
  refine ⟨R, hR, fun n v hv => ?_⟩
  by_cases hn : lookup n S = none
  · rw [(hall n).1 hn] at hv; cases hv
  · obtain ⟨w, hw, hf⟩ := (hall n).2 hn
    rw [hv] at hw; injection hw with hw; subst hw
    exact hf.shape

/-- **order independence (the provable part).**  Two visit orders that both succeed resolve every
service to the same value.  (That one order may fail where another succeeds is `Neg/C05.lean`.) -/
theorem applyExtends_perm_partial {E : Env} {order₁ order₂ : List String} {dict out₁ out₂ S : KVs}
    (hS : lookup "services" dict = some (.map S)) (hnn : NoNull S) (hfs : NoNullFS E)
    (h₁ : Visits order₁ S) (h₂ : Visits order₂ S)
    (r₁ : applyExtendsOrd E order₁ dict = .ok out₁) (r₂ : applyExtendsOrd E order₂ dict = .ok out₂) :
    ∃ R₁ R₂, lookup "services" out₁ = some (.map R₁) ∧ lookup "services" out₂ = some (.map R₂) ∧
      ∀ n, lookup n R₁ = lookup n R₂ := by
  obtain ⟨R₁, hR₁, a₁⟩ := extends_eq_flatten hS hnn hfs h₁ r₁
  obtain ⟨R₂, hR₂, a₂⟩ := extends_eq_flatten hS hnn hfs h₂ r₂
  refine ⟨R₁, R₂, hR₁, hR₂, fun n => ?_⟩
  by_cases hn : lookup n S = none
  · rw [(a₁ n).1 hn, (a₂ n).1 hn]
  · obtain ⟨v, hv, hf⟩ := (a₁ n).2 hn
    obtain ⟨w, hw, hg⟩ := (a₂ n).2 hn
    rw [hv, hw, hf.functional hg]

/-- a service without a flattened form makes `ApplyExtends` fail, in every visit order -/
theorem not_flat_not_ok {E : Env} {order : List String} {dict S : KVs} {n : String}
    (hS : lookup "services" dict = some (.map S)) (hnn : NoNull S) (hfs : NoNullFS E)
    (hord : Visits order S) (hn : lookup n S ≠ none) (hnf : ∀ v, ¬ Flat E S n v) :
    ∀ out, applyExtendsOrd E order dict ≠ .ok out := by
  intro out h
  obtain ⟨R, _, hall⟩ := extends_eq_flatten hS hnn hfs hord h
  obtain ⟨v, _, hf⟩ := (hall n).2 hn
  exact hnf v hf

/-- **cyclic chain ⇒ not accepted**: if the chain of some service runs into a cycle (within a file
or across files), no visit order is accepted. -/
theorem cycle_err {E : Env} {order : List String} {dict S : KVs} {n : String}
    (hS : lookup "services" dict = some (.map S)) (hnn : NoNull S) (hfs : NoNullFS E)
    (hord : Visits order S) (hn : lookup n S ≠ none) (hc : Cyclic E (S, n)) :
    ∀ out, applyExtendsOrd E order dict ≠ .ok out :=
  not_flat_not_ok hS hnn hfs hord hn (fun _ hf => hf.not_cyclic hc)

/-- **missing base ⇒ not accepted** (same file) -/
theorem missing_base_err {E : Env} {order : List String} {dict S svc : KVs} {n ref : String} {e : Val}
    (hS : lookup "services" dict = some (.map S)) (hnn : NoNull S) (hfs : NoNullFS E)
    (hord : Visits order S) (h1 : lookup n S = some (.map svc)) (h2 : lookup "extends" svc = some e)
    (h3 : parseExtends e = .ok (ref, none)) (h4 : lookup ref S = none) :
    ∀ out, applyExtendsOrd E order dict ≠ .ok out := by
  refine not_flat_not_ok hS hnn hfs hord (by rw [h1]; simp) (fun v hf => ?_)
  cases hf with
  | leaf g1 g2 =>
    have e1 := h1.symm.trans g1
    simp only [Option.some.injEq, Val.map.injEq] at e1
    subst e1; rw [h2] at g2; cases g2
  | step g1 g2 g3 g4 g5 g6 =>
    have e1 := h1.symm.trans g1
    simp only [Option.some.injEq, Val.map.injEq] at e1
    subst e1
    have e2 := h2.symm.trans g2
    simp only [Option.some.injEq] at e2
    subst e2
    have e3 := h3.symm.trans g3
    simp only [Out.ok.injEq, Prod.mk.injEq] at e3
    obtain ⟨e3a, e3b⟩ := e3
    subst e3a; subst e3b
    simp [baseMap, h4] at g4

/-- **missing file, unreadable file, file without the base ⇒ not accepted** -/
theorem missing_file_err {E : Env} {order : List String} {dict S svc : KVs} {n ref f : String} {e : Val}
    (hS : lookup "services" dict = some (.map S)) (hnn : NoNull S) (hfs : NoNullFS E)
    (hord : Visits order S) (h1 : lookup n S = some (.map svc)) (h2 : lookup "extends" svc = some e)
    (h3 : parseExtends e = .ok (ref, some f))
    (h4 : fileServices E.fs f = none ∨ ∃ S', fileServices E.fs f = some S' ∧ lookup ref S' = none) :
    ∀ out, applyExtendsOrd E order dict ≠ .ok out := by
  refine not_flat_not_ok hS hnn hfs hord (by rw [h1]; simp) (fun v hf => ?_)
  cases hf with
  | leaf g1 g2 =>
    have e1 := h1.symm.trans g1
    simp only [Option.some.injEq, Val.map.injEq] at e1
    subst e1; rw [h2] at g2; cases g2
  | step g1 g2 g3 g4 g5 g6 =>
    have e1 := h1.symm.trans g1
    simp only [Option.some.injEq, Val.map.injEq] at e1
    subst e1
    have e2 := h2.symm.trans g2
    simp only [Option.some.injEq] at e2
    subst e2
    have e3 := h3.symm.trans g3
    simp only [Out.ok.injEq, Prod.mk.injEq] at e3
    obtain ⟨e3a, e3b⟩ := e3
    subst e3a; subst e3b
    rcases h4 with h4 | ⟨S', h4, h5⟩
    · simp [baseMap, h4] at g4
    · simp [baseMap, h4, h5] at g4

/-- a file that does not exist has no services mapping -/
theorem fileServices_missing {fs : FS} {f : String} (h : fsLookup f fs = none) : fileServices fs f = none := by
  simp [fileServices, h]

end CV.Extends
