import ComposeVerif.Props.C06Rel
import ComposeVerif.Props.C06Stages
/-!
# C06 — the plan's working directory *is* the included project directory (composition of the per-stage theorems)

`include_paths_anchor` (Props/C06.lean) computes `relwd` and `projDir` of a plan; `join_rel_abs` (Props/C06Rel.lean) is
the algebra of `Rel`; `imported_paths_two_stage` (Props/C06Stages.lean) composes the two resolution stages.  Here they
are put together: the directory the included model's relative paths end up resolved against —

    the sub-load resolves against `relwd`, the parent then against its own directory `L`  ⇒  `Join(L, relwd)`

— **is** the included project directory `projDir` (where its `.env` is looked up and its own nested includes are
anchored), which is the clause "with relative paths resolved against the included project directory".

The full statement is false on the unchanged tree: a relative `project_directory` that does not exist as a directory is
handed to `localResourceLoader.Dir`, which answers with the *parent* of a path that is not a directory
(`Neg/C06.lean`: `anchor_is_projDir_refuted`, replayed from `corpus/C06/missing-project_directory.json`, finding
`missing-project_directory:differs:services.*.build.context`).  The provable statement carries the hypothesis that the
named directory exists.
-/
namespace CV.Include
open CV CV.Paths

/-! ## `IsAbs` of the pieces -/

theorem dropWhile_snoc_slash (a : Str) :
    ∃ s, (a ++ ['/']).dropWhile (fun c => c ≠ '/') = s ++ ['/'] := by
  induction a with
  | nil => exact ⟨[], by simp [List.dropWhile]⟩
  | cons x r ih =>
    by_cases hx : x = '/'
    · subst hx
      exact ⟨'/' :: r, by simp [List.dropWhile]⟩
    · obtain ⟨s, hs⟩ := ih
      exact ⟨s, by simpa [List.dropWhile, hx] using hs⟩

/-- `filepath.Dir` of an absolute path is absolute -/
theorem isAbs_dirC (p : Str) (h : Paths.isAbs p = true) : Paths.isAbs (dirC p) = true := by
  cases p with
  | nil => simp [Paths.isAbs] at h
  | cons c q =>
    have hc : c = '/' := by simpa [Paths.isAbs] using h
    subst hc
    simp only [dirC, isAbs_clean, List.reverse_cons]
    obtain ⟨s, hs⟩ := dropWhile_snoc_slash q.reverse
    rw [hs]
    simp [Paths.isAbs]

theorem isAbs_dir (p : String) (h : Include.isAbs p = true) : Include.isAbs (dir p) = true := by
  simp only [Include.isAbs, dir, String.toList_ofList] at *
  exact isAbs_dirC _ h

theorem isAbs_join_left (a b : String) (h : Include.isAbs a = true) : Include.isAbs (Include.join a b) = true := by
  simp only [Include.isAbs, Include.join, String.toList_ofList] at *
  exact Paths.isAbs_join _ _ h

/-- `localResourceLoader.abs` with an absolute working directory always answers an absolute path -/
theorem isAbs_localAbs (L p : String) (hL : Include.isAbs L = true) : Include.isAbs (localAbs L p) = true := by
  simp only [localAbs]
  split
  · assumption
  · exact isAbs_join_left L p hL

theorem localAbs_of_abs (L p : String) (h : Include.isAbs p = true) : localAbs L p = p := by
  simp only [localAbs, h, if_true]

/-- `Clean` is idempotent on the `String` wrapper -/
theorem clean_clean (p : String) : Include.clean (Include.clean p) = Include.clean p := by
  simp only [Include.clean, String.toList_ofList, Paths.clean_idem]

theorem clean_join (a b : String) (ha : Include.isAbs a = true) :
    Include.clean (Include.join a b) = Include.join a b := by
  have hne : a.toList ≠ [] := by
    intro e; simp [Include.isAbs, Paths.isAbs, e] at ha
  simp only [Include.clean, Include.join, String.toList_ofList, Paths.join_of_ne _ _ hne, Paths.clean_idem]

theorem clean_dir (p : String) : Include.clean (dir p) = dir p := by
  simp only [Include.clean, dir, dirC, String.toList_ofList, Paths.clean_idem]

/-! ## `localResourceLoader.Dir` of an absolute directory / file -/

/-- the relative directory `Dir` answers, joined back onto the loader's directory, is the directory it looked at —
or `Dir` gave up on `Rel` and answered that (absolute) directory itself -/
theorem localDir_anchor (W : World) (L X : String) (hL : Include.isAbs L = true) (hX : Include.isAbs X = true) :
    let D := if statDir W X then X else dir X
    Include.join L (localDir W L X) = Include.clean D ∨
      (Include.isAbs (localDir W L X) = true ∧ localDir W L X = D) := by
  intro D
  have hD : Include.isAbs D = true := by
    simp only [D]; split
    · exact hX
    · exact isAbs_dir X hX
  have hpath : (if statDir W (localAbs L X) then localAbs L X else localAbs L (dir X)) = D := by
    simp only [D, localAbs_of_abs L X hX, localAbs_of_abs L (dir X) (isAbs_dir X hX)]
  simp only [localDir, hpath]
  cases hr : rel L D with
  | some r => exact .inl (join_rel_abs L D r hL hD hr)
  | none => exact .inr ⟨hD, rfl⟩

/-! ## the plan -/

/-- the directory a plan should be anchored in exists: a declared relative `project_directory` is a directory, an
included path is not itself a directory -/
def PlanDirsExist (W : World) (L : String) (r : IncCfg) (p0 : String) : Prop :=
  (r.projectDirectory = "" → statDir W (localAbs L p0) = false) ∧
  (r.projectDirectory ≠ "" → Include.isAbs r.projectDirectory = false →
      statDir W (localAbs L r.projectDirectory) = true)

/-- **include_anchor_is_projDir_partial**: for an including project in the absolute directory `L` (`baseDir = L`: the
root load, and every nested load since fix f077fe2) and a plan whose named directory exists, the working directory
`relwd` handed to the sub-load, joined back onto `L`, is the included project directory `projDir` — or `relwd` is that
directory itself in absolute form (absolute `project_directory`; `Rel` gave up) -/
theorem include_anchor_is_projDir_partial (W : World) (L : String) (chain : List String) (r : IncCfg) (pl : Plan)
    (p0 : String) (rest : List String) (hL : Include.isAbs L = true) (hp : r.path = p0 :: rest)
    (hex : PlanDirsExist W L r p0) (h : plan W L L chain r = .ok pl) :
    Include.join L pl.relwd = Include.clean pl.projDir ∨
      (Include.isAbs pl.relwd = true ∧ pl.relwd = pl.projDir) := by
  obtain ⟨_, h0, habs, hrel⟩ := include_paths_anchor W L L chain r pl p0 rest hp h
  by_cases hpd : r.projectDirectory = ""
  · obtain ⟨hproj, hrelwd⟩ := h0 hpd
    have hX := isAbs_localAbs L p0 hL
    have := localDir_anchor W L (localAbs L p0) hL hX
    simp only [localAbs_of_abs L (localAbs L p0) hX] at this
    have hnd := hex.1 hpd
    simp only [hnd] at this
    rw [hproj, hrelwd]
    simpa using this
  · cases hab : Include.isAbs r.projectDirectory with
    | true =>
      obtain ⟨hproj, hrelwd⟩ := habs hpd hab
      exact .inr ⟨by rw [hrelwd]; exact hab, by rw [hrelwd, hproj]⟩
    | false =>
      obtain ⟨hproj, hrelwd⟩ := hrel hpd hab
      have hXe : localAbs L r.projectDirectory = Include.join L r.projectDirectory := by
        simp only [localAbs, hab]; rfl
      have hX : Include.isAbs (Include.join L r.projectDirectory) = true := isAbs_join_left L _ hL
      have hd := hex.2 hpd hab
      rw [hXe] at hd
      have := localDir_anchor W L (Include.join L r.projectDirectory) hL hX
      simp only [hd, if_true] at this
      -- `loader.Dir` is called with the relative name; `abs` makes it the joined one
      have hsame : localDir W L r.projectDirectory = localDir W L (Include.join L r.projectDirectory) := by
        simp only [localDir, hXe, localAbs_of_abs L _ hX, hd, if_true]
      rw [hproj, hrelwd, hsame, clean_join L _ hL]
      rw [clean_join L _ hL] at this
      exact this

/-- non-vacuity: `/r/compose.yaml` includes `sub/inc.yaml` — `relwd = "sub"`, `projDir = "/r/sub"` -/
example :
    let W : World := { cwd := "/cwd", isDir := fun p => p == "/r" || p == "/r/sub", isFile := fun p => p == "/r/sub/inc.yaml",
                       envFromFile := fun _ _ => .ok [], loadModel := fun _ _ _ _ _ => .ok [] }
    plan W "/r" "/r" ["/r/compose.yaml"] { path := ["sub/inc.yaml"] } = .ok ⟨"sub", "/r/sub", ["/r/sub/inc.yaml"]⟩ ∧
    PlanDirsExist W "/r" { path := ["sub/inc.yaml"] } "sub/inc.yaml" ∧
    Include.join "/r" "sub" = Include.clean "/r/sub" := by
  refine ⟨by decide +kernel, ⟨fun _ => by decide +kernel, fun h => absurd rfl h⟩, by decide +kernel⟩

/-- **include_paths_resolved_against_projDir** (plan ∘ Rel ∘ two-stage resolution): `d` is any tree at any path of the
included model before path resolution and `v` what the sub-load made of it against the plan's `relwd` (relative,
non-empty — the case `Join` applies to).  The parent's own `ResolveRelativePaths` (directory `L`) turns `v` into exactly
the one-stage resolution of `d` against **the included project directory** `Clean(projDir)`: same value, same error -/
theorem include_paths_resolved_against_projDir (W : World) (L : String) (chain : List String) (r : IncCfg) (pl : Plan)
    (p0 : String) (rest : List String) (hL : Include.isAbs L = true) (hp : r.path = p0 :: rest)
    (hex : PlanDirsExist W L r p0) (h : plan W L L chain r = .ok pl)
    (home : Option Paths.Str) (hhome : ∀ x, home = some x → x ≠ [])
    (hrel : pl.relwd ≠ "") (hrelr : Include.isAbs pl.relwd = false)
    (p : TPath) (d v : Val)
    (h1 : Paths.walk CV.Gen.resolvers (cfgAt home pl.relwd) p d = .ok v) :
    Paths.walk CV.Gen.resolvers (cfgAt home L) p v =
      Paths.walk CV.Gen.resolvers (cfgAt home (Include.clean pl.projDir)) p d := by
  have hLne : L ≠ "" := by
    intro e; subst e; simp [Include.isAbs, Paths.isAbs] at hL
  rw [imported_paths_two_stage home hhome L pl.relwd hLne hrel hrelr p d v h1]
  rcases include_anchor_is_projDir_partial W L chain r pl p0 rest hL hp hex h with hj | ⟨ha, _⟩
  · rw [hj]
  · rw [ha] at hrelr; cases hrelr

/-! ## round 5, second step: `Rel` between absolute paths never fails (`rel_abs_total`), so for a `project_directory` that is
absent or relative the working directory of the sub-load is always relative and non-empty — the hypotheses of the two-stage
theorem are discharged, and the absolute alternative disappears -/

theorem localDir_relative (W : World) (L X : String) (hL : Include.isAbs L = true) (hX : Include.isAbs X = true) :
    let D := if statDir W X then X else dir X
    localDir W L X ≠ "" ∧ Include.isAbs (localDir W L X) = false ∧
      Include.join L (localDir W L X) = Include.clean D := by
  intro D
  have hD : Include.isAbs D = true := by
    simp only [D]; split
    · exact hX
    · exact isAbs_dir X hX
  have hpath : (if statDir W (localAbs L X) then localAbs L X else localAbs L (dir X)) = D := by
    simp only [D, localAbs_of_abs L X hX, localAbs_of_abs L (dir X) (isAbs_dir X hX)]
  obtain ⟨r, hr, hne, hrel⟩ := rel_abs_total L D hL hD
  simp only [localDir, hpath, hr]
  exact ⟨hne, hrel, join_rel_abs L D r hL hD hr⟩

/-- **include_anchor_is_projDir_rel_partial**: `project_directory` absent or relative, the named directory exists ⇒ the
sub-load's working directory is a non-empty *relative* path and `Join(L, relwd) = Clean(projDir)` -/
theorem include_anchor_is_projDir_rel_partial (W : World) (L : String) (chain : List String) (r : IncCfg) (pl : Plan)
    (p0 : String) (rest : List String) (hL : Include.isAbs L = true) (hp : r.path = p0 :: rest)
    (hpd : Include.isAbs r.projectDirectory = false)
    (hex : PlanDirsExist W L r p0) (h : plan W L L chain r = .ok pl) :
    pl.relwd ≠ "" ∧ Include.isAbs pl.relwd = false ∧ Include.join L pl.relwd = Include.clean pl.projDir := by
  obtain ⟨_, h0, _, hrel⟩ := include_paths_anchor W L L chain r pl p0 rest hp h
  by_cases he : r.projectDirectory = ""
  · obtain ⟨hproj, hrelwd⟩ := h0 he
    have hX := isAbs_localAbs L p0 hL
    have := localDir_relative W L (localAbs L p0) hL hX
    simp only [hex.1 he] at this
    rw [hproj, hrelwd]
    simpa using this
  · obtain ⟨hproj, hrelwd⟩ := hrel he hpd
    have hXe : localAbs L r.projectDirectory = Include.join L r.projectDirectory := by
      simp only [localAbs, hpd]; rfl
    have hX : Include.isAbs (Include.join L r.projectDirectory) = true := isAbs_join_left L _ hL
    have hd := hex.2 he hpd
    rw [hXe] at hd
    have := localDir_relative W L (Include.join L r.projectDirectory) hL hX
    simp only [hd, if_true] at this
    have hsame : localDir W L r.projectDirectory = localDir W L (Include.join L r.projectDirectory) := by
      simp only [localDir, hXe, localAbs_of_abs L _ hX, hd, if_true]
    rw [hproj, hrelwd, hsame, clean_join L _ hL]
    rw [clean_join L _ hL] at this
    exact this

/-- **include_paths_resolved_against_projDir_rel** — the same chain with no hypothesis on `relwd`: for an entry whose
`project_directory` is absent or relative (and exists), every tree of the included model, resolved by the sub-load and
then by the parent, is the one-stage resolution against the included project directory -/
theorem include_paths_resolved_against_projDir_rel (W : World) (L : String) (chain : List String) (r : IncCfg) (pl : Plan)
    (p0 : String) (rest : List String) (hL : Include.isAbs L = true) (hp : r.path = p0 :: rest)
    (hpd : Include.isAbs r.projectDirectory = false)
    (hex : PlanDirsExist W L r p0) (h : plan W L L chain r = .ok pl)
    (home : Option Paths.Str) (hhome : ∀ x, home = some x → x ≠ [])
    (p : TPath) (d v : Val)
    (h1 : Paths.walk CV.Gen.resolvers (cfgAt home pl.relwd) p d = .ok v) :
    Paths.walk CV.Gen.resolvers (cfgAt home L) p v =
      Paths.walk CV.Gen.resolvers (cfgAt home (Include.clean pl.projDir)) p d := by
  obtain ⟨hne, hrel, _⟩ := include_anchor_is_projDir_rel_partial W L chain r pl p0 rest hL hp hpd hex h
  exact include_paths_resolved_against_projDir W L chain r pl p0 rest hL hp hex h home hhome hne hrel p d v h1

/-- `baseDir` is the local loader's directory in every call `loadYamlFile` makes: the root load passes
`workingDir = L`, a nested load a relative `workingDir` -/
theorem baseDir_root (L : String) (hL : Include.isAbs L = true) : baseDir L L = L := by
  simp only [baseDir, hL, if_true]

theorem baseDir_nested (wd L : String) (hwd : Include.isAbs wd = false) (hL : L ≠ "") : baseDir wd L = L := by
  simp only [baseDir, hwd, hL, if_false, Bool.false_eq_true]

end CV.Include
