import ComposeVerif.Model.Path
import ComposeVerif.Model.MapOrder
import ComposeVerif.Lemmas.Path
import ComposeVerif.Lemmas.MapOrder
import ComposeVerif.Gen.Tables
import ComposeVerif.Gen.Static
import ComposeVerif.Spec.Determinism
import ComposeVerif.Neg.C02
/-!
# C02 — loading is deterministic: same inputs, same project, same bytes

Property theorems only.  Go's randomised map iteration is a universally quantified permutation
(`List.Perm`) of an association list with distinct keys; every theorem below says that some
result is the same for all such permutations, for inputs of any size.

1. the seven rule tables (regenerated from the source on every run) are pairwise exclusive, hence the
   rule applied at a path does not depend on the order in which Go ranges over the table;
2. the regenerated lists of order-leak sites / first-match sites / package-level writes equal the
   reviewed lists of `Spec/Determinism.lean` (a new site breaks the build);
3. the map→sequence and map→map loops of the loader are insensitive to the order (sorting, pointwise writes,
   `mergeMappings`);
4. `graph.newGraph` is order independent and does not write to the project (full strength since `fix:` 3143716;
   the function as it was, and the witnesses of its order dependence, are in `Neg/C02.lean`);
5. the result of a load does not depend on the package-level state other loads leave behind.
-/
namespace CV.Det.Props
open CV CV.Val CV.Det CV.TPath

/-! ## 1. rule tables -/

theorem mergeSpecials_exclusive : PairwiseExclusive CV.Gen.mergeSpecials := by decide
theorem unique_exclusive : PairwiseExclusive CV.Gen.unique := by decide
theorem transformers_exclusive : PairwiseExclusive CV.Gen.transformers := by decide
theorem defaultValues_exclusive : PairwiseExclusive CV.Gen.defaultValues := by decide
theorem resolvers_exclusive : PairwiseExclusive CV.Gen.resolvers := by decide
theorem validationChecks_exclusive : PairwiseExclusive CV.Gen.validationChecks := by decide
theorem castTable_exclusive : PairwiseExclusive CV.Gen.castTable := by decide

/-- `mergeYaml`: the special merge rule applied at a path is the same for every iteration order of `mergeSpecials` -/
theorem mergeSpecials_order_independent {t' : List (List String × String)} (hp : t'.Perm CV.Gen.mergeSpecials)
    (x : TPath) : firstMatch t' x = firstMatch CV.Gen.mergeSpecials x :=
  firstMatch_perm mergeSpecials_exclusive hp x

/-- `enforceUnicity`: the indexer applied at a path is the same for every iteration order of `unique` -/
theorem unique_order_independent {t' : List (List String × String)} (hp : t'.Perm CV.Gen.unique)
    (x : TPath) : firstMatch t' x = firstMatch CV.Gen.unique x :=
  firstMatch_perm unique_exclusive hp x

/-- `transform.Canonical` -/
theorem transformers_order_independent {t' : List (List String × String)} (hp : t'.Perm CV.Gen.transformers)
    (x : TPath) : firstMatch t' x = firstMatch CV.Gen.transformers x :=
  firstMatch_perm transformers_exclusive hp x

/-- `transform.SetDefaultValues` -/
theorem defaultValues_order_independent {t' : List (List String × String)} (hp : t'.Perm CV.Gen.defaultValues)
    (x : TPath) : firstMatch t' x = firstMatch CV.Gen.defaultValues x :=
  firstMatch_perm defaultValues_exclusive hp x

/-- `paths.ResolveRelativePaths` -/
theorem resolvers_order_independent {t' : List (List String × String)} (hp : t'.Perm CV.Gen.resolvers)
    (x : TPath) : firstMatch t' x = firstMatch CV.Gen.resolvers x :=
  firstMatch_perm resolvers_exclusive hp x

/-- `validation.Validate` -/
theorem validationChecks_order_independent {t' : List (List String × String)} (hp : t'.Perm CV.Gen.validationChecks)
    (x : TPath) : firstMatch t' x = firstMatch CV.Gen.validationChecks x :=
  firstMatch_perm validationChecks_exclusive hp x

/-- `interpolation.Options.getCasterForPath` -/
theorem castTable_order_independent {t' : List (List String × String)} (hp : t'.Perm CV.Gen.castTable)
    (x : TPath) : firstMatch t' x = firstMatch CV.Gen.castTable x :=
  firstMatch_perm castTable_exclusive hp x

/-- non-vacuity: a rule is found, and it is found in the reversed table too -/
example : firstMatch CV.Gen.mergeSpecials ["services", "web", "labels"] = some "mergeToSequence" ∧
    firstMatch CV.Gen.mergeSpecials.reverse ["services", "web", "labels"] = some "mergeToSequence" := by decide

/-- a table with overlapping rows is *not* exclusive (the obligation is not vacuous) and its first match does depend on the order -/
example : ¬ PairwiseExclusive [(["services", "*", "labels"], "a"), (["services", "*", "*"], "b")] ∧
    firstMatch [(["services", "*", "labels"], "a"), (["services", "*", "*"], "b")] ["services", "x", "labels"] ≠
    firstMatch [(["services", "*", "*"], "b"), (["services", "*", "labels"], "a")] ["services", "x", "labels"] := by decide

/-! ## 2. static facts regenerated from the source -/

/-- every `range`-over-map that builds a sequence without sorting it in the same function is on the reviewed list -/
theorem orderLeakSites_reviewed : CV.Gen.Static.orderLeakSites = CV.Det.Spec.reviewedOrderLeakSites := by decide

/-- every `range`-over-map left early with a value ("first match wins") is on the reviewed list -/
theorem earlyExitSites_reviewed : CV.Gen.Static.earlyExitSites = CV.Det.Spec.reviewedEarlyExitSites := by decide

/-- the package-level variables written outside `init` are exactly the reviewed ones -/
theorem globalWrites_reviewed : CV.Gen.Static.globalWrites = CV.Det.Spec.reviewedGlobalWrites := by decide

/-- no loop over a Go map carries a function-local map from one iteration to the next (no cache or "seen" set read and
written under a key that ignores the loop's key variable): the order of iteration cannot reach a result that way -/
theorem loopCarriedMaps_reviewed : CV.Gen.Static.loopCarriedMaps = CV.Det.Spec.reviewedLoopCarriedMaps := by decide

/-- the package-level variables of the library (any state that could survive a load) are exactly the reviewed ones -/
theorem packageVars_reviewed : CV.Gen.Static.packageVars = CV.Det.Spec.reviewedPackageVars := by decide

/-- the `range` statements the translator could not type are exactly the reviewed ones (none of them hides a map
whose order leaks: they are analysed as if they ranged over maps, see the `?`-rows of the two lists above) -/
theorem untypedRangeSites_reviewed : CV.Gen.Static.untypedRangeSites = CV.Det.Spec.reviewedUntypedRangeSites := by decide

/-- every reviewed order-leak site that a load or a rendering can reach has an order-independence theorem below -/
theorem reachable_leaks_proved :
    ∀ s ∈ CV.Det.Spec.reviewedOrderLeakSites, CV.Det.Spec.reachableFromLoadOrRender s = true →
      s ∈ CV.Det.Spec.provedInsensitive := by decide

/-! ## 3. loops over maps -/

/-- **collect, then sort**: whatever order the strings were collected in, `sort.Strings` returns the same slice -/
theorem sort_erases_order {l l' : List String} (hp : l'.Perm l) : sortStrs l' = sortStrs l := sortStrs_perm hp

/-- the sorted slice is a rearrangement of the input and is ordered -/
theorem sort_is_sorted_perm (l : List String) : (sortStrs l).Perm l ∧ (sortStrs l).Pairwise (· ≤ ·) :=
  ⟨sortStrs_perm_self l, sortStrs_sorted l⟩

/-- **range over a map, store under the same key of a fresh map**: the fresh map holds `f k v` exactly at the
keys of the source (pointwise law) … -/
theorem rangeWrite_pointwise {α β : Type} (f : String → α → β) (m : AL α) (hn : (akeys m).Nodup) (k : String) :
    find k (rangeWrite f m) = (find k m).map (f k) := find_rangeWrite f m hn k

/-- … hence it is the same map for every iteration order (same entries; same value under every key).
Covers `Mapping.DecodeMapstructure`, `MappingWithEquals.DecodeMapstructure`, `ToMappingWithEquals`, `Clone`,
`HostsList.DecodeMapstructure` (map case), `interpolation.Interpolate`, `copyMap`, … -/
theorem rangeWrite_perm {α β : Type} (f : String → α → β) {m m' : AL α} (hn : (akeys m).Nodup) (hp : m'.Perm m) :
    (rangeWrite f m').Perm (rangeWrite f m) ∧ ∀ k, find k (rangeWrite f m') = find k (rangeWrite f m) := by
  refine ⟨rangeWrite_perm' f hn hp, fun k => ?_⟩
  have hn' : (akeys m').Nodup := (hp.map Prod.fst).nodup_iff.mpr hn
  rw [find_rangeWrite f m' hn', find_rangeWrite f m hn, find_perm hn hp]

/-- **range over a map and update it in place under the same key** (`enforceUnicity`, `convertToStringKeysRecursive`,
the normalisation loops, `services[name] = merged`): every entry is replaced by `f k v`, whatever the order -/
theorem rangeUpdate_pointwise {α : Type} (f : String → α → α) (m : AL α) (hn : (akeys m).Nodup) (k : String) :
    find k (rangeUpdate f m) = (find k m).map (f k) := by
  rw [rangeUpdate_eq_map f m hn, find_map_entries]

theorem rangeUpdate_perm {α : Type} (f : String → α → α) {m m' : AL α} (hn : (akeys m).Nodup) (hp : m'.Perm m) :
    (rangeUpdate f m').Perm (rangeUpdate f m) ∧ ∀ k, find k (rangeUpdate f m') = find k (rangeUpdate f m) := by
  have hn' : (akeys m').Nodup := (hp.map Prod.fst).nodup_iff.mpr hn
  refine ⟨?_, fun k => ?_⟩
  · rw [rangeUpdate_eq_map f m hn, rangeUpdate_eq_map f m' hn']; exact hp.map _
  · rw [rangeUpdate_pointwise f m' hn', rangeUpdate_pointwise f m hn, find_perm hn hp]

/-- **range over a map and return the first error** (`validation.check`, `Interpolate`, `HostsList.cleanup`, every
`if err != nil { return err }` inside a map loop): *whether* an error is returned does not depend on the order.
(*Which* one is returned does — `Neg.rangeCheck_which_error_order_dependent` — which is why error texts are never
part of the observation.) -/
theorem rangeCheck_perm {α ε : Type} (f : String → α → Option ε) {m m' : AL α} (hp : m'.Perm m) :
    (rangeCheck f m').isSome = (rangeCheck f m).isSome := by
  rw [rangeCheck_isSome, rangeCheck_isSome, hp.any_eq]

/-- `override.convertIntoSequence` returns the same sequence for every iteration order of the mapping -/
theorem intoSeq_perm {kvs kvs' : KVs} (hp : kvs'.Perm kvs) : intoSeq (.map kvs') = intoSeq (.map kvs) :=
  intoSeq_map_perm hp

/-- `override.mergeToSequence` (labels, environment, … merged across files) -/
theorem mergeToSequence_perm {a a' b b' : KVs} (ha : a'.Perm a) (hb : b'.Perm b) :
    mergeToSequence (.map a') (.map b') = mergeToSequence (.map a) (.map b) := by
  simp only [mergeToSequence, intoSeq_map_perm ha, intoSeq_map_perm hb]

/-- `override.mergeExtraHosts` (extra_hosts merged across files) -/
theorem mergeExtraHosts_perm {a a' b b' : KVs} (ha : a'.Perm a) (hb : b'.Perm b) :
    mergeExtraHosts (.map a') (.map b') = mergeExtraHosts (.map a) (.map b) := by
  simp only [mergeExtraHosts, intoSeq_map_perm ha, intoSeq_map_perm hb]

/-- `types.SSHConfig.DecodeMapstructure` (after the `fix:` commit): the key slice does not depend on the order -/
theorem sshDecode_perm {kvs kvs' : KVs} (hn : (akeys kvs).Nodup) (hp : kvs'.Perm kvs) :
    sshDecode (.map kvs') = sshDecode (.map kvs) := sshDecode_perm' hn hp

/-- `HostsList.sortedList` (`MarshalYAML`/`MarshalJSON`; hosts sorted, each host's addresses in their order — C09 repair):
the rendering of a map (distinct keys) does not depend on its iteration order -/
theorem hostsRender_perm {m m' : AL (List String)} (hn : (akeys m).Nodup) (hp : m'.Perm m) : hostsRender m' = hostsRender m :=
  hostsRender_perm' hn hp

/-- `HostsList.DecodeMapstructure` of a mapping, observed through its rendering: same error-or-list for every order -/
theorem hostsDecode_perm {kvs kvs' : KVs} (hn : (akeys kvs).Nodup) (hp : kvs'.Perm kvs) :
    (hostsDecode (.map kvs')).map hostsRender = (hostsDecode (.map kvs)).map hostsRender :=
  hostsDecode_map_perm hn hp

/-- `Mapping.Values` -/
theorem mappingValues_perm {m m' : AL String} (hp : m'.Perm m) : mappingValues m' = mappingValues m :=
  mappingValues_perm' hp

/-- `Mapping.DecodeMapstructure` of a mapping, observed through `Values()` -/
theorem mappingDecode_perm {kvs kvs' : KVs} (hn : (akeys kvs).Nodup) (hp : kvs'.Perm kvs) :
    (mappingDecode (.map kvs')).map mappingValues = (mappingDecode (.map kvs)).map mappingValues :=
  mappingDecode_map_perm hn hp

/-- **pointwise law of `mergeMappings`** for any (total) per-key combiner -/
theorem mergeKVs_pointwise (f : String → Val → Val → Val) (a b : KVs) (hb : (akeys b).Nodup) (k : String) :
    find k (mergeKVs f a b) =
      match find k a, find k b with
      | some x, some y => some (f k x y)
      | some x, none => some x
      | none, some y => some y
      | none, none => none := find_mergeKVs f a b hb k

/-- `mergeMappings`: ranging over the override in any order yields the same mapping -/
theorem mergeKVs_perm (f : String → Val → Val → Val) (a b b' : KVs) (hb : (akeys b).Nodup) (hp : b'.Perm b) (k : String) :
    find k (mergeKVs f a b') = find k (mergeKVs f a b) := mergeKVs_perm' f a b b' hb hp k

/-- `mergeMappings` with a combiner that can fail: *whether* the merge fails does not depend on the order … -/
theorem mergeKVsE_ok_perm {ε : Type} (f : String → Val → Val → Except ε Val) (a b b' : KVs)
    (hb : (akeys b).Nodup) (hp : b'.Perm b) :
    (mergeKVsE f a b').toBool = (mergeKVsE f a b).toBool := by
  have hb' : (akeys b').Nodup := (hp.map Prod.fst).nodup_iff.mpr hb
  rw [mergeKVsE_ok_iff f a b hb, mergeKVsE_ok_iff f a b' hb', hp.all_eq]

/-- … and when it succeeds, the merged mapping does not either -/
theorem mergeKVsE_perm {ε : Type} (f : String → Val → Val → Except ε Val) (a b b' m m' : KVs)
    (hb : (akeys b).Nodup) (hp : b'.Perm b)
    (h : mergeKVsE f a b = .ok m) (h' : mergeKVsE f a b' = .ok m') (k : String) : find k m' = find k m := by
  let g : String → Val → Val → Val := fun k e v => match f k e v with | .ok m => m | .error _ => .null
  have hg : ∀ k e v m, f k e v = .ok m → g k e v = m := by intro k e v m hm; simp only [g, hm]
  rw [mergeKVsE_eq_pure f g hg a b m h, mergeKVsE_eq_pure f g hg a b' m' h']
  exact mergeKVs_perm' g a b b' hb hp k

/-- `mergeYaml` on paths without a special rule: at every mapping the override may be ranged in any order -/
theorem mergeGeneric_ok_perm (a b b' : KVs) (hb : (akeys b).Nodup) (hp : b'.Perm b) :
    (mergeGenericKVs a b').toBool = (mergeGenericKVs a b).toBool := by
  rw [mergeGenericKVs_eq, mergeGenericKVs_eq]
  exact mergeKVsE_ok_perm genericCombiner a b b' hb hp

theorem mergeGeneric_perm (a b b' m m' : KVs) (hb : (akeys b).Nodup) (hp : b'.Perm b)
    (h : mergeGenericKVs a b = .ok m) (h' : mergeGenericKVs a b' = .ok m') (k : String) : find k m' = find k m := by
  rw [mergeGenericKVs_eq] at h h'
  exact mergeKVsE_perm genericCombiner a b b' m m' hb hp h h' k

/-! non-vacuity -/

example : (akeys ([("b", .int 1), ("a", .null)] : KVs)).Nodup := by decide
example : intoSeq (.map [("b", .int 1), ("a", .null)]) = intoSeq (.map [("a", .null), ("b", .int 1)]) :=
  intoSeq_perm (List.Perm.swap _ _ _)
example : sshDecode (.map [("k2", .str "p"), ("k1", .null)]) = .ok [("k1", ""), ("k2", "p")] := by decide
example : hostsRender [("h2", ["1.1.1.1"]), ("h1", ["::1", "2.2.2.2"])] = ["h1=::1", "h1=2.2.2.2", "h2=1.1.1.1"] := by decide
example : mergeGenericKVs [("p", .map [("q", .int 1)])] [("p", .map [("r", .int 2)]), ("x-e", .null)] =
    .ok [("p", .map [("q", .int 1), ("r", .int 2)]), ("x-e", .null)] := by rfl
example : (mergeGenericKVs [("p", .map [])] [("p", .int 1)]).toBool = false := by decide

/-! ## 3b. `ApplyExtends`: memoised recursive resolution is independent of the visit order -/

/-- the memoising algorithm (`applyServiceExtends`, which stores every service it resolves on the way into the
services map) run on a map in which some services are already resolved returns exactly what the service *denotes*
in the original map, and leaves a map of the same kind -/
theorem applyExtends_memo_sound {β : Type} (mrg : β → β → β) (m0 m m' : AL (XSvc β)) (k : Nat) (name : String) (r : β)
    (hres : Res mrg m0 m) (h : applyOne mrg k m name = some (m', r)) :
    (∃ j, val mrg j m0 name = some r) ∧ Res mrg m0 m' := applyOne_sound mrg m0 k m m' name r hres h

/-- **`loader.ApplyExtends` does not depend on the order in which Go ranges over the services map**: for two
orders that both visit every service, the loop fails or succeeds alike and, on success, yields the same services map
(a resolved service is a fixed point of resolution).  `mrg` is any merge function; `n` any sufficient fuel. -/
theorem applyExtends_perm {β : Type} (mrg : β → β → β) (n : Nat) (m0 : AL (XSvc β)) (hf : FuelEnough mrg n m0)
    {order order' : List String} (hp : order'.Perm order) (hall : ∀ x, (find x m0).isSome = true → x ∈ order) :
    (applyAll mrg n order' m0).isSome = (applyAll mrg n order m0).isSome ∧
    ∀ mf mf', applyAll mrg n order m0 = some mf → applyAll mrg n order' m0 = some mf' →
      ∀ x, find x mf' = find x mf := applyAll_perm mrg n m0 hf hp hall

/-- the fuel hypothesis holds whenever the `extends` references descend along a rank below `n` (every acyclic
services map has such a rank, e.g. the length of the chain below each service) -/
theorem applyExtends_fuel_of_rank {β : Type} (mrg : β → β → β) (n : Nat) (m0 : AL (XSvc β)) (rank : String → Nat)
    (hdown : ∀ x ref b, find x m0 = some (some ref, b) → rank ref < rank x)
    (hbound : ∀ x, (find x m0).isSome = true → rank x < n) : FuelEnough mrg n m0 :=
  fuelEnough_of_rank mrg n m0 rank hdown hbound

/-- fuel sufficiency, for every services map: whatever a service denotes, it denotes within `length` steps — so
running out of fuel means a circular reference, never a long chain -/
theorem applyExtends_fuel_enough {β : Type} (mrg : β → β → β) (m0 : AL (XSvc β)) (j : Nat) :
    FuelEnough mrg (m0.length + j) m0 := fuelEnough_length mrg m0 j

/-- **`loader.ApplyExtends` is independent of the visit order, unconditionally** (fuel = number of services + 1, which
is what the correspondence runs): every two complete visit orders fail or succeed alike and agree on the result -/
theorem applyExtends_order_independent {β : Type} (mrg : β → β → β) (m0 : AL (XSvc β))
    {order order' : List String} (hp : order'.Perm order) (hall : ∀ x, (find x m0).isSome = true → x ∈ order) :
    (applyAll mrg (m0.length + 1) order' m0).isSome = (applyAll mrg (m0.length + 1) order m0).isSome ∧
    ∀ mf mf', applyAll mrg (m0.length + 1) order m0 = some mf → applyAll mrg (m0.length + 1) order' m0 = some mf' →
      ∀ x, find x mf' = find x mf :=
  applyAll_perm mrg (m0.length + 1) m0 (fuelEnough_length mrg m0 1) hp hall

/-- non-vacuity: worker → web → base, visited in two different orders, same result -/
example :
    applyAll (fun (b o : List String) => b ++ o) 4 ["worker", "web", "base"]
      [("base", (none, ["b"])), ("web", (some "base", ["w"])), ("worker", (some "web", ["k"]))] =
    applyAll (fun (b o : List String) => b ++ o) 4 ["base", "web", "worker"]
      [("base", (none, ["b"])), ("web", (some "base", ["w"])), ("worker", (some "web", ["k"]))] := by decide

/-- a circular reference is an error in every order -/
example : applyAll (fun (b o : List String) => b ++ o) 3 ["a", "b"] [("a", (some "b", [])), ("b", (some "a", []))] = none ∧
    applyAll (fun (b o : List String) => b ++ o) 3 ["b", "a"] [("a", (some "b", [])), ("b", (some "a", []))] = none := by decide

/-! ## 4. `graph.newGraph` -/

/-- the loop over one service's `depends_on`: whether it fails and the edges it creates (as a set) are the same for
every iteration order (promoted: before `fix:` 3143716 only for a service that does not depend on itself) -/
theorem depLoop_perm (en dis : List String) {d d' : AL Bool} (hp : d'.Perm d) (es : List String) :
    (depLoop en dis d' es).toBool = (depLoop en dis d es).toBool ∧
    ∀ s s', depLoop en dis d es = .ok s → depLoop en dis d' es = .ok s' → s'.Perm s := by
  constructor
  · rw [depLoop_toBool en dis d, depLoop_toBool en dis d']
    simp only [missingReq, hp.any_eq]
  · intro s s' h h'
    rw [depLoop_ok en dis d es s h, depLoop_ok en dis d' es s' h']
    exact List.Perm.append_left _ ((hp.filter _).map _)

/-- the project is left as it was: what `newGraph` returns on success is the list of services it was given -/
theorem newGraph_no_mutation (svcs : List Svc) (dis : List String) (ss : List Svc)
    (h : newGraph svcs dis = .ok ss) : ss = svcs := by
  simp only [newGraph] at h
  cases hg : graphLoop (svcs.map (·.name)) dis svcs with
  | error e => simp [hg] at h
  | ok adj =>
    simp only [hg] at h
    split at h
    · cases h
    · cases h; rfl

/-- the loop over `project.Services`: whether some service fails does not depend on the order the services are visited in -/
theorem graphLoop_ok_perm (en dis : List String) {svcs svcs' : List Svc} (hp : svcs'.Perm svcs) :
    (graphLoop en dis svcs').toBool = (graphLoop en dis svcs).toBool := by
  rw [graphLoop_toBool, graphLoop_toBool, hp.all_eq]

/-- **`graph.CheckCycle` is order independent**: for services with distinct names, whether `newGraph` + the cycle
search accept the project is the same for every iteration order of the services map
(`SvcsPerm` = a permutation of the services composed with a permutation of every `depends_on` map).
Full strength since `fix:` 3143716 (before: only without self dependencies, `Neg.newGraphOld_order_dependent`). -/
theorem newGraph_perm {svcs svcs' : List Svc} (dis : List String)
    (hn : (svcs.map (·.name)).Nodup) (hp : SvcsPerm svcs' svcs) :
    (newGraph svcs' dis).toBool = (newGraph svcs dis).toBool := newGraph_toBool_perm dis hn hp

/-- non-vacuity: two iteration orders of a project with a self dependency next to an optional missing one -/
example :
    SvcsPerm [⟨"b", []⟩, ⟨"a", [("off", false), ("a", true)]⟩] [⟨"a", [("a", true), ("off", false)]⟩, ⟨"b", []⟩] := by
  refine ⟨[⟨"a", [("off", false), ("a", true)]⟩, ⟨"b", []⟩], List.Perm.swap _ _ _, ?_⟩
  exact .cons rfl (List.Perm.swap _ _ _) (.cons rfl (List.Perm.refl _) .nil)

/-- non-vacuity of `depLoop_perm`: a loop with an optional missing dependency -/
example : depLoop ["a", "b"] ["off"] [("b", true), ("off", false)] [] = .ok ["b"] := by decide

/-! ## 5. package-level state -/

/-- `versionWarning` only decides whether a warning is logged: the project computed by a load is the same whatever
loads ran before (`g₁`, `g₂` = the global as earlier loads left it) -/
theorem load_indep_global {I P : Type} (core : I → P) (versioned : I → List String) (g₁ g₂ : List String) (i : I) :
    (loadWithGlobal core versioned g₁ i).2 = (loadWithGlobal core versioned g₂ i).2 := rfl

/-- the global does change (the statement above is not about a constant) -/
example : (warnObsoleteVersion [] "f.yaml").1 ≠ [] ∧ (warnObsoleteVersion ["f.yaml"] "f.yaml").2 = false := by decide

end CV.Det.Props
