import ComposeVerif.Gen.C01Source
/-!
# C01 — the source the models were written against

`Gen/C01Source.lean` is regenerated on every run from loader/loader.go (`cycleTracker.Add`,
`convertToStringKeysRecursive`), loader/fix.go, loader/omitEmpty.go and loader/reset.go: the bodies of the functions
that `Model/C01Stages.lean`, `Model/C01Cycles.lean` (`Tracker`) and `Model/C01Reset.lean` mirror, printed without comments.
The theorem pins them to the texts the models were last compared with: any edit to one of these functions breaks it —
on top of whatever the correspondence streams find — until somebody has re-read the model and updated the text here.
(`applyServiceExtends`, `ApplyInclude`, `searchCycle` are pinned by their owners' modules: C05, C06, C10.)
-/
namespace CV.C01.Source

theorem modelled_functions_are_source :
    CV.Gen.c01_body_cycleTrackerAdd =
      "{ toAdd := serviceRef{filename: filename, service: service} for _, loaded := range ct.loaded { if toAdd == loaded { errLines := []string{ \"Circular reference:\", fmt.Sprintf(\" %s in %s\", ct.loaded[0].service, ct.loaded[0].filename), } for _, service := range append(ct.loaded[1:], toAdd) { errLines = append(errLines, fmt.Sprintf(\" extends %s in %s\", service.service, service.filename)) } return nil, errors.New(strings.Join(errLines, \"\\n\")) } } var branch []serviceRef branch = append(branch, ct.loaded...) branch = append(branch, toAdd) return &cycleTracker{ loaded: branch, }, nil }" ∧
    CV.Gen.c01_body_convertToStringKeysRecursive =
      "{ if mapping, ok := value.(map[string]interface{}); ok { for key, entry := range mapping { var newKeyPrefix string if keyPrefix == \"\" { newKeyPrefix = key } else { newKeyPrefix = fmt.Sprintf(\"%s.%s\", keyPrefix, key) } convertedEntry, err := convertToStringKeysRecursive(entry, newKeyPrefix) if err != nil { return nil, err } mapping[key] = convertedEntry } return mapping, nil } if mapping, ok := value.(map[interface{}]interface{}); ok { dict := make(map[string]interface{}) for key, entry := range mapping { str, ok := key.(string) if !ok { return nil, formatInvalidKeyError(keyPrefix, key) } var newKeyPrefix string if keyPrefix == \"\" { newKeyPrefix = str } else { newKeyPrefix = fmt.Sprintf(\"%s.%s\", keyPrefix, str) } convertedEntry, err := convertToStringKeysRecursive(entry, newKeyPrefix) if err != nil { return nil, err } dict[str] = convertedEntry } return dict, nil } if list, ok := value.([]interface{}); ok { var convertedList []interface{} for index, entry := range list { newKeyPrefix := fmt.Sprintf(\"%s[%d]\", keyPrefix, index) convertedEntry, err := convertToStringKeysRecursive(entry, newKeyPrefix) if err != nil { return nil, err } convertedList = append(convertedList, convertedEntry) } return convertedList, nil } return value, nil }" ∧
    CV.Gen.c01_body_fixEmptyNotNull =
      "{ switch v := value.(type) { case []any: if v == nil { return []any{} } for i, e := range v { v[i] = fixEmptyNotNull(e) } case map[string]any: for k, e := range v { v[k] = fixEmptyNotNull(e) } } return value }" ∧
    CV.Gen.c01_body_OmitEmpty =
      "{ cleaned := omitEmpty(yaml, tree.NewPath()) return cleaned.(map[string]any) }" ∧
    CV.Gen.c01_body_omitEmpty =
      "{ switch v := data.(type) { case map[string]any: for k, e := range v { if isEmpty(e) && mustOmit(p) { delete(v, k) continue } v[k] = omitEmpty(e, p.Next(k)) } return v case []any: c := make([]any, 0, len(v)) for _, e := range v { if isEmpty(e) && mustOmit(p) { continue } c = append(c, omitEmpty(e, p.Next(\"[]\"))) } return c default: return data } }" ∧
    CV.Gen.c01_body_mustOmit =
      "{ for _, pattern := range omitempty { if p.Matches(pattern) { return true } } return false }" ∧
    CV.Gen.c01_body_isEmpty =
      "{ if e == nil { return true } if v, ok := e.(string); ok && v == \"\" { return true } return false }" ∧
    CV.Gen.c01_body_UnmarshalYAML =
      "{ p.visitedNodes = make(map[*yaml.Node][]string) p.active = make(map[*yaml.Node]int) resolved, err := p.resolveReset(value, tree.NewPath()) p.visitedNodes = nil p.active = nil if err != nil { return err } if resolved == nil { return nil } if err := checkAcyclic(resolved, map[*yaml.Node]bool{}); err != nil { return err } return resolved.Decode(p.target) }" ∧
    CV.Gen.c01_body_resolveReset =
      "{ pathStr := path.String() if strings.Contains(pathStr, \".<<\") { path = tree.NewPath(strings.Replace(pathStr, \".<<\", \"\", 1)) } if p.active == nil { p.active = make(map[*yaml.Node]int) } if p.active[node] >= 2 { return nil, fmt.Errorf(\"cycle detected: node at path %s is nested inside itself\", path.String()) } p.active[node]++ defer func() { p.active[node]-- }() if node.Kind == yaml.AliasNode { if err := p.checkForCycle(node.Alias, path); err != nil { return nil, err } return p.resolveReset(node.Alias, path) } if node.Tag == \"!reset\" { p.paths = append(p.paths, path) return nil, nil } if node.Tag == \"!override\" { p.paths = append(p.paths, path) return node, nil } switch node.Kind { case yaml.SequenceNode: var nodes []*yaml.Node for idx, v := range node.Content { next := path.Next(strconv.Itoa(idx)) resolved, err := p.resolveReset(v, next) if err != nil { return nil, err } if resolved != nil { nodes = append(nodes, resolved) } } node.Content = nodes case yaml.MappingNode: var key string var nodes []*yaml.Node for idx, v := range node.Content { if idx%2 == 0 { key = v.Value } else { resolved, err := p.resolveReset(v, path.Next(key)) if err != nil { return nil, err } if resolved != nil { nodes = append(nodes, node.Content[idx-1], resolved) } } } node.Content = nodes } return node, nil }" ∧
    CV.Gen.c01_body_checkForCycle =
      "{ paths := p.visitedNodes[node] pathStr := path.String() for _, prevPath := range paths { if pathStr == prevPath { continue } if strings.Contains(prevPath, \"<<\") || strings.Contains(pathStr, \"<<\") { continue } if (strings.HasPrefix(pathStr, prevPath+\".\") || strings.HasPrefix(prevPath, pathStr+\".\")) && !areInDifferentServices(pathStr, prevPath) { return fmt.Errorf(\"cycle detected: node at path %s references node at path %s\", pathStr, prevPath) } } p.visitedNodes[node] = append(paths, pathStr) return nil }" ∧
    CV.Gen.c01_body_areInDifferentServices =
      "{ parts1 := strings.Split(path1, \".\") parts2 := strings.Split(path2, \".\") for i := 0; i < len(parts1) && i < len(parts2); i++ { if parts1[i] == \"services\" && i+1 < len(parts1) && parts2[i] == \"services\" && i+1 < len(parts2) { return parts1[i+1] != parts2[i+1] } } return false }" ∧
    CV.Gen.c01_body_checkAcyclic =
      "{ if node == nil { return nil } if onPath[node] { return fmt.Errorf(\"cycle detected: node at line %d contains itself\", node.Line) } onPath[node] = true defer delete(onPath, node) if node.Kind == yaml.AliasNode { return checkAcyclic(node.Alias, onPath) } for _, child := range node.Content { if err := checkAcyclic(child, onPath); err != nil { return err } } return nil }" :=
  ⟨rfl, rfl, rfl, rfl, rfl, rfl, rfl, rfl, rfl, rfl, rfl, rfl⟩

/-- (round 6) `getExtendsBaseFromFile` — the function `Model/C01PipelineFS.lean` composes with the per-document pipeline:
the cloned option set (`ResolvePaths = false`, `SkipNormalization`, `SkipConsistencyCheck`, `SkipInclude`, `SkipExtends`,
`SkipValidation`, `SkipDefaultValues`), `loadYamlFile` into an empty model, the `services` / base-present checks, then
`ResolveRelativePaths` at the file's directory.  Dropping or adding one assignment to `extendsOpts` breaks this. -/
theorem extends_base_load_is_source :
    CV.Gen.c01_body_getExtendsBaseFromFile =
      "{ for _, loader := range opts.ResourceLoaders { if !loader.Accept(refPath) { continue } local, err := loader.Load(ctx, refPath) if err != nil { return nil, nil, err } localdir := filepath.Dir(local) relworkingdir := loader.Dir(refPath) extendsOpts := opts.clone() extendsOpts.ResourceLoaders = append(opts.RemoteResourceLoaders(), localResourceLoader{ WorkingDir: localdir, }) extendsOpts.ResolvePaths = false extendsOpts.SkipNormalization = true extendsOpts.SkipConsistencyCheck = true extendsOpts.SkipInclude = true extendsOpts.SkipExtends = true extendsOpts.SkipValidation = true extendsOpts.SkipDefaultValues = true source, processor, err := loadYamlFile(ctx, types.ConfigFile{Filename: local}, extendsOpts, relworkingdir, nil, ct, map[string]any{}, nil) if err != nil { return nil, nil, err } m, ok := source[\"services\"] if !ok { return nil, nil, fmt.Errorf(\"cannot extend service %q in %s: no services section\", name, local) } services, ok := m.(map[string]any) if !ok { return nil, nil, fmt.Errorf(\"cannot extend service %q in %s: services must be a mapping\", name, local) } _, ok = services[ref] if !ok { return nil, nil, fmt.Errorf( \"cannot extend service %q in %s: service %q not found in %s\", name, path, ref, refPath, ) } var remotes []paths.RemoteResource for _, loader := range opts.RemoteResourceLoaders() { remotes = append(remotes, loader.Accept) } err = paths.ResolveRelativePaths(source, relworkingdir, remotes) if err != nil { return nil, nil, err } return services, processor, nil } return nil, nil, fmt.Errorf(\"cannot read %s\", refPath) }" := rfl

/-- (round 6) the readers of a service's `env_file` / `label_file` that `Model/C01Files.lean` mirrors (types/project.go):
the two loops, `loadEnvFile` (missing ∧ required → error naming the file; missing ∧ optional → skipped), `loadLabelFile`,
`loadMappingFile`, `fileIsMissing` (ErrNotExist or ENOTDIR).  A cache, a reordered test or a swallowed error in any of
them (seeded change C01-8: an "absent" cache shared by the references) breaks this obligation. -/
theorem service_file_readers_are_source :
    CV.Gen.c01_body_WithServicesEnvironmentResolved =
      "{ newProject := p.deepCopy() for i, service := range newProject.Services { service.Environment = service.Environment.Resolve(newProject.Environment.Resolve) environment := MappingWithEquals{} var resolve dotenv.LookupFn = func(s string) (string, bool) { v, ok := environment[s] if ok && v != nil { return *v, ok } return newProject.Environment.Resolve(s) } for _, envFile := range service.EnvFiles { vars, err := loadEnvFile(envFile, resolve) if err != nil { return nil, err } environment.OverrideBy(vars.ToMappingWithEquals()) } service.Environment = environment.OverrideBy(service.Environment) if discardEnvFiles { service.EnvFiles = nil } newProject.Services[i] = service } return newProject, nil }" ∧
    CV.Gen.c01_body_WithServicesLabelsResolved =
      "{ newProject := p.deepCopy() for i, service := range newProject.Services { labels := MappingWithEquals{} var resolve dotenv.LookupFn = func(s string) (string, bool) { v, ok := labels[s] if ok && v != nil { return *v, ok } return \"\", false } for _, labelFile := range service.LabelFiles { vars, err := loadLabelFile(labelFile, resolve) if err != nil { return nil, err } labels.OverrideBy(vars.ToMappingWithEquals()) } labels = labels.OverrideBy(service.Labels.ToMappingWithEquals()) if len(labels) == 0 { labels = nil } else { service.Labels = NewLabelsFromMappingWithEquals(labels) } if discardLabelFiles { service.LabelFiles = nil } newProject.Services[i] = service } return newProject, nil }" ∧
    CV.Gen.c01_body_loadEnvFile =
      "{ if _, err := os.Stat(envFile.Path); fileIsMissing(err) { if envFile.Required { return nil, fmt.Errorf(\"env file %s not found: %w\", envFile.Path, err) } return nil, nil } return loadMappingFile(envFile.Path, envFile.Format, resolve) }" ∧
    CV.Gen.c01_body_loadLabelFile =
      "{ if _, err := os.Stat(labelFile); fileIsMissing(err) { return nil, fmt.Errorf(\"label file %s not found: %w\", labelFile, err) } return loadMappingFile(labelFile, \"\", resolve) }" ∧
    CV.Gen.c01_body_loadMappingFile =
      "{ file, err := os.Open(path) if err != nil { return nil, err } defer file.Close() var fileVars map[string]string if format != \"\" { fileVars, err = dotenv.ParseWithFormat(file, path, resolve, format) } else { fileVars, err = dotenv.ParseWithLookup(file, resolve) } if err != nil { return nil, err } return fileVars, nil }" ∧
    CV.Gen.c01_body_fileIsMissing =
      "{ return errors.Is(err, fs.ErrNotExist) || errors.Is(err, syscall.ENOTDIR) }" :=
  ⟨rfl, rfl, rfl, rfl, rfl, rfl⟩

end CV.C01.Source
