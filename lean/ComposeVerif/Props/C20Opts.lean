import ComposeVerif.Props.C20
import ComposeVerif.Lemmas.SecretsOpts
import ComposeVerif.Gen.SecretsOptsFacts
import ComposeVerif.Neg.C20Opts
/-!
# C20 — the non-leak theorems under loader options, and the renderer inventory (round 6)

Loader options change the dynamic type / the shape of what the stages after them see: `KnownExtensions` replaces the
value of a registered `x-` attribute by what the caller's Go type decodes it to (`Model/SecretsOpts.lean`: the decoder
is a *parameter*), `SkipNormalization` removes `setNameFromKey`.  The theorems below are `taint_confined_*` /
`render_default_clean` of `Props/C20.lean` for *every* such configuration: any set of registered names, any decoders
that invent no tainted string (`DecOk`), normalisation on or off.  Property theorems only.
-/
namespace CV.Secrets
open CV CV.Val

/-! ## source facts -/

/-- `processExtensions` is the function `Model/Secrets.lean` (`pxVal`) and `Model/SecretsOpts.lean` (`decodeKnown`:
the loop over `extras`, with the test that keeps the private carrier key away from the caller's decoders) were written
against; it is called by `modelToProject` with `opts.KnownExtensions` and by itself with the same `extensions`;
`KnownExtensions` is only set by `cli.WithExtension`, copied by `Options.clone` and read by that call;
`SkipNormalization` is read by `load` only (and set for extends / include sub-loads). -/
theorem option_code_is_modelled :
    CV.Gen.SecretsOpts.body_processExtensions = "{ extras := map[string]any{} var err error for key, value := range dict { skip := false for _, uk := range userDefinedKeys { if p.Matches(uk) { skip = true break } } if !skip && strings.HasPrefix(key, \"x-\") { extras[key] = value delete(dict, key) continue } switch v := value.(type) { case map[string]interface{}: dict[key], err = processExtensions(v, p.Next(key), extensions) if err != nil { return nil, err } case []interface{}: for i, e := range v { if m, ok := e.(map[string]interface{}); ok { v[i], err = processExtensions(m, p.Next(strconv.Itoa(i)), extensions) if err != nil { return nil, err } } } } } for name, val := range extras { if name == types.SecretConfigXValue { continue } if typ, ok := extensions[name]; ok { target := reflect.New(reflect.TypeOf(typ)).Elem().Interface() err = Transform(val, &target) if err != nil { return nil, err } extras[name] = target } } if len(extras) > 0 { dict[consts.Extensions] = extras } return dict, nil }" ∧
    CV.Gen.SecretsOpts.processExtensions_calls = ["loader/loader.go:modelToProject:processExtensions(dict, tree.NewPath(), opts.KnownExtensions)", "loader/loader.go:processExtensions:processExtensions(m, p.Next(strconv.Itoa(i)), extensions)", "loader/loader.go:processExtensions:processExtensions(v, p.Next(key), extensions)"] ∧
    CV.Gen.SecretsOpts.knownExtensions_uses = ["cli/options.go:WithExtension:options.KnownExtensions", "cli/options.go:WithExtension:options.KnownExtensions", "cli/options.go:WithExtension:options.KnownExtensions", "loader/loader.go:Options.clone:field:o.KnownExtensions", "loader/loader.go:Options.clone:o.KnownExtensions", "loader/loader.go:modelToProject:opts.KnownExtensions"] ∧
    CV.Gen.SecretsOpts.skipNormalization_uses = ["loader/extends.go:getExtendsBaseFromFile:extendsOpts.SkipNormalization", "loader/include.go:ApplyInclude:loadOptions.SkipNormalization", "loader/loader.go:Options.clone:o.SkipNormalization", "loader/loader.go:load:opts.SkipNormalization"] := by
  exact ⟨rfl, rfl, rfl, rfl⟩

/-- **every renderer is a modelled one**: the only text-producing methods (`Marshal{YAML,JSON,Text,Binary}`, `String`,
`GoString`, `Format`, `Error`, `GobEncode`) on `Project`, `SecretConfig`, `ConfigObjConfig`, `FileObjectConfig`,
`Secrets`, `Configs`, `Extensions` anywhere in package `types` are the six whose bodies `renderers_are_modelled` and
`project_renderers_are_modelled` pin.  A new renderer (a `String` method on a secret, say) breaks this theorem. -/
theorem every_renderer_is_modelled :
    CV.Gen.SecretsOpts.renderer_inventory = ["types/project.go:*Project.MarshalJSON", "types/project.go:*Project.MarshalYAML", "types/types.go:ConfigObjConfig.MarshalJSON", "types/types.go:ConfigObjConfig.MarshalYAML", "types/types.go:SecretConfig.MarshalJSON", "types/types.go:SecretConfig.MarshalYAML"] := rfl

/-! ## the default options are the default model -/

/-- with nothing registered and normalisation on, the load under options is `load` -/
theorem loadK_default_is_load (env : Env) (pname : String) (dict : KVs) : loadK {} env pname dict = load env pname dict := by
  have hsec : ∀ b, loadSectionK {} b env pname dict = loadSection b env pname dict := by
    intro b
    unfold loadSectionK loadSection
    cases lookup (if b = true then "secrets" else "configs") dict with
    | none => rfl
    | some v =>
      cases v with
      | map objs =>
        show (setNameObjs pname _).bind _ = (setNameObjs pname _).bind _
        congr 1
        funext objs2
        exact decodeObjsK_none _ _ _ objs2
      | _ => rfl
  simp only [loadK, load, hsec]

/-! ## taint confinement under options -/

/-- after `processExtensions` **with known extensions** the taint of a secret still sits only under `x-#value`
(directly or inside `#extensions`), whatever the caller registered and whatever its decoders do to untainted values -/
theorem taint_confined_processExtensions_known {P : String → Prop} (hx : P extKey) {g : Bool} {k : KnownExt}
    (hk : DecOk P k) (hs : CarrierSafe g k) (p : TPath) {kvs : KVs} (h : ObjOkF P xValue kvs)
    {v : Val} (hp : pxObjK g k p kvs = .ok v) : ∃ kvs', v = .map kvs' ∧ RawOk P xValue kvs' := by
  unfold pxObjK at hp
  cases he : decodeKnown g k (extrasOf (isUserDefined p) kvs) with
  | ok ex =>
    rw [he] at hp
    simp only [Out.bind] at hp
    cases hp
    exact ⟨_, rfl, RawOk_withExtras hx xValue_ne_extKey p _ h (ObjOkF_decodeKnown hk hs (ObjOkF_extrasOf h _) he)⟩
  | err e => rw [he] at hp; simp [Out.bind] at hp
  | panic s => rw [he] at hp; simp [Out.bind] at hp

/-- **taint_confined (secrets, every option)**: every secret loaded under any `KnownExtensions` (decoders inventing no
tainted string; the carrier key kept away from them) and with or without normalisation is untainted outside
`Content`, flag off -/
theorem taint_confined_secrets_opts {P : String → Prop} (hx : P extKey) (hxv : P xValue) (hn : P "name")
    (hemp : P "") (hnil : P "<nil>") (hcut : CutClosed P)
    {o : LoadOpts} (hk : DecOk P o.known) (hcs : CarrierSafe o.carrierGuard o.known)
    {env : Env} {pname : String} {dict : KVs} (hd : AllStrKV P dict) (hgen : GenNamesOk P pname "secrets" dict)
    {ss : List (String × FileObj)} (h : loadSectionK o true env pname dict = .ok ss) :
    ∀ e ∈ ss, P e.1 ∧ e.2.CleanBut P ∧ e.2.marshallContent = false := by
  unfold loadSectionK at h
  simp only [if_true] at h
  split at h
  · cases h; simp
  · rename_i objs hl
    have hobjs : AllStrKV P objs := by simpa [AllStr] using AllStrKV_lookup hd hl
    have hg := hgen objs hl
    have h0 : ∀ e ∈ objs, (fun n v => P n ∧ P (pname ++ "_" ++ n) ∧ AllStr P v) e.1 e.2 := fun e he =>
      ⟨(AllStrKV_forall hobjs e he).1, hg e he, (AllStrKV_forall hobjs e he).2⟩
    have h1 := forall_resolveObjs (Q0 := fun n v => P n ∧ P (pname ++ "_" ++ n) ∧ AllStr P v)
      (Q1 := fun n v => P n ∧ P (pname ++ "_" ++ n) ∧ ValOkF P xValue v) xValue env
      (fun n v hq => ⟨hq.1, hq.2.1, ValOkF_resolveObj hxv env hq.2.2⟩) h0
    cases hs : normObjs o.skipNormalization pname (resolveObjs xValue env objs) with
    | ok objs2 =>
      rw [hs] at h
      simp only [Out.bind] at h
      have h2 : ∀ e ∈ objs2, (fun n v => P n ∧ ValOkF P xValue v) e.1 e.2 := by
        unfold normObjs at hs
        split at hs
        · cases hs
          exact fun e he => ⟨(h1 e he).1, (h1 e he).2.2⟩
        · have := forall_setNameObjs (Q1 := fun n v => P n ∧ P (pname ++ "_" ++ n) ∧ ValOkF P xValue v)
            (Q2 := fun n v => P n ∧ ValOkF P xValue v) pname
            (fun n v v' hq hv => by
              obtain ⟨kvs, rfl, hk'⟩ := setNameObj_ok hv
              refine ⟨hq.1, ?_⟩
              simp only [ValOkF]
              rcases hk' with rfl | ⟨rfl, rfl⟩
              · exact ObjOkF_setNameKVs (by decide) hn hq.1 hq.2.1 hq.2.2
              · exact ObjOkF_setNameKVs (by decide) hn hq.1 hq.2.1 (by simp [ObjOkF])) hs h1
          exact this
      exact forall_decodeObjsK (Q2 := fun n v => P n ∧ ValOkF P xValue v)
        (Q3 := fun n o => P n ∧ o.CleanBut P ∧ o.marshallContent = false) _ _ decodeSecret ["secrets"]
        (fun n v o' hq ho => ⟨hq.1, secret_entry_cleanK hx hemp hnil hcut hk hcs hq.2 ho⟩) h h2
    | err e => rw [hs] at h; simp [Out.bind] at h
    | panic s => rw [hs] at h; simp [Out.bind] at h
  · cases h

/-- **taint_confined (configs, every option)** -/
theorem taint_confined_configs_opts {P : String → Prop} (hx : P extKey) (hct : P "content") (hn : P "name")
    (hemp : P "") (hnil : P "<nil>") (hcut : CutClosed P)
    {o : LoadOpts} (hk : DecOk P o.known)
    {env : Env} {pname : String} {dict : KVs} (hd : AllStrKV P dict) (hgen : GenNamesOk P pname "configs" dict)
    {cs : List (String × FileObj)} (h : loadSectionK o false env pname dict = .ok cs) :
    ∀ e ∈ cs, P e.1 ∧ e.2.CleanBut P ∧ (e.2.environment ≠ "" ∨ OptP P e.2.content) := by
  unfold loadSectionK at h
  simp only [Bool.false_eq_true, if_false] at h
  split at h
  · cases h; simp
  · rename_i objs hl
    have hobjs : AllStrKV P objs := by simpa [AllStr] using AllStrKV_lookup hd hl
    have hg := hgen objs hl
    have h0 : ∀ e ∈ objs, (fun n v => P n ∧ P (pname ++ "_" ++ n) ∧ AllStr P v) e.1 e.2 := fun e he =>
      ⟨(AllStrKV_forall hobjs e he).1, hg e he, (AllStrKV_forall hobjs e he).2⟩
    have h1 := forall_resolveObjs
      (Q0 := fun n v => P n ∧ P (pname ++ "_" ++ n) ∧ AllStr P v)
      (Q1 := fun n v => P n ∧ P (pname ++ "_" ++ n) ∧ ValOkF P "content" v ∧ ∀ kvs, v = .map kvs → CfgLink P kvs) "content" env
      (fun n v hq => by
        refine ⟨hq.1, hq.2.1, ValOkF_resolveObj hct env hq.2.2, ?_⟩
        intro kvs' hk'
        cases v with
        | map kvs =>
          exact CfgLink_resolveObj env (by simpa [AllStr] using hq.2.2) kvs' hk'
        | _ => simp [resolveObj] at hk') h0
    cases hs : normObjs o.skipNormalization pname (resolveObjs "content" env objs) with
    | ok objs2 =>
      rw [hs] at h
      simp only [Out.bind] at h
      have h2 : ∀ e ∈ objs2, (fun n v => P n ∧ ValOkF P "content" v ∧ ∀ kvs, v = .map kvs → CfgLink P kvs) e.1 e.2 := by
        unfold normObjs at hs
        split at hs
        · cases hs
          exact fun e he => ⟨(h1 e he).1, (h1 e he).2.2⟩
        · have := forall_setNameObjs
            (Q1 := fun n v => P n ∧ P (pname ++ "_" ++ n) ∧ ValOkF P "content" v ∧ ∀ kvs, v = .map kvs → CfgLink P kvs)
            (Q2 := fun n v => P n ∧ ValOkF P "content" v ∧ ∀ kvs, v = .map kvs → CfgLink P kvs) pname
            (fun n v v' hq hv => by
              obtain ⟨kvs, rfl, hk'⟩ := setNameObj_ok hv
              refine ⟨hq.1, ?_, ?_⟩
              · simp only [ValOkF]
                rcases hk' with rfl | ⟨rfl, rfl⟩
                · exact ObjOkF_setNameKVs (by decide) hn hq.1 hq.2.1 hq.2.2.1
                · exact ObjOkF_setNameKVs (by decide) hn hq.1 hq.2.1 (by simp [ObjOkF])
              · intro kvs2 he2
                cases he2
                rcases hk' with rfl | ⟨rfl, rfl⟩
                · exact CfgLink_setNameKVs (hq.2.2.2 kvs rfl)
                · exact CfgLink_setNameKVs (.inl (by simp [Val.lookup]))) hs h1
          exact this
      exact forall_decodeObjsK (Q2 := fun n v => P n ∧ ValOkF P "content" v ∧ ∀ kvs, v = .map kvs → CfgLink P kvs)
        (Q3 := fun n o => P n ∧ o.CleanBut P ∧ (o.environment ≠ "" ∨ OptP P o.content)) _ _ decodeConfig ["configs"]
        (fun n v o' hq ho => ⟨hq.1, config_entry_cleanK hx hemp hnil hcut hk hq.2.1 hq.2.2 ho⟩) h h2
    | err e => rw [hs] at h; simp [Out.bind] at h
    | panic s => rw [hs] at h; simp [Out.bind] at h
  · cases h

/-! ## the default rendering under options -/

/-- **render_default_clean (every option)** — the non-leak theorem for the load under options: for every model,
environment, set of registered extension names, decoders inventing no tainted string, normalisation on or off, and
both renderers, the default rendering of the secrets and configs sections is untainted -/
theorem render_default_clean_opts {P : String → Prop} (hv : VocabOk P)
    {o : LoadOpts} (hk : DecOk P o.known) (hcs : CarrierSafe o.carrierGuard o.known)
    {env : Env} {pname : String} {dict : KVs} (hd : AllStrKV P dict)
    (hgs : GenNamesOk P pname "secrets" dict) (hgc : GenNamesOk P pname "configs" dict)
    {p : Proj} (h : loadK o env pname dict = .ok p) (r : Renderer) :
    AllStr P (render r false p) := by
  unfold loadK at h
  cases hs : loadSectionK o true env pname dict with
  | ok ss =>
    rw [hs] at h
    simp only [Out.bind] at h
    cases hc : loadSectionK o false env pname dict with
    | ok cs =>
      rw [hc] at h
      simp only [Out.bind] at h
      cases h
      have hsec := taint_confined_secrets_opts (hv.carriers _ (by decide)) (hv.carriers _ (by decide)) (hv.carriers _ (by decide))
        (hv.vocab _ (by decide)) (hv.vocab _ (by decide)) hv.cut hk hcs hd hgs hs
      have hcfg := taint_confined_configs_opts (hv.carriers _ (by decide)) (hv.carriers _ (by decide)) (hv.carriers _ (by decide))
        (hv.vocab _ (by decide)) (hv.vocab _ (by decide)) hv.cut hk hd hgc hc
      simp only [render, applyOpts, Bool.false_eq_true, if_false, AllStr]
      refine AllStrKV_append (AllStrKV_sectionKV (hv.vocab _ (by decide)) ?_) (AllStrKV_sectionKV (hv.vocab _ (by decide)) ?_)
      · exact AllStrKV_mapVals fun e he => ⟨(hsec e he).1, AllStr_renderSecret hv.vocab (hsec e he).2.1 (hsec e he).2.2 r⟩
      · exact AllStrKV_mapVals fun e he => ⟨(hcfg e he).1, AllStr_renderConfig hv.vocab (hcfg e he).2.1 (hcfg e he).2.2 r⟩
    | err e => rw [hc] at h; simp [Out.bind] at h
    | panic s => rw [hc] at h; simp [Out.bind] at h
  | err e => rw [hs] at h; simp [Out.bind] at h
  | panic s => rw [hs] at h; simp [Out.bind] at h

/-- the property's wording under options: with the code as it is (`carrierGuard = true`, the default) a canary absent
from the model, the vocabulary, the generated names — and from what the caller's decoders make of canary-free values —
is absent from the default rendering, **whatever the caller registers, the carrier key included** -/
theorem canary_absent_from_default_rendering_opts (c : List Char)
    (hv : VocabOk (fun s => ¬ occurs c s)) (k : KnownExt) (skipNorm : Bool)
    (hk : DecOk (fun s => ¬ occurs c s) k)
    {env : Env} {pname : String} {dict : KVs} (hd : Clean c (.map dict))
    (hgs : GenNamesOk (fun s => ¬ occurs c s) pname "secrets" dict)
    (hgc : GenNamesOk (fun s => ¬ occurs c s) pname "configs" dict)
    {p : Proj} (h : loadK { known := k, skipNormalization := skipNorm } env pname dict = .ok p) (r : Renderer) :
    Clean c (render r false p) :=
  render_default_clean_opts hv hk (.inl rfl) (by simpa [Clean, AllStr] using hd) hgs hgc h r

/-- before the `fix:` (no test of the carrier key in `processExtensions`) the statement was false: a caller registering
a Go type for `x-#value` makes the hook's type assertion miss the carrier, and the value is rendered inline by the
YAML renderer — witness in `Neg/C20Opts.lean`, replayed on the real code by `corpus/C20/known-extension-carrier-key.json` -/
theorem canary_absent_under_options_was_false_before_fix :
    ¬ (∀ (c : List Char), VocabOk (fun s => ¬ occurs c s) → ∀ (k : KnownExt), DecOk (fun s => ¬ occurs c s) k →
        ∀ (env : Env) (pname : String) (dict : KVs), Clean c (.map dict) →
          GenNamesOk (fun s => ¬ occurs c s) pname "secrets" dict → GenNamesOk (fun s => ¬ occurs c s) pname "configs" dict →
          ∀ (p : Proj), loadK { known := k, carrierGuard := false } env pname dict = .ok p → ∀ r, Clean c (render r false p)) :=
  NegOpts.unguarded_carrier_leaks

/-! ## non-vacuity -/

namespace ExampleOpts
/-- a caller registering `x-note` (decoded to itself), `x-magic` (unused) and the carrier key (a type that turns the
text of a number into a number) -/
def known : KnownExt := { names := ["x-note", "x-magic", xValue], dec := NegOpts.numDec }
def dict : KVs := [("secrets", .map [("tok", .map [("environment", .str "TOKEN"), ("x-note", .str "n")])]),
  ("configs", .map [("cfg", .map [("environment", .str "CVAR")])])]
def env : Env := [("TOKEN", "12345678"), ("CVAR", "12345678")]
def proj : Proj := { secrets := [("tok", { name := "p_tok", environment := "TOKEN", content := "12345678", extensions := [("x-note", .str "n")] })], configs := [("cfg", { name := "p_cfg", environment := "CVAR", content := "12345678" })] }
example : loadK { known := known } env "p" dict = .ok proj := by rfl
example : loadK { known := known, skipNormalization := true } env "p" dict =
    .ok { secrets := [("tok", { environment := "TOKEN", content := "12345678", extensions := [("x-note", .str "n")] })],
          configs := [("cfg", { environment := "CVAR", content := "12345678" })] } := by rfl
example : DecOk (fun s => ¬ occurs NegOpts.canary s) known := NegOpts.numDec_ok
example : Clean NegOpts.canary (render .yaml false proj) ∧ Clean NegOpts.canary (render .json false proj) := by decide
example : ¬ Clean NegOpts.canary (render .yaml true proj) := by decide
end ExampleOpts

end CV.Secrets
