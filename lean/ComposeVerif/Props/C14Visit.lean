import ComposeVerif.Lemmas.HeapVisit
import ComposeVerif.Props.C14Deriv
import ComposeVerif.Gen.C14Progs
/-!
# C14 — visiting services: `ForEachService` / `withServices` on the heap model

`Model/HeapVisit.lean` is the recursion of `withServices` with its heap effects: the stores into `seen` and into the map
of `dependentsForService`, the local `dependencies` that *is* the receiver's `DependsOn` map under the default policy, and
`service.deepCopy()` for the visitor.  The walk reads the receiver itself — there is no project-level copy — so the
clauses of the property are proved from an invariant of the walk (`Lemmas/HeapVisit.lean: VInv`, induction over the fuel
for every name list, policy, `dependencies` value and state), not from "receiver free".
-/
namespace CV.Heap.Visit
open CV.Heap CV.Heap.Deriv CV.Gen.CopyPlan

/-- **visiting services leaves the receiver as it was and hands out isolated deep copies** — for every deep covering
copy plan, every project (well typed or not), every policy, every name list and allocation state:
* every heap write of the walk goes through memory allocated since the call, so the receiver — and every project that
  existed before the call — is unchanged by them;
* every service handed to the visitor shares no address with the receiver, lies in the freshly allocated range, has the
  service type and is deep-equal to the receiver's service of that name ("carries every field");
* a write through any address of a handed-out service leaves the receiver as it was, and vice versa;
* the services handed out are pairwise isolated. -/
theorem forEachService_sound (t : Ty) (plan : Plan) (hd : deep t plan = true) (hc : covers t plan = true)
    (p : GoVal) (policy : String) (names : List String) (n : Nat) (hb : Below n p) :
    let st := forEachService t plan p policy false names n
    (∀ u, Below n u → writes st.log u = u) ∧
    (∀ e ∈ st.out, Isolated e.2 p ∧ Within n st.next (addrs e.2) ∧ hasTy t e.2 = true ∧
        (∃ s a, kidOf (.str e.1) (kidsOf (getFld fServices p)) = some s ∧ DeepEq e.2 (.ptr a s)) ∧
        (∀ a ∈ addrs e.2, ∀ c, write a c p = p) ∧ (∀ a ∈ addrs p, ∀ c, write a c e.2 = e.2)) ∧
    List.Pairwise (fun a b : String × GoVal => Isolated a.2 b.2) st.out := by
  have h0 : VInv t n n p { next := n + 2 } :=
    ⟨⟨Nat.le_refl n, (by show n < n + 2; omega)⟩, (by intro w hw; cases hw), (by intro e he; cases he), List.Pairwise.nil⟩
  have h : VInv t n n p (forEachService t plan p policy false names n) :=
    walk_inv (t := t) (plan := plan) (n := n) (seenA := n) (p := p) policy hd hc _ _ _ _ h0
  refine ⟨?_, ?_, h.pw⟩
  · intro u hu
    apply writes_not_mem
    intro w hw hmem
    have := (h.log w hw).1
    have := hu _ hmem
    omega
  · intro e he
    obtain ⟨h1, h2, h3⟩ := h.out e he
    have hiso : Isolated e.2 p := by
      intro a ha hap
      have := (h1 a ha).1
      have := hb a hap
      omega
    refine ⟨hiso, ⟨(by have := h.lo; omega), h1⟩, h2, h3, ?_, ?_⟩
    · intro a ha c
      exact write_not_mem p a c (hiso a ha)
    · intro a ha c
      exact write_not_mem e.2 a c (fun h' => hiso a h' ha)

/-- the frontier only grows -/
theorem forEachService_next_ge (t : Ty) (plan : Plan) (hd : deep t plan = true) (hc : covers t plan = true)
    (p : GoVal) (policy : String) (names : List String) (n : Nat) :
    n ≤ (forEachService t plan p policy false names n).next := by
  have h0 : VInv t n n p { next := n + 2 } :=
    ⟨⟨Nat.le_refl n, (by show n < n + 2; omega)⟩, (by intro w hw; cases hw), (by intro e he; cases he), List.Pairwise.nil⟩
  have h : VInv t n n p (forEachService t plan p policy false names n) :=
    walk_inv (t := t) (plan := plan) (n := n) (seenA := n) (p := p) policy hd hc _ _ _ _ h0
  have := h.lo
  omega

/-- type and resolved plan of `ServiceConfig.deepCopy()` (the second root of the regenerated copy plan) -/
def svcTy : Ty := match roots with | _ :: r :: _ => rootTy r | _ => .unknown "no root"
def svcPlan : Plan := match roots with | _ :: r :: _ => rootPlan r | _ => .unknown "no root"

theorem svcPlan_deep : deep svcTy svcPlan = true ∧ covers svcTy svcPlan = true := by decide +kernel

/-- `forEachService_sound` for the `ServiceConfig.deepCopy` that is in the tree now -/
theorem forEachService_tree (p : GoVal) (policy : String) (names : List String) (n : Nat) (hb : Below n p) :
    let st := forEachService svcTy svcPlan p policy false names n
    (∀ u, Below n u → writes st.log u = u) ∧
    (∀ e ∈ st.out, Isolated e.2 p ∧ hasTy svcTy e.2 = true ∧
        ∃ s a, kidOf (.str e.1) (kidsOf (getFld fServices p)) = some s ∧ DeepEq e.2 (.ptr a s)) ∧
    List.Pairwise (fun a b : String × GoVal => Isolated a.2 b.2) st.out :=
  have h := forEachService_sound svcTy svcPlan svcPlan_deep.1 svcPlan_deep.2 p policy names n hb
  ⟨h.1, fun e he => ⟨(h.2.1 e he).1, (h.2.1 e he).2.2.1, (h.2.1 e he).2.2.2.1⟩, h.2.2⟩

/-- the functions the walk is written against — `ForEachService`, `withServices`, `getServicesByNames`,
`dependentsForService`, `ServiceConfig.deepCopy`, `utils.MapsAppend` (returns its *source* when the target is nil: that is
why `dependencies` is the receiver's map), `utils.MapKeys` — still have, comments and `verifYield` lines removed, exactly
this source text (regenerated by `translator/c14prog.go`; seed C14-5 adds a statement to `withServices`, seed C14-4 changes
`ServiceConfig.deepCopy`) -/
theorem visit_sources_unchanged : CV.Gen.C14Progs.visitSources = [
  ("ForEachService", "func (p *Project) ForEachService(names []string, fn ServiceFunc, options ...DependencyOption) error { if len(options) == 0 { options = []DependencyOption{IncludeDependencies} } return p.withServices(names, fn, map[string]bool{}, options, map[string]ServiceDependency{}) }"),
  ("withServices", "func (p *Project) withServices(names []string, fn ServiceFunc, seen map[string]bool, options []DependencyOption, dependencies map[string]ServiceDependency) error { services, servicesNotFound := p.getServicesByNames(names...) if len(servicesNotFound) > 0 { for _, serviceNotFound := range servicesNotFound { if dependency, ok := dependencies[serviceNotFound]; !ok || dependency.Required { return fmt.Errorf(\"no such service: %s\", serviceNotFound) } } } opts := withServicesOptions{ dependencyPolicy: includeDependencies, } for _, option := range options { option(&opts) } for name, service := range services { if seen[name] { continue } seen[name] = true var dependencies map[string]ServiceDependency switch opts.dependencyPolicy { case includeDependents: dependencies = utils.MapsAppend(dependencies, p.dependentsForService(service)) case includeDependencies: dependencies = utils.MapsAppend(dependencies, service.DependsOn) case ignoreDependencies: } if len(dependencies) > 0 { err := p.withServices(utils.MapKeys(dependencies), fn, seen, options, dependencies) if err != nil { return err } } if err := fn(name, service.deepCopy()); err != nil { return err } } return nil }"),
  ("getServicesByNames", "func (p *Project) getServicesByNames(names ...string) (Services, []string) { if len(names) == 0 { return p.Services, nil } services := Services{} var servicesNotFound []string for _, name := range names { service, ok := p.Services[name] if !ok { servicesNotFound = append(servicesNotFound, name) continue } services[name] = service } return services, servicesNotFound }"),
  ("dependentsForService", "func (p *Project) dependentsForService(s ServiceConfig) map[string]ServiceDependency { dependent := make(map[string]ServiceDependency) for _, service := range p.Services { for name, dependency := range service.DependsOn { if name == s.Name { dependent[service.Name] = dependency } } } return dependent }"),
  ("ServiceConfig.deepCopy", "func (s *ServiceConfig) deepCopy() *ServiceConfig { if s == nil { return nil } n := &ServiceConfig{} deriveDeepCopyService(n, s) return n }"),
  ("utils.MapsAppend", "func MapsAppend[T comparable, U any](target map[T]U, source map[T]U) map[T]U { if target == nil { return source } if source == nil { return target } for key, value := range source { if _, ok := target[key]; !ok { target[key] = value } } return target }"),
  ("utils.MapKeys", "func MapKeys[T constraints.Ordered, U any](theMap map[T]U) []T { result := maps.Keys(theMap) slices.Sort(result) return result }")] := rfl

/-! ## histories that mix derivations and visits -/

/-- one operation of a history: a derivation program with its pure arguments, or a visit -/
inductive Step where
  | prog (pg : List Stmt) (args : List (String × PData))
  | visit (policy : String) (names : List String)

/-- run a history: a derivation continues from its result, a visit from the project it visited; the list holds every value
the history produces — the derived projects and the services handed to visitors — in order -/
def runMixed (t : Ty) (plan : Plan) (ts : Ty) (sp : Plan) : List Step → GoVal → Nat → List GoVal
  | [], _, _ => []
  | .prog pg args :: r, v, n =>
    let st := runProg t plan pg v args n
    getVar "result" st.vars :: runMixed t plan ts sp r (getVar "result" st.vars) st.next
  | .visit policy names :: r, v, n =>
    let st := forEachService ts sp v policy false names n
    st.out.map (·.2) ++ runMixed t plan ts sp r v st.next

def Step.rf : Step → Bool
  | .prog pg _ => rfL pg
  | .visit _ _ => true

theorem runMixed_layers (t : Ty) (plan : Plan) (ts : Ty) (sp : Plan) (hd : deep t plan = true)
    (hds : deep ts sp = true) (hcs : covers ts sp = true) :
    ∀ (h : List Step) (v : GoVal) (n : Nat), (∀ e ∈ h, e.rf = true) → Below n v →
      List.Pairwise Isolated (runMixed t plan ts sp h v n) ∧ ∀ w ∈ runMixed t plan ts sp h v n, ∀ a ∈ addrs w, n ≤ a
  | [], _, _, _, _ => ⟨List.Pairwise.nil, by intro w hw; cases hw⟩
  | .prog pg args :: r, v, n, hrf, hb => by
    have hc := prog_confined t plan pg v args n (hrf _ (List.mem_cons_self ..)) hd hb
    have hw := hc.2.2.2 "result" (by decide)
    have ih := runMixed_layers t plan ts sp hd hds hcs r (getVar "result" (runProg t plan pg v args n).vars)
      (runProg t plan pg v args n).next (fun e he => hrf e (List.mem_cons_of_mem _ he)) (fun a ha => (hw.2 a ha).2)
    simp only [runMixed]
    refine ⟨List.pairwise_cons.mpr ⟨?_, ih.1⟩, ?_⟩
    · intro w hmem a ha haw
      have := (hw.2 a ha).2
      have := ih.2 w hmem a haw
      omega
    · intro w hmem a ha
      rcases List.mem_cons.mp hmem with rfl | hm
      · exact (hw.2 a ha).1
      · have := ih.2 w hm a ha; have := hw.1; omega
  | .visit policy names :: r, v, n, hrf, hb => by
    have hs := forEachService_sound ts sp hds hcs v policy names n hb
    have hle : n ≤ (forEachService ts sp v policy false names n).next := by
      cases hout : (forEachService ts sp v policy false names n).out with
      | nil => exact (forEachService_next_ge ts sp hds hcs v policy names n)
      | cons e _ => exact ((hs.2.1 e (by rw [hout]; exact List.mem_cons_self ..)).2.1).1
    have ih := runMixed_layers t plan ts sp hd hds hcs r v (forEachService ts sp v policy false names n).next
      (fun e he => hrf e (List.mem_cons_of_mem _ he)) (fun a ha => by have := hb a ha; omega)
    simp only [runMixed]
    refine ⟨List.pairwise_append.mpr ⟨?_, ih.1, ?_⟩, ?_⟩
    · exact List.pairwise_map.mpr hs.2.2
    · intro x hx y hy a ha hay
      obtain ⟨e, he, rfl⟩ := List.mem_map.mp hx
      have := (((hs.2.1 e he).2.1).2 a ha).2
      have := ih.2 y hy a hay
      omega
    · intro w hmem a ha
      rcases List.mem_append.mp hmem with hx | hm
      · obtain ⟨e, he, rfl⟩ := List.mem_map.mp hx
        exact (((hs.2.1 e he).2.1).2 a ha).1
      · have := ih.2 w hm a ha; omega

/-- **histories of derivations and visits** (any length, any receiver-free programs, any policies, names and arguments):
the original project, every derived project and every service handed to a visitor are pairwise isolated -/
theorem mixed_history_isolated (t : Ty) (plan : Plan) (ts : Ty) (sp : Plan) (hd : deep t plan = true)
    (hds : deep ts sp = true) (hcs : covers ts sp = true)
    (h : List Step) (v : GoVal) (n : Nat) (hrf : ∀ e ∈ h, e.rf = true) (hb : Below n v) :
    List.Pairwise Isolated (v :: runMixed t plan ts sp h v n) := by
  have hl := runMixed_layers t plan ts sp hd hds hcs h v n hrf hb
  refine List.pairwise_cons.mpr ⟨?_, hl.1⟩
  intro w hw a ha haw
  have := hb a ha
  have := hl.2 w hw a haw
  omega

/-- … with the copy plans and the nine derivation programs that are in the tree now -/
theorem mixed_history_tree (h : List Step) (v : GoVal) (n : Nat) (hb : Below n v)
    (hp : ∀ e ∈ h, match e with | .prog pg _ => pg ∈ Deriv.programs.map (·.2) | .visit _ _ => True) :
    List.Pairwise Isolated (v :: runMixed projTy projPlan svcTy svcPlan h v n) := by
  apply mixed_history_isolated projTy projPlan svcTy svcPlan projPlan_deep.1 svcPlan_deep.1 svcPlan_deep.2 h v n _ hb
  intro e he
  have := hp e he
  cases e with
  | visit _ _ => rfl
  | prog pg args =>
    simp only [Step.rf]
    obtain ⟨pr, hpr, rfl⟩ := List.mem_map.mp this
    exact derivations_receiver_free pr hpr

/-! ## non-vacuity -/

/-- `web` depends (optionally) on `db`, which is not enabled; `api` depends on `web` -/
def exSvcTy : Ty := .ptr (.struct [(fName, .scalar), (fDependsOn, .map (.struct [(fRequired, .scalar)]))])
def exSvcPlan : Plan := .newPtr (.fields [(fName, .assign), (fDependsOn, .newMap (.fields [(fRequired, .assign)]))])
def exVisitProj : GoVal := .ptr 1 (.struct [(.fld fServices, .map 2 [
  (.str "api", .struct [(.fld fName, .scalar "s:api"), (.fld fDependsOn, .map 3 [(.str "web", .struct [(.fld fRequired, .scalar "b:true")])])]),
  (.str "web", .struct [(.fld fName, .scalar "s:web"), (.fld fDependsOn, .map 4 [(.str "db", .struct [(.fld fRequired, .scalar "b:false")])])])])])

/-- the walk really runs: `api` with dependencies visits `web` first, both copies are new memory, only `seen` is written;
with `IncludeDependents` from `web` the `dependent` map is written as well -/
example : deep exSvcTy exSvcPlan = true ∧ covers exSvcTy exSvcPlan = true ∧
    (forEachService exSvcTy exSvcPlan exVisitProj "deps" false ["api"] 5).err = none ∧
    (forEachService exSvcTy exSvcPlan exVisitProj "deps" false ["api"] 5).out.map (·.1) = ["web", "api"] ∧
    (forEachService exSvcTy exSvcPlan exVisitProj "deps" false ["api"] 5).out.map (fun e => addrs e.2) = [[8, 9], [11, 12]] ∧
    (forEachService exSvcTy exSvcPlan exVisitProj "deps" false ["api"] 5).log.map (·.1) = [5, 5] ∧
    (forEachService exSvcTy exSvcPlan exVisitProj "dependents" false ["web"] 5).out.map (·.1) = ["api", "web"] ∧
    (forEachService exSvcTy exSvcPlan exVisitProj "dependents" false ["web"] 5).log.map (·.1) = [5, 7, 5] := by
  decide +kernel

/-- a history mixing visits and a derivation really runs on the project of `Props/C14Deriv.lean`: visit everything (one copy,
cells 9–10), prune the unused resources (a project in cells 11–19), visit `web` of the result (cells 23–24) -/
def exSvcTy2 : Ty := .ptr (.struct [(fNetworks, .map (.ptr .scalar))])
def exSvcPlan2 : Plan := .newPtr (.fields [(fNetworks, .newMap (.newPtr .assign))])
def exHist : List Step := [.visit "deps" [], .prog withoutUnnecessaryResources [], .visit "ignore" ["web"]]
example : (∀ e ∈ exHist, e.rf = true) ∧ deep exSvcTy2 exSvcPlan2 = true ∧ covers exSvcTy2 exSvcPlan2 = true ∧
    (runMixed exTy2 exPlan2 exSvcTy2 exSvcPlan2 exHist exProj 6).map addrs =
      [[9, 10], [11, 16, 13, 14, 15, 17, 18, 19], [23, 24]] := by decide +kernel

end CV.Heap.Visit
