import ComposeVerif.Lemmas.HeapVisit
import ComposeVerif.Props.C14
/-!
# C14 — visiting services: `ForEachService` / `withServices` on the heap model

`Model/HeapVisit.lean` is the recursion of `withServices` with its heap effects: the stores into `seen` and into the map
of `dependentsForService`, the local `dependencies` that *is* the receiver's `DependsOn` map under the default policy, and
`service.deepCopy()` for the visitor.  The walk reads the receiver itself — there is no project-level copy — so the
clauses of the property are proved from an invariant of the walk (`Lemmas/HeapVisit.lean: VInv`, induction over the fuel
for every name list, policy, `dependencies` value and state), not from "receiver free".
-/
namespace CV.Heap.Visit
open CV.Heap CV.Heap.Deriv CV.Gen.CopyPlan

/-- **visiting services leaves the receiver as it was and hands out isolated deep copies** — for every deep covering
copy plan, every project (well typed or not), every policy, every name list and allocation state:
* every heap write of the walk goes through memory allocated since the call, so the receiver — and every project that
  existed before the call — is unchanged by them;
* every service handed to the visitor shares no address with the receiver, lies in the freshly allocated range, has the
  service type and is deep-equal to the receiver's service of that name ("carries every field");
* a write through any address of a handed-out service leaves the receiver as it was, and vice versa;
* the services handed out are pairwise isolated. -/
theorem forEachService_sound (t : Ty) (plan : Plan) (hd : deep t plan = true) (hc : covers t plan = true)
    (p : GoVal) (policy : String) (names : List String) (n : Nat) (hb : Below n p) :
    let st := forEachService t plan p policy false names n
    (∀ u, Below n u → writes st.log u = u) ∧
    (∀ e ∈ st.out, Isolated e.2 p ∧ Within n st.next (addrs e.2) ∧ hasTy t e.2 = true ∧
        (∃ s a, kidOf (.str e.1) (kidsOf (getFld fServices p)) = some s ∧ DeepEq e.2 (.ptr a s)) ∧
        (∀ a ∈ addrs e.2, ∀ c, write a c p = p) ∧ (∀ a ∈ addrs p, ∀ c, write a c e.2 = e.2)) ∧
    List.Pairwise (fun a b : String × GoVal => Isolated a.2 b.2) st.out := by
  have h0 : VInv t n n p { next := n + 2 } :=
    ⟨⟨Nat.le_refl n, (by show n < n + 2; omega)⟩, (by intro w hw; cases hw), (by intro e he; cases he), List.Pairwise.nil⟩
  have h : VInv t n n p (forEachService t plan p policy false names n) :=
    walk_inv (t := t) (plan := plan) (n := n) (seenA := n) (p := p) policy hd hc _ _ _ _ h0
  refine ⟨?_, ?_, h.pw⟩
  · intro u hu
    apply writes_not_mem
    intro w hw hmem
    have := (h.log w hw).1
    have := hu _ hmem
    omega
  · intro e he
    obtain ⟨h1, h2, h3⟩ := h.out e he
    have hiso : Isolated e.2 p := by
      intro a ha hap
      have := (h1 a ha).1
      have := hb a hap
      omega
    refine ⟨hiso, ⟨(by have := h.lo; omega), h1⟩, h2, h3, ?_, ?_⟩
    · intro a ha c
      exact write_not_mem p a c (hiso a ha)
    · intro a ha c
      exact write_not_mem e.2 a c (fun h' => hiso a h' ha)

/-- type and resolved plan of `ServiceConfig.deepCopy()` (the second root of the regenerated copy plan) -/
def svcTy : Ty := match roots with | _ :: r :: _ => rootTy r | _ => .unknown "no root"
def svcPlan : Plan := match roots with | _ :: r :: _ => rootPlan r | _ => .unknown "no root"

theorem svcPlan_deep : deep svcTy svcPlan = true ∧ covers svcTy svcPlan = true := by decide +kernel

/-- `forEachService_sound` for the `ServiceConfig.deepCopy` that is in the tree now -/
theorem forEachService_tree (p : GoVal) (policy : String) (names : List String) (n : Nat) (hb : Below n p) :
    let st := forEachService svcTy svcPlan p policy false names n
    (∀ u, Below n u → writes st.log u = u) ∧
    (∀ e ∈ st.out, Isolated e.2 p ∧ hasTy svcTy e.2 = true ∧
        ∃ s a, kidOf (.str e.1) (kidsOf (getFld fServices p)) = some s ∧ DeepEq e.2 (.ptr a s)) ∧
    List.Pairwise (fun a b : String × GoVal => Isolated a.2 b.2) st.out :=
  have h := forEachService_sound svcTy svcPlan svcPlan_deep.1 svcPlan_deep.2 p policy names n hb
  ⟨h.1, fun e he => ⟨(h.2.1 e he).1, (h.2.1 e he).2.2.1, (h.2.1 e he).2.2.2.1⟩, h.2.2⟩

/-! ## non-vacuity -/

/-- `web` depends (optionally) on `db`, which is not enabled; `api` depends on `web` -/
def exSvcTy : Ty := .ptr (.struct [(fName, .scalar), (fDependsOn, .map (.struct [(fRequired, .scalar)]))])
def exSvcPlan : Plan := .newPtr (.fields [(fName, .assign), (fDependsOn, .newMap (.fields [(fRequired, .assign)]))])
def exVisitProj : GoVal := .ptr 1 (.struct [(.fld fServices, .map 2 [
  (.str "api", .struct [(.fld fName, .scalar "s:api"), (.fld fDependsOn, .map 3 [(.str "web", .struct [(.fld fRequired, .scalar "b:true")])])]),
  (.str "web", .struct [(.fld fName, .scalar "s:web"), (.fld fDependsOn, .map 4 [(.str "db", .struct [(.fld fRequired, .scalar "b:false")])])])])])

/-- the walk really runs: `api` with dependencies visits `web` first, both copies are new memory, only `seen` is written;
with `IncludeDependents` from `web` the `dependent` map is written as well -/
example : deep exSvcTy exSvcPlan = true ∧ covers exSvcTy exSvcPlan = true ∧
    (forEachService exSvcTy exSvcPlan exVisitProj "deps" false ["api"] 5).err = none ∧
    (forEachService exSvcTy exSvcPlan exVisitProj "deps" false ["api"] 5).out.map (·.1) = ["web", "api"] ∧
    (forEachService exSvcTy exSvcPlan exVisitProj "deps" false ["api"] 5).out.map (fun e => addrs e.2) = [[8, 9], [11, 12]] ∧
    (forEachService exSvcTy exSvcPlan exVisitProj "deps" false ["api"] 5).log.map (·.1) = [5, 5] ∧
    (forEachService exSvcTy exSvcPlan exVisitProj "dependents" false ["web"] 5).out.map (·.1) = ["api", "web"] ∧
    (forEachService exSvcTy exSvcPlan exVisitProj "dependents" false ["web"] 5).log.map (·.1) = [5, 7, 5] := by
  decide +kernel

end CV.Heap.Visit
