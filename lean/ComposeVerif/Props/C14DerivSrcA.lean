import ComposeVerif.Model.Derivations
import ComposeVerif.Gen.C14Progs
/-! C14 — `programs_are_source`, first half of the skeleton table (see `Props/C14DerivSrc.lean`) -/
namespace CV.Heap

/-- the statement skeletons rendered from the hand-written heap programs equal the ones regenerated from
`types/project.go` — the first five entries of the table -/
theorem programs_are_source_a : Deriv.skeletons.take 5 = CV.Gen.C14Progs.skeletons.take 5 := by decide +kernel

end CV.Heap
