import ComposeVerif.Gen.C16Source
import ComposeVerif.Gen.Dotenv
import ComposeVerif.Gen.Tables
/-!
# C16 — the modelled functions are the source (regenerated source facts)

`translator/c16.go` prints, on every run, the body (white space normalised) of every Go function that
`Model/EnvLayers.lean` and `Model/EnvLayersHeap.lean` mirror, every call site of the two Project methods and of the file
loaders outside tests (with the printed arguments: which option value reaches them), the statement of `Normalize` that
resolves `environment`, and the initial value of the env_file format registry.  The theorems below pin those texts:
**any edit to a modelled function breaks an obligation here**, whether or not a generated input tells the two versions
apart (e.g. hoisting the looked-up value of `MappingWithEquals.Resolve` out of its loop — every resolved key then
stores the address of one shared variable — or hoisting the accumulator of `WithServicesEnvironmentResolved` out of
the services loop).  After an intended change of the code the model is re-read against the new body and the pinned
text updated in the same commit.
-/
namespace CV.C16Src
open CV.Gen

/-- types/mapping.go: `OverrideBy` ↦ `overrideBy` (a `range` over the argument, `m[k] = v`), `Resolve` ↦ `resolveMWE` / `Heap.resolveH` (the looked-up value is declared **inside** the loop body: one fresh cell per key), `DecodeMapstructure` + `mappingValue` ↦ `decodeEnv`, `NewMappingWithEquals` ↦ `Item.pair`, `Mapping.ToMappingWithEquals` ↦ `toMWE` (`v := v`: one fresh cell per key), `Mapping.Resolve` ↦ `lookup · penv` -/
theorem mapping_go_is_modelled_source :

    c16_body_MWE_OverrideBy =
      "{ for k, v := range other { m[k] = v } return m }" ∧
    c16_body_MWE_Resolve =
      "{ for k, v := range m { if v == nil { if value, ok := lookupFn(k); ok { m[k] = &value } } } return m }" ∧
    c16_body_MWE_DecodeMapstructure =
      "{ switch v := value.(type) { case map[string]interface{}: mapping := make(MappingWithEquals, len(v)) for k, e := range v { mapping[k] = mappingValue(e) } *m = mapping case []interface{}: mapping := make(MappingWithEquals, len(v)) for _, s := range v { k, e, ok := strings.Cut(fmt.Sprint(s), \"=\") if !ok { mapping[k] = nil } else { mapping[k] = mappingValue(e) } } *m = mapping default: return fmt.Errorf(\"unexpected value type %T for mapping\", value) } return nil }" ∧
    c16_body_mappingValue =
      "{ if e == nil { return nil } switch v := e.(type) { case string: return &v default: s := fmt.Sprint(v) return &s } }" ∧
    c16_body_NewMappingWithEquals =
      "{ mapping := MappingWithEquals{} for _, env := range values { tokens := strings.SplitN(env, \"=\", 2) if len(tokens) > 1 { mapping[tokens[0]] = &tokens[1] } else { mapping[env] = nil } } return mapping }" ∧
    c16_body_Mapping_ToMappingWithEquals =
      "{ mapping := MappingWithEquals{} for k, v := range m { v := v mapping[k] = &v } return mapping }" ∧
    c16_body_Mapping_Resolve =
      "{ v, ok := m[s] return v, ok }" := by
  exact ⟨rfl, rfl, rfl, rfl, rfl, rfl, rfl⟩

/-- types/labels.go: `NewLabelsFromMappingWithEquals` ↦ `ofMWE`, `Labels.ToMappingWithEquals` ↦ `toMWE`, `Labels.DecodeMapstructure` + `labelValue` ↦ `decodeLabels` -/
theorem labels_go_is_modelled_source :

    c16_body_NewLabelsFromMappingWithEquals =
      "{ labels := Labels{} for k, v := range mapping { if v != nil { labels[k] = *v } } return labels }" ∧
    c16_body_Labels_ToMappingWithEquals =
      "{ mapping := MappingWithEquals{} for k, v := range l { v := v mapping[k] = &v } return mapping }" ∧
    c16_body_Labels_DecodeMapstructure =
      "{ switch v := value.(type) { case map[string]interface{}: labels := make(map[string]string, len(v)) for k, e := range v { labels[k] = labelValue(e) } *l = labels case []interface{}: labels := make(map[string]string, len(v)) for _, s := range v { k, e, _ := strings.Cut(fmt.Sprint(s), \"=\") labels[k] = labelValue(e) } *l = labels default: return fmt.Errorf(\"unexpected value type %T for labels\", value) } return nil }" ∧
    c16_body_labelValue =
      "{ if e == nil { return \"\" } switch v := e.(type) { case string: return v default: return fmt.Sprint(v) } }" := by
  exact ⟨rfl, rfl, rfl, rfl⟩

/-- types/project.go: the two Project methods ↦ `resolveServiceEnv` / `resolveServiceLabels` inside `mapServices` (accumulator and `resolve` closure declared **inside** the services loop; lookup order of the closure ↦ `envChain` / `labelChain`), `fileIsMissing` ↦ `Missing`, `loadEnvFile`, `loadLabelFile`, `loadMappingFile` ↦ the functions of the same name; and the only callers of the three loaders -/
theorem project_go_is_modelled_source :

    c16_body_WithServicesEnvironmentResolved =
      "{ newProject := p.deepCopy() for i, service := range newProject.Services { service.Environment = service.Environment.Resolve(newProject.Environment.Resolve) environment := MappingWithEquals{} // resolve variables based on other files we already parsed, + project's environment var resolve dotenv.LookupFn = func(s string) (string, bool) { v, ok := environment[s] if ok && v != nil { return *v, ok } return newProject.Environment.Resolve(s) } for _, envFile := range service.EnvFiles { vars, err := loadEnvFile(envFile, resolve) if err != nil { return nil, err } environment.OverrideBy(vars.ToMappingWithEquals()) } service.Environment = environment.OverrideBy(service.Environment) if discardEnvFiles { service.EnvFiles = nil } newProject.Services[i] = service } return newProject, nil }" ∧
    c16_body_WithServicesLabelsResolved =
      "{ newProject := p.deepCopy() for i, service := range newProject.Services { labels := MappingWithEquals{} // resolve variables based on other files we already parsed var resolve dotenv.LookupFn = func(s string) (string, bool) { v, ok := labels[s] if ok && v != nil { return *v, ok } return \"\", false } for _, labelFile := range service.LabelFiles { vars, err := loadLabelFile(labelFile, resolve) if err != nil { return nil, err } labels.OverrideBy(vars.ToMappingWithEquals()) } labels = labels.OverrideBy(service.Labels.ToMappingWithEquals()) if len(labels) == 0 { labels = nil } else { service.Labels = NewLabelsFromMappingWithEquals(labels) } if discardLabelFiles { service.LabelFiles = nil } newProject.Services[i] = service } return newProject, nil }" ∧
    c16_body_fileIsMissing =
      "{ return errors.Is(err, fs.ErrNotExist) || errors.Is(err, syscall.ENOTDIR) }" ∧
    c16_body_loadEnvFile =
      "{ if _, err := os.Stat(envFile.Path); fileIsMissing(err) { if envFile.Required { return nil, fmt.Errorf(\"env file %s not found: %w\", envFile.Path, err) } return nil, nil } return loadMappingFile(envFile.Path, envFile.Format, resolve) }" ∧
    c16_body_loadLabelFile =
      "{ if _, err := os.Stat(labelFile); fileIsMissing(err) { return nil, fmt.Errorf(\"label file %s not found: %w\", labelFile, err) } return loadMappingFile(labelFile, \"\", resolve) }" ∧
    c16_body_loadMappingFile =
      "{ file, err := os.Open(path) if err != nil { return nil, err } defer file.Close() var fileVars map[string]string if format != \"\" { fileVars, err = dotenv.ParseWithFormat(file, path, resolve, format) } else { fileVars, err = dotenv.ParseWithLookup(file, resolve) } if err != nil { return nil, err } return fileVars, nil }" ∧
    c16_calls_loadFile =
      ["types/project.go:WithServicesEnvironmentResolved:loadEnvFile(envFile, resolve)", "types/project.go:WithServicesLabelsResolved:loadLabelFile(labelFile, resolve)", "types/project.go:loadEnvFile:loadMappingFile(envFile.Path, envFile.Format, resolve)", "types/project.go:loadLabelFile:loadMappingFile(labelFile, \"\", resolve)"] := by
  exact ⟨rfl, rfl, rfl, rfl, rfl, rfl, rfl⟩

/-- every call of the two Project methods outside tests and the option value that reaches it: `modelToProject` ↦ `loadProject` (`cfg.discard` for both, environment first and only without `SkipResolveEnvironment`), `WithServicesEnabled` ↦ `withServicesEnabled` (constant `true`; nothing when no name is given); `WithDiscardEnvFiles` is the only writer of the option and `Options.clone` (include / extends) copies it -/
theorem call_sites_are_modelled :

    c16_calls_envResolved =
      ["loader/loader.go:modelToProject:project.WithServicesEnvironmentResolved(opts.discardEnvFiles)", "types/project.go:WithServicesEnabled:newProject.WithServicesEnvironmentResolved(true)"] ∧
    c16_calls_labelsResolved =
      ["loader/loader.go:modelToProject:project.WithServicesLabelsResolved(opts.discardEnvFiles)"] ∧
    c16_body_WithServicesEnabled =
      "{ newProject := p.deepCopy() if len(names) == 0 { return newProject, nil } profiles := append([]string{}, p.Profiles...) for _, name := range names { if _, ok := newProject.Services[name]; ok { continue } service := p.DisabledServices[name] profiles = append(profiles, service.Profiles...) } newProject, err := newProject.WithProfiles(profiles) if err != nil { return newProject, err } return newProject.WithServicesEnvironmentResolved(true) }" ∧
    c16_modelToProject_env =
      "if !opts.SkipResolveEnvironment { project, err = project.WithServicesEnvironmentResolved(opts.discardEnvFiles) if err != nil { return nil, err } }" ∧
    c16_modelToProject_calls =
      ["delete", "processExtensions", "tree.NewPath", "Transform", "convertVolumePath", "project.WithProfiles", "checkConsistency", "project.WithServicesEnvironmentResolved", "project.WithServicesLabelsResolved"] ∧
    c16_body_WithDiscardEnvFiles =
      "{ opts.discardEnvFiles = true }" ∧
    c16_calls_optionsClone =
      ["loader/extends.go:getExtendsBaseFromFile:opts.clone()", "loader/include.go:ApplyInclude:options.clone()"] := by
  exact ⟨rfl, rfl, rfl, rfl, rfl, rfl, rfl⟩

/-- loader/environment.go `resolveServicesEnvironment` ↦ `resolveSeqItem` / `resolveSeqEnv` (the whole element text is looked up), loader/normalize.go `resolve` ↦ `normalizeItem` / `normalizePair` / `normalizeEnv`, called with `keepEmpty = true` for `environment`; and the callers of the stage -/
theorem loader_env_stage_is_modelled_source :

    c16_body_ResolveEnvironment =
      "{ resolveServicesEnvironment(dict, environment) resolveSecretsEnvironment(dict, environment) resolveConfigsEnvironment(dict, environment) }" ∧
    c16_body_resolveServicesEnvironment =
      "{ services, ok := dict[\"services\"].(map[string]any) if !ok { return } for service, cfg := range services { serviceConfig, ok := cfg.(map[string]any) if !ok { continue } serviceEnv, ok := serviceConfig[\"environment\"].([]any) if !ok { continue } envs := []any{} for _, env := range serviceEnv { varEnv, ok := env.(string) if !ok { continue } if found, ok := environment[varEnv]; ok { envs = append(envs, fmt.Sprintf(\"%s=%s\", varEnv, found)) } else { envs = append(envs, varEnv) } } serviceConfig[\"environment\"] = envs services[service] = serviceConfig } dict[\"services\"] = services }" ∧
    c16_body_normalize_resolve =
      "{ switch v := a.(type) { case []any: var resolved []any for _, val := range v { if r, ok := resolve(val, fn, keepEmpty); ok { resolved = append(resolved, r) } } return resolved, true case map[string]any: resolved := map[string]any{} for key, val := range v { if val != nil { resolved[key] = val continue } if s, ok := fn(key); ok { resolved[key] = s } else if keepEmpty { resolved[key] = nil } } return resolved, true case string: if !strings.Contains(v, \"=\") { if val, ok := fn(v); ok { return fmt.Sprintf(\"%s=%s\", v, val), true } if keepEmpty { return v, true } return \"\", false } return v, true default: return v, false } }" ∧
    c16_normalize_environment =
      "if e, ok := service[\"environment\"]; ok { service[\"environment\"], _ = resolve(e, fn, true) }" ∧
    c16_calls_resolveEnvironment =
      ["loader/loader.go:loadYamlModel:ResolveEnvironment(dict, config.Environment)", "loader/environment.go:ResolveEnvironment:resolveServicesEnvironment(dict, environment)", "loader/loader.go:loadYamlModel:resolveServicesEnvironment(dict, config.Environment)"] := by
  exact ⟨rfl, rfl, rfl, rfl, rfl⟩

/-- dotenv/format.go `ParseWithFormat` ↦ `parseWithFormat`, the registry starts empty (`DefaultFormats`); dotenv/parser.go `expandVariables` ↦ `withFile` (caller's lookup first, then the lines parsed so far), `ParseWithLookup` ↦ `parseLines` (through C18's model) -/
theorem dotenv_lookup_chain_is_modelled_source :

    c16_body_ParseWithFormat =
      "{ parser, ok := formats[format] if !ok { return nil, fmt.Errorf(\"unsupported env_file format %q\", format) } return parser(r, filename, resolve) }" ∧
    c16_body_RegisterFormat =
      "{ formats[format] = p }" ∧
    c16_formats_init =
      "map[string]Parser{}" ∧
    dotenv_body_expandVariables =
      "{ retVal, err := template.Substitute(value, func(k string) (string, bool) { if v, ok := lookupFn(k); ok { return v, true } v, ok := envMap[k] return v, ok }) if err != nil { return value, err } return retVal, nil }" ∧
    dotenv_body_ParseWithLookup =
      "{ data, err := io.ReadAll(r) if err != nil { return nil, err } data = bytes.TrimPrefix(data, utf8BOM) return UnmarshalBytesWithLookup(data, lookupFn) }" ∧
    dotenv_body_UnmarshalWithLookup =
      "{ out := make(map[string]string) err := newParser().parse(src, out, lookupFn) return out, err }" := by
  exact ⟨rfl, rfl, rfl, rfl, rfl, rfl⟩

/-- round 6.  The **second call site**: cli/options.go `WithoutEnvironmentResolution` only sets `SkipResolveEnvironment`
(the caller resolves later with `project.WithServicesEnvironmentResolved`: `loadThenResolve`); **layers written in two
places** (override file, `extends` base + own entries): override/merge.go `mergeToSequence` appends the overriding list
*after* the base list for `services.*.env_file` and `services.*.label_file` (so "env_file entries in order" continues
across the two places — what the `extends-split` layout of `c16.load` / the oracle measures), and both kinds of
reference are made absolute against the directory of the file they are written in (`relocation_env/labels`). -/
theorem second_site_and_layouts_are_modelled_source :
    c16_body_WithoutEnvironmentResolution =
      "{ o.loadOptions = append(o.loadOptions, func(options *loader.Options) { options.SkipResolveEnvironment = true }) return nil }" ∧
    c16_body_mergeToSequence =
      "{ right := convertIntoSequence(c) left := convertIntoSequence(o) return append(right, left...), nil }" ∧
    (["services", "*", "env_file"], "mergeToSequence") ∈ CV.Gen.mergeSpecials ∧
    (["services", "*", "label_file"], "mergeToSequence") ∈ CV.Gen.mergeSpecials ∧
    (["services", "*", "env_file", "*", "path"], "absPath") ∈ CV.Gen.resolvers ∧
    (["services", "*", "label_file", "*"], "absPath") ∈ CV.Gen.resolvers := by
  refine ⟨rfl, rfl, ?_, ?_, ?_, ?_⟩ <;> decide

/-- **round 7 — the rows of `override.unique` that concern this property** (`Gen.unique`: the effective table after
`init()`).  `services.*.env_file` is de-duplicated with `envFileIndexer` (what `uniqBy` / `enforceUnicityFiles` of
`Model/EnvLayersUnicity.lean` model: first position, last entry — the recorded finding
`repeated-path-first-position:env_file`), `services.*.environment` and `services.*.labels` with `keyValueIndexer`
(`decodeLabels`), and **no row at all speaks about `label_file`**: a label_file list reaches `WithServicesLabelsResolved`
in its written order, repeated paths included (seeded C16-9 adds such a row). -/
theorem unicity_rows_are_modelled_source :
    (CV.Gen.unique.filter fun r => r.1 == ["services", "*", "env_file"] || r.1 == ["services", "*", "environment"] ||
        r.1 == ["services", "*", "labels"] || r.1.contains "label_file" || r.1.contains "env_file") =
      [(["services", "*", "environment"], "keyValueIndexer"), (["services", "*", "env_file"], "envFileIndexer"),
       (["services", "*", "labels"], "keyValueIndexer")] := by
  decide

end CV.C16Src
