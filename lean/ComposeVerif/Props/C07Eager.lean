import ComposeVerif.Props.C07
import ComposeVerif.Lemmas.TemplateUnbal
/-!
# C07 — arguments are evaluated eagerly

The property text says that defaults, replacements and error messages "are themselves interpolated"; the code
decides *when*: `withDefaultWhenAbsence`, `withDefaultWhenPresence` and `withRequired` interpolate the argument
**before** they look the variable up, whether or not the branch that uses it is selected.  The specification
mirrors that (`Seg.eval` evaluates `arg` first), so a malformed or failing-mandatory substitution inside an
*unused* default is still an error.  A lazy implementation (interpolating the argument only in the selected
branch) contradicts `subst_argument_error_is_the_result` below.
-/
namespace CV.Template

/-- spec: the meaning of `${n op arg}` is the error of `arg` whenever `arg` has one — whatever `n` is bound to -/
theorem eval_argument_first (env : Env) (n : Str) (o : Op) (arg : List Seg) (e : Err)
    (h : evalL env arg = .error e) : (Seg.op n o arg).eval env = .error e := by
  rw [Seg.eval, h]

/-- **eager evaluation**: if the argument of `${n op arg}` evaluates to an error, that error is the result of
    `Substitute` for *every* operator and *every* state of `n` — also when the operator does not use the argument
    (`${n:-arg}` with `n` set, `${n:+arg}` with `n` unset, `${n:?arg}` with `n` set, …) -/
theorem subst_argument_error_is_the_result (env : Env) (n : Str) (o : Op) (arg : List Seg) (e : Err)
    (hn : validName n = true) (harg : wfL true arg = true) (he : evalOut env arg = .err e) :
    subst env (Seg.op n o arg).render = .err e := by
  rw [subst_op env n o arg hn harg, he]

/-- the same inside any well-formed template: an error in an unused default is the error of the whole template
    unless an earlier segment already failed -/
theorem subst_unused_argument_error_propagates (env : Env) (pre post : List Seg) (n : Str) (o : Op) (arg : List Seg)
    (e : Err) (p : Str) (h : WF (pre ++ Seg.op n o arg :: post) = true)
    (hpre : evalOut env pre = .ok p) (he : evalL env arg = .error e) :
    subst env (renderL (pre ++ Seg.op n o arg :: post)) = .err e := by
  rw [subst_render env _ h, evalOut_append, evalOut_cons, hpre, eval_argument_first env n o arg e he]
  have hnp := evalOut_ne_panic env post
  cases hpost : evalOut env post with
  | ok s => rfl
  | err e' => rfl
  | panic q => exact absurd hpost (hnp q)

/-- instance: a malformed substitution inside the *unused* default of a set variable is an error
    (`${A:-${}}` with `A` set; a lazy implementation returns the value of `A`) -/
theorem unused_malformed_default_is_an_error (env : Env) (v : Str) (_ : env ['A'] = some v) :
    subst env "${A:-${}}".toList = .err .invalid := by
  have hb : ¬ WellFormedBrace ['}'] := by
    rintro ⟨n, tail, hr, hn, _, _⟩
    obtain ⟨c, cs, rfl, hc, _⟩ := validName_cases hn
    simp only [List.cons_append] at hr
    injection hr with h1 _
    subst h1; revert hc; decide
  have hinner : subst env "${}".toList = .err .invalid := by
    have := subst_malformed_err env [] ['}'] (by decide) hb
    simpa [renderL, evalOut, evalL, seq] using this
  -- `${A:-` X `}` with X = `${}`: the brace counter closes at the last brace; the argument is `${}`
  rw [subst_eq_run] at hinner ⊢
  have hfc : firstClose ('$' :: '{' :: (['A'] ++ (Op.colonDash.str ++ ("${}".toList ++ '}' :: [])))) =
      some (2 + ['A'].length + Op.colonDash.str.length + "${}".toList.length) := by decide
  have := run_op_closed env ['A'] .colonDash "${}".toList [] [] (by decide)
    (by intro c hc; revert c; decide) (by intro c hc; cases hc) (Or.inl rfl) lastCloseLen_nil hfc
  simp only [List.append_nil] at this
  rw [show "${A:-${}}".toList = '$' :: '{' :: (['A'] ++ (Op.colonDash.str ++ ("${}".toList ++ ['}']))) from by decide,
    this, hinner, run_nil]
  rfl

end CV.Template
