import ComposeVerif.Lemmas.EnvLayers
/-!
# C16 — service environment and labels are layered with the documented precedence

Property theorems only (helper lemmas live in `Lemmas/EnvLayers.lean`).  All statements are about
the model `Model/EnvLayers.lean` of `WithServicesEnvironmentResolved` / `WithServicesLabelsResolved`
and are proved for every project environment, file system, file list and key (no bounds).
`Distinct m` is the Go-map invariant (keys of a map are distinct).
-/
namespace CV.EnvLayers
open CV.EnvLayers.Spec

/-! ## precedence -/

/-- **env_precedence.**  When environment resolution succeeds, the final environment is, key by key and for
    any number of env files, exactly what the specification `finalEnv` says: `environment` over the
    last env file that defines the key, value-less entries taken from the project environment. -/
theorem env_precedence (penv : List (Key × Str)) (fs : FS) (discard : Bool) (s s' : Service)
    (hd : Distinct s.environment) (h : resolveServiceEnv penv fs discard s = .ok s') (k : Key) :
    lookup k s'.environment = finalEnv penv (envContents fs s.envFiles) s.environment k := by
  unfold resolveServiceEnv at h
  cases hl : loadEnvFiles penv fs s.envFiles [] with
  | error e => rw [hl] at h; cases h
  | ok acc =>
    rw [hl] at h
    simp only [Except.ok.injEq] at h
    subst h
    have hacc := (loadEnvFiles_spec penv fs s.envFiles [] acc distinct_nil hl).2 k
    simp only
    rw [lookup_overrideBy k _ _ (distinct_resolveMWE _ _ hd), lookup_resolveMWE, lookup_toMWE, hacc]
    unfold finalEnv filesVal
    cases lookup k s.environment with
    | none => rfl
    | some v => cases v <;> rfl

/-- the environment of the files alone (no `environment` entry for `k`): the last file that gives `k` a value wins -/
theorem filesVal_snoc (penv : List (Key × Str)) (files : List (List Line)) (f : List Line) (k : Key) :
    filesVal penv (files ++ [f]) k =
      orElse (fileVal (envLook penv (filesVal penv files)) f k) (filesVal penv files k) := by
  simp only [filesVal, List.reverse_append, List.reverse_cons, List.reverse_nil, List.nil_append,
    List.cons_append, filesValRevFrom]
  rfl

/-- a line speaks about key `k` -/
def Line.key? : Line → Option Key
  | .assign k _ => some k
  | .bare k => some k
  | .bad => none

def Mentions (ls : List Line) (k : Key) : Prop := ∃ l ∈ ls, Line.key? l = some k

theorem fileValRevFrom_not_mentions (look : Look) (base : Key → Option Str) (ls : List Line) (k : Key)
    (h : ¬ Mentions ls k) : fileValRevFrom look base ls k = base k := by
  induction ls with
  | nil => rfl
  | cons x r ih =>
    have hr : ¬ Mentions r k := fun ⟨l, hl, e⟩ => h ⟨l, List.mem_cons_of_mem _ hl, e⟩
    cases x with
    | assign k' v =>
      have : ¬ k' = k := fun e => h ⟨_, List.mem_cons_self, by simp [Line.key?, e]⟩
      simp [fileValRevFrom, this, ih hr]
    | bare k' =>
      have : ¬ k' = k := fun e => h ⟨_, List.mem_cons_self, by simp [Line.key?, e]⟩
      simp [fileValRevFrom, this, ih hr]
    | bad => simp [fileValRevFrom, ih hr]

/-- a file that does not mention `k` gives it no value -/
theorem fileVal_not_mentions (look : Look) (ls : List Line) (k : Key) (h : ¬ Mentions ls k) :
    fileVal look ls k = none := by
  unfold fileVal
  rw [fileValRevFrom_not_mentions]
  intro ⟨l, hl, e⟩
  exact h ⟨l, List.mem_reverse.1 hl, e⟩

theorem filesVal_append_not_mentions (penv : List (Key × Str)) (files post : List (List Line)) (k : Key)
    (h : ∀ g ∈ post, ¬ Mentions g k) : filesVal penv (files ++ post) k = filesVal penv files k := by
  induction post generalizing files with
  | nil => simp
  | cons g r ih =>
    have e : files ++ g :: r = (files ++ [g]) ++ r := by simp
    rw [e, ih _ (fun g' hg' => h g' (List.mem_cons_of_mem _ hg')), filesVal_snoc,
      fileVal_not_mentions _ _ _ (h g List.mem_cons_self)]
    rfl

/-- **later_file_wins.**  If an env file gives `k` the value `v`, no later env file mentions `k` and
    `environment` does not mention `k`, the final value of `k` is `v` — whatever earlier files say. -/
theorem later_file_wins (penv : List (Key × Str)) (fs : FS) (discard : Bool) (s s' : Service)
    (hd : Distinct s.environment) (h : resolveServiceEnv penv fs discard s = .ok s')
    (pre post : List (List Line)) (f : List Line) (hc : envContents fs s.envFiles = pre ++ f :: post)
    (k : Key) (v : Str) (hk : lookup k s.environment = none)
    (hf : fileVal (envLook penv (filesVal penv pre)) f k = some v)
    (hpost : ∀ g ∈ post, ¬ Mentions g k) :
    lookup k s'.environment = some (some v) := by
  rw [env_precedence penv fs discard s s' hd h k, hc]
  have e : pre ++ f :: post = (pre ++ [f]) ++ post := by simp
  unfold finalEnv
  rw [hk, e, filesVal_append_not_mentions _ _ _ _ hpost, filesVal_snoc, hf]
  rfl

/-- **explicit_value_wins.**  An `environment` entry written with a value (possibly empty) is final. -/
theorem explicit_value_wins (penv : List (Key × Str)) (fs : FS) (discard : Bool) (s s' : Service)
    (hd : Distinct s.environment) (h : resolveServiceEnv penv fs discard s = .ok s')
    (k : Key) (v : Str) (hk : lookup k s.environment = some (some v)) :
    lookup k s'.environment = some (some v) := by
  rw [env_precedence penv fs discard s s' hd h k]
  unfold finalEnv
  rw [hk]

/-- **valueless_takes_project_env.**  An `environment` key written without a value takes the value of
    the project environment when it is present there (env files do not matter). -/
theorem valueless_takes_project_env (penv : List (Key × Str)) (fs : FS) (discard : Bool) (s s' : Service)
    (hd : Distinct s.environment) (h : resolveServiceEnv penv fs discard s = .ok s')
    (k : Key) (v : Str) (hk : lookup k s.environment = some none) (hp : lookup k penv = some v) :
    lookup k s'.environment = some (some v) := by
  rw [env_precedence penv fs discard s s' hd h k]
  unfold finalEnv
  rw [hk, hp]

/-- **valueless_absent_is_unset.**  An `environment` key written without a value and absent from the
    project environment stays without value — it *overrides* whatever the env files give the key. -/
theorem valueless_absent_is_unset (penv : List (Key × Str)) (fs : FS) (discard : Bool) (s s' : Service)
    (hd : Distinct s.environment) (h : resolveServiceEnv penv fs discard s = .ok s')
    (k : Key) (hk : lookup k s.environment = some none) (hp : lookup k penv = none) :
    lookup k s'.environment = some none := by
  rw [env_precedence penv fs discard s s' hd h k]
  unfold finalEnv
  rw [hk, hp]

/-- keys that no layer mentions are absent from the result -/
theorem absent_everywhere_is_absent (penv : List (Key × Str)) (fs : FS) (discard : Bool) (s s' : Service)
    (hd : Distinct s.environment) (h : resolveServiceEnv penv fs discard s = .ok s')
    (k : Key) (hk : lookup k s.environment = none) (hf : ∀ g ∈ envContents fs s.envFiles, ¬ Mentions g k) :
    lookup k s'.environment = none := by
  rw [env_precedence penv fs discard s s' hd h k]
  unfold finalEnv
  rw [hk]
  have := filesVal_append_not_mentions penv [] (envContents fs s.envFiles) k hf
  simp only [List.nil_append] at this
  rw [this]
  rfl

/-! ## references inside env files -/

/-- the value of the last line `k=<segments>` of a file: every `${r}` sees the lookup, then the earlier lines -/
theorem file_value_chain (look : Look) (pre post : List Line) (k : Key) (v : List Seg) (hpost : ¬ Mentions post k) :
    fileVal look (pre ++ Line.assign k v :: post) k =
      some (evalSegs (fun r => orElse (look r) (fileVal look pre r)) v) := by
  unfold fileVal
  rw [List.reverse_append, List.reverse_cons, List.append_assoc, fileValRevFrom_append,
    fileValRevFrom_not_mentions]
  · simp [fileValRevFrom]
  · intro ⟨l, hl, e⟩
    exact hpost ⟨l, List.mem_reverse.1 hl, e⟩

/-- **crossref_chain.**  In an env file read after the files `earlier`, a last line `k=${r}` evaluates to the
    value of `r` in the earlier env files, else in the project environment, else in the earlier lines of
    the same file, else to the empty string — in that order. -/
theorem crossref_chain (penv : List (Key × Str)) (earlier : List (List Line)) (pre post : List Line) (k r : Key)
    (hpost : ¬ Mentions post k) :
    fileVal (envLook penv (filesVal penv earlier)) (pre ++ Line.assign k [Seg.ref r] :: post) k =
      some ((orElse (filesVal penv earlier r)
              (orElse (lookup r penv)
                (fileVal (envLook penv (filesVal penv earlier)) pre r))).getD []) := by
  rw [file_value_chain _ _ _ _ _ hpost]
  simp [evalSegs, envLook, orElse_assoc]

/-- a last bare line `k` takes the lookup's value, else what the earlier lines gave -/
theorem bare_line_inherits (look : Look) (pre post : List Line) (k : Key) (hpost : ¬ Mentions post k) :
    fileVal look (pre ++ Line.bare k :: post) k = orElse (look k) (fileVal look pre k) := by
  unfold fileVal
  rw [List.reverse_append, List.reverse_cons, List.append_assoc, fileValRevFrom_append,
    fileValRevFrom_not_mentions]
  · simp [fileValRevFrom]
  · intro ⟨l, hl, e⟩
    exact hpost ⟨l, List.mem_reverse.1 hl, e⟩

/-! ## labels -/

theorem labelFilesVal_snoc (files : List (List Line)) (f : List Line) (k : Key) :
    labelFilesVal (files ++ [f]) k = orElse (fileVal (labelFilesVal files) f k) (labelFilesVal files k) := by
  simp only [labelFilesVal, List.reverse_append, List.reverse_cons, List.reverse_nil, List.nil_append,
    List.cons_append, labelFilesValRevFrom]
  rfl

/-- **labels_precedence.**  Labels are layered the same way: `labels` over the last label file that
    defines the key; references in label files see earlier label files and earlier lines only. -/
theorem labels_precedence (fs : FS) (discard : Bool) (s s' : Service)
    (hd : Distinct s.labels) (h : resolveServiceLabels fs discard s = .ok s') (k : Key) :
    lookup k s'.labels = finalLabel (labelContents fs s.labelFiles) s.labels k := by
  unfold resolveServiceLabels at h
  cases hl : loadLabelFiles fs s.labelFiles [] with
  | error e => rw [hl] at h; cases h
  | ok acc =>
    rw [hl] at h
    simp only [Except.ok.injEq] at h
    subst h
    have hacc := (loadLabelFiles_spec fs s.labelFiles [] acc distinct_nil hl).2 k
    have hdl : Distinct (overrideBy (toMWE acc) (toMWE s.labels)) :=
      distinct_overrideBy _ _ (distinct_toMWE _ (loadLabelFiles_spec fs s.labelFiles [] acc distinct_nil hl).1)
    have hlk : lookup k (overrideBy (toMWE acc) (toMWE s.labels)) =
        (finalLabel (labelContents fs s.labelFiles) s.labels k).map some := by
      rw [lookup_overrideBy k _ _ (distinct_toMWE _ hd), lookup_toMWE, lookup_toMWE, hacc]
      unfold finalLabel labelFilesVal orElse
      cases lookup k s.labels <;> rfl
    simp only
    split
    · rename_i hemp
      have hnil : overrideBy (toMWE acc) (toMWE s.labels) = [] := List.isEmpty_iff.1 hemp
      rw [hnil] at hlk
      cases hf : finalLabel (labelContents fs s.labelFiles) s.labels k with
      | some v => rw [hf] at hlk; cases hlk
      | none =>
        unfold finalLabel orElse at hf
        cases hk : lookup k s.labels with
        | none => rfl
        | some v => rw [hk] at hf; cases hf
    · rw [lookup_ofMWE k _ hdl, hlk]
      cases finalLabel (labelContents fs s.labelFiles) s.labels k <;> rfl

/-! ## missing files -/

theorem loadEnvFiles_append (penv : List (Key × Str)) (fs : FS) (a b : List EnvFile) (acc : List (Key × Str)) :
    loadEnvFiles penv fs (a ++ b) acc =
      match loadEnvFiles penv fs a acc with
      | .error e => .error e
      | .ok acc' => loadEnvFiles penv fs b acc' := by
  induction a generalizing acc with
  | nil => rfl
  | cons f r ih =>
    simp only [List.cons_append, loadEnvFiles]
    cases loadEnvFile fs f (envChain penv acc) with
    | error e => rfl
    | ok vars => exact ih _

/-- **missing_required_err.**  If the env files before `f` load and `f` is missing and required,
    environment resolution fails with "not found" (whatever follows). -/
theorem missing_required_err (penv : List (Key × Str)) (fs : FS) (discard : Bool) (s : Service)
    (pre post : List EnvFile) (f : EnvFile) (acc : List (Key × Str))
    (hs : s.envFiles = pre ++ f :: post) (hpre : loadEnvFiles penv fs pre [] = .ok acc)
    (hm : fs f.path = none) (hr : f.required = true) :
    resolveServiceEnv penv fs discard s = .error .notFound := by
  unfold resolveServiceEnv
  rw [hs, loadEnvFiles_append, hpre]
  simp [loadEnvFiles, loadEnvFile, hm, hr]

/-- success implies that every missing env file was marked not required -/
theorem ok_implies_required_present (penv : List (Key × Str)) (fs : FS) (discard : Bool) (s s' : Service)
    (h : resolveServiceEnv penv fs discard s = .ok s') (f : EnvFile) (hf : f ∈ s.envFiles) (hm : fs f.path = none) :
    f.required = false := by
  obtain ⟨pre, post, hs⟩ := List.append_of_mem hf
  cases hr : f.required with
  | false => rfl
  | true =>
    exfalso
    cases hpre : loadEnvFiles penv fs pre [] with
    | ok acc =>
      rw [missing_required_err penv fs discard s pre post f acc hs hpre hm hr] at h
      cases h
    | error e =>
      unfold resolveServiceEnv at h
      rw [hs, loadEnvFiles_append, hpre] at h
      cases h

/-- **missing_optional_skipped.**  A missing env file marked not required contributes nothing: the result is
    the one obtained without listing it (only the reference itself differs). -/
theorem missing_optional_skipped (penv : List (Key × Str)) (fs : FS) (pre post : List EnvFile) (f : EnvFile)
    (acc : List (Key × Str)) (hm : fs f.path = none) (hr : f.required = false) :
    loadEnvFiles penv fs (pre ++ f :: post) acc = loadEnvFiles penv fs (pre ++ post) acc := by
  rw [loadEnvFiles_append, loadEnvFiles_append]
  cases loadEnvFiles penv fs pre acc with
  | error e => rfl
  | ok acc' => simp [loadEnvFiles, loadEnvFile, hm, hr, overrideBy]

theorem missing_optional_skipped_service (penv : List (Key × Str)) (fs : FS) (discard : Bool) (s : Service)
    (pre post : List EnvFile) (f : EnvFile) (hs : s.envFiles = pre ++ f :: post)
    (hm : fs f.path = none) (hr : f.required = false) :
    (resolveServiceEnv penv fs discard s).map (·.environment) =
      (resolveServiceEnv penv fs discard { s with envFiles := pre ++ post }).map (·.environment) := by
  unfold resolveServiceEnv
  rw [hs, missing_optional_skipped penv fs pre post f [] hm hr]
  simp only
  cases loadEnvFiles penv fs (pre ++ post) [] <;> rfl

/-- a missing label file is always an error (there is no `required` flag for label files) -/
theorem missing_label_file_err (fs : FS) (discard : Bool) (s : Service) (p : Str) (hp : p ∈ s.labelFiles)
    (hm : fs p = none) : ∃ e, resolveServiceLabels fs discard s = .error e := by
  have key : ∀ (paths : List Str) (acc : List (Key × Str)), p ∈ paths → ∃ e, loadLabelFiles fs paths acc = .error e := by
    intro paths
    induction paths with
    | nil => intro _ h; cases h
    | cons q r ih =>
      intro acc hmem
      simp only [loadLabelFiles]
      cases hl : loadLabelFile fs q (labelChain acc) with
      | error e => exact ⟨e, rfl⟩
      | ok vars =>
        rcases List.mem_cons.1 hmem with e | hmem'
        · subst e
          simp [loadLabelFile, hm] at hl
        · exact ih _ hmem'
  obtain ⟨e, he⟩ := key s.labelFiles [] hp
  exact ⟨e, by simp [resolveServiceLabels, he]⟩

/-! ## discarding the file references -/

/-- **discard_only_drops_refs.**  Resolving with the discard option is resolving without it and then
    emptying `env_file`: same success/failure, same environment, same everything else. -/
theorem discard_only_drops_refs (penv : List (Key × Str)) (fs : FS) (s : Service) :
    resolveServiceEnv penv fs true s =
      (resolveServiceEnv penv fs false s).map (fun s' => { s' with envFiles := [] }) := by
  unfold resolveServiceEnv
  cases loadEnvFiles penv fs s.envFiles [] <;> rfl

/-- without the option the references (and labels) are returned as written -/
theorem nodiscard_keeps_refs (penv : List (Key × Str)) (fs : FS) (s s' : Service)
    (h : resolveServiceEnv penv fs false s = .ok s') :
    s'.envFiles = s.envFiles ∧ s'.labels = s.labels ∧ s'.labelFiles = s.labelFiles := by
  unfold resolveServiceEnv at h
  cases hl : loadEnvFiles penv fs s.envFiles [] with
  | error e => rw [hl] at h; cases h
  | ok acc =>
    rw [hl] at h
    simp only [Except.ok.injEq] at h
    subst h
    exact ⟨rfl, rfl, rfl⟩

theorem labels_discard_only_drops_refs (fs : FS) (s : Service) :
    resolveServiceLabels fs true s =
      (resolveServiceLabels fs false s).map (fun s' => { s' with labelFiles := [] }) := by
  unfold resolveServiceLabels
  cases loadLabelFiles fs s.labelFiles [] <;> rfl

end CV.EnvLayers
