import ComposeVerif.Lemmas.EnvLayers
import ComposeVerif.Lemmas.EnvLayersDotenv
import ComposeVerif.Lemmas.EnvLayersFail
import ComposeVerif.Neg.C16
/-!
# C16 — service environment and labels are layered with the documented precedence

Property theorems only (helper lemmas live in `Lemmas/EnvLayers.lean`).  All statements are about
the model `Model/EnvLayers.lean` of `WithServicesEnvironmentResolved` / `WithServicesLabelsResolved`
and are proved for every project environment, file system, file list and key (no bounds).
`Distinct m` is the Go-map invariant (keys of a map are distinct).
-/
namespace CV.EnvLayers
open CV.EnvLayers.Spec

/-! ## precedence -/

/-- **env_precedence.**  When environment resolution succeeds, the final environment is, key by key and for
    any number of env files, exactly what the specification `finalEnv` says: `environment` over the
    last env file that defines the key, value-less entries taken from the project environment. -/
theorem env_precedence (penv : List (Key × Str)) (fs : FS) (discard : Bool) (s s' : Service)
    (hwf : WFFS fs) (hd : Distinct s.environment) (h : resolveServiceEnv penv fs discard s = .ok s') (k : Key) :
    lookup k s'.environment = finalEnv penv (envContents fs s.envFiles) s.environment k := by
  unfold resolveServiceEnv at h
  cases hl : loadEnvFiles penv fs s.envFiles [] with
  | error e => rw [hl] at h; cases h
  | ok acc =>
    rw [hl] at h
    simp only [Except.ok.injEq] at h
    subst h
    have hacc := (loadEnvFiles_spec penv fs s.envFiles [] acc hwf distinct_nil hl).2 k
    simp only
    rw [lookup_overrideBy k _ _ (distinct_resolveMWE _ _ hd), lookup_resolveMWE, lookup_toMWE, hacc]
    unfold finalEnv filesVal
    cases lookup k s.environment with
    | none => rfl
    | some v => cases v <;> rfl

/-- **finalEnv_is_layer_fold.**  The specification is literally a fold over the ordered layers
    env_file 1, …, env_file n, `environment`: the last layer that speaks about the key wins. -/
theorem finalEnv_is_layer_fold (penv : List (Key × Str)) (files : List (List Line)) (environment : List (Key × Option Str))
    (k : Key) : finalEnv penv files environment k = pick (envLayers penv files environment) k := by
  have h := pickFrom_fileLayers penv [] files k
  simp only [List.nil_append] at h
  have h0 : (filesVal penv [] k).map some = none := rfl
  rw [h0] at h
  unfold pick envLayers pickFrom at *
  rw [List.foldl_append, h]
  unfold finalEnv environmentLayer
  simp only [List.foldl_cons, List.foldl_nil]
  cases lookup k environment with
  | none => rfl
  | some v => cases v <;> rfl

/-- **later_file_wins.**  If an env file gives `k` the value `v`, no later env file mentions `k` and
    `environment` does not mention `k`, the final value of `k` is `v` — whatever earlier files say. -/
theorem later_file_wins (penv : List (Key × Str)) (fs : FS) (discard : Bool) (s s' : Service)
    (hwf : WFFS fs) (hd : Distinct s.environment) (h : resolveServiceEnv penv fs discard s = .ok s')
    (pre post : List (List Line)) (f : List Line) (hc : envContents fs s.envFiles = pre ++ f :: post)
    (k : Key) (v : Str) (hk : lookup k s.environment = none)
    (hf : fileVal (envLook penv (filesVal penv pre)) f k = some v)
    (hpost : ∀ g ∈ post, ¬ Mentions g k) :
    lookup k s'.environment = some (some v) := by
  rw [env_precedence penv fs discard s s' hwf hd h k, hc]
  have e : pre ++ f :: post = (pre ++ [f]) ++ post := by simp
  unfold finalEnv
  rw [hk, e, filesVal_append_not_mentions _ _ _ _ hpost, filesVal_snoc, hf]
  rfl

/-- **explicit_value_wins.**  An `environment` entry written with a value (possibly empty) is final. -/
theorem explicit_value_wins (penv : List (Key × Str)) (fs : FS) (discard : Bool) (s s' : Service)
    (hwf : WFFS fs) (hd : Distinct s.environment) (h : resolveServiceEnv penv fs discard s = .ok s')
    (k : Key) (v : Str) (hk : lookup k s.environment = some (some v)) :
    lookup k s'.environment = some (some v) := by
  rw [env_precedence penv fs discard s s' hwf hd h k]
  unfold finalEnv
  rw [hk]

/-- **valueless_takes_project_env.**  An `environment` key written without a value takes the value of
    the project environment when it is present there (env files do not matter). -/
theorem valueless_takes_project_env (penv : List (Key × Str)) (fs : FS) (discard : Bool) (s s' : Service)
    (hwf : WFFS fs) (hd : Distinct s.environment) (h : resolveServiceEnv penv fs discard s = .ok s')
    (k : Key) (v : Str) (hk : lookup k s.environment = some none) (hp : lookup k penv = some v) :
    lookup k s'.environment = some (some v) := by
  rw [env_precedence penv fs discard s s' hwf hd h k]
  unfold finalEnv
  rw [hk, hp]

/-- **valueless_absent_is_unset.**  An `environment` key written without a value and absent from the
    project environment stays without value — it *overrides* whatever the env files give the key. -/
theorem valueless_absent_is_unset (penv : List (Key × Str)) (fs : FS) (discard : Bool) (s s' : Service)
    (hwf : WFFS fs) (hd : Distinct s.environment) (h : resolveServiceEnv penv fs discard s = .ok s')
    (k : Key) (hk : lookup k s.environment = some none) (hp : lookup k penv = none) :
    lookup k s'.environment = some none := by
  rw [env_precedence penv fs discard s s' hwf hd h k]
  unfold finalEnv
  rw [hk, hp]

/-- keys that no layer mentions are absent from the result -/
theorem absent_everywhere_is_absent (penv : List (Key × Str)) (fs : FS) (discard : Bool) (s s' : Service)
    (hwf : WFFS fs) (hd : Distinct s.environment) (h : resolveServiceEnv penv fs discard s = .ok s')
    (k : Key) (hk : lookup k s.environment = none) (hf : ∀ g ∈ envContents fs s.envFiles, ¬ Mentions g k) :
    lookup k s'.environment = none := by
  rw [env_precedence penv fs discard s s' hwf hd h k]
  unfold finalEnv
  rw [hk]
  have := filesVal_append_not_mentions penv [] (envContents fs s.envFiles) k hf
  simp only [List.nil_append] at this
  rw [this]
  rfl

/-! ## references inside env files -/

/-- the value of the last line `k=<template>` of a file is what the interpolation grammar says the template evaluates to
    when every variable is looked up in the caller's lookup first and in the earlier lines of the file second -/
theorem file_value_chain (look : Look) (pre post : List Line) (k : Key) (v : List Seg) (hpost : ¬ Mentions post k) :
    fileVal look (pre ++ Line.assign k v :: post) k =
      some (specValue (fun r => orElse (look r) (fileVal look pre r)) v) := by
  unfold fileVal
  rw [List.reverse_append, List.reverse_cons, List.append_assoc, fileValRevFrom_append,
    fileValRevFrom_not_mentions]
  · simp [fileValRevFrom]
  · intro ⟨l, hl, e⟩
    exact hpost ⟨l, List.mem_reverse.1 hl, e⟩

/-- **crossref_chain.**  In an env file read after the files `earlier`, a last line `k=${r}` evaluates to the
    value of `r` in the earlier env files, else in the project environment, else in the earlier lines of
    the same file, else to the empty string — in that order. -/
theorem crossref_chain (penv : List (Key × Str)) (earlier : List (List Line)) (pre post : List Line) (k r : Key)
    (hpost : ¬ Mentions post k) :
    fileVal (envLook penv (filesVal penv earlier)) (pre ++ Line.assign k [CV.Template.Seg.var r true] :: post) k =
      some ((orElse (filesVal penv earlier r)
              (orElse (lookup r penv)
                (fileVal (envLook penv (filesVal penv earlier)) pre r))).getD []) := by
  rw [file_value_chain _ _ _ _ _ hpost]
  simp [specValue, CV.Template.evalL, CV.Template.Seg.eval, envLook, orElse_assoc]

/-- **default_chain.**  `k=${r:-d}` (d a literal): the same chain decides whether `r` is set and non-empty;
    otherwise the default `d` is the value. -/
theorem default_chain (look : Look) (pre post : List Line) (k r : Key) (d : Str) (hpost : ¬ Mentions post k) :
    fileVal look (pre ++ Line.assign k [CV.Template.Seg.op r .colonDash [.lit d]] :: post) k =
      some (match orElse (look r) (fileVal look pre r) with
        | some x => if x = [] then d else x
        | none => d) := by
  rw [file_value_chain _ _ _ _ _ hpost]
  simp only [specValue, CV.Template.evalL, CV.Template.Seg.eval, CV.Template.opSpec, List.append_nil]
  cases orElse (look r) (fileVal look pre r) with
  | none => simp
  | some x =>
    by_cases hx : x = []
    · subst hx; simp
    · have : (some x == some ([] : Str)) = false := by simp [hx]
      simp [this, hx]

/-- a last bare line `k` takes the lookup's value, else what the earlier lines gave -/
theorem bare_line_inherits (look : Look) (pre post : List Line) (k : Key) (hpost : ¬ Mentions post k) :
    fileVal look (pre ++ Line.bare k :: post) k = orElse (look k) (fileVal look pre k) := by
  unfold fileVal
  rw [List.reverse_append, List.reverse_cons, List.append_assoc, fileValRevFrom_append,
    fileValRevFrom_not_mentions]
  · simp [fileValRevFrom]
  · intro ⟨l, hl, e⟩
    exact hpost ⟨l, List.mem_reverse.1 hl, e⟩

/-- **no_panic.**  Reading env files never reaches a panic of `template.Substitute` (C07's `subst_never_panics`): the
    `panic` outcome of the model is unreachable, and a file is rejected only as `parse` (a rejected line) or `template`
    (an invalid template or an unsatisfied `${X:?msg}`). -/
theorem no_panic (look : Look) (ls : List Line) (out : List (Key × Str)) (e : Err)
    (h : parseLines look ls out = .error e) : e = .parse ∨ e = .template :=
  parseLines_err look ls out e h

/-- **parseLines_is_dotenv_parse.**  The tokenised lines are not an assumption about the dotenv parser: for a file
    without rejected line whose rendering `KEY=<template text>` / `KEY` is well-formed in C18's line grammar (valid keys,
    values without quote, white space, `#` or line feed), C18's model of `dotenv.UnmarshalWithLookup` run on the rendered
    **text** yields exactly what `parseLines` yields on the tokens (C18's `parse_render` + `parseLines_eq_evalFrom`). -/
theorem parseLines_is_dotenv_parse (look : Look) (ls : List Line) (hb : Line.bad ∉ ls)
    (hwf : CV.Dotenv.WF (toDotenvLines ls) = true) :
    ofPOut (CV.Dotenv.parse (CV.Dotenv.render (toDotenvLines ls)) look) = parseLines look ls [] := by
  rw [CV.Dotenv.parse_render look _ hwf]
  exact parseLines_eq_evalFrom look ls [] hb

/-- **parseLines_is_dotenv_parse_text.**  The same for *every* tokenised file, rejected lines included: the text the
    harness writes (`renderText`: `KEY=<template text>⏎`, `KEY⏎`, and `A B=1⏎` for a rejected line) is parsed by C18's
    model exactly as `parseLines` parses the tokens — the first rejected line is C18's "key cannot contain a space"
    (`key_with_space_err`) after the lines before it, whatever follows it. -/
theorem parseLines_is_dotenv_parse_text (look : Look) (ls : List Line)
    (hwf : CV.Dotenv.WF (toDotenvLines ls) = true) :
    ofPOut (CV.Dotenv.parse (renderText ls) look) = parseLines look ls [] := by
  by_cases hb : Line.bad ∈ ls
  · obtain ⟨pre, post, e, hp⟩ := split_first_bad ls hb
    subst e
    apply parse_text_with_bad look pre post hp
    rw [toDotenvLines_append] at hwf
    simp only [CV.Dotenv.WF, List.all_append, Bool.and_eq_true] at hwf ⊢
    exact hwf.1
  · rw [renderText_good ls hb]
    exact parseLines_is_dotenv_parse look ls hb hwf

/-! ## labels -/

/-- **labels_precedence.**  Labels are layered the same way: `labels` over the last label file that
    defines the key; references in label files see earlier label files and earlier lines only. -/
theorem labels_precedence (fs : FS) (discard : Bool) (s s' : Service)
    (hwf : WFFS fs) (hd : Distinct s.labels) (h : resolveServiceLabels fs discard s = .ok s') (k : Key) :
    lookup k s'.labels = finalLabel (labelContents fs s.labelFiles) s.labels k := by
  unfold resolveServiceLabels at h
  cases hl : loadLabelFiles fs s.labelFiles [] with
  | error e => rw [hl] at h; cases h
  | ok acc =>
    rw [hl] at h
    simp only [Except.ok.injEq] at h
    subst h
    have hacc := (loadLabelFiles_spec fs s.labelFiles [] acc hwf distinct_nil hl).2 k
    have hdl : Distinct (overrideBy (toMWE acc) (toMWE s.labels)) :=
      distinct_overrideBy _ _ (distinct_toMWE _ (loadLabelFiles_spec fs s.labelFiles [] acc hwf distinct_nil hl).1)
    have hlk : lookup k (overrideBy (toMWE acc) (toMWE s.labels)) =
        (finalLabel (labelContents fs s.labelFiles) s.labels k).map some := by
      rw [lookup_overrideBy k _ _ (distinct_toMWE _ hd), lookup_toMWE, lookup_toMWE, hacc]
      unfold finalLabel labelFilesVal orElse
      cases lookup k s.labels <;> rfl
    simp only
    split
    · rename_i hemp
      have hnil : overrideBy (toMWE acc) (toMWE s.labels) = [] := List.isEmpty_iff.1 hemp
      rw [hnil] at hlk
      cases hf : finalLabel (labelContents fs s.labelFiles) s.labels k with
      | some v => rw [hf] at hlk; cases hlk
      | none =>
        unfold finalLabel orElse at hf
        cases hk : lookup k s.labels with
        | none => rfl
        | some v => rw [hk] at hf; cases hf
    · rw [lookup_ofMWE k _ hdl, hlk]
      cases finalLabel (labelContents fs s.labelFiles) s.labels k <;> rfl

/-! ## missing files -/

/-- **missing_required_err.**  If the env files before `f` load and nothing exists at `f`'s path (the path is absent
    or lies under a regular file) while `f` is required, environment resolution fails with "not found", whatever follows. -/
theorem missing_required_err (penv : List (Key × Str)) (fs : FS) (discard : Bool) (s : Service)
    (pre post : List EnvFile) (f : EnvFile) (acc : List (Key × Str))
    (hs : s.envFiles = pre ++ f :: post) (hpre : loadEnvFiles penv fs pre [] = .ok acc)
    (hm : Missing fs f.path) (hr : f.required = true) :
    resolveServiceEnv penv fs discard s = .error .notFound := by
  unfold resolveServiceEnv
  rw [hs, loadEnvFiles_append, hpre]
  simp [loadEnvFiles, loadEnvFile_missing fs f _ hm, hr]

/-- a required env file at whose path nothing exists is always an error (of some class), whatever else is listed -/
theorem missing_required_is_error (penv : List (Key × Str)) (fs : FS) (discard : Bool) (s : Service)
    (f : EnvFile) (hf : f ∈ s.envFiles) (hm : Missing fs f.path) (hr : f.required = true) :
    ∃ e, resolveServiceEnv penv fs discard s = .error e := by
  obtain ⟨pre, post, hs⟩ := List.append_of_mem hf
  cases hpre : loadEnvFiles penv fs pre [] with
  | error e =>
    refine ⟨e, ?_⟩
    unfold resolveServiceEnv
    rw [hs, loadEnvFiles_append, hpre]
  | ok acc => exact ⟨.notFound, missing_required_err penv fs discard s pre post f acc hs hpre hm hr⟩

/-- success implies that every env file at whose path nothing exists was marked not required -/
theorem ok_implies_required_present (penv : List (Key × Str)) (fs : FS) (discard : Bool) (s s' : Service)
    (h : resolveServiceEnv penv fs discard s = .ok s') (f : EnvFile) (hf : f ∈ s.envFiles) (hm : Missing fs f.path) :
    f.required = false := by
  cases hr : f.required with
  | false => rfl
  | true =>
    obtain ⟨e, he⟩ := missing_required_is_error penv fs discard s f hf hm hr
    rw [he] at h
    cases h

/-- **missing_optional_skipped.**  An env file marked not required at whose path nothing exists (absent, or under a
    regular file) contributes nothing: the result is the one obtained without listing it (only the reference itself
    differs).  Full strength since the `fix:` commit; the pre-fix loader violated it (`Neg.missing_optional_skipped_false_pre`). -/
theorem missing_optional_skipped (penv : List (Key × Str)) (fs : FS) (pre post : List EnvFile) (f : EnvFile)
    (acc : List (Key × Str)) (hm : Missing fs f.path) (hr : f.required = false) :
    loadEnvFiles penv fs (pre ++ f :: post) acc = loadEnvFiles penv fs (pre ++ post) acc := by
  rw [loadEnvFiles_append, loadEnvFiles_append]
  cases loadEnvFiles penv fs pre acc with
  | error e => rfl
  | ok acc' => simp [loadEnvFiles, loadEnvFile_missing fs f _ hm, hr, overrideBy]

/-- the same in the form of `Neg.MissingOptionalSkipped`, the statement the pre-fix loader falsified -/
theorem missing_optional_skipped_full : Neg.MissingOptionalSkipped loadEnvFiles :=
  fun penv fs pre post f acc hm hr => missing_optional_skipped penv fs pre post f acc hm hr

theorem missing_optional_skipped_service (penv : List (Key × Str)) (fs : FS) (discard : Bool) (s : Service)
    (pre post : List EnvFile) (f : EnvFile) (hs : s.envFiles = pre ++ f :: post)
    (hm : Missing fs f.path) (hr : f.required = false) :
    (resolveServiceEnv penv fs discard s).map (·.environment) =
      (resolveServiceEnv penv fs discard { s with envFiles := pre ++ post }).map (·.environment) := by
  unfold resolveServiceEnv
  rw [hs, missing_optional_skipped penv fs pre post f [] hm hr]
  simp only
  cases loadEnvFiles penv fs (pre ++ post) [] <;> rfl

/-- a label file at whose path nothing exists is always an error (there is no `required` flag for label files) -/
theorem missing_label_file_err (fs : FS) (discard : Bool) (s : Service) (p : Str) (hp : p ∈ s.labelFiles)
    (hm : Missing fs p) : ∃ e, resolveServiceLabels fs discard s = .error e := by
  have key : ∀ (paths : List Str) (acc : List (Key × Str)), p ∈ paths → ∃ e, loadLabelFiles fs paths acc = .error e := by
    intro paths
    induction paths with
    | nil => intro _ h; cases h
    | cons q r ih =>
      intro acc hmem
      simp only [loadLabelFiles]
      cases hl : loadLabelFile fs q (labelChain acc) with
      | error e => exact ⟨e, rfl⟩
      | ok vars =>
        rcases List.mem_cons.1 hmem with e | hmem'
        · subst e
          rw [loadLabelFile_missing fs p _ hm] at hl
          cases hl
        · exact ih _ hmem'
  obtain ⟨e, he⟩ := key s.labelFiles [] hp
  exact ⟨e, by simp [resolveServiceLabels, he]⟩

/-! ## env_file formats (`dotenv.RegisterFormat`) -/

/-- an `env_file` entry with a format that is not registered is an error as soon as something exists at its path -/
theorem unregistered_format_err (fs : FS) (f : EnvFile) (look : Look) (nd : Node)
    (hp : fs f.path = some nd) (hnd : nd ≠ .notdir) (hf : f.format ≠ []) (hreg : fs.formats f.format = none) :
    loadEnvFile fs f look = .error .format := by
  unfold loadEnvFile
  rw [hp]
  cases nd with
  | notdir => exact absurd rfl hnd
  | dir => simp [loadMappingFile, hp, hf, parseWithFormat, hreg]
  | file ls => simp [loadMappingFile, hp, hf, parseWithFormat, hreg]

/-- with a registered format the registered parser decides the content of the layer (and its errors); it is handed the
    same lookup chain as the dotenv parser -/
theorem registered_format_used (fs : FS) (f : EnvFile) (look : Look) (nd : Node) (p : FormatParser)
    (hp : fs f.path = some nd) (hnd : nd ≠ .notdir) (hf : f.format ≠ []) (hreg : fs.formats f.format = some p) :
    loadEnvFile fs f look = p nd look := by
  unfold loadEnvFile
  rw [hp]
  cases nd with
  | notdir => exact absurd rfl hnd
  | dir => simp [loadMappingFile, hp, hf, parseWithFormat, hreg]
  | file ls => simp [loadMappingFile, hp, hf, parseWithFormat, hreg]

/-- the format is not consulted for a missing file: required ⇒ `notFound`, optional ⇒ skipped, whatever is registered -/
theorem format_ignored_when_missing (fs : FS) (f : EnvFile) (look : Look) (hm : Missing fs f.path) :
    loadEnvFile fs f look = if f.required then .error .notFound else .ok [] :=
  loadEnvFile_missing fs f look hm

/-- label files are always read by the dotenv parser: the registry does not matter -/
theorem label_files_ignore_formats (fs : FS) (g : Str → Option FormatParser) (p : Str) (look : Look) :
    loadLabelFile { fs with formats := g } p look = loadLabelFile fs p look := by
  unfold loadLabelFile
  show (match fs.node p with | none => _ | some .notdir => _ | some _ => _) = (match fs.node p with | none => _ | some .notdir => _ | some _ => _)
  cases h : fs.node p with
  | none => rfl
  | some nd =>
    cases nd with
    | notdir => rfl
    | dir => simp [loadMappingFile, h]
    | file ls => simp [loadMappingFile, h]

/-! ## which file fails -/

/-- **env_failure_spec.**  Environment resolution of a service succeeds iff the specification `envFailureFrom` finds no
    failing file, and otherwise fails with exactly the error of the **first** failing file in `env_file` order: missing though
    required (`notFound`), a directory (`read`), a format (`format`), a rejected line (`parse`), or a value whose template is an
    error of the interpolation grammar — e.g. an unsatisfied `${X:?msg}` — judged in that line's lookup chain (earlier files,
    project environment, earlier lines) (`template`). -/
theorem env_failure_spec (penv : List (Key × Str)) (fs : FS) (discard : Bool) (s : Service) (hwf : WFFS fs) :
    FailsAs (resolveServiceEnv penv fs discard s) (envFailureFrom penv fs [] s.envFiles) := by
  have h := loadEnvFiles_fails_as penv fs hwf s.envFiles [] [] distinct_nil (fun _ => rfl)
  unfold resolveServiceEnv
  cases hl : loadEnvFiles penv fs s.envFiles [] with
  | error e => rw [hl] at h; exact h
  | ok acc => rw [hl] at h; exact h

/-- **labels_failure_spec.**  The same for label files (a missing label file always fails; references see earlier label
    files and earlier lines only). -/
theorem labels_failure_spec (fs : FS) (discard : Bool) (s : Service) (hwf : WFFS fs) :
    FailsAs (resolveServiceLabels fs discard s) (labelFailureFrom fs [] s.labelFiles) := by
  have h := loadLabelFiles_fails_as fs hwf s.labelFiles [] [] distinct_nil (fun _ => rfl)
  unfold resolveServiceLabels
  cases hl : loadLabelFiles fs s.labelFiles [] with
  | error e => rw [hl] at h; exact h
  | ok acc => rw [hl] at h; exact h

/-- a line `k=${x:?msg}` whose variable is unset in the line's lookup chain fails the file with `template` … -/
theorem unsatisfied_required_var_fails (look : Look) (pre post : List Line) (k x m : Str)
    (hx : lineLook look pre x = none) :
    fileFailureFrom look pre (Line.assign k [CV.Template.Seg.op x .colonQ [.lit m]] :: post) = some .template := by
  simp [fileFailureFrom, CV.Template.evalL, CV.Template.Seg.eval, CV.Template.opSpec, hx]

/-- … and does not when an earlier file, the project environment or an earlier line gives it a non-empty value -/
theorem satisfied_required_var_passes (look : Look) (pre post : List Line) (k x m v : Str)
    (hx : lineLook look pre x = some v) (hv : v ≠ []) :
    fileFailureFrom look pre (Line.assign k [CV.Template.Seg.op x .colonQ [.lit m]] :: post) =
      fileFailureFrom look (pre ++ [Line.assign k [CV.Template.Seg.op x .colonQ [.lit m]]]) post := by
  have : (some v == some ([] : Str)) = false := by simp [hv]
  simp [fileFailureFrom, CV.Template.evalL, CV.Template.Seg.eval, CV.Template.opSpec, hx, this]

/-! ## discarding the file references -/

/-- **discard_only_drops_refs.**  Resolving with the discard option is resolving without it and then
    emptying `env_file`: same success/failure, same environment, same everything else. -/
theorem discard_only_drops_refs (penv : List (Key × Str)) (fs : FS) (s : Service) :
    resolveServiceEnv penv fs true s =
      (resolveServiceEnv penv fs false s).map (fun s' => { s' with envFiles := [] }) := by
  unfold resolveServiceEnv
  cases loadEnvFiles penv fs s.envFiles [] <;> rfl

/-- without the option the references (and labels) are returned as written -/
theorem nodiscard_keeps_refs (penv : List (Key × Str)) (fs : FS) (s s' : Service)
    (h : resolveServiceEnv penv fs false s = .ok s') :
    s'.envFiles = s.envFiles ∧ s'.labels = s.labels ∧ s'.labelFiles = s.labelFiles := by
  unfold resolveServiceEnv at h
  cases hl : loadEnvFiles penv fs s.envFiles [] with
  | error e => rw [hl] at h; cases h
  | ok acc =>
    rw [hl] at h
    simp only [Except.ok.injEq] at h
    subst h
    exact ⟨rfl, rfl, rfl⟩

theorem labels_discard_only_drops_refs (fs : FS) (s : Service) :
    resolveServiceLabels fs true s =
      (resolveServiceLabels fs false s).map (fun s' => { s' with labelFiles := [] }) := by
  unfold resolveServiceLabels
  cases loadLabelFiles fs s.labelFiles [] <;> rfl

/-! ## all services of a project -/

/-- **project_env_ok.**  `WithServicesEnvironmentResolved` succeeds exactly with the per-service results: same service
    names in the same positions, each service resolved on its own (no state shared between services). -/
theorem project_env_ok (penv : List (Key × Str)) (fs : FS) (discard : Bool) (svcs r : List (Str × Service))
    (h : resolveProjectEnv penv fs discard svcs = .ok r) :
    svcs.map (fun p => (p.1, resolveServiceEnv penv fs discard p.2)) = r.map (fun p => (p.1, Except.ok p.2)) :=
  collect_ok _ _ h

/-- it fails only with the error of some service (which one Go reports depends on map order) -/
theorem project_env_err (penv : List (Key × Str)) (fs : FS) (discard : Bool) (svcs : List (Str × Service))
    (es : List Err) (h : resolveProjectEnv penv fs discard svcs = .error es) :
    es ≠ [] ∧ ∀ e ∈ es, ∃ p ∈ svcs, resolveServiceEnv penv fs discard p.2 = .error e := by
  obtain ⟨hne, hall⟩ := collect_err _ _ h
  refine ⟨hne, fun e he => ?_⟩
  obtain ⟨n, hn⟩ := hall e he
  obtain ⟨p, hp, hpe⟩ := List.mem_map.1 hn
  simp only [Prod.mk.injEq] at hpe
  exact ⟨p, hp, hpe.2⟩

theorem project_labels_ok (fs : FS) (discard : Bool) (svcs r : List (Str × Service))
    (h : resolveProjectLabels fs discard svcs = .ok r) :
    svcs.map (fun p => (p.1, resolveServiceLabels fs discard p.2)) = r.map (fun p => (p.1, Except.ok p.2)) :=
  collect_ok _ _ h

/-! ## Go map iteration order -/

/-- `OverrideBy` ranges over a Go map: whatever order the entries come in, the result is pointwise the same -/
theorem override_order_independent {β : Type} (m other other' : List (Key × β)) (hd : Distinct other)
    (hp : other.Perm other') (k : Key) :
    lookup k (overrideBy m other) = lookup k (overrideBy m other') := by
  rw [lookup_overrideBy k m other hd, lookup_overrideBy k m other' (distinct_perm _ _ hd hp), lookup_perm k other other' hd hp]

/-- **env_order_independent.**  The result does not depend on the order in which the `environment` map and the
    project environment are listed (Go iterates both in arbitrary order): same success, same value at every key. -/
theorem env_order_independent (penv penv' : List (Key × Str)) (fs : FS) (discard : Bool) (s s1 s' : Service)
    (hd : Distinct s.environment) (hdp : Distinct penv)
    (hpe : s.environment.Perm s1.environment) (hpp : penv.Perm penv') (hfiles : s1.envFiles = s.envFiles)
    (h : resolveServiceEnv penv fs discard s = .ok s') :
    ∃ s1', resolveServiceEnv penv' fs discard s1 = .ok s1' ∧
      ∀ k, lookup k s1'.environment = lookup k s'.environment := by
  have hl : ∀ n, lookup n penv = lookup n penv' := fun n => lookup_perm n penv penv' hdp hpp
  have hd1 : Distinct s1.environment := distinct_perm _ _ hd hpe
  unfold resolveServiceEnv at h ⊢
  rw [hfiles, ← loadEnvFiles_congr_penv penv penv' fs hl]
  cases hacc : loadEnvFiles penv fs s.envFiles [] with
  | error e => rw [hacc] at h; cases h
  | ok acc =>
    rw [hacc] at h
    simp only [Except.ok.injEq] at h
    subst h
    refine ⟨_, rfl, fun k => ?_⟩
    simp only
    rw [lookup_overrideBy k _ _ (distinct_resolveMWE _ _ hd1), lookup_overrideBy k _ _ (distinct_resolveMWE _ _ hd),
      lookup_resolveMWE, lookup_resolveMWE, ← lookup_perm k _ _ hd hpe, hl k]

/-- **env_any_iteration_order.**  Let Go pick the order of *every* `range` over a map inside
    `WithServicesEnvironmentResolved` (`Resolve` over `environment`, each `OverrideBy` over the map returned by the dotenv
    parser, the final `OverrideBy` over `environment`) and let every intermediate map be listed in any order: every such run
    agrees with the list-order model — it fails iff the model fails, with the same error, and otherwise yields the same
    value at every key. -/
theorem env_any_iteration_order (penv : List (Key × Str)) (fs : FS) (discard : Bool) (s : Service)
    (hreg : DefaultFormats fs) (hd : Distinct s.environment) (out : Except Err (List (Key × Option Str)))
    (h : ServiceEnvRun penv fs s out) :
    Agrees out ((resolveServiceEnv penv fs discard s).map (·.environment)) := by
  obtain ⟨env1, hres, r, hrun, hout⟩ := h
  have hr := filesRun_agrees (loadEnvFile fs) (envChain penv) (envChain_congr penv)
    (fun f look vars => loadEnvFile_distinct fs f look vars hreg) s.envFiles [] r hrun [] (MapEq.refl _)
  rw [← loadEnvFiles_eq_filesLoop] at hr
  unfold resolveServiceEnv
  cases hl : loadEnvFiles penv fs s.envFiles [] with
  | error e =>
    rw [hl] at hr
    cases r with
    | ok acc => exact hr.elim
    | error e' =>
      simp only at hout
      subst hout
      exact hr
  | ok acc0 =>
    rw [hl] at hr
    cases r with
    | error e' => exact hr.elim
    | ok acc =>
      obtain ⟨final, hfin, hout⟩ := hout
      subst hout
      obtain ⟨hd1, h1⟩ := rangeResolve_sound _ _ _ hd hres
      have h2 := (rangeOverride_sound (toMWE acc) (toMWE acc0) env1 final (mapEq_toMWE _ _ hr) hd1 hfin).2
      exact h2.trans (overrideBy_congr_arg _ _ _ hd1 (distinct_resolveMWE _ _ hd) h1)

/-- **labels_any_iteration_order.**  The same for `WithServicesLabelsResolved`: the merged label map of any run
    (any order of every `range`, any listing of every intermediate map) is the list-order model's. -/
theorem labels_any_iteration_order (fs : FS) (s : Service) (hd : Distinct s.labels)
    (out : Except Err (List (Key × Option Str))) (h : ServiceLabelsRun fs s out) :
    Agrees out ((loadLabelFiles fs s.labelFiles []).map fun acc => overrideBy (toMWE acc) (toMWE s.labels)) := by
  obtain ⟨r, hrun, hout⟩ := h
  have hr := filesRun_agrees (loadLabelFile fs) labelChain labelChain_congr
    (fun f look vars => loadLabelFile_distinct fs f look vars) s.labelFiles [] r hrun [] (MapEq.refl _)
  rw [← loadLabelFiles_eq_filesLoop] at hr
  cases hl : loadLabelFiles fs s.labelFiles [] with
  | error e =>
    rw [hl] at hr
    cases r with
    | ok acc => exact hr.elim
    | error e' =>
      simp only at hout
      subst hout
      exact hr
  | ok acc0 =>
    rw [hl] at hr
    cases r with
    | error e' => exact hr.elim
    | ok acc =>
      obtain ⟨final, hfin, hout⟩ := hout
      subst hout
      exact (rangeOverride_sound (toMWE acc) (toMWE acc0) (toMWE s.labels) final (mapEq_toMWE _ _ hr)
        (distinct_toMWE _ hd) hfin).2

/-! ## value-less entries resolved while loading -/

/-- **load_env_precedence.**  Through a whole load (sequence or mapping form of `environment`, with or without
    normalization, the two loader stages that pre-resolve value-less entries included) the final environment is
    again exactly `finalEnv` of the YAML `environment` as written. -/
theorem load_env_precedence (cfg : LoadCfg) (penv : List (Key × Str)) (fs : FS) (y : YEnv) (s s' : Service)
    (hwf : WFFS fs) (hpenv : NoEqKeys penv) (hres : cfg.skipResolveEnvironment = false)
    (h : loadServiceEnv cfg penv fs y s = .ok s') (k : Key) :
    lookup k s'.environment = finalEnv penv (envContents fs s.envFiles) (decodeEnv y) k := by
  unfold loadServiceEnv at h
  simp only [hres, Bool.false_eq_true, if_false] at h
  rw [env_precedence penv fs cfg.discard _ s' hwf (distinct_decodeEnv' cfg penv y) h k]
  simp only
  rw [finalEnv_eq_rv, finalEnv_eq_rv, loadedEnv_rv cfg penv hpenv y k]

/-- even when the Project method is skipped, a whole load with normalization has resolved the value-less entries -/
theorem load_valueless_resolved_by_normalize (cfg : LoadCfg) (penv : List (Key × Str)) (y : YEnv) (k : Key)
    (hpenv : NoEqKeys penv) (hn : cfg.skipNormalization = false) :
    lookup k (loadedEnv cfg penv y) = (lookup k (decodeEnv y)).map (rv penv k) := by
  unfold loadedEnv
  simp only [hn, Bool.false_eq_true, if_false]
  cases y with
  | absent => rfl
  | map kvs => simp only [resolveSeqEnv]; rw [lookup_decode_normalize]
  | list items =>
    rw [resolveSeqEnv_eq_normalize penv hpenv, lookup_decode_normalize, lookup_decode_normalize]
    cases lookup k (decodeEnv (YEnv.list items)) with
    | none => rfl
    | some v => simp [rv_idem]

/-- with both `SkipNormalization` and `SkipResolveEnvironment`, a **mapping-form** `environment` is decoded as written:
    value-less entries stay without value, whatever the project environment says (nothing resolves them) -/
theorem load_map_form_unresolved (cfg : LoadCfg) (penv : List (Key × Str)) (fs : FS) (kvs : List (Key × Option Str))
    (s : Service) (hn : cfg.skipNormalization = true) (hr : cfg.skipResolveEnvironment = true) :
    loadServiceEnv cfg penv fs (.map kvs) s = .ok { s with environment := decodeEnv (.map kvs) } := by
  simp [loadServiceEnv, loadedEnv, resolveSeqEnv, hn, hr]

/-- … while a **sequence-form** `environment` is resolved even then (`resolveServicesEnvironment` runs unconditionally) -/
theorem load_seq_form_resolved_anyway (cfg : LoadCfg) (penv : List (Key × Str)) (fs : FS) (items : List Item)
    (s s' : Service) (hpenv : NoEqKeys penv) (hr : cfg.skipResolveEnvironment = true)
    (h : loadServiceEnv cfg penv fs (.list items) s = .ok s') (k : Key) :
    lookup k s'.environment = (lookup k (decodeEnv (.list items))).map (rv penv k) := by
  simp only [loadServiceEnv, hr, if_true, Except.ok.injEq] at h
  subst h
  simp only
  unfold loadedEnv
  rw [resolveSeqEnv_eq_normalize penv hpenv]
  cases cfg.skipNormalization with
  | true => simp only [if_true]; rw [lookup_decode_normalize]
  | false =>
    simp only [Bool.false_eq_true, if_false]
    rw [lookup_decode_normalize, lookup_decode_normalize]
    cases lookup k (decodeEnv (YEnv.list items)) with
    | none => rfl
    | some v => simp [rv_idem]

/-! ## the environment / label part of a whole load (`modelToProject`) -/

/-- environment resolution leaves labels and label files alone; label resolution leaves the environment and env files alone -/
theorem env_step_keeps_labels (penv : List (Key × Str)) (fs : FS) (discard : Bool) (s s' : Service)
    (h : resolveServiceEnv penv fs discard s = .ok s') : s'.labels = s.labels ∧ s'.labelFiles = s.labelFiles := by
  unfold resolveServiceEnv at h
  cases hl : loadEnvFiles penv fs s.envFiles [] with
  | error e => rw [hl] at h; cases h
  | ok acc =>
    rw [hl] at h
    simp only [Except.ok.injEq] at h
    subst h
    exact ⟨rfl, rfl⟩

theorem labels_step_keeps_env (fs : FS) (discard : Bool) (s s' : Service)
    (h : resolveServiceLabels fs discard s = .ok s') : s'.environment = s.environment ∧ s'.envFiles = s.envFiles := by
  unfold resolveServiceLabels at h
  cases hl : loadLabelFiles fs s.labelFiles [] with
  | error e => rw [hl] at h; cases h
  | ok acc =>
    rw [hl] at h
    simp only [Except.ok.injEq] at h
    subst h
    exact ⟨rfl, rfl⟩

/-- **load_project_ok.**  A successful whole load is, service by service and in place, environment resolution followed
    by label resolution of that service alone. -/
theorem load_project_ok (cfg : LoadCfg) (penv : List (Key × Str)) (fs : FS) (svcs : List (Str × YEnv × Service))
    (r : List (Str × Service)) (h : loadProject cfg penv fs svcs = .ok r) :
    svcs.map (fun p => (p.1, (loadServiceEnv cfg penv fs p.2.1 p.2.2).bind (resolveServiceLabels fs cfg.discard))) =
      r.map (fun p => (p.1, Except.ok p.2)) := by
  unfold loadProject at h
  cases h1 : collect (svcs.map fun p => (p.1, loadServiceEnv cfg penv fs p.2.1 p.2.2)) with
  | error es => rw [h1] at h; cases h
  | ok s1 =>
    rw [h1] at h
    have e1 := collect_ok _ _ h1
    have e2 := collect_ok _ _ h
    have e3 := congrArg (List.map fun (q : Str × Except Err Service) => (q.1, q.2.bind (resolveServiceLabels fs cfg.discard))) e1
    simp only [List.map_map] at e3
    rw [← e2]
    simpa [Function.comp_def, Except.bind] using e3

/-- **load_project_err.**  A failing whole load reports errors of one phase only: either environment errors of some
    services, or — every environment having resolved — label errors of some services. -/
theorem load_project_err (cfg : LoadCfg) (penv : List (Key × Str)) (fs : FS) (svcs : List (Str × YEnv × Service))
    (es : List Err) (h : loadProject cfg penv fs svcs = .error es) :
    es ≠ [] ∧
    ((∀ e ∈ es, ∃ p ∈ svcs, loadServiceEnv cfg penv fs p.2.1 p.2.2 = .error e) ∨
     (∃ s1, collect (svcs.map fun p => (p.1, loadServiceEnv cfg penv fs p.2.1 p.2.2)) = .ok s1 ∧
        ∀ e ∈ es, ∃ q ∈ s1, resolveServiceLabels fs cfg.discard q.2 = .error e)) := by
  unfold loadProject at h
  cases h1 : collect (svcs.map fun p => (p.1, loadServiceEnv cfg penv fs p.2.1 p.2.2)) with
  | error es1 =>
    rw [h1] at h
    simp only [Except.error.injEq] at h
    subst h
    obtain ⟨hne, hall⟩ := collect_err _ _ h1
    refine ⟨hne, Or.inl fun e he => ?_⟩
    obtain ⟨n, hn⟩ := hall e he
    obtain ⟨p, hp, hpe⟩ := List.mem_map.1 hn
    simp only [Prod.mk.injEq] at hpe
    exact ⟨p, hp, hpe.2⟩
  | ok s1 =>
    rw [h1] at h
    obtain ⟨hne, hall⟩ := collect_err _ _ h
    refine ⟨hne, Or.inr ⟨s1, rfl, fun e he => ?_⟩⟩
    obtain ⟨n, hn⟩ := hall e he
    obtain ⟨q, hq, hqe⟩ := List.mem_map.1 hn
    simp only [Prod.mk.injEq] at hqe
    exact ⟨q, hq, hqe.2⟩

/-- **load_service_final.**  For one service of a whole load (environment resolution not skipped): the final
    `Environment` is `finalEnv` of the YAML `environment` and the final `Labels` are `finalLabel` of the YAML labels —
    the two phases do not disturb each other. -/
theorem load_service_final (cfg : LoadCfg) (penv : List (Key × Str)) (fs : FS) (y : YEnv) (s s1 s2 : Service)
    (hwf : WFFS fs) (hpenv : NoEqKeys penv) (hres : cfg.skipResolveEnvironment = false) (hdl : Distinct s.labels)
    (h1 : loadServiceEnv cfg penv fs y s = .ok s1) (h2 : resolveServiceLabels fs cfg.discard s1 = .ok s2) (k : Key) :
    lookup k s2.environment = finalEnv penv (envContents fs s.envFiles) (decodeEnv y) k ∧
    lookup k s2.labels = finalLabel (labelContents fs s.labelFiles) s.labels k := by
  have he := load_env_precedence cfg penv fs y s s1 hwf hpenv hres h1 k
  have hk : s1.labels = s.labels ∧ s1.labelFiles = s.labelFiles := by
    unfold loadServiceEnv at h1
    simp only [hres, Bool.false_eq_true, if_false] at h1
    exact env_step_keeps_labels penv fs cfg.discard { s with environment := loadedEnv cfg penv y } s1 h1
  have hl := labels_precedence fs cfg.discard s1 s2 hwf (hk.1 ▸ hdl) h2 k
  rw [hk.1, hk.2] at hl
  exact ⟨(labels_step_keeps_env fs cfg.discard s1 s2 h2).1 ▸ he, hl⟩

/-! ## non-vacuity: a concrete project on which the hypotheses above hold and the layers all matter -/
namespace Example
open CV.Template (Seg)

def f1 : List Line := [.assign ['A'] [.lit ['1']], .assign ['B'] [.lit ['b'], .var ['A'] true], .bare ['C'],
  .assign ['H'] [.op ['N', 'O'] .colonDash [.lit ['d']], .esc, .var ['A'] false]]
def f2 : List Line := [.assign ['A'] [.lit ['2']], .assign ['D'] [.lit ['d']], .assign ['G'] [.var ['A'] true]]

def fs0 : FS := { node := fun p =>
  if p = ['f', '1'] then some (.file f1)
  else if p = ['f', '2'] then some (.file f2)
  else if p = ['d'] then some .dir
  else none }

def penv0 : List (Key × Str) := [(['C'], ['c'])]

def s0 : Service :=
  { environment := [(['C'], none), (['D'], none), (['E'], some ['e'])]
    envFiles := [⟨['f', '1'], true, []⟩, ⟨['f', '3'], false, []⟩, ⟨['f', '2'], true, []⟩]
    labels := [(['L'], ['l'])]
    labelFiles := [['f', '1']] }

/-- `WFFS`: every value of every file is an unambiguous template -/
theorem wffs0 : WFFS fs0 := by
  refine ⟨?_, fun _ => rfl⟩
  intro p ls h
  show WFLines ls
  change fs0.node p = _ at h
  unfold fs0 at h
  simp only at h
  split at h
  · simp only [Option.some.injEq, Node.file.injEq] at h; subst h
    exact wfLines_of_B _ (by decide)
  · split at h
    · simp only [Option.some.injEq, Node.file.injEq] at h; subst h
      exact wfLines_of_B _ (by decide)
    · split at h <;> simp at h

/-- hypotheses of `env_precedence` (and of the value-less / explicit-value corollaries) hold on `s0`, and the result
    shows every layer: `A` from the later file, `B` through a reference to an earlier line, `C` value-less from the project
    environment, `D` value-less and unset although `f2` defines it, `E` explicit, `G` a reference to an earlier file,
    `H` = default of an unset variable, an escaped dollar and an unbraced reference. -/
example : Distinct s0.environment ∧
    (resolveServiceEnv penv0 fs0 true s0).map (fun s' =>
      (([['A'], ['B'], ['C'], ['D'], ['E'], ['G'], ['H'], ['Z']] : List Key).map fun k => lookup k s'.environment, s'.envFiles)) =
    .ok ([some (some ['2']), some (some ['b', '1']), some (some ['c']), some none, some (some ['e']),
          some (some ['1']), some (some ['d', '$', '1']), none], []) := by
  decide

/-- hypotheses of `parseLines_is_dotenv_parse`: the example files render to well-formed dotenv text, e.g. `f2` to
    `A=2⏎D=d⏎G=${A}⏎` -/
example : Line.bad ∉ f1 ∧ CV.Dotenv.WF (toDotenvLines f1) = true ∧ CV.Dotenv.WF (toDotenvLines f2) = true ∧
    CV.Dotenv.render (toDotenvLines f2) =
      ['A', '=', '2', '\n', 'D', '=', 'd', '\n', 'G', '=', '$', '{', 'A', '}', '\n'] := by
  refine ⟨?_, by decide, by decide, by decide⟩
  simp [f1]

/-- hypotheses of `parseLines_is_dotenv_parse_text` with a rejected line in the middle: the text is `A=1⏎A B=1⏎D=d⏎` -/
example : CV.Dotenv.WF (toDotenvLines [.assign ['A'] [.lit ['1']], .bad, .assign ['D'] [.lit ['d']]]) = true ∧
    renderText [.assign ['A'] [.lit ['1']], .bad, .assign ['D'] [.lit ['d']]] =
      ['A', '=', '1', '\n', 'A', ' ', 'B', '=', '1', '\n', 'D', '=', 'd', '\n'] ∧
    parseLines (fun _ => none) [.assign ['A'] [.lit ['1']], .bad, .assign ['D'] [.lit ['d']]] [] = .error .parse := by
  decide

/-- `env_failure_spec` on concrete files: `f1` sets `A`; a second file requires `A` (satisfied through the earlier file) and
    `NOPE` (unsatisfied): the service fails at that file with `template`, and the specification says so -/
example :
    let fsq : FS := { node := fun p => if p = ['f', '1'] then some (.file f1)
      else if p = ['q'] then some (.file [.assign ['X'] [.op ['A'] .colonQ [.lit ['m']]], .assign ['Y'] [.op ['N', 'O', 'P', 'E'] .q [.lit ['m']]]])
      else none }
    (resolveServiceEnv penv0 fsq false { s0 with envFiles := [⟨['f', '1'], true, []⟩, ⟨['q'], true, []⟩, ⟨['z'], true, []⟩] }).map (·.environment)
      = .error .template ∧
    envFailureFrom penv0 fsq [] [⟨['f', '1'], true, []⟩, ⟨['q'], true, []⟩, ⟨['z'], true, []⟩] = some .template := by
  decide

/-- hypotheses of `registered_format_used` / `unregistered_format_err`: `f1` read through the registered `c16kv` parser
    gives the literal text `b${A}` to `B` (no interpolation); the same entry without registration is the `format` error -/
example :
    let fsr : FS := { fs0 with formats := fun n => if n = ['k', 'v'] then some kvParser else none }
    (loadEnvFile fsr ⟨['f', '1'], true, ['k', 'v']⟩ (fun _ => none)).map (lookup ['B']) = .ok (some ['b', '$', '{', 'A', '}']) ∧
    loadEnvFile fs0 ⟨['f', '1'], true, ['k', 'v']⟩ (fun _ => none) = .error .format := by
  decide

/-- hypotheses of `later_file_wins` hold: `f2` is the last file, gives `A` a value, `environment` does not mention `A` -/
example : envContents fs0 s0.envFiles = [f1] ++ f2 :: [] ∧ lookup ['A'] s0.environment = none ∧
    fileVal (envLook penv0 (filesVal penv0 [f1])) f2 ['A'] = some ['2'] ∧ (∀ g ∈ ([] : List (List Line)), ¬ Mentions g ['A']) := by
  refine ⟨rfl, by decide, by decide, ?_⟩
  intro g hg; cases hg

/-- hypotheses of `valueless_takes_project_env` / `valueless_absent_is_unset` / `explicit_value_wins` -/
example : lookup ['C'] s0.environment = some none ∧ lookup ['C'] penv0 = some ['c'] ∧
    lookup ['D'] s0.environment = some none ∧ lookup ['D'] penv0 = none ∧
    lookup ['E'] s0.environment = some (some ['e']) := by decide

/-- hypotheses of `labels_precedence`: label file `f1` and `labels` -/
example : Distinct s0.labels ∧
    (resolveServiceLabels fs0 false s0).map (fun s' =>
      (([['A'], ['L'], ['C']] : List Key).map fun k => lookup k s'.labels, s'.labelFiles)) =
    .ok ([some ['1'], some ['l'], none], [['f', '1']]) := by
  decide

/-- hypotheses of `missing_required_err`: the files before the missing required one load -/
example : (loadEnvFiles penv0 fs0 [⟨['f', '1'], true, []⟩] []).isOk = true ∧ Missing fs0 ['f', '3'] :=
  ⟨by decide, Or.inl rfl⟩

example : (resolveServiceEnv penv0 fs0 false { s0 with envFiles := [⟨['f', '1'], true, []⟩, ⟨['f', '3'], true, []⟩] }).map (·.environment)
    = .error .notFound := by
  decide

/-- hypotheses of `missing_optional_skipped` (ENOENT kind; the ENOTDIR kind is `Neg.witness_missing`) -/
example : Missing fs0 ['f', '3'] ∧ (⟨['f', '3'], false, []⟩ : EnvFile).required = false := ⟨Or.inl rfl, rfl⟩

example : Missing Neg.witnessFS Neg.witnessFile.path := Neg.witness_missing.1

/-- hypotheses of `missing_label_file_err` -/
example : (resolveServiceLabels fs0 false { s0 with labelFiles := [['f', '1'], ['f', '3']] }).map (·.labels) = .error .notFound := by
  decide

/-- other error classes of the model are reachable: a directory, a format, a rejected line, a failing template -/
example : (resolveServiceEnv penv0 fs0 false { s0 with envFiles := [⟨['d'], false, []⟩] }).map (·.environment) = .error .read := by decide
example : (resolveServiceEnv penv0 fs0 false { s0 with envFiles := [⟨['f', '1'], false, ['r', 'a', 'w']⟩] }).map (·.environment) = .error .format := by decide
example : parseLines (fun _ => none) [.assign ['A'] [], .bad] [] = .error .parse := by decide
example : parseLines (fun _ => none) [.assign ['A'] [.op ['X'] .colonQ [.lit ['m']]]] [] = .error .template := by decide

/-- hypotheses of `load_env_precedence`: `=`-free project keys, a sequence-form `environment` with value-less entries -/
example : NoEqKeys penv0 ∧
    (loadServiceEnv ⟨false, false, true⟩ penv0 fs0 (.list [.bare ['C'], .bare ['D'], .kv ['E'] ['e']]) s0).map
      (fun s' => (lookup ['C'] s'.environment, lookup ['D'] s'.environment)) = .ok (some (some ['c']), some none) := by
  refine ⟨by unfold NoEqKeys; decide, ?_⟩
  decide

/-- hypotheses of `env_order_independent`: a genuinely different listing of the same maps -/
example : Distinct s0.environment ∧ Distinct penv0 ∧
    s0.environment.Perm [(['E'], some ['e']), (['C'], none), (['D'], none)] := by
  refine ⟨by decide, by decide, ?_⟩
  decide

/-- hypotheses of `env_any_iteration_order`: a run that iterates `environment` backwards exists -/
example : RangeResolve (fun k => lookup k penv0) s0.environment
    (resolveMWE (fun k => lookup k penv0) s0.environment.reverse) :=
  ⟨s0.environment.reverse, (List.reverse_perm _).symm, by decide, fun _ => rfl⟩

/-- hypothesis of `crossref_chain` / `file_value_chain` / `default_chain` / `bare_line_inherits`: a key not mentioned later -/
example : ¬ Mentions [Line.assign ['X'] []] ['A'] := by
  intro ⟨l, hl, e⟩
  simp only [List.mem_singleton] at hl
  subst hl
  simp [Line.key?] at e

end Example

end CV.EnvLayers
