import ComposeVerif.Props.C04Frame
/-!
# C04 — the frame law through the whole fold over documents

`deep_frame` speaks about one `override.Merge`.  A document is merged **and** de-duplicated; the theorems here carry the
frame law through `EnforceUnicity` and through any number of documents:

* `enforce_getPath` — `EnforceUnicity` acts on the value at a key path as `enforceUnicity` at the corresponding tree path;
* `fixpoint_sub` — inside a fixed point every sub-value is a fixed point;
* `docStep_deep_frame` — one untagged document that does not mention `path` leaves the value at `path` of a
  de-duplicated model untouched;
* `loadDocs_deep_frame` — **any number of documents**: what none of them mentions is, after all of them, exactly what it was.
-/
namespace CV.C04
open CV CV.Val CV.Merge CV.Unicity CV.Reset CV.Override

/-- the tree path reached from `p` by the keys of `path` -/
def tpathOf (p : TPath) : List String → TPath
  | [] => p
  | k :: r => tpathOf (next p k) r

mutual
theorem applyNull_nil : ∀ (v : Val) (p : TPath), applyNull [] v p = v
  | .map kvs, p => by simp only [applyNull, applyKVs_nil kvs p]
  | .seq xs, p => by simp only [applyNull, applySeq_nil xs p 0]
  | .null, _ => by simp [applyNull]
  | .bool _, _ => by simp [applyNull]
  | .int _, _ => by simp [applyNull]
  | .float _, _ => by simp [applyNull]
  | .str _, _ => by simp [applyNull]
theorem applyKVs_nil : ∀ (kvs : KVs) (p : TPath), applyKVs [] kvs p = kvs
  | [], _ => by simp [applyKVs]
  | (k, e) :: r, p => by
    simp only [applyKVs, matchesAny, List.any_nil, Bool.false_eq_true, if_false, applyNull_nil e (next p k), applyKVs_nil r p]
theorem applySeq_nil : ∀ (xs : List Val) (p : TPath) (i : Nat), applySeq [] xs p i = xs
  | [], _, _ => by simp [applySeq]
  | e :: r, p, i => by
    simp only [applySeq, matchesAny, List.any_nil, Bool.false_eq_true, if_false, applyNull_nil e _, applySeq_nil r p (i + 1)]
end

theorem enforceKVs_lookup : ∀ (kvs m : KVs) (p : TPath) (k : String) (x : Val),
    enforceKVs kvs p = .ok m → lookup k kvs = some x → ∃ y, enforce x (next p k) = .ok y ∧ lookup k m = some y := by
  intro kvs
  induction kvs with
  | nil => intro m p k x _ hl; simp [lookup] at hl
  | cons hd tl ih =>
    obtain ⟨k', e⟩ := hd
    intro m p k x h hl
    simp only [enforceKVs] at h
    obtain ⟨u, hu, h⟩ := out_bind_ok h
    obtain ⟨r', hr, h⟩ := out_bind_ok h
    simp only [Out.ok.injEq] at h; subst h
    simp only [lookup] at hl ⊢
    by_cases hk : k = k'
    · simp only [hk, if_true, Option.some.injEq] at hl ⊢
      subst hl; exact ⟨u, hu, rfl⟩
    · simp only [hk, if_false] at hl ⊢
      exact ih r' p k x hr hl

/-- `EnforceUnicity` acts on the value at a key path as `enforceUnicity` at the corresponding tree path -/
theorem enforce_getPath : ∀ (path : List String) (v u : Val) (p : TPath) (x : Val),
    enforce v p = .ok u → getPath v path = some x → ∃ y, enforce x (tpathOf p path) = .ok y ∧ getPath u path = some y
  | [], v, u, p, x, h, hg => by
    simp only [getPath, Option.some.injEq] at hg; subst hg
    exact ⟨u, h, rfl⟩
  | k :: r, v, u, p, x, h, hg => by
    cases v with
    | map kvs =>
      simp only [enforce] at h
      obtain ⟨m, hm, h⟩ := out_bind_ok h
      simp only [Out.ok.injEq] at h; subst h
      simp only [getPath] at hg
      cases hl : lookup k kvs with
      | none => rw [hl] at hg; simp at hg
      | some x1 =>
        rw [hl] at hg
        obtain ⟨y1, hy1, hl1⟩ := enforceKVs_lookup kvs m p k x1 hm hl
        obtain ⟨y, hy, hgy⟩ := enforce_getPath r x1 y1 (next p k) x hy1 hg
        exact ⟨y, hy, by simp only [getPath, hl1]; exact hgy⟩
    | null => simp [getPath] at hg
    | bool _ => simp [getPath] at hg
    | int _ => simp [getPath] at hg
    | float _ => simp [getPath] at hg
    | str _ => simp [getPath] at hg
    | seq _ => simp [getPath] at hg

/-- inside a fixed point of `EnforceUnicity` every sub-value is a fixed point -/
theorem fixpoint_sub (path : List String) (v : Val) (p : TPath) (x : Val)
    (h : enforce v p = .ok v) (hg : getPath v path = some x) : enforce x (tpathOf p path) = .ok x := by
  obtain ⟨y, hy, hgy⟩ := enforce_getPath path v v p x h hg
  rw [hg] at hgy
  simp only [Option.some.injEq] at hgy
  subst hgy; exact hy

theorem enforceTop_eq_enforce {v u : Val} (h : enforceTop v = .ok u) : enforce v TPath.root = .ok u := by
  unfold enforceTop at h
  cases v <;> first | exact h | simp at h

/-- one untagged document that does not mention `path` leaves the value at `path` of a de-duplicated model untouched -/
theorem docStep_deep_frame (dict : Val) (doc : YNode) (r v : Val) (path : List String)
    (hnotag : (readDoc doc).2 = []) (hfix : enforceTop dict = .ok dict)
    (hg : getPath dict path = some v) (hu : Unmentioned (readDoc doc).1 path) (hf : RuleFree TPath.root path)
    (h : docStep .ok dict doc = .ok r) : getPath r path = some v := by
  simp only [docStep, hnotag, applyNull_nil] at h
  obtain ⟨m, hm, h⟩ := out_bind_ok h
  obtain ⟨u, hu', h⟩ := out_bind_ok h
  simp only [Out.ok.injEq] at h; subst h
  have hgm : getPath m path = some v := merge_deep_frame dict _ m v path hm hg hu hf
  obtain ⟨y, hy, hgy⟩ := enforce_getPath path m u TPath.root v (enforceTop_eq_enforce hu') hgm
  have := fixpoint_sub path dict TPath.root v (enforceTop_eq_enforce hfix) hg
  rw [this] at hy
  simp only [Out.ok.injEq] at hy
  rw [hy]; exact hgy

/-- **any number of documents**: what none of them mentions (and no tag touches) is, after all of them, what it was -/
theorem loadDocs_deep_frame (path : List String) (v : Val) (hf : RuleFree TPath.root path) :
    ∀ (docs : List YNode) (dict r : Val),
      (∀ d ∈ docs, (readDoc d).2 = [] ∧ Unmentioned (readDoc d).1 path) →
      enforceTop dict = .ok dict → getPath dict path = some v →
      loadDocs .ok dict docs = .ok r → getPath r path = some v := by
  intro docs
  induction docs with
  | nil => intro dict r _ _ hg h; simp only [loadDocs, Out.ok.injEq] at h; subst h; exact hg
  | cons d ds ih =>
    intro dict r hall hfix hg h
    simp only [loadDocs] at h
    obtain ⟨dict', h1, h2⟩ := out_bind_ok h
    obtain ⟨hnt, hun⟩ := hall d (by simp)
    have hg' := docStep_deep_frame dict d dict' v path hnt hfix hg hun hf h1
    have hfix' : enforceTop dict' = .ok dict' := by
      have := docStepU_deduplicated .ok dict d dict' (by rw [second_enforce_redundant_without_post]; exact h1)
      exact this
    exact ih dict' r (fun d' hd' => hall d' (by simp [hd'])) hfix' hg' h2

/-- three documents; none mentions `services.db.image` (the second mentions `db`, the third only `web`) -/
example : loadDocs .ok (.map [("services", .map [("db", .map [("image", .str "postgres")]), ("web", .map [("image", .str "nginx")])])])
    [.map .none [("services", .map .none [("db", .map .none [("command", .scalar .none (.str "x"))])])],
     .map .none [("services", .map .none [("web", .map .none [("image", .scalar .none (.str "caddy"))])])]]
    = .ok (.map [("services", .map [("db", .map [("image", .str "postgres"), ("command", .str "x")]), ("web", .map [("image", .str "caddy")])])]) := by rfl

end CV.C04
