import ComposeVerif.Lemmas.Heap
import ComposeVerif.Gen.CopyPlan
import ComposeVerif.Gen.Derivations
/-!
# C14 — projects are immutable values: derivations copy, never alias or mutate

Property theorems only (definitions: `Model/Heap.lean`, `Spec/Heap.lean`; helper lemmas: `Lemmas/Heap.lean`).
`Gen.CopyPlan` is regenerated from `types/*.go` and `types/derived.gen.go` on every run.
-/
namespace CV.Heap
open CV.Gen.CopyPlan

/-- the Go type of a hand-written `deepCopy()` root, with every named type resolved through the regenerated type table -/
def rootTy (r : String × Ty × Plan) : Ty := Ty.resolve types 64 r.2.1
/-- the statements it executes, with every call of a generated function inlined -/
def rootPlan (r : String × Ty × Plan) : Plan := Plan.resolve fns 64 r.2.2

/-- **the generated copy code is deep and covers every field** — for the copy functions and struct definitions that are
in the source tree *now*.  A struct field added without regenerating `derived.gen.go` falsifies `covers`; a shallow
assignment of a field that holds a map, slice or pointer falsifies `deep`; a statement of an unrecognised shape is
`Plan.unknown`, which satisfies neither. -/
theorem copyPlan_ok :
    roots.map (·.1) = ["Project", "ServiceConfig"] ∧
    ∀ r ∈ roots, deep (rootTy r) (rootPlan r) = true ∧ covers (rootTy r) (rootPlan r) = true := by
  decide +kernel

/-- **deep_copy_sound** (all types, plans, values, allocation states): executing a deep, covering plan on a well-typed
value whose addresses lie below the allocation frontier yields a value that shares no address with the source, is
deeply equal to it, has the same type, and lies entirely in the freshly allocated range. -/
theorem deep_copy_sound (t : Ty) (p : Plan) (v : GoVal) (n : Nat)
    (ht : hasTy t v = true) (hd : deep t p = true) (hc : covers t p = true) (hb : Below n v) :
    Isolated (exec p v n).1 v ∧ DeepEq (exec p v n).1 v ∧ hasTy t (exec p v n).1 = true ∧
      Within n (exec p v n).2 (addrs (exec p v n).1) := by
  have hf := exec_fresh v p t n ht hd
  refine ⟨?_, exec_erase v p t n ht hc, exec_hasTy v p t n ht hc, hf⟩
  intro a ha hav
  have := (hf.2 a ha).1
  have := hb a hav
  omega

/-- the two `deepCopy()` methods of compose-go, as they are in the tree now: isolated deep-equal copies of every project / service -/
theorem deepCopy_roots_sound (r : String × Ty × Plan) (hr : r ∈ roots) (v : GoVal) (n : Nat)
    (ht : hasTy (rootTy r) v = true) (hb : Below n v) :
    Isolated (exec (rootPlan r) v n).1 v ∧ DeepEq (exec (rootPlan r) v n).1 v :=
  have h := copyPlan_ok.2 r hr
  have s := deep_copy_sound (rootTy r) (rootPlan r) v n ht h.1 h.2 hb
  ⟨s.1, s.2.1⟩

/-- **mutating either afterwards never changes the other**: a write through any address of the copy leaves the source
as it was, and a write through any address of the source leaves the copy as it was. -/
theorem mutation_isolated (t : Ty) (p : Plan) (v : GoVal) (n : Nat)
    (ht : hasTy t v = true) (hd : deep t p = true) (hb : Below n v) :
    (∀ a ∈ addrs (exec p v n).1, ∀ c, write a c v = v) ∧
    (∀ a ∈ addrs v, ∀ c, write a c (exec p v n).1 = (exec p v n).1) := by
  have hf := exec_fresh v p t n ht hd
  constructor
  · intro a ha c
    apply write_not_mem
    intro hav
    have := (hf.2 a ha).1
    have := hb a hav
    omega
  · intro a hav c
    apply write_not_mem
    intro ha
    have := (hf.2 a ha).1
    have := hb a hav
    omega

/-- **derivation_isolated**: a derivation = deep copy of the receiver, then writes confined to memory allocated since
(no value of the receiver is stored, nothing of the receiver is written).  Then every project allocated before the
frontier — the receiver in particular — is unchanged by the derivation's writes, the result shares no address with the
receiver, and the result lies in the fresh range. -/
theorem derivation_isolated (t : Ty) (p : Plan) (v : GoVal) (n : Nat) (ws : List (Nat × Cell)) (v' : GoVal) (n' : Nat)
    (ht : hasTy t v = true) (hd : deep t p = true) (hb : Below n v) (hs : DerivStep p v n ws v' n') :
    (∀ u, Below n u → writes ws u = u) ∧ Isolated v' v ∧ Within n n' (addrs v') := by
  obtain ⟨hm, hcf, rfl⟩ := hs
  have hf := exec_fresh v p t n ht hd
  have hw : Within n n' (addrs (writes ws (exec p v n).1)) := by
    refine ⟨Nat.le_trans hf.1 hm, ?_⟩
    intro x hx
    rcases addrs_writes ws _ x hx with h | ⟨w, hw, hxw⟩
    · have := hf.2 x h; omega
    · exact (hcf w hw).2 x hxw
  refine ⟨?_, ?_, hw⟩
  · intro u hu
    apply writes_not_mem
    intro w hw hmem
    have := (hcf w hw).1
    have := hu _ hmem
    omega
  · intro a ha hav
    have := (hw.2 a ha).1
    have := hb a hav
    omega

/-- every project of a history lies above the frontier the history started from -/
theorem history_above {t : Ty} {p : Plan} (hd : deep t p = true) :
    ∀ {v : GoVal} {n : Nat} {l : List (List (Nat × Cell) × GoVal)}, History t p v n l → hasTy t v = true → Below n v →
      ∀ e ∈ l, ∀ a ∈ addrs e.2, n ≤ a := by
  intro v n l h
  induction h with
  | nil => intro _ _ e he; cases he
  | @cons v v' n n' ws rest hs ht' _ ih =>
    intro ht hb e he a ha
    have hd' := derivation_isolated t p v n ws v' n' ht hd hb hs
    rcases List.mem_cons.mp he with rfl | he'
    · exact (hd'.2.2.2 a ha).1
    · have hb' : Below n' v' := fun x hx => (hd'.2.2.2 x hx).2
      have := ih ht' hb' e he' a ha
      have := hd'.2.2.1
      omega

/-- **histories** (any length): in any sequence of derivations, the original project is unchanged by the writes of every
step, and the projects of the history are pairwise isolated. -/
theorem history_isolated {t : Ty} {p : Plan} (hd : deep t p = true) :
    ∀ {v : GoVal} {n : Nat} {l : List (List (Nat × Cell) × GoVal)}, History t p v n l → hasTy t v = true → Below n v →
      (∀ e ∈ l, writes e.1 v = v) ∧ List.Pairwise Isolated (v :: l.map (·.2)) := by
  intro v n l h
  induction h with
  | nil => intro _ _; exact ⟨fun e he => (by cases he), (by simp)⟩
  | @cons v v' n n' ws rest hs ht' hrest ih =>
    intro ht hb
    have hd' := derivation_isolated t p v n ws v' n' ht hd hb hs
    have hb' : Below n' v' := fun x hx => (hd'.2.2.2 x hx).2
    have hbn' : Below n' v := fun x hx => by have := hb x hx; have := hd'.2.2.1; omega
    obtain ⟨ih1, ih2⟩ := ih ht' hb'
    constructor
    · intro e he
      rcases List.mem_cons.mp he with rfl | he'
      · exact hd'.1 v hb
      · -- a later step starts from a frontier ≥ n', above every address of v
        have : ∀ {w : GoVal} {m : Nat} {l' : List (List (Nat × Cell) × GoVal)}, History t p w m l' → hasTy t w = true → Below m w →
            ∀ u, Below m u → ∀ e ∈ l', writes e.1 u = u := by
          intro w m l' h'
          induction h' with
          | nil => intro _ _ _ _ e he; cases he
          | @cons w w' m m' ws' rest' hs' htw' _ ih' =>
            intro htw hbw u hu e he
            have hdw := derivation_isolated t p w m ws' w' m' htw hd hbw hs'
            rcases List.mem_cons.mp he with rfl | he''
            · exact hdw.1 u hu
            · have hbw' : Below m' w' := fun x hx => (hdw.2.2.2 x hx).2
              have hu' : Below m' u := fun x hx => by have := hu x hx; have := hdw.2.2.1; omega
              exact ih' htw' hbw' u hu' e he''
        exact this hrest ht' hb' v hbn' e he'
    · simp only [List.map_cons, List.pairwise_cons] at ih2 ⊢
      refine ⟨?_, ih2⟩
      intro w hw a ha hav
      -- w is v' or a later project: all its addresses are ≥ n; those of v are < n.  `Isolated v w`: a ∈ addrs v → a ∉ addrs w
      rcases List.mem_cons.mp hw with rfl | hw'
      · have := (hd'.2.2.2 a hav).1
        have := hb a ha
        omega
      · obtain ⟨e, he, rfl⟩ := List.mem_map.mp hw'
        have := history_above hd hrest ht' hb' e he a hav
        have := hb a ha
        have := hd'.2.2.1
        omega

/-! ## the derivations of `types/project.go`, as they are in the tree now (facts regenerated by `translator/escapes.go`)

`derivation_isolated` assumes `Confined`: after the copy, nothing is written through the receiver and no value read from
the receiver is stored.  The following theorems re-check the syntactic counterpart of that hypothesis on every run. -/

open CV.Gen.Derivations in
/-- no derivation stores, returns or hands on a reference-bearing value read from its receiver, and none writes through it -/
theorem no_receiver_escape : receiverEscapes = [] ∧ receiverWrites = [] := by decide

open CV.Gen.Derivations in
/-- every method of `Project` that returns a `*Project` obtains it from `recv.deepCopy()` (or from another derivation) and
returns only that copy, `nil`, or another derivation's result -/
theorem derivations_start_from_copy :
    ∀ d ∈ derivations, (d.2.1 = "copy" ∨ d.2.1 = "delegate") ∧ ∀ r ∈ d.2.2, r = "copy-var" ∨ r = "nil" ∨ r = "delegate" := by
  decide

open CV.Gen.Derivations in
/-- the derivations that exist are exactly the ones the real-code oracle drives (`harness/c14.go`, `c14OpPool`);
a new derivation breaks this theorem until the oracle covers it -/
theorem derivations_listed :
    derivations.map (·.1) = ["WithImagesResolved", "WithProfiles", "WithSelectedServices", "WithServicesDisabled",
      "WithServicesEnabled", "WithServicesEnvironmentResolved", "WithServicesLabelsResolved", "WithServicesTransform",
      "WithoutUnnecessaryResources"] := by
  decide

open CV.Gen.Derivations in
/-- `ForEachService` hands every visitor a deep copy of the service -/
theorem visitor_gets_copy : visitorArgs = ["service.deepCopy()"] := by decide

/-! ## non-vacuity: the hypotheses are satisfiable by non-trivial values -/

/-- a struct with a scalar, a map of pointers to structs holding a slice, and an extension map with an opaque payload -/
def exTy : Ty := .struct [(0, .scalar), (1, .map (.ptr (.struct [(2, .slice .scalar)]))), (3, .map .iface)]
def exPlan : Plan := .fields [(0, .assign), (1, .newMap (.newPtr (.fields [(2, .newSlice .assign)]))), (3, .newMap .assign)]
def exVal : GoVal := .struct [(.fld 0, .scalar "s:n"), (.fld 1, .map 1 [(.str "k", .ptr 2 (.struct [(.fld 2, .slice 3 [(.idx, .scalar "s:x")])]))]),
  (.fld 3, .map 4 [(.str "x-a", .opaque 9 "map[k:v]")])]

example : hasTy exTy exVal = true ∧ deep exTy exPlan = true ∧ covers exTy exPlan = true ∧ Below 5 exVal := by
  refine ⟨by decide, by decide, by decide, ?_⟩
  intro a ha
  have : a ∈ [1, 2, 3, 4] := by simpa [exVal, addrs, addrsKids] using ha
  simp at this; omega

/-- the copy really allocates: its addresses are 5, 6, 7, 8, and the opaque payload is the shared one -/
example : addrs (exec exPlan exVal 5).1 = [5, 6, 7, 8] ∧ oaddrs (exec exPlan exVal 5).1 = [9] := by decide

/-- a derivation step with a non-trivial confined write (replace the copied slice's content, allocate a new pointee) -/
example : DerivStep exPlan exVal 5 [(7, .kids [(.idx, .scalar "s:y")]), (6, .pointee (.struct [(.fld 2, .slice 9 [])]))]
    (writes [(7, .kids [(.idx, .scalar "s:y")]), (6, .pointee (.struct [(.fld 2, .slice 9 [])]))] (exec exPlan exVal 5).1) 10 := by
  refine ⟨by decide, ?_, rfl⟩
  intro w hw
  simp only [List.mem_cons, List.mem_nil_iff, or_false] at hw
  rcases hw with rfl | rfl
  · exact ⟨by decide, by intro a ha; simp [cellAddrs, addrsKids, addrs] at ha⟩
  · refine ⟨by decide, ?_⟩
    intro a ha
    have : a = 9 := by simpa [cellAddrs, addrsKids, addrs] using ha
    omega

/-- the real roots are non-trivial: the Project plan copies 12 fields, the ServiceConfig plan 96 -/
example : (roots.map fun r => match rootPlan r with | .newPtr (.fields ps) => ps.length | _ => 0) = [12, 96] := by decide +kernel

end CV.Heap
