import ComposeVerif.Props.C11Stages
/-!
# C11 — lifting the cross-stage facts from one service to the whole model: the three-stage fixed point

`Props/C11Stages.lean` proves, for the attributes of ONE service, that `Normalize` keeps a fixed point of `Canonical`
(`svcCanon_normSvc`).  Here that fact is lifted over the `services` mapping and the top level:

* `canonServices_fixed_iff` — the services mapping is a fixed point of (the modelled part of) `Canonical` iff every
  service that is a mapping is (`SvcsCanon`);
* `canonicalLite_fixed_iff` — the same for a whole model;
* `svcsCanon_normalized` — `Normalize` keeps it: the services of `normalizePure d` are canonical when those of `d` are;
* `canonical_fixed_after_normalize` — **a model that `Canonical` leaves alone is still left alone after `Normalize`**:
  `canonicalLite d = ok d → canonicalLite (normalizePure d) = ok (normalizePure d)`;
* `canonical_fixed_after_setDefaults` — and after `SetDefaultValues` (the walker reaches no `depends_on` / `env_file`);
  `pipeline_result_canonical` — hence the result `e` of the three stages is a fixed point of the first stage;
* `setDefaults_off_services`, `services_defaulted_normalized`, `defaults_fixed_after_normalize` — **`Normalize` keeps a
  fixed point of `SetDefaultValues`** (whole model: the sections it names are off the table, the services by
  `svcDefaulted_normSvc`);
* `pipeline_fixed_point`, `pipeline_implicit_eq_explicit` — **`pipeline d = ok e → pipeline e = ok e`**: the model with
  every default written out loads, through all three defaulting stages, to what the implicit model loads to (whole
  model; hypotheses `EscFacts`, `RootFacts`, `clean` idempotent, no variable with an empty name).
-/
namespace CV.C11
open CV CV.Val

/-- every service that is a mapping is a fixed point of `canonSvcAttrs` -/
def SvcsCanon (svcs : KVs) : Prop := ∀ kv ∈ svcs, ∀ s, kv.2 = .map s → SvcCanon s

theorem canonServices_fixed_iff : ∀ svcs : KVs, canonServices svcs = .ok svcs ↔ SvcsCanon svcs
  | [] => by simp [canonServices, SvcsCanon]
  | (k, v) :: r => by
    have ih := canonServices_fixed_iff r
    have hcons : SvcsCanon ((k, v) :: r) ↔ (∀ s, v = .map s → SvcCanon s) ∧ SvcsCanon r := by
      unfold SvcsCanon
      constructor
      · intro h
        exact ⟨fun s hs => h (k, v) (List.mem_cons_self) s hs, fun kv hkv => h kv (List.mem_cons_of_mem _ hkv)⟩
      · intro ⟨h1, h2⟩ kv hkv
        rcases List.mem_cons.mp hkv with rfl | hkv
        · exact h1
        · exact h2 kv hkv
    rw [hcons, ← ih]
    cases v with
    | map s =>
      rw [show (∀ s', Val.map s = .map s' → SvcCanon s') ↔ SvcCanon s from
        ⟨fun h => h s rfl, fun h s' hs => by injection hs with hs; subst hs; exact h⟩, ← svcCanon_iff]
      simp only [canonServices]
      cases hs : canonSvcAttrs s with
      | ok s' =>
        cases hr : canonServices r with
        | ok r' => simp
        | err e => simp
        | panic z => simp
      | err e => simp
      | panic z => simp
    | null => simp only [canonServices]; cases hr : canonServices r <;> simp
    | bool _ => simp only [canonServices]; cases hr : canonServices r <;> simp
    | int _ => simp only [canonServices]; cases hr : canonServices r <;> simp
    | float _ => simp only [canonServices]; cases hr : canonServices r <;> simp
    | str _ => simp only [canonServices]; cases hr : canonServices r <;> simp
    | seq _ => simp only [canonServices]; cases hr : canonServices r <;> simp

/-- a whole model is a fixed point of the modelled part of `Canonical` iff its services are -/
theorem canonicalLite_fixed_iff (d : KVs) :
    canonicalLite d = .ok (.map d) ↔ (∀ svcs, lookup "services" d = some (.map svcs) → SvcsCanon svcs) := by
  unfold canonicalLite
  cases hl : lookup "services" d with
  | none => simp
  | some v =>
    cases v with
    | map svcs =>
      simp only [Option.some.injEq, Val.map.injEq, forall_eq']
      rw [← canonServices_fixed_iff]
      cases hc : canonServices svcs with
      | ok s' =>
        simp only [Out.ok.injEq, Val.map.injEq]
        constructor
        · intro h
          have := congrArg (lookup "services") h
          rw [lookup_insert_self, hl] at this
          simpa using this
        · intro h
          rw [h]
          exact insert_of_lookup hl
      | err e => simp
      | panic z => simp
    | null => simp
    | bool _ => simp
    | int _ => simp
    | float _ => simp
    | str _ => simp
    | seq _ => simp

/-- `Normalize` keeps the services canonical -/
theorem svcsCanon_normalized (clean : String → String) (env : Env) (svcs : KVs) (h : SvcsCanon svcs) :
    SvcsCanon (mapVals (normServiceV clean env) (mapVals nnServiceV svcs)) := by
  intro kv hkv s hs
  unfold mapVals at hkv
  rw [List.map_map] at hkv
  obtain ⟨kv0, hkv0, rfl⟩ := List.mem_map.mp hkv
  simp only [Function.comp] at hs
  cases hv : kv0.2 with
  | map s0 =>
    rw [hv] at hs
    simp only [nnServiceV, normServiceV, Val.map.injEq] at hs
    subst hs
    exact svcCanon_normSvc clean env s0 (h kv0 hkv0 s0 hv)
  | null => rw [hv] at hs; simp [nnServiceV, normServiceV] at hs
  | bool _ => rw [hv] at hs; simp [nnServiceV, normServiceV] at hs
  | int _ => rw [hv] at hs; simp [nnServiceV, normServiceV] at hs
  | float _ => rw [hv] at hs; simp [nnServiceV, normServiceV] at hs
  | str _ => rw [hv] at hs; simp [nnServiceV, normServiceV] at hs
  | seq _ => rw [hv] at hs; simp [nnServiceV, normServiceV] at hs

/-- **a model that `Canonical` leaves alone is still left alone after `Normalize`** (whole model: the implied
`depends_on` entries `Normalize` adds to any service are canonical, nothing else it writes is a `depends_on` or an
`env_file`) -/
theorem canonical_fixed_after_normalize (clean : String → String) (env : Env) (d : KVs)
    (h : canonicalLite d = .ok (.map d)) :
    canonicalLite (normalizePure clean env d) = .ok (.map (normalizePure clean env d)) := by
  rw [canonicalLite_fixed_iff] at h ⊢
  intro svcs' hs'
  rw [normalized_services] at hs'
  cases hl : lookup "services" d with
  | none => rw [hl] at hs'; simp at hs'
  | some v =>
    rw [hl] at hs'
    simp only [Option.map_some, Option.some.injEq] at hs'
    cases v with
    | map svcs =>
      simp only [nnTop, nsTop, if_true, Val.map.injEq] at hs'
      subst hs'
      exact svcsCanon_normalized clean env svcs (h svcs hl)
    | null => simp [nnTop, nsTop] at hs'
    | bool _ => simp [nnTop, nsTop] at hs'
    | int _ => simp [nnTop, nsTop] at hs'
    | float _ => simp [nnTop, nsTop] at hs'
    | str _ => simp [nnTop, nsTop] at hs'
    | seq _ => simp [nnTop, nsTop] at hs'

/-! ## `SetDefaultValues` keeps a fixed point of `Canonical` (whole model) -/

/-- the value the walker leaves under key `k` of a mapping is the walker's result on the FIRST entry with that key -/
theorem lookup_setDefaultsKVs (tbl : List (List String × String)) (p : TPath) :
    ∀ (kvs kvs' : List (String × Val)), setDefaultsKVs tbl p kvs = .ok kvs' →
      ∀ k v', lookup k kvs' = some v' → ∃ v, lookup k kvs = some v ∧ setDefaults tbl (p.next k) v = .ok v'
  | [], kvs', h => by
    simp only [setDefaultsKVs, Out.ok.injEq] at h; subst h; intro k v' hk; simp [lookup] at hk
  | (k0, v0) :: r, kvs', h => by
    rw [setDefaultsKVs] at h
    cases hv : setDefaults tbl (p.next k0) v0 with
    | ok w =>
      simp only [hv] at h
      cases hr : setDefaultsKVs tbl p r with
      | ok r' =>
        simp only [hr, Out.ok.injEq] at h
        subst h
        intro k v' hk
        by_cases e : k = k0
        · subst e
          simp only [lookup, if_true, Option.some.injEq] at hk ⊢
          subst hk
          exact ⟨v0, rfl, hv⟩
        · simp only [lookup, e, if_false] at hk ⊢
          exact lookup_setDefaultsKVs tbl p r r' hr k v' hk
      | err e => simp [hr] at h
      | panic z => simp [hr] at h
    | err e => simp [hv] at h
    | panic z => simp [hv] at h

/-- **a model that `Canonical` leaves alone is still left alone after `SetDefaultValues`** (whole model; regenerated
table): the walker reaches `services.<x>.depends_on / env_file` nowhere.  Visible hypotheses: `EscFacts`, and the closed
fact `root.Next("services") = ["services"]` (`String.splitOn`, not evaluable by the kernel; compared with Go's
`tree.Path.Next` by `c11.next` in every run). -/
theorem canonical_fixed_after_setDefaults (hesc : EscFacts) (hroot : TPath.root.next "services" = ["services"])
    (c s : KVs) (hc : canonicalLite c = .ok (.map c))
    (hs : setDefaultValues CV.Gen.defaultValues c = .ok (.map s)) : canonicalLite s = .ok (.map s) := by
  rw [canonicalLite_fixed_iff] at hc ⊢
  intro svcs' hl'
  unfold setDefaultValues setDefaults at hs
  have hr0 : TPath.firstMatch CV.Gen.defaultValues TPath.root = none := by
    simp [TPath.firstMatch, CV.Gen.defaultValues, TPath.pmatch, TPath.root]
  simp only [hr0] at hs
  cases hk : setDefaultsKVs CV.Gen.defaultValues TPath.root c with
  | err e => simp [hk] at hs
  | panic z => simp [hk] at hs
  | ok s0 =>
    simp only [hk, Out.ok.injEq, Val.map.injEq] at hs
    subst hs
    obtain ⟨v, hv, hw⟩ := lookup_setDefaultsKVs _ _ c s0 hk "services" (.map svcs') hl'
    rw [hroot] at hw
    unfold setDefaults at hw
    have hr1 : TPath.firstMatch CV.Gen.defaultValues ["services"] = none := by
      simp [TPath.firstMatch, CV.Gen.defaultValues, TPath.pmatch]
    simp only [hr1] at hw
    cases v with
    | map svcs =>
      simp only at hw
      cases hk2 : setDefaultsKVs CV.Gen.defaultValues ["services"] svcs with
      | err e => simp [hk2] at hw
      | panic z => simp [hk2] at hw
      | ok svcs2 =>
        simp only [hk2, Out.ok.injEq, Val.map.injEq] at hw
        subst hw
        intro kv hkv sattrs hkv2
        obtain ⟨a, ha, _, hwa⟩ := mem_of_setDefaultsKVs _ _ svcs svcs2 hk2 kv hkv
        have hnext : TPath.next ["services"] a.1 = ["services", a.1.replace "." TPath.ghost] := by
          simp [TPath.next, TPath.root]
        rw [hnext, hkv2] at hwa
        unfold setDefaults at hwa
        have hr2 : TPath.firstMatch CV.Gen.defaultValues ["services", a.1.replace "." TPath.ghost] = none := by
          simp [TPath.firstMatch, CV.Gen.defaultValues, TPath.pmatch]
        simp only [hr2] at hwa
        cases ha2 : a.2 with
        | map attrs =>
          rw [ha2] at hwa
          simp only at hwa
          cases hk3 : setDefaultsKVs CV.Gen.defaultValues ["services", a.1.replace "." TPath.ghost] attrs with
          | err e => simp [hk3] at hwa
          | panic z => simp [hk3] at hwa
          | ok sattrs' =>
            simp only [hk3, Out.ok.injEq, Val.map.injEq] at hwa
            subst hwa
            exact svcCanon_setDefaults hesc _ attrs sattrs' (hc svcs hv a ha attrs ha2) hk3
        | seq xs =>
          rw [ha2] at hwa
          simp only at hwa
          cases hk3 : setDefaultsList CV.Gen.defaultValues ["services", a.1.replace "." TPath.ghost] xs <;> simp [hk3] at hwa
        | null => rw [ha2] at hwa; simp at hwa
        | bool _ => rw [ha2] at hwa; simp at hwa
        | int _ => rw [ha2] at hwa; simp at hwa
        | float _ => rw [ha2] at hwa; simp at hwa
        | str _ => rw [ha2] at hwa; simp at hwa
    | seq xs =>
      simp only at hw
      cases hk2 : setDefaultsList CV.Gen.defaultValues ["services"] xs <;> simp [hk2] at hw
    | null => simp at hw
    | bool _ => simp at hw
    | int _ => simp at hw
    | float _ => simp at hw
    | str _ => simp at hw

/-- **the result of the three stages is a fixed point of the first one**: `pipeline d = ok e` (every default written
out) → `Canonical` leaves `e` alone.  With `pipeline_stage_fixed_points` (`Normalize` leaves `e` alone) two of the three
facts that `pipeline e = ok e` needs are proved for the whole model; the third (`SetDefaultValues` on `e`) stays open. -/
theorem pipeline_result_canonical (hesc : EscFacts) (hroot : TPath.root.next "services" = ["services"])
    (clean : String → String) (env : Env) (d e : KVs)
    (h : pipeline CV.Gen.defaultValues clean env d = .ok e) : canonicalLite e = .ok (.map e) := by
  obtain ⟨c, s, h1, h2, h3⟩ := pipeline_stages _ clean env d e h
  obtain ⟨c', hc', hcc⟩ := canonicalLite_idem d _ h1
  cases hc'
  have hs := canonical_fixed_after_setDefaults hesc hroot c s hcc h2
  have he : e = normalizePure clean env s := by
    unfold normalize at h3
    split at h3
    · cases h3
    · split at h3
      · cases h3
      · split at h3
        · cases h3
        · injection h3 with h3; exact h3.symm
  rw [he]
  exact canonical_fixed_after_normalize clean env s hs

/-! ## `Normalize` keeps a fixed point of `SetDefaultValues` (whole model) -/

/-- closed facts about `tree.Path.Next` at the root (it splits instead of escaping): the five section names `Normalize`
rewrites have no dot.  `String.splitOn` is not evaluable by the kernel; `c11.next` compares exactly these with Go. -/
def RootFacts : Prop :=
  ∀ k ∈ ["services", "networks", "volumes", "configs", "secrets"], TPath.root.next k = [k]

theorem next_single {k : String} (hk : k ≠ "") (x : String) :
    TPath.next [k] x = [k, x.replace "." TPath.ghost] := by
  simp [TPath.next, TPath.root, hk]

theorem setDefaultsList_quiet_next (tbl : List (List String × String)) (q : TPath) (hq : Quiet tbl (q.next "[]")) :
    ∀ xs : List Val, setDefaultsList tbl q xs = .ok xs
  | [] => by simp [setDefaultsList]
  | v :: r => by
    rw [setDefaultsList]
    simp only [setDefaults_quiet tbl v _ hq, setDefaultsList_quiet_next tbl q hq r]

/-- below a top-level section other than `services` the regenerated table has nothing -/
theorem quiet_off_services {k : String} (hk : k ≠ "services") (x : String) : Quiet CV.Gen.defaultValues [k, x] :=
  ⟨by simp, fun l => by simp [TPath.firstMatch, CV.Gen.defaultValues, TPath.pmatch, Ne.symm hk]⟩

/-- **the walker is the identity on a top-level section other than `services`** (networks, volumes, … whatever
`Normalize` wrote into them) -/
theorem setDefaults_off_services {k : String} (hk : k ≠ "services") (hk0 : k ≠ "") (v : Val) :
    setDefaults CV.Gen.defaultValues [k] v = .ok v := by
  unfold setDefaults
  have hm : TPath.firstMatch CV.Gen.defaultValues [k] = none := by
    simp [TPath.firstMatch, CV.Gen.defaultValues, TPath.pmatch]
  simp only [hm]
  cases v with
  | map kvs =>
    have : setDefaultsKVs CV.Gen.defaultValues [k] kvs = .ok kvs := by
      rw [setDefaultsKVs_fixed_iff]
      intro kv _
      rw [next_single hk0]
      exact setDefaults_quiet _ _ _ (quiet_off_services hk _)
    simp only [this]
  | seq xs =>
    have : setDefaultsList CV.Gen.defaultValues [k] xs = .ok xs :=
      setDefaultsList_quiet_next _ _ (by rw [next_single hk0]; exact quiet_off_services hk _) xs
    simp only [this]
  | null => rfl
  | bool _ => rfl
  | int _ => rfl
  | float _ => rfl
  | str _ => rfl

/-- the services mapping: every service that had its defaults written still has them after `Normalize` -/
theorem services_defaulted_normalized (hesc : EscFacts) (clean : String → String) (env : Env) (v : Val)
    (h : setDefaults CV.Gen.defaultValues ["services"] v = .ok v) :
    setDefaults CV.Gen.defaultValues ["services"] (nsTop clean env "services" (nnTop "services" v)) =
      .ok (nsTop clean env "services" (nnTop "services" v)) := by
  have hm : TPath.firstMatch CV.Gen.defaultValues ["services"] = none := by
    simp [TPath.firstMatch, CV.Gen.defaultValues, TPath.pmatch]
  cases v with
  | map svcs =>
    simp only [nnTop, nsTop, if_true]
    unfold setDefaults at h ⊢
    simp only [hm] at h ⊢
    cases hk : setDefaultsKVs CV.Gen.defaultValues ["services"] svcs with
    | err e => simp [hk] at h
    | panic z => simp [hk] at h
    | ok r =>
      simp only [hk, Out.ok.injEq, Val.map.injEq] at h
      subst h
      have hfix := (setDefaultsKVs_fixed_iff _ _ _).mp hk
      have : setDefaultsKVs CV.Gen.defaultValues ["services"] (mapVals (normServiceV clean env) (mapVals nnServiceV r)) =
          .ok (mapVals (normServiceV clean env) (mapVals nnServiceV r)) := by
        rw [setDefaultsKVs_fixed_iff]
        intro kv hkv
        unfold mapVals at hkv
        rw [List.map_map] at hkv
        obtain ⟨kv0, hkv0, rfl⟩ := List.mem_map.mp hkv
        simp only [Function.comp]
        have h0 := hfix kv0 hkv0
        rw [next_single (by decide)] at h0 ⊢
        have hm2 : TPath.firstMatch CV.Gen.defaultValues ["services", kv0.1.replace "." TPath.ghost] = none := by
          simp [TPath.firstMatch, CV.Gen.defaultValues, TPath.pmatch]
        cases hv : kv0.2 with
        | map attrs =>
          rw [hv] at h0
          simp only [nnServiceV, normServiceV]
          unfold setDefaults at h0 ⊢
          simp only [hm2] at h0 ⊢
          cases hk3 : setDefaultsKVs CV.Gen.defaultValues ["services", kv0.1.replace "." TPath.ghost] attrs with
          | err e => simp [hk3] at h0
          | panic z => simp [hk3] at h0
          | ok a' =>
            simp only [hk3, Out.ok.injEq, Val.map.injEq] at h0
            subst h0
            have hd := svcDefaulted_normSvc hesc _ clean env a' ((svcDefaulted_iff _ _ _).mp hk3)
            have := (svcDefaulted_iff _ _ _).mpr hd
            unfold normSvc at this
            simp only [this]
        | null => rw [hv] at h0; simpa [nnServiceV, normServiceV] using h0
        | bool _ => rw [hv] at h0; simpa [nnServiceV, normServiceV] using h0
        | int _ => rw [hv] at h0; simpa [nnServiceV, normServiceV] using h0
        | float _ => rw [hv] at h0; simpa [nnServiceV, normServiceV] using h0
        | str _ => rw [hv] at h0; simpa [nnServiceV, normServiceV] using h0
        | seq _ => rw [hv] at h0; simpa [nnServiceV, normServiceV] using h0
      simp only [this]
  | null => simpa [nnTop, nsTop] using h
  | bool _ => simpa [nnTop, nsTop] using h
  | int _ => simpa [nnTop, nsTop] using h
  | float _ => simpa [nnTop, nsTop] using h
  | str _ => simpa [nnTop, nsTop] using h
  | seq _ => simpa [nnTop, nsTop] using h

/-- **a model whose `SetDefaultValues` defaults are all written still has them after `Normalize`** (whole model,
regenerated table): what `Normalize` rewrites is off the table (top-level sections, service attributes) except `build`,
whose context it writes itself -/
theorem defaults_fixed_after_normalize (hesc : EscFacts) (hroot : RootFacts) (clean : String → String) (env : Env)
    (s : KVs) (h : setDefaultValues CV.Gen.defaultValues s = .ok (.map s)) :
    setDefaultValues CV.Gen.defaultValues (normalizePure clean env s) = .ok (.map (normalizePure clean env s)) := by
  have hr0 : TPath.firstMatch CV.Gen.defaultValues TPath.root = none := by
    simp [TPath.firstMatch, CV.Gen.defaultValues, TPath.pmatch, TPath.root]
  have key : ∀ t : KVs, setDefaultValues CV.Gen.defaultValues t = .ok (.map t) ↔
      ∀ kv ∈ t, setDefaults CV.Gen.defaultValues (TPath.root.next kv.1) kv.2 = .ok kv.2 := by
    intro t
    rw [← setDefaultsKVs_fixed_iff]
    unfold setDefaultValues setDefaults
    simp only [hr0]
    cases setDefaultsKVs CV.Gen.defaultValues TPath.root t <;> simp
  rw [key] at h ⊢
  -- every entry of `mapAt topH s` is fixed
  have hmap : ∀ kv ∈ mapAt (topH clean env (lookup "name" s)) s,
      setDefaults CV.Gen.defaultValues (TPath.root.next kv.1) kv.2 = .ok kv.2 := by
    intro kv hkv
    unfold mapAt at hkv
    obtain ⟨kv0, hkv0, rfl⟩ := List.mem_map.mp hkv
    simp only
    have h0 := h kv0 hkv0
    by_cases h1 : kv0.1 = "services"
    · rw [h1] at h0 ⊢
      rw [hroot "services" (by simp)] at h0 ⊢
      rw [topH_services]
      exact services_defaulted_normalized hesc clean env _ h0
    · by_cases h2 : resourceNames.contains kv0.1 = true
      · have hk : kv0.1 ∈ ["services", "networks", "volumes", "configs", "secrets"] := by
          simp only [resourceNames, List.contains_iff_mem] at h2
          simp only [List.mem_cons] at h2 ⊢
          rcases h2 with e | e | e | e | e
          · exact .inr (.inl e)
          · exact .inr (.inr (.inl e))
          · exact .inr (.inr (.inr (.inl e)))
          · exact .inr (.inr (.inr (.inr (.inl e))))
          · cases e
        rw [hroot _ hk]
        have hk0 : kv0.1 ≠ "" := by
          intro e; rw [e] at h2; simp [resourceNames] at h2
        exact setDefaults_off_services h1 hk0 _
      · rw [topH_of_plain clean env _ h1 (by simpa using h2)]
        exact h0
  rw [normalizePure_eq]
  split
  · exact hmap
  · intro kv hkv
    rcases mem_insert_cases hkv with e | e
    · exact hmap kv e
    · subst e
      simp only
      rw [hroot "networks" (by simp)]
      exact setDefaults_off_services (by decide) (by decide) _

/-- **the result of the three stages is a fixed point of all three, hence of the composition** — the whole-model
statement of "implicit ≡ explicit" for Canonical ; SetDefaultValues ; Normalize: if the stages accept `d` and return
`e` (every default written out), they accept `e` and return `e`.  Visible hypotheses: `EscFacts`, `RootFacts` (closed
facts about `tree.Path.Next` on twelve literals, checked against Go by `c11.next`), `path.Clean` idempotent
(`pathClean_idempotent`), no environment variable with an empty name. -/
theorem pipeline_fixed_point (hesc : EscFacts) (hroot : RootFacts) (clean : String → String)
    (hclean : ∀ s, clean (clean s) = clean s) (env : Env) (henv : envLookup env "" = none) (d e : KVs)
    (h : pipeline CV.Gen.defaultValues clean env d = .ok e) : pipeline CV.Gen.defaultValues clean env e = .ok e := by
  have hc := pipeline_result_canonical hesc (hroot "services" (by simp)) clean env d e h
  obtain ⟨c, s, _, h2, h3⟩ := pipeline_stages _ clean env d e h
  have hs := setDefaultValues_idempotent c s h2
  have he : e = normalizePure clean env s := by
    unfold normalize at h3
    split at h3
    · cases h3
    · split at h3
      · cases h3
      · split at h3
        · cases h3
        · injection h3 with h3; exact h3.symm
  have hd : setDefaultValues CV.Gen.defaultValues e = .ok (.map e) := by
    rw [he]; exact defaults_fixed_after_normalize hesc hroot clean env s hs
  have hn := normalize_fixed_point clean hclean env henv s e h3
  unfold pipeline
  simp only [hc, hd, hn]

/-- **implicit ≡ explicit, whole model, all three stages** -/
theorem pipeline_implicit_eq_explicit (hesc : EscFacts) (hroot : RootFacts) (clean : String → String)
    (hclean : ∀ s, clean (clean s) = clean s) (env : Env) (henv : envLookup env "" = none) (d e : KVs)
    (h : pipeline CV.Gen.defaultValues clean env d = .ok e) :
    pipeline CV.Gen.defaultValues clean env e = pipeline CV.Gen.defaultValues clean env d := by
  rw [h]; exact pipeline_fixed_point hesc hroot clean hclean env henv d e h

-- non-vacuity of the two visible hypotheses: evaluated by the interpreter (the kernel cannot unfold `String.replace` /
-- `String.splitOn`), and compared with Go's `tree.Path.Next` on the same literals by `c11.next` in every run
#guard ["services", "networks", "volumes", "configs", "secrets"].all fun k => TPath.root.next k == [k]
#guard ["build", "networks", "depends_on", "pull_policy", "environment", "volumes", "env_file"].all fun k =>
  k.replace "." TPath.ghost == k
-- and a model on which the three stages succeed (so the fixed-point theorem speaks about something)
#guard (match pipeline CV.Gen.defaultValues id [] [("name", .str "p"), ("services", .map [("x-ray", .map [("image", .str "i"),
    ("ports", .seq [.map [("target", .int 80)]]), ("depends_on", .seq [.str "b"]), ("links", .seq [.str "c"])])]),
    ("volumes", .map [("v", .null)])] with
  | .ok e => (match pipeline CV.Gen.defaultValues id [] e with | .ok e' => e' == e | _ => false)
  | _ => false)

example : canonicalLite [("services", .map [("a", .map [("depends_on", .map [("b", depEntry false)])])])] =
    .ok (.map [("services", .map [("a", .map [("depends_on", .map [("b", depEntry false)])])])]) := by rfl

end CV.C11
