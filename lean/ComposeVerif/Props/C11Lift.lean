import ComposeVerif.Props.C11Stages
/-!
# C11 — lifting the cross-stage facts from one service to the whole model (Canonical after Normalize)

`Props/C11Stages.lean` proves, for the attributes of ONE service, that `Normalize` keeps a fixed point of `Canonical`
(`svcCanon_normSvc`).  Here that fact is lifted over the `services` mapping and the top level:

* `canonServices_fixed_iff` — the services mapping is a fixed point of (the modelled part of) `Canonical` iff every
  service that is a mapping is (`SvcsCanon`);
* `canonicalLite_fixed_iff` — the same for a whole model;
* `svcsCanon_normalized` — `Normalize` keeps it: the services of `normalizePure d` are canonical when those of `d` are;
* `canonical_fixed_after_normalize` — **a model that `Canonical` leaves alone is still left alone after `Normalize`**:
  `canonicalLite d = ok d → canonicalLite (normalizePure d) = ok (normalizePure d)`;
* `pipeline_result_canonical` — hence the result `e` of the three stages (`pipeline d = ok e`, every default written
  out) is a fixed point of the first stage: one of the three facts `pipeline d = ok e → pipeline e = ok e` needs
  (the third — `Normalize` — is `pipeline_stage_fixed_points`; the second — `SetDefaultValues` on `e` — stays open).
-/
namespace CV.C11
open CV CV.Val

/-- every service that is a mapping is a fixed point of `canonSvcAttrs` -/
def SvcsCanon (svcs : KVs) : Prop := ∀ kv ∈ svcs, ∀ s, kv.2 = .map s → SvcCanon s

theorem canonServices_fixed_iff : ∀ svcs : KVs, canonServices svcs = .ok svcs ↔ SvcsCanon svcs
  | [] => by simp [canonServices, SvcsCanon]
  | (k, v) :: r => by
    have ih := canonServices_fixed_iff r
    have hcons : SvcsCanon ((k, v) :: r) ↔ (∀ s, v = .map s → SvcCanon s) ∧ SvcsCanon r := by
      unfold SvcsCanon
      constructor
      · intro h
        exact ⟨fun s hs => h (k, v) (List.mem_cons_self) s hs, fun kv hkv => h kv (List.mem_cons_of_mem _ hkv)⟩
      · intro ⟨h1, h2⟩ kv hkv
        rcases List.mem_cons.mp hkv with rfl | hkv
        · exact h1
        · exact h2 kv hkv
    rw [hcons, ← ih]
    cases v with
    | map s =>
      rw [show (∀ s', Val.map s = .map s' → SvcCanon s') ↔ SvcCanon s from
        ⟨fun h => h s rfl, fun h s' hs => by injection hs with hs; subst hs; exact h⟩, ← svcCanon_iff]
      simp only [canonServices]
      cases hs : canonSvcAttrs s with
      | ok s' =>
        cases hr : canonServices r with
        | ok r' => simp
        | err e => simp
        | panic z => simp
      | err e => simp
      | panic z => simp
    | null => simp only [canonServices]; cases hr : canonServices r <;> simp
    | bool _ => simp only [canonServices]; cases hr : canonServices r <;> simp
    | int _ => simp only [canonServices]; cases hr : canonServices r <;> simp
    | float _ => simp only [canonServices]; cases hr : canonServices r <;> simp
    | str _ => simp only [canonServices]; cases hr : canonServices r <;> simp
    | seq _ => simp only [canonServices]; cases hr : canonServices r <;> simp

/-- a whole model is a fixed point of the modelled part of `Canonical` iff its services are -/
theorem canonicalLite_fixed_iff (d : KVs) :
    canonicalLite d = .ok (.map d) ↔ (∀ svcs, lookup "services" d = some (.map svcs) → SvcsCanon svcs) := by
  unfold canonicalLite
  cases hl : lookup "services" d with
  | none => simp
  | some v =>
    cases v with
    | map svcs =>
      simp only [Option.some.injEq, Val.map.injEq, forall_eq']
      rw [← canonServices_fixed_iff]
      cases hc : canonServices svcs with
      | ok s' =>
        simp only [Out.ok.injEq, Val.map.injEq]
        constructor
        · intro h
          have := congrArg (lookup "services") h
          rw [lookup_insert_self, hl] at this
          simpa using this
        · intro h
          rw [h]
          exact insert_of_lookup hl
      | err e => simp
      | panic z => simp
    | null => simp
    | bool _ => simp
    | int _ => simp
    | float _ => simp
    | str _ => simp
    | seq _ => simp

/-- `Normalize` keeps the services canonical -/
theorem svcsCanon_normalized (clean : String → String) (env : Env) (svcs : KVs) (h : SvcsCanon svcs) :
    SvcsCanon (mapVals (normServiceV clean env) (mapVals nnServiceV svcs)) := by
  intro kv hkv s hs
  unfold mapVals at hkv
  rw [List.map_map] at hkv
  obtain ⟨kv0, hkv0, rfl⟩ := List.mem_map.mp hkv
  simp only [Function.comp] at hs
  cases hv : kv0.2 with
  | map s0 =>
    rw [hv] at hs
    simp only [nnServiceV, normServiceV, Val.map.injEq] at hs
    subst hs
    exact svcCanon_normSvc clean env s0 (h kv0 hkv0 s0 hv)
  | null => rw [hv] at hs; simp [nnServiceV, normServiceV] at hs
  | bool _ => rw [hv] at hs; simp [nnServiceV, normServiceV] at hs
  | int _ => rw [hv] at hs; simp [nnServiceV, normServiceV] at hs
  | float _ => rw [hv] at hs; simp [nnServiceV, normServiceV] at hs
  | str _ => rw [hv] at hs; simp [nnServiceV, normServiceV] at hs
  | seq _ => rw [hv] at hs; simp [nnServiceV, normServiceV] at hs

/-- **a model that `Canonical` leaves alone is still left alone after `Normalize`** (whole model: the implied
`depends_on` entries `Normalize` adds to any service are canonical, nothing else it writes is a `depends_on` or an
`env_file`) -/
theorem canonical_fixed_after_normalize (clean : String → String) (env : Env) (d : KVs)
    (h : canonicalLite d = .ok (.map d)) :
    canonicalLite (normalizePure clean env d) = .ok (.map (normalizePure clean env d)) := by
  rw [canonicalLite_fixed_iff] at h ⊢
  intro svcs' hs'
  rw [normalized_services] at hs'
  cases hl : lookup "services" d with
  | none => rw [hl] at hs'; simp at hs'
  | some v =>
    rw [hl] at hs'
    simp only [Option.map_some, Option.some.injEq] at hs'
    cases v with
    | map svcs =>
      simp only [nnTop, nsTop, if_true, Val.map.injEq] at hs'
      subst hs'
      exact svcsCanon_normalized clean env svcs (h svcs hl)
    | null => simp [nnTop, nsTop] at hs'
    | bool _ => simp [nnTop, nsTop] at hs'
    | int _ => simp [nnTop, nsTop] at hs'
    | float _ => simp [nnTop, nsTop] at hs'
    | str _ => simp [nnTop, nsTop] at hs'
    | seq _ => simp [nnTop, nsTop] at hs'

/-! ## `SetDefaultValues` keeps a fixed point of `Canonical` (whole model) -/

/-- the value the walker leaves under key `k` of a mapping is the walker's result on the FIRST entry with that key -/
theorem lookup_setDefaultsKVs (tbl : List (List String × String)) (p : TPath) :
    ∀ (kvs kvs' : List (String × Val)), setDefaultsKVs tbl p kvs = .ok kvs' →
      ∀ k v', lookup k kvs' = some v' → ∃ v, lookup k kvs = some v ∧ setDefaults tbl (p.next k) v = .ok v'
  | [], kvs', h => by
    simp only [setDefaultsKVs, Out.ok.injEq] at h; subst h; intro k v' hk; simp [lookup] at hk
  | (k0, v0) :: r, kvs', h => by
    rw [setDefaultsKVs] at h
    cases hv : setDefaults tbl (p.next k0) v0 with
    | ok w =>
      simp only [hv] at h
      cases hr : setDefaultsKVs tbl p r with
      | ok r' =>
        simp only [hr, Out.ok.injEq] at h
        subst h
        intro k v' hk
        by_cases e : k = k0
        · subst e
          simp only [lookup, if_true, Option.some.injEq] at hk ⊢
          subst hk
          exact ⟨v0, rfl, hv⟩
        · simp only [lookup, e, if_false] at hk ⊢
          exact lookup_setDefaultsKVs tbl p r r' hr k v' hk
      | err e => simp [hr] at h
      | panic z => simp [hr] at h
    | err e => simp [hv] at h
    | panic z => simp [hv] at h

/-- **a model that `Canonical` leaves alone is still left alone after `SetDefaultValues`** (whole model; regenerated
table): the walker reaches `services.<x>.depends_on / env_file` nowhere.  Visible hypotheses: `EscFacts`, and the closed
fact `root.Next("services") = ["services"]` (`String.splitOn`, not evaluable by the kernel; compared with Go's
`tree.Path.Next` by `c11.next` in every run). -/
theorem canonical_fixed_after_setDefaults (hesc : EscFacts) (hroot : TPath.root.next "services" = ["services"])
    (c s : KVs) (hc : canonicalLite c = .ok (.map c))
    (hs : setDefaultValues CV.Gen.defaultValues c = .ok (.map s)) : canonicalLite s = .ok (.map s) := by
  rw [canonicalLite_fixed_iff] at hc ⊢
  intro svcs' hl'
  unfold setDefaultValues setDefaults at hs
  have hr0 : TPath.firstMatch CV.Gen.defaultValues TPath.root = none := by
    simp [TPath.firstMatch, CV.Gen.defaultValues, TPath.pmatch, TPath.root]
  simp only [hr0] at hs
  cases hk : setDefaultsKVs CV.Gen.defaultValues TPath.root c with
  | err e => simp [hk] at hs
  | panic z => simp [hk] at hs
  | ok s0 =>
    simp only [hk, Out.ok.injEq, Val.map.injEq] at hs
    subst hs
    obtain ⟨v, hv, hw⟩ := lookup_setDefaultsKVs _ _ c s0 hk "services" (.map svcs') hl'
    rw [hroot] at hw
    unfold setDefaults at hw
    have hr1 : TPath.firstMatch CV.Gen.defaultValues ["services"] = none := by
      simp [TPath.firstMatch, CV.Gen.defaultValues, TPath.pmatch]
    simp only [hr1] at hw
    cases v with
    | map svcs =>
      simp only at hw
      cases hk2 : setDefaultsKVs CV.Gen.defaultValues ["services"] svcs with
      | err e => simp [hk2] at hw
      | panic z => simp [hk2] at hw
      | ok svcs2 =>
        simp only [hk2, Out.ok.injEq, Val.map.injEq] at hw
        subst hw
        intro kv hkv sattrs hkv2
        obtain ⟨a, ha, _, hwa⟩ := mem_of_setDefaultsKVs _ _ svcs svcs2 hk2 kv hkv
        have hnext : TPath.next ["services"] a.1 = ["services", a.1.replace "." TPath.ghost] := by
          simp [TPath.next, TPath.root]
        rw [hnext, hkv2] at hwa
        unfold setDefaults at hwa
        have hr2 : TPath.firstMatch CV.Gen.defaultValues ["services", a.1.replace "." TPath.ghost] = none := by
          simp [TPath.firstMatch, CV.Gen.defaultValues, TPath.pmatch]
        simp only [hr2] at hwa
        cases ha2 : a.2 with
        | map attrs =>
          rw [ha2] at hwa
          simp only at hwa
          cases hk3 : setDefaultsKVs CV.Gen.defaultValues ["services", a.1.replace "." TPath.ghost] attrs with
          | err e => simp [hk3] at hwa
          | panic z => simp [hk3] at hwa
          | ok sattrs' =>
            simp only [hk3, Out.ok.injEq, Val.map.injEq] at hwa
            subst hwa
            exact svcCanon_setDefaults hesc _ attrs sattrs' (hc svcs hv a ha attrs ha2) hk3
        | seq xs =>
          rw [ha2] at hwa
          simp only at hwa
          cases hk3 : setDefaultsList CV.Gen.defaultValues ["services", a.1.replace "." TPath.ghost] xs <;> simp [hk3] at hwa
        | null => rw [ha2] at hwa; simp at hwa
        | bool _ => rw [ha2] at hwa; simp at hwa
        | int _ => rw [ha2] at hwa; simp at hwa
        | float _ => rw [ha2] at hwa; simp at hwa
        | str _ => rw [ha2] at hwa; simp at hwa
    | seq xs =>
      simp only at hw
      cases hk2 : setDefaultsList CV.Gen.defaultValues ["services"] xs <;> simp [hk2] at hw
    | null => simp at hw
    | bool _ => simp at hw
    | int _ => simp at hw
    | float _ => simp at hw
    | str _ => simp at hw

/-- **the result of the three stages is a fixed point of the first one**: `pipeline d = ok e` (every default written
out) → `Canonical` leaves `e` alone.  With `pipeline_stage_fixed_points` (`Normalize` leaves `e` alone) two of the three
facts that `pipeline e = ok e` needs are proved for the whole model; the third (`SetDefaultValues` on `e`) stays open. -/
theorem pipeline_result_canonical (hesc : EscFacts) (hroot : TPath.root.next "services" = ["services"])
    (clean : String → String) (env : Env) (d e : KVs)
    (h : pipeline CV.Gen.defaultValues clean env d = .ok e) : canonicalLite e = .ok (.map e) := by
  obtain ⟨c, s, h1, h2, h3⟩ := pipeline_stages _ clean env d e h
  obtain ⟨c', hc', hcc⟩ := canonicalLite_idem d _ h1
  cases hc'
  have hs := canonical_fixed_after_setDefaults hesc hroot c s hcc h2
  have he : e = normalizePure clean env s := by
    unfold normalize at h3
    split at h3
    · cases h3
    · split at h3
      · cases h3
      · split at h3
        · cases h3
        · injection h3 with h3; exact h3.symm
  rw [he]
  exact canonical_fixed_after_normalize clean env s hs

example : canonicalLite [("services", .map [("a", .map [("depends_on", .map [("b", depEntry false)])])])] =
    .ok (.map [("services", .map [("a", .map [("depends_on", .map [("b", depEntry false)])])])]) := by rfl

end CV.C11
