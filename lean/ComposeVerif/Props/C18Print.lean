import ComposeVerif.Spec.DotenvPrint
import ComposeVerif.Lemmas.DotenvPrint
import ComposeVerif.Lemmas.DotenvR5
/-!
# C18 — grammar-level round trip through a canonical printer (round 6)

`printCanon` (`Spec/DotenvPrint.lean`) writes every variable as `KEY="…"` with `$` doubled, `"` and `\` escaped.
The theorems say: parsing the canonical text gives back the map, under EVERY lookup function (nothing in a canonical
text is interpolated, inherited or cut as a comment); printing what was parsed gives back the text on the printer's
range; every file that parses has a canonical form with the same meaning.  Values are arbitrary strings — line feeds
(multi-line double-quoted values), `#`, ` #`, quotes, backslashes, dollar signs, white space at either end.
-/
namespace CV.Dotenv
open CV CV.Template

/-- **parse ∘ print = id**: for every printable map (valid, distinct names; ANY values) and every lookup -/
theorem parse_printCanon (m : Map) (lookup : Env) (h : Printable m) : parse (printCanon m) lookup = .ok m := by
  unfold printCanon
  rw [parse_render_lemma lookup _ (canon_WF m h.1), evalLines, evalFrom_canon lookup m [] (by simpa using h.2)]
  rfl

/-- **print ∘ parse = id on the printer's range** -/
theorem print_parse_id (t : Str) (lookup : Env) (m : Map) (h : Printable m) (ht : t = printCanon m) :
    ∃ r, parse t lookup = .ok r ∧ printCanon r = t := by
  subst ht
  exact ⟨m, parse_printCanon m lookup h, rfl⟩

/-- the printer is injective on printable maps: different maps (as ordered lists of definitions) have different texts -/
theorem printCanon_injective (m m' : Map) (h : Printable m) (h' : Printable m') (e : printCanon m = printCanon m') : m = m' := by
  have a := parse_printCanon m (fun _ => none) h
  rw [e, parse_printCanon m' _ h'] at a
  cases a; rfl

/-- **every file that parses has a canonical form**: whatever the input and the lookup it was parsed under, if the
    names it defines are valid keys (always key-rune words by `parse_keys_valid`; not empty — the recorded finding —
    and not the bare word `export`) then the canonical text of the result parses to the same result under ANY lookup:
    normalisation removes every dependence on the lookup and is idempotent -/
theorem canonical_form (src : Str) (lookup lookup' : Env) (r : Map) (h : parse src lookup = .ok r)
    (hk : ∀ kv ∈ r, validKey kv.1 = true) :
    parse (printCanon r) lookup' = .ok r :=
  parse_printCanon r lookup' ⟨hk, parse_keys_nodup_lemma src lookup r h⟩

/-- a canonical value means itself in every environment: `$` does not interpolate, `\` does not escape, `"` does not
    close, ` #` does not start a comment, a line feed does not end the value -/
theorem canon_value (env : Env) (v : Str) : (Value.dq (dqEnc (escapeDollars v))).eval env = .ok v :=
  canon_value_eval env v

/-- the same through `GetEnvFromFile`: one canonical file, any caller environment -/
theorem fromFiles_printCanon (cur : Env) (m : Map) (h : Printable m) : fromFiles cur [printCanon m] [] = .ok m := by
  have hs : stripBOM (printCanon m) = printCanon m := by
    have := stripBOM_render false (m.map canonLine) (canon_WF m h.1)
    simpa [withBOM, printCanon] using this
  rw [fromFiles, hs, parse_printCanon m _ h]
  simp only [fromFiles]
  rw [mergeInto_fresh m [] (by simpa using h.2)]
  rfl

/-- non-vacuity: a multi-line value with every special character, and its canonical text -/
example : Printable [(['A'], ['a', '\n', ' ', '#', '$', 'B', '"', '\\', '\'', ' ']), (['B', '.', 'c'], [])] := by
  refine ⟨by decide, by decide⟩
example : printCanon [(['A'], ['$', '"', '\\', '\n'])] =
    ['A', '=', '"', '$', '$', '\\', '"', '\\', '\\', '\n', '"', '\n'] := by decide
example : parse ['A', '=', '"', '$', '$', '\\', '"', '\\', '\\', '\n', '"', '\n'] (fun _ => some ['x']) =
    .ok [(['A'], ['$', '"', '\\', '\n'])] := by decide

end CV.Dotenv
