import ComposeVerif.Props.C04Stage
/-!
# C04 — any number of files: the later file wins among *all* parts (n-ary split)

`keyed_list_later_wins` / `kv_later_wins` (`Props/C04.lean`) speak about one base and one override.  The property
quantifies over a base and 1..3 (here: any number of) override parts, each merged onto the result so far and followed by
`EnforceUnicity`.  `attrFold` is that fold for one attribute; the theorems here show that it equals ONE de-duplication
of the concatenation of all parts — so the entry kept for a key is the last one in the last file that mentions the key,
at the position where the key first appeared, however the entries are distributed over the files
(`keyed_list_fold`, `kv_fold`, `fold_last_mention_wins`, `fold_split_irrelevant`).
-/
namespace CV.C04
open CV CV.Val CV.Merge CV.Unicity CV.Reset

/-- de-duplicating in two rounds = de-duplicating once (what makes the per-file `EnforceUnicity` compose) -/
theorem dedup_fusion (a b : List (String × Val)) : dedupKVs (dedupKVs a ++ b) = dedupKVs (a ++ b) := by
  rw [dedupKVs_eq, dedupKVs_eq (a ++ b), List.foldl_append, List.foldl_append, ← dedupKVs_eq, ← dedupKVs_eq, unicity_idem]

/-- what `processRawYaml` does to one attribute when a further file arrives: merge, then unicity -/
def attrStep (n : Nat) (p : TPath) (acc : Out Val) (o : Val) : Out Val :=
  acc.bind fun e => (mergeYaml (n + 1) e o p).bind fun m => enforce m p

/-- the attribute over a base value (already in the accumulated model) and any number of later files -/
def attrFold (n : Nat) (p : TPath) (base : Out Val) (overs : List Val) : Out Val := overs.foldl (attrStep n p) base

/-- one more file onto an already de-duplicated keyed list, for any rule that appends `xo` to a sequence -/
theorem attrStep_dedup (n : Nat) (p : TPath) (ix : Indexer) (o : Val) (xo : List Val) (ka kb : List String) (xa : List Val)
    (hi : indexerAt p = some ix)
    (hm : ∀ xs, mergeYaml (n + 1) (.seq xs) o p = .ok (.seq (xs ++ xo)))
    (ha : indexAll ix xa = .ok ka) (hb : indexAll ix xo = .ok kb) :
    attrStep n p (.ok (.seq (dedup ka xa))) o = .ok (.seq (dedup (ka ++ kb) (xa ++ xo))) := by
  have hpairs : ∀ e ∈ dedupKVs (ka.zip xa), index ix e.2 = .ok e.1 := by
    rw [dedupKVs_eq]
    exact foldl_step_all _ _ [] (fun e he => by simp at he) (indexAll_zip ix xa ka ha)
  have h1 : indexAll ix (dedup ka xa) = .ok ((dedupKVs (ka.zip xa)).map Prod.fst) := indexAll_of_pairs ix _ hpairs
  simp only [attrStep, Out.bind, hm]
  rw [enforce_indexed_seq p ix _ _ hi (indexAll_append ix _ _ _ _ h1 hb)]
  have hl : ((dedupKVs (ka.zip xa)).map Prod.fst).length = ((dedupKVs (ka.zip xa)).map Prod.snd).length := by simp
  have hla : ka.length = xa.length := indexAll_length ix xa ka ha
  unfold dedup
  rw [List.zip_append hl, zip_fst_snd, dedup_fusion, List.zip_append hla]

/-- **n-ary split**: any number of later files `parts` (each a list `xo` appended by the rule, with index keys `kb`)
onto a de-duplicated list = one de-duplication of everything in file order -/
theorem attrFold_dedup (n : Nat) (p : TPath) (ix : Indexer) (hi : indexerAt p = some ix) :
    ∀ (parts : List (Val × List Val × List String)) (ka : List String) (xa : List Val),
      (∀ t ∈ parts, (∀ xs, mergeYaml (n + 1) (.seq xs) t.1 p = .ok (.seq (xs ++ t.2.1))) ∧ indexAll ix t.2.1 = .ok t.2.2) →
      indexAll ix xa = .ok ka →
      attrFold n p (.ok (.seq (dedup ka xa))) (parts.map (·.1)) =
        .ok (.seq (dedup (ka ++ (parts.map (·.2.2)).flatten) (xa ++ (parts.map (·.2.1)).flatten))) := by
  intro parts
  induction parts with
  | nil => intro ka xa _ _; simp [attrFold]
  | cons t r ih =>
    intro ka xa h ha
    obtain ⟨hm, hb⟩ := h t (by simp)
    simp only [attrFold, List.map_cons, List.foldl_cons, List.flatten_cons]
    rw [attrStep_dedup n p ix t.1 t.2.1 ka t.2.2 xa hi hm ha hb]
    have := ih (ka ++ t.2.2) (xa ++ t.2.1) (fun t' ht' => h t' (by simp [ht'])) (indexAll_append ix _ _ _ _ ha hb)
    simpa only [attrFold, List.append_assoc] using this

/-- **keyed lists (ports, volumes, secrets, configs, devices, cap_add, …), any number of files**: the base list `x0` and
the later lists `xs₁ … xsₙ`, each merged onto the result so far and de-duplicated, give the de-duplication of
`x0 ++ xs₁ ++ … ++ xsₙ` -/
theorem keyed_list_fold (n : Nat) (p : TPath) (ix : Indexer) (hr : ruleAt p = none) (hi : indexerAt p = some ix)
    (x0 : List Val) (k0 : List String) (parts : List (List Val × List String))
    (h0 : indexAll ix x0 = .ok k0) (hp : ∀ t ∈ parts, indexAll ix t.1 = .ok t.2) :
    attrFold n p (enforce (.seq x0) p) (parts.map fun t => .seq t.1) =
      .ok (.seq (dedup (k0 ++ (parts.map (·.2)).flatten) (x0 ++ (parts.map (·.1)).flatten))) := by
  rw [enforce_indexed_seq p ix x0 k0 hi h0]
  have := attrFold_dedup n p ix hi (parts.map fun t => (.seq t.1, t.1, t.2)) k0 x0
    (by
      intro t ht
      simp only [List.mem_map] at ht
      obtain ⟨t', ht', rfl⟩ := ht
      exact ⟨fun xs => merge_seq_append n xs t'.1 p hr, hp t' ht'⟩)
    h0
  simpa only [List.map_map, Function.comp_def] using this

theorem seqOf_seq (xs : List Val) : seqOf (.seq xs) = xs := rfl

/-- **KEY=VALUE attributes, any number of files, whichever spelling each file uses**: the value so far `e` (list or
mapping) and the later values `o₁ … oₙ` (n ≥ 1; lists or mappings) give the de-duplication of
`seqOf e ++ seqOf o₁ ++ … ++ seqOf oₙ` -/
theorem kv_fold (n : Nat) (p : TPath) (ix : Indexer) (hr : ruleAt p = some .toSeq) (hi : indexerAt p = some ix)
    (e o1 : Val) (ke k1 : List String) (parts : List (Val × List String))
    (he : indexAll ix (seqOf e) = .ok ke) (h1 : indexAll ix (seqOf o1) = .ok k1)
    (hp : ∀ t ∈ parts, indexAll ix (seqOf t.1) = .ok t.2) :
    attrFold n p (.ok e) (o1 :: parts.map (·.1)) =
      .ok (.seq (dedup (ke ++ k1 ++ (parts.map (·.2)).flatten) (seqOf e ++ seqOf o1 ++ (parts.map fun t => seqOf t.1).flatten))) := by
  have hfirst : attrStep n p (.ok e) o1 = .ok (.seq (dedup (ke ++ k1) (seqOf e ++ seqOf o1))) := by
    simp only [attrStep, Out.bind, toSeq_append n e o1 p hr]
    exact enforce_indexed_seq p ix _ _ hi (indexAll_append ix _ _ _ _ he h1)
  simp only [attrFold, List.foldl_cons, hfirst]
  have := attrFold_dedup n p ix hi (parts.map fun t => (t.1, seqOf t.1, t.2)) (ke ++ k1) (seqOf e ++ seqOf o1)
    (by
      intro t ht
      simp only [List.mem_map] at ht
      obtain ⟨t', ht', rfl⟩ := ht
      exact ⟨fun xs => by rw [toSeq_append n (.seq xs) t'.1 p hr, seqOf_seq], hp t' ht'⟩)
    (indexAll_append ix _ _ _ _ he h1)
  simpa only [attrFold, List.map_map, Function.comp_def] using this

/-- **the later file wins, among all files**: in the result of the fold the entry for key `k` is the last entry carrying
`k` in the concatenation of all parts in file order (so: in the last file that mentions `k`) -/
theorem fold_last_mention_wins (ks : List String) (xs : List Val) (k : String) :
    lookup k (dedupKVs (ks.zip xs)) = lastVal k (ks.zip xs) := unicity_last_wins _ k

/-- **how the final list is split over files does not matter**: two splits with the same concatenation (same entries in
the same order, cut at different places into any number of files) load to the same list -/
theorem fold_split_irrelevant (n : Nat) (p : TPath) (ix : Indexer) (hr : ruleAt p = none) (hi : indexerAt p = some ix)
    (x0 y0 : List Val) (k0 l0 : List String) (parts parts' : List (List Val × List String))
    (h0 : indexAll ix x0 = .ok k0) (h0' : indexAll ix y0 = .ok l0)
    (hp : ∀ t ∈ parts, indexAll ix t.1 = .ok t.2) (hp' : ∀ t ∈ parts', indexAll ix t.1 = .ok t.2)
    (hx : x0 ++ (parts.map (·.1)).flatten = y0 ++ (parts'.map (·.1)).flatten)
    (hk : k0 ++ (parts.map (·.2)).flatten = l0 ++ (parts'.map (·.2)).flatten) :
    attrFold n p (enforce (.seq x0) p) (parts.map fun t => .seq t.1) =
      attrFold n p (enforce (.seq y0) p) (parts'.map fun t => .seq t.1) := by
  rw [keyed_list_fold n p ix hr hi x0 k0 parts h0 hp, keyed_list_fold n p ix hr hi y0 l0 parts' h0' hp', hx, hk]

/-- three files, ports: the base declares 80 and 443, file 2 re-declares 80 and adds 53, file 3 re-declares 443 -/
example : attrFold 0 ["services", "s", "ports"] (enforce (.seq [.str "80", .str "443"]) ["services", "s", "ports"])
    [.seq [.int 53, .str "80"], .seq [.str "443"]] = .ok (.seq [.str "80", .str "443", .int 53]) := by rfl

/-- three files, environment in three spellings -/
example : attrFold 0 ["services", "s", "environment"] (.ok (.map [("A", .int 1), ("B", .int 1)]))
    [.seq [.str "B=2", .str "C=2"], .map [("A", .int 3)]] = .ok (.seq [.str "A=3", .str "B=2", .str "C=2"]) := by rfl

end CV.C04
