import ComposeVerif.Props.C03Doc
/-!
# C03 — the remaining rows of `transform.transformers`, stated on whole documents (round 6)

`Props/C03Doc.lean` lifts the attribute theorems of the rows directly below a service.  Here: the rows **below
`services.*.build`** (`build.ssh`, `build.additional_contexts`, `build.secrets.*` — the chain runs through the recursing
handler `transformBuild`) and the top-level row `include.*`.
-/
namespace CV.Short
open CV CV.Short.Spec

theorem seg_ssh : seg "ssh" = "ssh" := by decide
theorem seg_additional_contexts : seg "additional_contexts" = "additional_contexts" := by decide

/-- **lifting below `build`**: two values with the same transform at `services.n.build.k` give the same canonical
document (any other build attribute, service attribute, service, top-level section) -/
theorem canonical_build_attr_congr (ign : Bool) (top1 top2 svcs1 svcs2 a b ba bb : Val.KVs) (n k : String) (v v' : Val)
    (h : transform ign ["services", seg n, "build", seg k] v = transform ign ["services", seg n, "build", seg k] v') :
    canonical ign (docWith top1 top2 svcs1 svcs2 a b n "build" (.map (ba ++ (k, v) :: bb)))
      = canonical ign (docWith top1 top2 svcs1 svcs2 a b n "build" (.map (ba ++ (k, v') :: bb))) := by
  apply canonical_service_attr_congr
  rw [attrPath_eq, seg_build]
  have hb := (dispatch (seg n) "").2.2.2.2.2.2.1
  apply transform_map_congr _ _ _ _ (by rw [hb]; decide)
  apply transformKVs_congr
  have hne : (["services", seg n, "build"] : TPath) ≠ TPath.root := by simp [TPath.root]
  rw [TPath.nextK_of_ne_root _ _ hne]
  exact h

/-- `build.ssh: [default, ID=PATH]` ≡ `build.ssh: {default: null, ID: PATH}`, whole documents -/
theorem canonical_buildSSH_short_eq_long (ign : Bool) (top1 top2 svcs1 svcs2 a b ba bb : Val.KVs) (n : String)
    (id path : Str) (hid : ∀ x ∈ id, x ≠ '=') (hd : String.ofList id ≠ "default") :
    canonical ign (docWith top1 top2 svcs1 svcs2 a b n "build"
        (.map (ba ++ ("ssh", .seq [.str "default", .str (String.ofList (id ++ '=' :: path))]) :: bb)))
      = canonical ign (docWith top1 top2 svcs1 svcs2 a b n "build"
        (.map (ba ++ ("ssh", .map [("default", .null), (String.ofList id, sv path)]) :: bb))) := by
  apply canonical_build_attr_congr
  have hp := (dispatch (seg n) "").2.2.2.2.2.2.2.1
  rw [seg_ssh, transform_leaf_at ign _ _ _ hp (by decide), transform_leaf_at ign _ _ _ hp (by decide)]
  have e : ∀ x, leaf (some "transformSSH") ign x = transformSSH x := by intro x; simp [leaf]
  rw [e, e, transformSSH_short_eq_long id path hid hd, transformSSH_long_id]

/-- `build.additional_contexts: [KEY=VALUE]` ≡ `{KEY: VALUE}`, whole documents -/
theorem canonical_additionalContexts_short_eq_long (ign : Bool) (top1 top2 svcs1 svcs2 a b ba bb : Val.KVs) (n : String)
    (k v : Str) (hk : ∀ x ∈ k, x ≠ '=') :
    canonical ign (docWith top1 top2 svcs1 svcs2 a b n "build"
        (.map (ba ++ ("additional_contexts", .seq [.str (String.ofList (k ++ '=' :: v))]) :: bb)))
      = canonical ign (docWith top1 top2 svcs1 svcs2 a b n "build"
        (.map (ba ++ ("additional_contexts", .map [(String.ofList k, sv v)]) :: bb))) := by
  apply canonical_build_attr_congr
  have hp := (dispatch (seg n) "").2.2.2.2.2.2.2.2.1
  rw [seg_additional_contexts, transform_leaf_at ign _ _ _ hp (by decide), transform_leaf_at ign _ _ _ hp (by decide)]
  have e : ∀ x, leaf (some "transformKeyValue") ign x = transformKeyValue ign x := by intro x; simp [leaf]
  rw [e, e, transformKeyValue_short_eq_long k v hk ign, transformKeyValue_long_id]

/-- a secret name anywhere in `build.secrets` ≡ `{source: name}`, whole documents -/
theorem canonical_buildSecrets_short_eq_long (ign : Bool) (top1 top2 svcs1 svcs2 a b ba bb : Val.KVs) (n : String)
    (pre post : List Val) (s : String) :
    canonical ign (docWith top1 top2 svcs1 svcs2 a b n "build" (.map (ba ++ ("secrets", .seq (pre ++ .str s :: post)) :: bb)))
      = canonical ign (docWith top1 top2 svcs1 svcs2 a b n "build"
          (.map (ba ++ ("secrets", .seq (pre ++ .map [("source", .str s)] :: post)) :: bb))) := by
  apply canonical_build_attr_congr
  rw [seg_secrets]
  have hk : TPath.firstMatch CV.Gen.transformers ["services", seg n, "build", "secrets"] = none := by
    simp [TPath.firstMatch, CV.Gen.transformers, TPath.pmatch]
  apply transform_seq_congr _ _ _ _ hk
  apply transformSeq_congr
  have hne : (["services", seg n, "build", "secrets"] : TPath) ≠ TPath.root := by simp [TPath.root]
  have hp := (dispatch (seg n) "[]").2.2.2.2.2.1
  rw [TPath.nextK_of_ne_root _ _ hne]
  show transform ign ["services", seg n, "build", "secrets", seg "[]"] _ = transform ign ["services", seg n, "build", "secrets", seg "[]"] _
  rw [seg_item, transform_leaf_at ign _ _ _ hp (by decide), transform_leaf_at ign _ _ _ hp (by decide), leaf_fileMount, leaf_fileMount]
  rfl

/-- `include: [path]` ≡ `include: [{path: path}]` anywhere in the list, whole documents -/
theorem canonical_include_short_eq_long (ign : Bool) (top1 top2 : Val.KVs) (pre post : List Val) (s : String) :
    canonical ign (.map (top1 ++ ("include", .seq (pre ++ .str s :: post)) :: top2))
      = canonical ign (.map (top1 ++ ("include", .seq (pre ++ .map [("path", .str s)] :: post)) :: top2)) := by
  unfold canonical
  apply transform_map_congr _ _ _ _ root_recurses
  apply transformKVs_congr
  have h1 : TPath.nextK TPath.root "include" = ["include"] := by decide
  have hk : TPath.firstMatch CV.Gen.transformers ["include"] = none := by decide
  have hp : TPath.firstMatch CV.Gen.transformers ["include", "[]"] = some "transformInclude" := by decide
  have hne : (["include"] : TPath) ≠ TPath.root := by decide
  rw [h1]
  apply transform_seq_congr _ _ _ _ hk
  apply transformSeq_congr
  rw [TPath.nextK_of_ne_root _ _ hne]
  show transform ign ["include", seg "[]"] _ = transform ign ["include", seg "[]"] _
  rw [seg_item, transform_leaf_at ign _ _ _ hp (by decide), transform_leaf_at ign _ _ _ hp (by decide)]
  rfl

end CV.Short
