import ComposeVerif.Model.DotenvLine
/-!
# C18 — the line counter (round 6)

The anchor "cutset / previousCharIsEscape / line" of the property names the line counter as scanner state.  It is
modelled in `Model/DotenvLine.lean` and tied to the code by the `dotenvLine` stream (the number in the error message
must be the model's).  The counter never influences the outcome (`parseL_is_parse`); the examples record what it
reports, quirks included.
-/
namespace CV.Dotenv
open CV CV.Template

theorem parseLoopL_fst : ∀ (fuel : Nat) (src : Str) (m : Map) (lk : Env) (l : Nat),
    (parseLoopL fuel src m lk l).1 = parseLoop fuel src m lk
  | 0, _, _, _, _ => rfl
  | fuel + 1, src, m, lk, l => by
    unfold parseLoopL parseLoop
    simp only
    cases stmtStart (src.length + 1) src with
    | error s => rfl
    | ok cs =>
      simp only
      by_cases he : cs.isEmpty = true
      · simp only [he, if_true]
      · simp only [he, Bool.false_eq_true, if_false]
        cases locateKey cs with
        | error s => rfl
        | ok r =>
          cases r with
          | error e => rfl
          | ok kli =>
            obtain ⟨key, left, inh⟩ := kli
            simp only
            by_cases hs : key.any isSpaceU = true
            · simp only [hs, if_true]
            · simp only [hs, Bool.false_eq_true, if_false]
              cases inh with
              | true =>
                simp only [if_true]
                cases lk key with
                | some v => exact parseLoopL_fst fuel _ _ lk _
                | none => exact parseLoopL_fst fuel _ _ lk _
              | false =>
                simp only [Bool.false_eq_true, if_false]
                cases extractValue left m lk with
                | error s => rfl
                | ok r2 =>
                  cases r2 with
                  | error e => rfl
                  | ok vl =>
                    obtain ⟨v, left'⟩ := vl
                    exact parseLoopL_fst fuel _ _ lk _

/-- the model with the line counter computes exactly `parse`: the counter is an observer, it never changes an outcome -/
theorem parseL_is_parse (src : Str) (lookup : Env) : (parseL src lookup).1 = parse src lookup :=
  parseLoopL_fst _ src [] lookup 1

/-- the counter only grows: the number in a message is at least the line the loop iteration started on -/
theorem parseLoopL_line_mono : ∀ (fuel : Nat) (src : Str) (m : Map) (lk : Env) (l : Nat),
    l ≤ (parseLoopL fuel src m lk l).2
  | 0, _, _, _, _ => Nat.le_refl _
  | fuel + 1, src, m, lk, l => by
    unfold parseLoopL
    simp only
    cases stmtStart (src.length + 1) src with
    | error s => exact Nat.le_add_right _ _
    | ok cs =>
      simp only
      by_cases he : cs.isEmpty = true
      · simp only [he, if_true]; exact Nat.le_add_right _ _
      · simp only [he, Bool.false_eq_true, if_false]
        cases locateKey cs with
        | error s => exact Nat.le_add_right _ _
        | ok r =>
          cases r with
          | error e => exact Nat.le_add_right _ _
          | ok kli =>
            obtain ⟨key, left, inh⟩ := kli
            simp only
            by_cases hs : key.any isSpaceU = true
            · simp only [hs, if_true]; omega
            · simp only [hs, Bool.false_eq_true, if_false]
              cases inh with
              | true =>
                simp only [if_true]
                cases lk key with
                | some v => exact Nat.le_trans (by omega) (parseLoopL_line_mono fuel _ _ lk _)
                | none => exact Nat.le_trans (by omega) (parseLoopL_line_mono fuel _ _ lk _)
              | false =>
                simp only [Bool.false_eq_true, if_false]
                cases extractValue left m lk with
                | error s => simp only; omega
                | ok r2 =>
                  cases r2 with
                  | error e => simp only; omega
                  | ok vl =>
                    obtain ⟨v, left'⟩ := vl
                    exact Nat.le_trans (by omega) (parseLoopL_line_mono fuel _ _ lk _)

/-- every reported line number is at least 1 -/
theorem errorLine_pos (src : Str) (lookup : Env) (n : Nat) (h : errorLine (parseL src lookup) = some n) : 1 ≤ n := by
  have hm := parseLoopL_line_mono (src.length + 2) src [] lookup 1
  unfold errorLine at h
  unfold parseL at h
  split at h <;> first | (cases h; exact hm) | cases h

/-! what the counter reports (each replayed on the real code by the `dotenvLine` stream) -/

-- blank lines, comments, multi-line quoted values and inline comments are counted: the bad key is on line 6
example : errorLine (parseL "A=1\n\n# c\nB='x\ny' # d\nA$=1".toList (fun _ => none)) = some 6 := by decide
-- a key with an inner U+0020: its own line
example : errorLine (parseL "X=1\nA B\n".toList (fun _ => none)) = some 2 := by decide
-- quirk (since `fix:` ba15aca): a key with an inner TAB on a line of its own reports the NEXT line
example : errorLine (parseL "X=1\nA\tB\n".toList (fun _ => none)) = some 3 := by decide
-- quirk: an unterminated quote reports the LAST line of the input, not the line of the opening quote
example : errorLine (parseL "X=1\nY='a\nb\nc".toList (fun _ => none)) = some 4 := by decide
-- quirk: a bare key with a trailing U+0020 is not counted, so the next message is one short
example : errorLine (parseL "A \nB$=1".toList (fun _ => none)) = some 1 := by decide
-- an unquoted value on the last line without a line feed is counted as a line all the same
example : (parseL "A=1".toList (fun _ => none)).2 = 2 := by decide
-- messages without `line %d:` have no number
example : errorLine (parseL "A=${".toList (fun _ => none)) = none := by decide

end CV.Dotenv
