import ComposeVerif.Lemmas.PathsOrigin
import ComposeVerif.Lemmas.PathsDir
import ComposeVerif.Lemmas.PathsChain
import ComposeVerif.Lemmas.AuditCmd
/-!
# C12 — the right directory anchors a path: per-origin base directories of the loader

`Model/PathsOrigin.lean` models the path arithmetic of the loader (`localResourceLoader.Dir`, `filepath.Rel`/`Dir`,
the include and extends levels) and `predict`, the value of a path attribute in the loaded project (tied to the
real loader on every whole load of the harness, check `c12.load`).  The theorems say that this staged resolution
is ONE resolution against the directory the property names: the project directory for the main files, the
included project directory for included files, the extended file's directory for inherited attributes.
`resolveKind k` (k = 0 env/label/watch paths, 1 build contexts, ≥ 2 mount sources / secret and config files) is
the resolver of `Props/C12.lean`, for which `model_meets_spec` holds.
-/
namespace CV.Paths

/-- `filepath.Rel` between absolute paths never fails, yields a non-empty relative path and inverts `Join`:
`Join(base, Rel(base, targ)) = Clean(targ)` -/
theorem rel_inverts_join (b t : Str) (hb : isAbs b = true) (ht : isAbs t = true) :
    ∃ r, rel b t = some r ∧ r ≠ [] ∧ isAbs r = false ∧ join b r = clean t := rel_join b t hb ht

example : rel ['/', 'w', '/', 'p'] ['/', 'w', '/', 's', '/', 'x'] = some ['.', '.', '/', 's', '/', 'x'] := by decide

/-- main and override files: one resolution against the project directory; with resolution off, as written -/
theorem main_origin (k : Nat) (cfg : Cfg) (isDir : Str → Bool) (s : Str) :
    predict k cfg isDir [] true s = resolveKind k cfg s ∧ predict k cfg isDir [] false s = .ok s := by
  constructor
  · obtain ⟨r, hr⟩ := resolveKind_total k cfg s
    simp only [predict, stagesOf, List.nil_append, Bool.true_eq_false, if_false, if_true]
    rw [applyStages_cons_ok k cfg cfg.wd [] s r hr, hr]; rfl
  · simp [predict, stagesOf, applyStages]

theorem abs_ne_nil (w : Str) (h : isAbs w = true) : w ≠ [] := by intro e; simp [e, isAbs] at h

/-- **included file** (`include: [p]`, no `project_directory`): the base is the directory of the included file -/
theorem include_origin (k : Nat) (cfg : Cfg) (isDir : Str → Bool) (p s : Str) (hW : isAbs cfg.wd = true)
    (hfile : isDir (absIn cfg.wd p) = false) (hhome : ∀ h, cfg.home = some h → h ≠ []) :
    predict k cfg isDir [.incl p none] true s = resolveKind k { cfg with wd := dir (absIn cfg.wd p) } s := by
  have hpath := isAbs_absIn cfg.wd p hW
  have hl := loaderDir_of_file isDir cfg.wd (absIn cfg.wd p) hW (by rw [absIn_of_abs _ _ hpath]; exact hfile)
  rw [absIn_of_abs _ _ (isAbs_dir _ hpath), clean_dir] at hl
  simp only [predict, stagesOf, includeLevel, List.nil_append, List.cons_append, List.singleton_append, if_true]
  rw [applyStages_two k cfg _ cfg.wd s (abs_ne_nil _ hW) hl.1 hl.2.1 hhome, hl.2.2]

/-- **included file with a relative `project_directory: d`**: the base is the project directory joined with `d` -/
theorem include_pd_origin (k : Nat) (cfg : Cfg) (isDir : Str → Bool) (p d s : Str) (hW : isAbs cfg.wd = true)
    (hd : d ≠ []) (hdr : isAbs d = false) (hdir : isDir (absIn cfg.wd d) = true)
    (hhome : ∀ h, cfg.home = some h → h ≠ []) :
    predict k cfg isDir [.incl p (some d)] true s = resolveKind k { cfg with wd := join cfg.wd d } s := by
  have hl := loaderDir_of_dir isDir cfg.wd d hW hdir
  have e : clean (absIn cfg.wd d) = join cfg.wd d := by
    simp only [absIn, hdr, Bool.false_eq_true, if_false]
    rw [join_of_ne _ _ (abs_ne_nil _ hW)]; exact clean_idem _
  rw [e] at hl
  simp only [predict, stagesOf, includeLevel, hd, if_false, hdr, Bool.not_false, if_true, List.nil_append, List.cons_append, List.singleton_append]
  rw [applyStages_two k cfg _ cfg.wd s (abs_ne_nil _ hW) hl.1 hl.2.1 hhome, hl.2.2]

/-- **inherited attributes** (`extends: {file: f}`): the base is the directory of the extended file
(the directory part of `f`, taken from the project directory) -/
theorem extends_origin (k : Nat) (cfg : Cfg) (isDir : Str → Bool) (f s : Str) (hW : isAbs cfg.wd = true)
    (hfile : isDir (absIn cfg.wd f) = false) (hhome : ∀ h, cfg.home = some h → h ≠ []) :
    predict k cfg isDir [.ext f] true s = resolveKind k { cfg with wd := clean (absIn cfg.wd (dir f)) } s := by
  have hl := loaderDir_of_file isDir cfg.wd f hW hfile
  simp only [predict, stagesOf, extendsLevel, List.nil_append, List.cons_append, List.singleton_append, if_true]
  rw [applyStages_two k cfg _ cfg.wd s (abs_ne_nil _ hW) hl.1 hl.2.1 hhome, hl.2.2]

example : clean (absIn ['/', 'w'] (dir ['e', '/', 'b', '.', 'y'])) = ['/', 'w', '/', 'e'] := by decide

/-- **include inside an include** (depth 2): the base is the directory of the innermost included file, found from
the project directory of the outer include -/
theorem include2_origin (k : Nat) (cfg : Cfg) (isDir : Str → Bool) (p1 p2 s : Str) (hW : isAbs cfg.wd = true)
    (hf1 : isDir (absIn cfg.wd p1) = false)
    (hf2 : isDir (absIn (dir (absIn cfg.wd p1)) p2) = false)
    (hhome : ∀ h, cfg.home = some h → h ≠ []) :
    predict k cfg isDir [.incl p1 none, .incl p2 none] true s =
      resolveKind k { cfg with wd := dir (absIn (dir (absIn cfg.wd p1)) p2) } s := by
  have hpath1 := isAbs_absIn cfg.wd p1 hW
  have hl1 := loaderDir_of_file isDir cfg.wd (absIn cfg.wd p1) hW (by rw [absIn_of_abs _ _ hpath1]; exact hf1)
  rw [absIn_of_abs _ _ (isAbs_dir _ hpath1), clean_dir] at hl1
  have hPD := isAbs_dir _ hpath1
  have hpath2 := isAbs_absIn (dir (absIn cfg.wd p1)) p2 hPD
  have hl2 := loaderDir_of_file isDir (dir (absIn cfg.wd p1)) (absIn (dir (absIn cfg.wd p1)) p2) hPD
    (by rw [absIn_of_abs _ _ hpath2]; exact hf2)
  rw [absIn_of_abs _ _ (isAbs_dir _ hpath2), clean_dir] at hl2
  simp only [predict, stagesOf, includeLevel, List.nil_append, List.cons_append, List.singleton_append, if_true]
  rw [applyStages_three k cfg _ _ cfg.wd s (abs_ne_nil _ hW) hl1.1 hl1.2.1 hl2.1 hl2.2.1 hhome]
  rw [← join_assoc _ _ _ (abs_ne_nil _ hW) hl1.1 hl1.2.1, hl1.2.2, hl2.2.2]

/-- **extends inside an included file**: the base is the directory of the extended file, found from the included
project directory -/
theorem include_extends_origin (k : Nat) (cfg : Cfg) (isDir : Str → Bool) (p f s : Str) (hW : isAbs cfg.wd = true)
    (hf1 : isDir (absIn cfg.wd p) = false)
    (hf2 : isDir (absIn (dir (absIn cfg.wd p)) f) = false)
    (hhome : ∀ h, cfg.home = some h → h ≠ []) :
    predict k cfg isDir [.incl p none, .ext f] true s =
      resolveKind k { cfg with wd := clean (absIn (dir (absIn cfg.wd p)) (dir f)) } s := by
  have hpath1 := isAbs_absIn cfg.wd p hW
  have hl1 := loaderDir_of_file isDir cfg.wd (absIn cfg.wd p) hW (by rw [absIn_of_abs _ _ hpath1]; exact hf1)
  rw [absIn_of_abs _ _ (isAbs_dir _ hpath1), clean_dir] at hl1
  have hPD := isAbs_dir _ hpath1
  have hl2 := loaderDir_of_file isDir (dir (absIn cfg.wd p)) f hPD hf2
  simp only [predict, stagesOf, includeLevel, extendsLevel, List.nil_append, List.cons_append, List.singleton_append, if_true]
  rw [applyStages_three k cfg _ _ cfg.wd s (abs_ne_nil _ hW) hl1.1 hl1.2.1 hl2.1 hl2.2.1 hhome]
  rw [← join_assoc _ _ _ (abs_ne_nil _ hW) hl1.1 hl1.2.1, hl1.2.2, hl2.2.2]

/-- **`Dir(Join(W, f)) = Join(W, Dir(f))`** for a relative `f` whose last element is a real name -/
theorem dir_commutes_with_join (W f : Str) (I : List Str) (last : Str) (hW : W ≠ []) (hf : isAbs f = false)
    (hsplit : splitSlash f = I ++ [last]) (hlast : Norm last) : dir (join W f) = join W (dir f) :=
  dir_join W f I last hW hf hsplit hlast

example : splitSlash ['e', '/', 'b', '.', 'y'] = [['e']] ++ [['b', '.', 'y']] ∧ Norm ['b', '.', 'y'] :=
  ⟨by decide, by decide, by decide, by decide⟩

/-- `extends_origin` phrased with the absolute file: the base is `Dir` of the extended file -/
theorem extends_origin_dir (k : Nat) (cfg : Cfg) (isDir : Str → Bool) (f s : Str) (I : List Str) (last : Str)
    (hW : isAbs cfg.wd = true) (hf : isAbs f = false) (hsplit : splitSlash f = I ++ [last]) (hlast : Norm last)
    (hfile : isDir (absIn cfg.wd f) = false) (hhome : ∀ h, cfg.home = some h → h ≠ []) :
    predict k cfg isDir [.ext f] true s = resolveKind k { cfg with wd := dir (absIn cfg.wd f) } s := by
  rw [extends_origin k cfg isDir f s hW hfile hhome]
  have hdf : isAbs (dir f) = false := by unfold dir; rw [isAbs_clean, isAbs_dirPrefix]; exact hf
  have e : clean (absIn cfg.wd (dir f)) = dir (absIn cfg.wd f) := by
    simp only [absIn, hdf, hf, Bool.false_eq_true, if_false]
    rw [dir_join cfg.wd f I last (abs_ne_nil _ hW) hf hsplit hlast, join_of_ne _ _ (abs_ne_nil _ hW)]
    exact clean_idem _
  rw [e]

/-- **an extended file that itself extends from a third directory** (`extends2`): `f1` is written in the main file,
`f2` in the file `f1`; the inner reference is first rebased by `absExtendsPath`, then its file is resolved ONCE against
its own directory — which is `Dir` of `f2` taken from the directory of `f1` -/
theorem extends2_origin (k : Nat) (cfg : Cfg) (isDir : Str → Bool) (f1 f2 s : Str) (I : List Str) (last : Str)
    (hW : isAbs cfg.wd = true) (hfile1 : isDir (absIn cfg.wd f1) = false)
    (hf2 : isAbs f2 = false) (hf2ne : f2 ≠ []) (hf2t : tilde f2 = false) (hrem : cfg.remote f2 = false)
    (hsplit : splitSlash f2 = I ++ [last]) (hlast : Norm last)
    (hfile2 : isDir (absIn cfg.wd (joinWd (loaderDir isDir cfg.wd f1) f2)) = false)
    (hhome : ∀ h, cfg.home = some h → h ≠ []) :
    predict k cfg isDir [.ext f1, .ext f2] true s =
      resolveKind k { cfg with wd := dir (join (clean (absIn cfg.wd (dir f1))) f2) } s := by
  have hWne := abs_ne_nil _ hW
  have hl1 := loaderDir_of_file isDir cfg.wd f1 hW hfile1
  -- the rebased reference
  have hreb : absExtendsStr { cfg with wd := loaderDir isDir cfg.wd f1 } f2 = joinWd (loaderDir isDir cfg.wd f1) f2 := by
    simp only [absExtendsStr, hrem, Bool.false_eq_true, if_false]
    exact absPathStr_relative _ f2 hf2 hf2ne hf2t
  have hg_rel : isAbs (joinWd (loaderDir isDir cfg.wd f1) f2) = false := by
    rw [isAbs_joinWd]; exact isAbs_join_rel _ _ hl1.1 hl1.2.1
  have hl2 := loaderDir_of_file isDir cfg.wd (joinWd (loaderDir isDir cfg.wd f1) f2) hW hfile2
  obtain ⟨I', hsp'⟩ := splitSlash_joinWd_last (loaderDir isDir cfg.wd f1) f2 I last hl1.1 hl1.2.1 hsplit hlast
  have hdg : isAbs (dir (joinWd (loaderDir isDir cfg.wd f1) f2)) = false := by
    unfold dir; rw [isAbs_clean, isAbs_dirPrefix]; exact hg_rel
  have ebase : clean (absIn cfg.wd (dir (joinWd (loaderDir isDir cfg.wd f1) f2))) =
      dir (join (clean (absIn cfg.wd (dir f1))) f2) := by
    simp only [absIn, hdg, Bool.false_eq_true, if_false]
    rw [← dir_join cfg.wd _ I' last hWne hg_rel hsp' hlast, clean_dir, join_joinWd _ _ _ hWne,
      ← join_assoc _ _ _ hWne hl1.1 hl1.2.1, hl1.2.2]
    simp only [absIn]
  simp only [predict, stagesOf, extendsLevel, hreb, List.nil_append, List.cons_append, List.singleton_append, if_true]
  rw [applyStages_two k cfg _ cfg.wd s hWne hl2.1 hl2.2.1 hhome, hl2.2.2, ebase]

/-! ## origin chains of any depth (round 5) -/

/-- **a chain of `n` includes, any `n`**: `predict` — the `n + 1` staged resolutions the loader performs — is ONE
resolution against the directory of the innermost included file, each file being found from the directory of the
previous one (`include_origin` is `n = 1`, `include2_origin` is `n = 2`) -/
theorem include_chain_origin (k : Nat) (cfg : Cfg) (isDir : Str → Bool) (ps : List Str) (s : Str)
    (hW : isAbs cfg.wd = true) (hok : InclOK isDir (fun _ => True) cfg.wd ps)
    (hhome : ∀ h, cfg.home = some h → h ≠ []) :
    predict k cfg isDir (inclSteps ps) true s = resolveKind k { cfg with wd := inclDir id cfg.wd ps } s := by
  have h := stagesOf_incl_chain cfg isDir [] id (fun _ => True)
    (by intro L c _ _; simp [stagesOf, chainBase]) ps cfg.wd cfg.wd hW hok
  simp only [List.append_nil] at h
  simp only [predict, if_true]
  rw [applyStages_chain k cfg cfg.wd (abs_ne_nil _ hW) hhome _ h.1 s, h.2]

/-- **`extends` inside the innermost of `n` included files, any `n`**: the base of the inherited attributes is the
directory part of `extends.file`, taken from the directory of that included file (`extends_origin` is `n = 0`,
`include_extends_origin` is `n = 1`) -/
theorem include_chain_extends_origin (k : Nat) (cfg : Cfg) (isDir : Str → Bool) (ps : List Str) (f s : Str)
    (hW : isAbs cfg.wd = true) (hok : InclOK isDir (fun L => isDir (absIn L f) = false) cfg.wd ps)
    (hhome : ∀ h, cfg.home = some h → h ≠ []) :
    predict k cfg isDir (inclSteps ps ++ [.ext f]) true s =
      resolveKind k { cfg with wd := inclDir (fun L => clean (absIn L (dir f))) cfg.wd ps } s := by
  have h := stagesOf_incl_chain cfg isDir [.ext f] (fun L => clean (absIn L (dir f))) (fun L => isDir (absIn L f) = false)
    (by
      intro L c hL hfin
      have hl := loaderDir_of_file isDir L f hL hfin
      simp only [stagesOf, extendsLevel, List.nil_append, List.mem_singleton, forall_eq, chainBase]
      exact ⟨⟨hl.1, hl.2.1⟩, hl.2.2⟩) ps cfg.wd cfg.wd hW hok
  simp only [predict, if_true]
  rw [applyStages_chain k cfg cfg.wd (abs_ne_nil _ hW) hhome _ h.1 s, h.2]

/-- the directory a chain leads to, unfolded for depth 3 -/
example (W p1 p2 p3 : Str) :
    inclDir id W [p1, p2, p3] = dir (absIn (dir (absIn (dir (absIn W p1)) p2)) p3) := rfl

/-- non-vacuity: `/w` includes `a/i.yaml`, which includes `../b/j.yaml`, which includes `c/k.yaml`: the base is `/w/b/c` -/
example : InclOK (fun _ => false) (fun _ => True) ['/', 'w'] [['a', '/', 'i'], ['.', '.', '/', 'b', '/', 'j'], ['c', '/', 'k']] ∧
    inclDir id ['/', 'w'] [['a', '/', 'i'], ['.', '.', '/', 'b', '/', 'j'], ['c', '/', 'k']] = ['/', 'w', '/', 'b', '/', 'c'] :=
  ⟨by simp [InclOK], by decide⟩


/-- **resolution off** (`ResolvePaths = false`), a chain of `n ≥ 1` includes: the value is resolved ONCE, against a
non-empty *relative* directory `R` — and `Join(project directory, R)` is the directory the chain leads to: what such a
caller sees is the path as written, rebased to be relative to the project directory -/
theorem include_chain_origin_off (k : Nat) (cfg : Cfg) (isDir : Str → Bool) (p : Str) (ps : List Str) (s : Str)
    (hW : isAbs cfg.wd = true) (hok : InclOK isDir (fun _ => True) cfg.wd (p :: ps))
    (hhome : ∀ h, cfg.home = some h → h ≠ []) :
    ∃ R, R ≠ [] ∧ isAbs R = false ∧ join cfg.wd R = inclDir id cfg.wd (p :: ps) ∧
      predict k cfg isDir (inclSteps (p :: ps)) false s = resolveKind k { cfg with wd := R } s := by
  obtain ⟨hf, hrest⟩ := hok
  have hpath := isAbs_absIn cfg.wd p hW
  have hl := loaderDir_of_file isDir cfg.wd (absIn cfg.wd p) hW (by rw [absIn_of_abs _ _ hpath]; exact hf)
  rw [absIn_of_abs _ _ (isAbs_dir _ hpath), clean_dir] at hl
  have h := stagesOf_incl_chain cfg isDir [] id (fun _ => True)
    (by intro L c _ _; simp [stagesOf, chainBase]) ps (dir (absIn cfg.wd p)) (loaderDir isDir cfg.wd (absIn cfg.wd p))
    (isAbs_dir _ hpath) hrest
  simp only [List.append_nil] at h
  obtain ⟨c1, c2, c3⟩ := chainBase_join cfg.wd _ (abs_ne_nil _ hW) hl.1 hl.2.1 _ h.1
  refine ⟨_, c1, c2, ?_, ?_⟩
  · rw [c3, hl.2.2, h.2]; rfl
  · simp only [predict, Bool.false_eq_true, if_false, inclSteps, List.map_cons, stagesOf, includeLevel]
    exact applyStages_chain k cfg _ hl.1 hhome _ h.1 s

end CV.Paths
