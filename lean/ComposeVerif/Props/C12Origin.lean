import ComposeVerif.Lemmas.PathsOrigin
import ComposeVerif.Lemmas.AuditCmd
/-!
# C12 — the right directory anchors a path: per-origin base directories of the loader

`Model/PathsOrigin.lean` models the path arithmetic of the loader (`localResourceLoader.Dir`, `filepath.Rel`/`Dir`,
the include and extends levels) and `predict`, the value of a path attribute in the loaded project (tied to the
real loader on every whole load of the harness, check `c12.load`).  The theorems say that this staged resolution
is ONE resolution against the directory the property names: the project directory for the main files, the
included project directory for included files, the extended file's directory for inherited attributes.
`resolveKind k` (k = 0 env/label/watch paths, 1 build contexts, ≥ 2 mount sources / secret and config files) is
the resolver of `Props/C12.lean`, for which `model_meets_spec` holds.
-/
namespace CV.Paths

/-- `filepath.Rel` between absolute paths never fails, yields a non-empty relative path and inverts `Join`:
`Join(base, Rel(base, targ)) = Clean(targ)` -/
theorem rel_inverts_join (b t : Str) (hb : isAbs b = true) (ht : isAbs t = true) :
    ∃ r, rel b t = some r ∧ r ≠ [] ∧ isAbs r = false ∧ join b r = clean t := rel_join b t hb ht

example : rel ['/', 'w', '/', 'p'] ['/', 'w', '/', 's', '/', 'x'] = some ['.', '.', '/', 's', '/', 'x'] := by decide

/-- main and override files: one resolution against the project directory; with resolution off, as written -/
theorem main_origin (k : Nat) (cfg : Cfg) (isDir : Str → Bool) (s : Str) :
    predict k cfg isDir [] true s = resolveKind k cfg s ∧ predict k cfg isDir [] false s = .ok s := by
  constructor
  · obtain ⟨r, hr⟩ := resolveKind_total k cfg s
    simp only [predict, stagesOf, List.nil_append, Bool.true_eq_false, if_false, if_true]
    rw [applyStages_cons_ok k cfg cfg.wd [] s r hr, hr]; rfl
  · simp [predict, stagesOf, applyStages]

theorem abs_ne_nil (w : Str) (h : isAbs w = true) : w ≠ [] := by intro e; simp [e, isAbs] at h

/-- **included file** (`include: [p]`, no `project_directory`): the base is the directory of the included file -/
theorem include_origin (k : Nat) (cfg : Cfg) (isDir : Str → Bool) (p s : Str) (hW : isAbs cfg.wd = true)
    (hfile : isDir (absIn cfg.wd p) = false) (hhome : ∀ h, cfg.home = some h → h ≠ []) :
    predict k cfg isDir [.incl p none] true s = resolveKind k { cfg with wd := dir (absIn cfg.wd p) } s := by
  have hpath := isAbs_absIn cfg.wd p hW
  have hl := loaderDir_of_file isDir cfg.wd (absIn cfg.wd p) hW (by rw [absIn_of_abs _ _ hpath]; exact hfile)
  rw [absIn_of_abs _ _ (isAbs_dir _ hpath), clean_dir] at hl
  simp only [predict, stagesOf, includeLevel, List.nil_append, List.cons_append, List.singleton_append, if_true]
  rw [applyStages_two k cfg _ cfg.wd s (abs_ne_nil _ hW) hl.1 hl.2.1 hhome, hl.2.2]

/-- **included file with a relative `project_directory: d`**: the base is the project directory joined with `d` -/
theorem include_pd_origin (k : Nat) (cfg : Cfg) (isDir : Str → Bool) (p d s : Str) (hW : isAbs cfg.wd = true)
    (hd : d ≠ []) (hdr : isAbs d = false) (hdir : isDir (absIn cfg.wd d) = true)
    (hhome : ∀ h, cfg.home = some h → h ≠ []) :
    predict k cfg isDir [.incl p (some d)] true s = resolveKind k { cfg with wd := join cfg.wd d } s := by
  have hl := loaderDir_of_dir isDir cfg.wd d hW hdir
  have e : clean (absIn cfg.wd d) = join cfg.wd d := by
    simp only [absIn, hdr, Bool.false_eq_true, if_false]
    rw [join_of_ne _ _ (abs_ne_nil _ hW)]; exact clean_idem _
  rw [e] at hl
  simp only [predict, stagesOf, includeLevel, hd, if_false, hdr, Bool.not_false, if_true, List.nil_append, List.cons_append, List.singleton_append]
  rw [applyStages_two k cfg _ cfg.wd s (abs_ne_nil _ hW) hl.1 hl.2.1 hhome, hl.2.2]

/-- **inherited attributes** (`extends: {file: f}`): the base is the directory of the extended file
(the directory part of `f`, taken from the project directory) -/
theorem extends_origin (k : Nat) (cfg : Cfg) (isDir : Str → Bool) (f s : Str) (hW : isAbs cfg.wd = true)
    (hfile : isDir (absIn cfg.wd f) = false) (hhome : ∀ h, cfg.home = some h → h ≠ []) :
    predict k cfg isDir [.ext f] true s = resolveKind k { cfg with wd := clean (absIn cfg.wd (dir f)) } s := by
  have hl := loaderDir_of_file isDir cfg.wd f hW hfile
  simp only [predict, stagesOf, extendsLevel, List.nil_append, List.cons_append, List.singleton_append, if_true]
  rw [applyStages_two k cfg _ cfg.wd s (abs_ne_nil _ hW) hl.1 hl.2.1 hhome, hl.2.2]

example : clean (absIn ['/', 'w'] (dir ['e', '/', 'b', '.', 'y'])) = ['/', 'w', '/', 'e'] := by decide

/-- **include inside an include** (depth 2): the base is the directory of the innermost included file, found from
the project directory of the outer include -/
theorem include2_origin (k : Nat) (cfg : Cfg) (isDir : Str → Bool) (p1 p2 s : Str) (hW : isAbs cfg.wd = true)
    (hf1 : isDir (absIn cfg.wd p1) = false)
    (hf2 : isDir (absIn (dir (absIn cfg.wd p1)) p2) = false)
    (hhome : ∀ h, cfg.home = some h → h ≠ []) :
    predict k cfg isDir [.incl p1 none, .incl p2 none] true s =
      resolveKind k { cfg with wd := dir (absIn (dir (absIn cfg.wd p1)) p2) } s := by
  have hpath1 := isAbs_absIn cfg.wd p1 hW
  have hl1 := loaderDir_of_file isDir cfg.wd (absIn cfg.wd p1) hW (by rw [absIn_of_abs _ _ hpath1]; exact hf1)
  rw [absIn_of_abs _ _ (isAbs_dir _ hpath1), clean_dir] at hl1
  have hPD := isAbs_dir _ hpath1
  have hpath2 := isAbs_absIn (dir (absIn cfg.wd p1)) p2 hPD
  have hl2 := loaderDir_of_file isDir (dir (absIn cfg.wd p1)) (absIn (dir (absIn cfg.wd p1)) p2) hPD
    (by rw [absIn_of_abs _ _ hpath2]; exact hf2)
  rw [absIn_of_abs _ _ (isAbs_dir _ hpath2), clean_dir] at hl2
  simp only [predict, stagesOf, includeLevel, List.nil_append, List.cons_append, List.singleton_append, if_true]
  rw [applyStages_three k cfg _ _ cfg.wd s (abs_ne_nil _ hW) hl1.1 hl1.2.1 hl2.1 hl2.2.1 hhome]
  rw [← join_assoc _ _ _ (abs_ne_nil _ hW) hl1.1 hl1.2.1, hl1.2.2, hl2.2.2]

/-- **extends inside an included file**: the base is the directory of the extended file, found from the included
project directory -/
theorem include_extends_origin (k : Nat) (cfg : Cfg) (isDir : Str → Bool) (p f s : Str) (hW : isAbs cfg.wd = true)
    (hf1 : isDir (absIn cfg.wd p) = false)
    (hf2 : isDir (absIn (dir (absIn cfg.wd p)) f) = false)
    (hhome : ∀ h, cfg.home = some h → h ≠ []) :
    predict k cfg isDir [.incl p none, .ext f] true s =
      resolveKind k { cfg with wd := clean (absIn (dir (absIn cfg.wd p)) (dir f)) } s := by
  have hpath1 := isAbs_absIn cfg.wd p hW
  have hl1 := loaderDir_of_file isDir cfg.wd (absIn cfg.wd p) hW (by rw [absIn_of_abs _ _ hpath1]; exact hf1)
  rw [absIn_of_abs _ _ (isAbs_dir _ hpath1), clean_dir] at hl1
  have hPD := isAbs_dir _ hpath1
  have hl2 := loaderDir_of_file isDir (dir (absIn cfg.wd p)) f hPD hf2
  simp only [predict, stagesOf, includeLevel, extendsLevel, List.nil_append, List.cons_append, List.singleton_append, if_true]
  rw [applyStages_three k cfg _ _ cfg.wd s (abs_ne_nil _ hW) hl1.1 hl1.2.1 hl2.1 hl2.2.1 hhome]
  rw [← join_assoc _ _ _ (abs_ne_nil _ hW) hl1.1 hl1.2.1, hl1.2.2, hl2.2.2]

end CV.Paths
