import ComposeVerif.Lemmas.EnvLayersLoad
import ComposeVerif.Props.C16
/-!
# C16 — YAML `labels` through a whole load, the second caller `WithServicesEnabled`, re-resolution, error choice

Round 5.  Theorems about `Model/EnvLayersLoad.lean`; all for arbitrary inputs.
-/
namespace CV.EnvLayers
open CV.EnvLayers.Spec

/-! ## YAML labels -/

/-- **decodeLabels_last_wins.**  `Labels.DecodeMapstructure`: in the sequence form the last element naming `k` decides
    (`- k` gives the empty value), in the mapping form `k:` (null) is the empty value. -/
theorem decodeLabels_last_wins (yl : YLabels) (k : Key) : lookup k (decodeLabels yl) = yamlLabel yl k := by
  cases yl with
  | absent => rfl
  | list items => exact lookup_overrideBy_nil k _
  | map kvs =>
    show lookup k (overrideBy [] _) = _
    rw [lookup_overrideBy_nil, ← List.map_reverse, lookup_map_snd]
    rfl

/-- the environment stage of a whole load never touches labels or label files (with or without `SkipResolveEnvironment`) -/
theorem loadServiceEnv_keeps_labels (cfg : LoadCfg) (penv : List (Key × Str)) (fs : FS) (y : YEnv) (s s1 : Service)
    (h : loadServiceEnv cfg penv fs y s = .ok s1) : s1.labels = s.labels ∧ s1.labelFiles = s.labelFiles := by
  unfold loadServiceEnv at h
  split at h
  · simp only [Except.ok.injEq] at h
    subst h
    exact ⟨rfl, rfl⟩
  · exact env_step_keeps_labels penv fs cfg.discard { s with environment := loadedEnv cfg penv y } s1 h

/-- **load_labels_precedence.**  Through a whole load — `labels` written as a sequence or as a mapping, any combination
    of `SkipNormalization`, `SkipResolveEnvironment`, discard — the final `Labels` of a service are: what the YAML `labels`
    say (last element wins), else the last label file that defines the key. -/
theorem load_labels_precedence (cfg : LoadCfg) (penv : List (Key × Str)) (fs : FS) (y : YService) (s1 s2 : Service)
    (hwf : WFFS fs) (h1 : loadServiceEnv cfg penv fs y.yenv y.decoded = .ok s1)
    (h2 : resolveServiceLabels fs cfg.discard s1 = .ok s2) (k : Key) :
    lookup k s2.labels = finalLabelY (labelContents fs y.svc.labelFiles) y.ylabels k := by
  have hk := loadServiceEnv_keeps_labels cfg penv fs y.yenv y.decoded s1 h1
  have hd : Distinct s1.labels := hk.1 ▸ distinct_decodeLabels y.ylabels
  have hl := labels_precedence fs cfg.discard s1 s2 hwf hd h2 k
  rw [hk.1, hk.2] at hl
  rw [hl]
  unfold finalLabel finalLabelY
  show orElse (lookup k (decodeLabels y.ylabels)) _ = _
  rw [decodeLabels_last_wins]
  rfl

/-- **load_service_final_y.**  Both observations of one service of a whole load, from the YAML forms. -/
theorem load_service_final_y (cfg : LoadCfg) (penv : List (Key × Str)) (fs : FS) (y : YService) (s1 s2 : Service)
    (hwf : WFFS fs) (hpenv : NoEqKeys penv) (hres : cfg.skipResolveEnvironment = false)
    (h1 : loadServiceEnv cfg penv fs y.yenv y.decoded = .ok s1) (h2 : resolveServiceLabels fs cfg.discard s1 = .ok s2) (k : Key) :
    lookup k s2.environment = finalEnv penv (envContents fs y.svc.envFiles) (decodeEnv y.yenv) k ∧
    lookup k s2.labels = finalLabelY (labelContents fs y.svc.labelFiles) y.ylabels k :=
  ⟨(load_service_final cfg penv fs y.yenv y.decoded s1 s2 hwf hpenv hres (distinct_decodeLabels _) h1 h2 k).1,
   load_labels_precedence cfg penv fs y s1 s2 hwf h1 h2 k⟩

/-! ## the second caller: `WithServicesEnabled`, and resolving an already resolved project again -/

/-- **enabled_without_names_resolves_nothing.**  `WithServicesEnabled()` returns the copy: no env file is read (also no
    error for a missing required file). -/
theorem enabled_without_names_resolves_nothing (penv : List (Key × Str)) (fs : FS) (svcs : List (Str × Service)) :
    withServicesEnabled penv fs [] svcs = .ok svcs := rfl

/-- **enabled_discards.**  `WithServicesEnabled(n, …)` is environment resolution with discard: on success every service
    has lost its `env_file` references (and only those: `discard_only_drops_refs`). -/
theorem enabled_discards (penv : List (Key × Str)) (fs : FS) (n : Str) (ns : List Str) (svcs r : List (Str × Service))
    (h : withServicesEnabled penv fs (n :: ns) svcs = .ok r) :
    resolveProjectEnv penv fs true svcs = .ok r ∧ ∀ p ∈ r, p.2.envFiles = [] := by
  have h' : resolveProjectEnv penv fs true svcs = .ok r := h
  refine ⟨h', fun p hp => ?_⟩
  have hm := project_env_ok penv fs true svcs r h'
  have : (p.1, Except.ok p.2) ∈ r.map (fun q => (q.1, (Except.ok q.2 : Except Err Service))) := List.mem_map.2 ⟨p, hp, rfl⟩
  rw [← hm] at this
  obtain ⟨q, _, hq⟩ := List.mem_map.1 this
  simp only [Prod.mk.injEq] at hq
  have hres := hq.2
  unfold resolveServiceEnv at hres
  cases hl : loadEnvFiles penv fs q.2.envFiles [] with
  | error e => rw [hl] at hres; cases hres
  | ok acc =>
    rw [hl] at hres
    simp only [Except.ok.injEq] at hres
    rw [← hres]
    rfl

/-- **resolve_env_idempotent.**  Resolving the environment of an already resolved service again — what
    `WithServicesEnabled` does to a loaded project, with or without the file references still there — succeeds and
    changes no value: the `environment` layer already carries every file value and every project-environment value. -/
theorem resolve_env_idempotent (penv : List (Key × Str)) (fs : FS) (d d' : Bool) (s s' : Service)
    (hd : Distinct s.environment) (h : resolveServiceEnv penv fs d s = .ok s') :
    ∃ s'', resolveServiceEnv penv fs d' s' = .ok s'' ∧ (∀ k, lookup k s''.environment = lookup k s'.environment) ∧
      s''.envFiles = (if d' then [] else s'.envFiles) ∧ s''.labels = s.labels ∧ s''.labelFiles = s.labelFiles := by
  unfold resolveServiceEnv at h
  cases hl : loadEnvFiles penv fs s.envFiles [] with
  | error e => rw [hl] at h; cases h
  | ok acc =>
    rw [hl] at h
    simp only [Except.ok.injEq] at h
    subst h
    have hacc : Distinct acc := loadEnvFiles_distinct penv fs s.envFiles [] acc distinct_nil hl
    have hd1 : Distinct (overrideBy (toMWE acc) (resolveMWE (fun n => lookup n penv) s.environment)) :=
      distinct_overrideBy _ _ (distinct_toMWE _ hacc)
    -- the pointwise fixed point
    have key : ∀ (acc2 : List (Key × Str)), (∀ k, lookup k acc2 = none ∨ lookup k acc2 = lookup k acc) → ∀ k,
        lookup k (overrideBy (toMWE acc2) (resolveMWE (fun n => lookup n penv)
          (overrideBy (toMWE acc) (resolveMWE (fun n => lookup n penv) s.environment)))) =
        lookup k (overrideBy (toMWE acc) (resolveMWE (fun n => lookup n penv) s.environment)) := by
      intro acc2 h2 k
      rw [lookup_resolved_env penv acc2 _ hd1 k, lookup_resolved_env penv acc _ hd k]
      cases he : lookup k s.environment with
      | some v => simp [rv_idem]
      | none =>
        simp only [Option.map_none]
        cases ha : lookup k acc with
        | some x => simp [rv]
        | none =>
          rcases h2 k with h0 | h0
          · simp [h0]
          · simp [h0, ha]
    cases d with
    | true =>
      refine ⟨_, resolveServiceEnv_of_files penv fs d' _ [] rfl, fun k => key [] (fun _ => Or.inl rfl) k, ?_, rfl, rfl⟩
      cases d' <;> rfl
    | false =>
      exact ⟨_, resolveServiceEnv_of_files penv fs d' _ acc hl, fun k => key acc (fun _ => Or.inr rfl) k, rfl, rfl, rfl⟩

/-! ## precedence for any registry of env_file formats -/

/-- **env_precedence_any_format.**  No hypothesis on the outside world: whatever is registered with
    `dotenv.RegisterFormat`, whatever the files contain — if environment resolution succeeds, the final environment is,
    key by key, `environment` over the last env file whose parser returned the key, each file read with the lookup
    "earlier files, then the project environment"; value-less entries from the project environment. -/
theorem env_precedence_any_format (penv : List (Key × Str)) (fs : FS) (discard : Bool) (s s' : Service)
    (hd : Distinct s.environment) (h : resolveServiceEnv penv fs discard s = .ok s') (k : Key) :
    lookup k s'.environment = finalEnvG penv fs s.envFiles s.environment k := by
  unfold resolveServiceEnv at h
  cases hl : loadEnvFiles penv fs s.envFiles [] with
  | error e => rw [hl] at h; cases h
  | ok acc =>
    rw [hl] at h
    simp only [Except.ok.injEq] at h
    subst h
    have hacc := loadEnvFiles_specG penv fs s.envFiles [] acc hl k
    simp only
    rw [lookup_overrideBy k _ _ (distinct_resolveMWE _ _ hd), lookup_resolveMWE, lookup_toMWE, hacc]
    unfold finalEnvG
    cases lookup k s.environment with
    | none => rfl
    | some v => cases v <;> rfl

/-- **finalEnvG_is_finalEnv.**  With the library's (empty) registry and well-formed files the format-agnostic layering is
    the dotenv layering `finalEnv` wherever resolution succeeds. -/
theorem finalEnvG_is_finalEnv (penv : List (Key × Str)) (fs : FS) (discard : Bool) (s s' : Service) (hwf : WFFS fs)
    (hd : Distinct s.environment) (h : resolveServiceEnv penv fs discard s = .ok s') (k : Key) :
    finalEnvG penv fs s.envFiles s.environment k = finalEnv penv (envContents fs s.envFiles) s.environment k :=
  (env_precedence_any_format penv fs discard s s' hd h k).symm.trans (env_precedence penv fs discard s s' hwf hd h k)

/-- **registered_layer_precedence.**  A file with a registered format is a layer like any other: the value its parser
    returns for `k` wins over every earlier file and loses to `environment`. -/
theorem registered_layer_precedence (penv : List (Key × Str)) (fs : FS) (discard : Bool) (s s' : Service)
    (pre : List EnvFile) (f : EnvFile) (hd : Distinct s.environment) (hs : s.envFiles = pre ++ [f])
    (h : resolveServiceEnv penv fs discard s = .ok s') (k : Key) (v : Str)
    (hv : layerVal fs f (envLook penv (filesValGFrom penv fs (fun _ => none) pre.reverse)) k = some v) :
    lookup k s'.environment = match lookup k s.environment with
      | some (some x) => some (some x)
      | some none => some (lookup k penv)
      | none => some (some v) := by
  rw [env_precedence_any_format penv fs discard s s' hd h k]
  unfold finalEnvG
  rw [hs, List.reverse_append]
  simp only [List.reverse_cons, List.reverse_nil, List.nil_append, List.singleton_append, filesValGFrom, hv]
  cases lookup k s.environment with
  | none => rfl
  | some x => cases x <;> rfl

/-! ## labels: any iteration order, through the `len(labels) == 0` test -/

/-- **labels_any_iteration_order_full.**  Whatever order Go picks for every `range` inside
    `WithServicesLabelsResolved` — the `OverrideBy` loops and `NewLabelsFromMappingWithEquals` — and whichever branch of the
    `len(labels) == 0` test is taken: the run fails iff the list-order model fails, with the same error, and otherwise
    the final `Labels` have the model's value at every key. -/
theorem labels_any_iteration_order_full (fs : FS) (discard : Bool) (s : Service) (hd : Distinct s.labels)
    (out : Except Err (List (Key × Str))) (h : ServiceLabelsRunFull fs s out) :
    Agrees out ((resolveServiceLabels fs discard s).map (·.labels)) := by
  obtain ⟨merged, hrun, hout⟩ := h
  have hag := labels_any_iteration_order fs s hd merged hrun
  have hfin : ∀ final, ServiceLabelsRun fs s (.ok final) → Distinct final := by
    intro final ⟨r, _, hm⟩
    cases r with
    | error e => simp at hm
    | ok acc =>
      obtain ⟨fin, hro, he⟩ := hm
      simp only [Except.ok.injEq] at he
      subst he
      obtain ⟨_, _, hl⟩ := hro
      exact hl.1
  unfold resolveServiceLabels
  cases hl : loadLabelFiles fs s.labelFiles [] with
  | error e =>
    rw [hl] at hag
    cases merged with
    | ok final => exact hag.elim
    | error e' =>
      simp only at hout
      subst hout
      exact hag
  | ok acc0 =>
    rw [hl] at hag
    cases merged with
    | error e' => exact hag.elim
    | ok final =>
      have hme : MapEq final (overrideBy (toMWE acc0) (toMWE s.labels)) := hag
      have hdf : Distinct final := hfin final hrun
      have hdl : Distinct (overrideBy (toMWE acc0) (toMWE s.labels)) :=
        distinct_overrideBy _ _ (distinct_toMWE _ (loadLabelFiles_distinct fs s.labelFiles [] acc0 distinct_nil hl))
      simp only at hout
      simp only [Except.map]
      by_cases hemp : final.isEmpty = true
      · rw [if_pos hemp] at hout
        subst hout
        have hf0 : final = [] := List.isEmpty_iff.1 hemp
        have hL : overrideBy (toMWE acc0) (toMWE s.labels) = [] :=
          eq_nil_of_lookup_none _ fun k => by rw [← hme k, hf0]; rfl
        rw [hL]
        exact MapEq.refl _
      · rw [if_neg hemp] at hout
        obtain ⟨res, hlist, hout⟩ := hout
        subst hout
        have hne : (overrideBy (toMWE acc0) (toMWE s.labels)).isEmpty = false := by
          cases hL : overrideBy (toMWE acc0) (toMWE s.labels) with
          | cons _ _ => rfl
          | nil =>
            exfalso
            apply hemp
            have : final = [] := eq_nil_of_lookup_none _ fun k => by rw [hme k, hL]; rfl
            rw [this]; rfl
        rw [hne]
        intro k
        show lookup k res = lookup k (ofMWE (overrideBy (toMWE acc0) (toMWE s.labels)))
        rw [hlist.2 k, lookup_ofMWE k _ hdf, lookup_ofMWE k _ hdl, hme k]

/-! ## which failing service is reported -/

/-- **reported_error_is_first_failing.**  Go returns from the services loop at the first failing service of its map
    iteration order.  For every listing `rs'` of the services: the loop succeeds iff the model (`collect`) succeeds, and
    a reported error is one of the model's errors. -/
theorem reported_error_is_first_failing {α : Type} (rs rs' : List (Str × Except Err α)) (hp : rs.Perm rs') :
    (firstErr rs' = none ↔ ∃ r, collect rs = .ok r) ∧
    (∀ e, firstErr rs' = some e → ∃ es, collect rs = .error es ∧ e ∈ es) := by
  have hperm : (errsOf rs).Perm (errsOf rs') := hp.filterMap _
  rw [firstErr_eq_head]
  constructor
  · constructor
    · intro h
      have h0 : errsOf rs' = [] := List.head?_eq_none_iff.1 h
      rw [h0] at hperm
      have h1 : errsOf rs = [] := List.Perm.eq_nil hperm
      rcases collect_eq rs with ⟨r, hr, _⟩ | ⟨_, hne⟩
      · exact ⟨r, hr⟩
      · exact absurd h1 hne
    · rintro ⟨r, hr⟩
      rcases collect_eq rs with ⟨_, _, h1⟩ | ⟨he, _⟩
      · rw [h1] at hperm
        rw [List.Perm.eq_nil hperm.symm]
        rfl
      · rw [he] at hr; cases hr
  · intro e he
    have hm : e ∈ errsOf rs' := List.mem_of_mem_head? he
    have hm' : e ∈ errsOf rs := hperm.symm.subset hm
    rcases collect_eq rs with ⟨_, _, h1⟩ | ⟨hc, _⟩
    · rw [h1] at hm'; cases hm'
    · exact ⟨_, hc, hm'⟩

/-- **every_failing_service_can_be_reported.**  The error set is tight: each of the model's errors is the one Go reports
    for *some* iteration order of the services map. -/
theorem every_failing_service_can_be_reported {α : Type} (rs : List (Str × Except Err α)) (es : List Err)
    (h : collect rs = .error es) (e : Err) (he : e ∈ es) :
    ∃ rs', rs.Perm rs' ∧ firstErr rs' = some e := by
  rcases collect_eq rs with ⟨r, hr, _⟩ | ⟨hc, _⟩
  · rw [hr] at h; cases h
  · rw [hc] at h
    simp only [Except.error.injEq] at h
    subst h
    obtain ⟨p, hp, hpe⟩ := List.mem_filterMap.1 he
    obtain ⟨a, b, hab⟩ := List.append_of_mem hp
    refine ⟨p :: (a ++ b), ?_, ?_⟩
    · rw [hab]; exact List.perm_middle
    · obtain ⟨n, x⟩ := p
      cases x with
      | ok v => simp at hpe
      | error e' =>
        simp only [Option.some.injEq] at hpe
        subst hpe
        rfl

/-- **project_env_error_choice.**  `WithServicesEnvironmentResolved` on any iteration order `svcs'` of the services map:
    its outcome class and its error are those of the list-order model. -/
theorem project_env_error_choice (penv : List (Key × Str)) (fs : FS) (discard : Bool) (svcs svcs' : List (Str × Service))
    (hp : svcs.Perm svcs') :
    (firstErr (svcs'.map fun p => (p.1, resolveServiceEnv penv fs discard p.2)) = none ↔
      ∃ r, resolveProjectEnv penv fs discard svcs = .ok r) ∧
    (∀ e, firstErr (svcs'.map fun p => (p.1, resolveServiceEnv penv fs discard p.2)) = some e →
      ∃ es, resolveProjectEnv penv fs discard svcs = .error es ∧ e ∈ es) :=
  reported_error_is_first_failing _ _ (hp.map _)

namespace Example

/-- sequence-form labels with a duplicate, a bare element and an `=` inside the value; label file `l1` under them -/
def yl0 : YLabels := .list [.kv ['L'] ['1'], .bare ['B'], .kv ['L'] ['2'], .kv ['D'] ['x', '=', 'y']]

example : (decodeLabels yl0) = [(['L'], ['2']), (['B'], []), (['D'], ['x', '=', 'y'])] := by decide
example : yamlLabel (.map [(['B'], none), (['L'], some ['1'])]) ['B'] = some [] := by decide

/-- a file system with the registered format `kv` (the harness's `c16kv` parser): file `k` is read by it — `A=$x` is taken
    literally, the bare `C` is inherited from the lookup — after the dotenv file `e` -/
def fsK : FS :=
  { node := fun p =>
      if p = ['k'] then some (.file [.assign ['A'] [.lit ['$', 'x']], .bare ['C'], .bare ['Z']])
      else if p = ['e'] then some (.file [.assign ['A'] [.lit ['1']], .assign ['Z'] [.lit ['z']], .assign ['Y'] [.lit ['y']]])
      else none
    formats := fun n => if n = ['k', 'v'] then some kvParser else none }

def sK : Service :=
  { environment := [(['Y'], none)], envFiles := [⟨['e'], true, []⟩, ⟨['k'], true, ['k', 'v']⟩], labels := [], labelFiles := [] }

/-- hypotheses of `env_precedence_any_format` / `registered_layer_precedence` hold with a registered format, and every layer
    shows: `A` from the registered layer (over `e`), `C` inherited from the project environment, `Z` inherited from the
    earlier file, `Y` value-less and unset over `e` -/
example : Distinct sK.environment ∧
    (resolveServiceEnv [(['C'], ['c'])] fsK false sK).map (fun s' =>
      ([['A'], ['C'], ['Z'], ['Y']] : List Key).map fun k => lookup k s'.environment) =
    .ok [some (some ['$', 'x']), some (some ['c']), some (some ['z']), some none] ∧
    layerVal fsK ⟨['k'], true, ['k', 'v']⟩
      (envLook [(['C'], ['c'])] (filesValGFrom [(['C'], ['c'])] fsK (fun _ => none) [⟨['e'], true, []⟩])) ['A'] = some ['$', 'x'] := by
  decide

/-- a run of `WithServicesLabelsResolved` in the sense of `ServiceLabelsRunFull`: no label file, labels `L`, `M` listed in
    the other order at the end -/
example : ServiceLabelsRunFull fsK { sK with labels := [(['L'], ['1']), (['M'], ['2'])] }
    (.ok [(['M'], ['2']), (['L'], ['1'])]) := by
  refine ⟨.ok [(['L'], some ['1']), (['M'], some ['2'])], ⟨.ok [], FilesRun.nil [], ?_⟩, ?_⟩
  · exact ⟨_, ⟨_, List.Perm.refl _, by decide, fun _ => rfl⟩, rfl⟩
  · refine ⟨_, ⟨by decide, fun k => ?_⟩, rfl⟩
    show lookup k [(['M'], ['2']), (['L'], ['1'])] = lookup k [(['L'], ['1']), (['M'], ['2'])]
    by_cases h1 : ['M'] = k
    · subst h1; rfl
    · by_cases h2 : ['L'] = k
      · subst h2; rfl
      · simp [lookup, h1, h2]

/-- … and the empty branch: nothing anywhere ⇒ `Labels` stay as they were -/
example : ServiceLabelsRunFull fsK sK (.ok []) :=
  ⟨.ok [], ⟨.ok [], FilesRun.nil [], _, ⟨_, List.Perm.refl _, by decide, fun _ => rfl⟩, rfl⟩, rfl⟩

/-- `resolve_env_idempotent` on the example: resolving the resolved service again changes nothing -/
example : (resolveServiceEnv [(['C'], ['c'])] fsK false sK).bind (resolveServiceEnv [(['C'], ['c'])] fsK true) =
    (resolveServiceEnv [(['C'], ['c'])] fsK true sK) := by decide

/-- two failing services with different errors: either can be reported -/
def twoFailing : List (Str × Except Err Unit) := [(['a'], .error .notFound), (['b'], .ok ()), (['c'], .error .parse)]
example : collect twoFailing = .error [.notFound, .parse] := by decide
example : firstErr twoFailing = some .notFound ∧ firstErr twoFailing.reverse = some .parse := by decide

end Example

end CV.EnvLayers
